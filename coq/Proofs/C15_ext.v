(* C15 -- extensions: the argument dispatch (Score / list / tuple / Part / PartGroup), the structural
   elements of the merged part as a list, the offsets as running sums (exact renumbering formulas),
   when the merge raises, merging a merged part again (two-step history), the rows of the merged
   part's note array as elements of the merged part, the loader. *)
From PV Require Import Lib.Base Model.C05 Model.C05_Spec Model.C15 Model.C15_Spec
     Proofs.C05_lib Proofs.C05_ties Proofs.C05 Proofs.C15 Proofs.C15_link.
From Coq Require Import Permutation.
#[local] Open Scope Z_scope.

(* ------------------------------------------------------------------ dispatch *)

Lemma flatten_map_TPart (l : list part) : flat_map flatten (map TPart l) = l.
Proof. induction l as [|p r IH]; simpl; [reflexivity | rewrite IH; reflexivity]. Qed.

Lemma container_irrelevant_lemma m ts1 ts2 :
  flat_map flatten ts1 = flat_map flatten ts2 -> merge_parts m ts1 = merge_parts m ts2.
Proof. unfold merge_parts. intros ->. reflexivity. Qed.

Lemma arg_parts_flat a :
  flat_map flatten (arg_trees a) =
  match a with AScore pl => flat_map flatten pl | ASeq l => flat_map flatten l | AOne t => flatten t end.
Proof.
  destruct a; simpl.
  - unfold score_parts. apply flatten_map_TPart.
  - reflexivity.
  - apply app_nil_r.
Qed.

Lemma dispatch_same_result_lemma m ts :
  merge_parts_arg m (AScore ts) = merge_parts_arg m (ASeq ts) /\
  merge_parts_arg m (AOne (TGroup ts)) = merge_parts_arg m (ASeq ts) /\
  merge_parts_arg m (AScore [TGroup ts]) = merge_parts_arg m (ASeq ts) /\
  (forall p, merge_parts_arg m (AOne (TPart p)) = RSingle p).
Proof.
  unfold merge_parts_arg. split; [|split; [|split]].
  - apply container_irrelevant_lemma. rewrite !arg_parts_flat. reflexivity.
  - apply container_irrelevant_lemma. rewrite !arg_parts_flat. reflexivity.
  - apply container_irrelevant_lemma. rewrite !arg_parts_flat. simpl. apply app_nil_r.
  - intros p. reflexivity.
Qed.

(* ------------------------------------------------------------------ structural elements as a list *)

Lemma renumber_discarded_id m o uv us e : discard m (e_kind e) = true -> renumber m o uv us e = Some e.
Proof.
  unfold renumber. destruct e as [oid k s en v st p tp tn]. simpl.
  destruct k, m; simpl; intros H; try discriminate; reflexivity.
Qed.

Lemma filter_nil {A} (f : A -> bool) l : (forall x, In x l -> f x = false) -> filter f l = [].
Proof.
  induction l as [|x r IH]; simpl; intros H; [reflexivity|].
  rewrite (H x (or_introl eq_refl)). apply IH. intros y Hy. apply H. right; exact Hy.
Qed.

Lemma xform_first_discarded m k o uv us (i : nat) : forall es a,
  xform_elems m k true o uv us es = Some a ->
  map snd (filter (fun x : nat * elem => discard m (e_kind (snd x))) (map (pair i) a)) =
  map (rescale_elem k) (filter (fun e => discard m (e_kind e)) es).
Proof.
  induction es as [|e r IH]; simpl; intros a H.
  - injection H as <-. reflexivity.
  - destruct (renumber m o uv us (rescale_elem k e)) as [e1|] eqn:R; [|discriminate].
    destruct (xform_elems m k true o uv us r) as [r'|] eqn:X; [|discriminate].
    injection H as <-. simpl.
    pose proof (renumber_fields _ _ _ _ _ _ R) as [_ [B _]]. simpl in B. rewrite B.
    destruct (discard m (e_kind e)) eqn:D; simpl.
    + rewrite (IH r' eq_refl). f_equal.
      rewrite renumber_discarded_id in R by exact D. injection R as <-. reflexivity.
    + apply IH. reflexivity.
Qed.

Lemma structural_exactly_first_lemma m ts L out es0 d0 rest :
  merge_parts m ts = RMerged L out -> flat_map flatten ts = (es0, d0) :: rest ->
  map snd (filter (fun x : nat * elem => discard m (e_kind (snd x))) out) =
  map (rescale_elem (L / d0)) (filter (fun e => discard m (e_kind e)) es0).
Proof.
  intros H F. destruct (merge_parts_merged _ _ _ _ H) as [_ [M _]]. rewrite F in M. simpl in M.
  destruct (xform_elems m (L / d0) true (mkOffs 0 0 0) (uniq (voices_of es0)) (uniq (staves_of es0)) es0) as [a|] eqn:X; [|discriminate].
  destruct (merge_from m L 1 (next_offs (mkOffs 0 0 0) es0) rest) as [b|] eqn:Mb; [|discriminate].
  injection M as <-. rewrite filter_app, map_app.
  rewrite (filter_nil _ b).
  - simpl. rewrite app_nil_r. eapply xform_first_discarded; eauto.
  - intros [j e'] Hin. simpl.
    destruct (merge_from_In _ _ _ _ _ _ Mb j e' Hin) as [k [es [d [e [o' [A [_ [_ [K R]]]]]]]]].
    apply renumber_fields in R as [_ [B _]]. simpl in B. rewrite B.
    unfold keep in K. replace (Nat.eqb j 0) with false in K by (symmetry; apply Nat.eqb_neq; lia).
    simpl in K. destruct (discard m (e_kind e)); [discriminate | reflexivity].
Qed.

(* ------------------------------------------------------------------ offsets = running sums *)

Lemma merge_from_In_offs m L : forall ps i o out, merge_from m L i o ps = Some out ->
  forall j e', In (j, e') out ->
  exists k es d e, j = (i + k)%nat /\ nth_error ps k = Some (es, d) /\ In e es /\
    renumber m (fold_left next_offs (map fst (firstn k ps)) o) (uniq (voices_of es)) (uniq (staves_of es))
             (rescale_elem (L / d) e) = Some e'.
Proof.
  induction ps as [|[es d] r IH]; simpl; intros i o out H j e' Hin.
  - injection H as <-. destruct Hin.
  - destruct (xform_elems m (L / d) (Nat.eqb i 0) o (uniq (voices_of es)) (uniq (staves_of es)) es) as [a|] eqn:X; [|discriminate].
    destruct (merge_from m L (S i) (next_offs o es) r) as [b|] eqn:M; [|discriminate].
    injection H as <-. apply in_app_or in Hin as [Hin|Hin].
    + apply in_map_iff in Hin as [x [E Hx]]. injection E as <- ->.
      destruct (xform_elems_In _ _ _ _ _ _ _ _ X e' Hx) as [e [A [B C]]].
      exists 0%nat, es, d, e. rewrite Nat.add_0_r. simpl. auto.
    + destruct (IH _ _ _ M j e' Hin) as [k [es' [d' [e [A [B [C R]]]]]]].
      exists (S k), es', d', e. split; [lia|]. simpl. auto.
Qed.

Lemma fold_offs_sums l : forall o,
  o_voice (fold_left next_offs l o) = o_voice o + zsum (map maxv l) /\
  o_staff (fold_left next_offs l o) = o_staff o + zsum (map maxs l) /\
  o_nstaves (fold_left next_offs l o) = o_nstaves o + zsum (map nstaves l).
Proof.
  induction l as [|es r IH]; simpl; intros o; [lia|].
  destruct (IH (next_offs o es)) as [A [B C]]. rewrite A, B, C. simpl. lia.
Qed.

Lemma offs_at_sums ps j :
  o_voice (offs_at ps j) = zsum (map maxv (map fst (firstn j ps))) /\
  o_staff (offs_at ps j) = zsum (map maxs (map fst (firstn j ps))) /\
  o_nstaves (offs_at ps j) = zsum (map nstaves (map fst (firstn j ps))).
Proof. unfold offs_at. destruct (fold_offs_sums (map fst (firstn j ps)) (mkOffs 0 0 0)) as [A [B C]]. simpl in *. auto. Qed.

Lemma offsets_running_sums_lemma m ts L out j e' :
  merge_parts m ts = RMerged L out -> In (j, e') out ->
  exists es d e, nth_error (flat_map flatten ts) j = Some (es, d) /\ In e es /\
    renumber m (offs_at (flat_map flatten ts) j) (uniq (voices_of es)) (uniq (staves_of es))
             (rescale_elem (L / d) e) = Some e' /\ core e' = core e.
Proof.
  intros H Hin. destruct (merge_parts_merged _ _ _ _ H) as [_ [M _]].
  destruct (merge_from_In_offs _ _ _ _ _ _ M j e' Hin) as [k [es [d [e [A [B [C R]]]]]]].
  simpl in A. subst k. exists es, d, e. repeat split; try assumption.
  eapply renumber_core; eauto.
Qed.

(* the three branches written out *)
Lemma renumbering_formulas_lemma m ts L out j e' :
  merge_parts m ts = RMerged L out -> In (j, e') out ->
  let before := map fst (firstn j (flat_map flatten ts)) in
  exists es d e, nth_error (flat_map flatten ts) j = Some (es, d) /\ In e es /\ core e' = core e /\
    match m with
    | MVoice => (generic e -> exists v, e_voice e = Some v /\ e_voice e' = Some (v + zsum (map maxv before))) /\
                e_staff e' = e_staff e
    | MStaff => (staffed e -> e_staff e' = Some (staff1 e + zsum (map maxs before))) /\
                e_voice e' = e_voice e
    | MAuto => (staffed e -> e_staff e' = Some (zsum (map nstaves before) + 1 + rank (staff1 e) (uniq (staves_of es)))) /\
               (generic e -> exists v, e_voice e = Some v /\
                  e_voice e' = Some (4 * zsum (map nstaves before) + 1 + rank v (uniq (voices_of es))))
    end.
Proof.
  intros H Hin before.
  destruct (offsets_running_sums_lemma _ _ _ _ _ _ H Hin) as [es [d [e [N [He [R C]]]]]].
  destruct (offs_at_sums (flat_map flatten ts) j) as [SV [SS SN]]. fold before in SV, SS, SN.
  exists es, d, e. repeat split; try assumption.
  destruct m.
  - unfold renumber in R. simpl in R. split.
    + unfold generic. intros G. rewrite G in R. destruct (e_voice e) as [v|] eqn:V; [|discriminate].
      exists v. split; [reflexivity|]. injection R as <-. simpl. rewrite SV. reflexivity.
    + destruct (is_generic (e_kind e)); [destruct (e_voice e); [|discriminate]|]; injection R as <-; reflexivity.
  - unfold renumber in R. simpl in R. split.
    + unfold staffed. intros G. rewrite G in R. injection R as <-. simpl. rewrite SS. reflexivity.
    + destruct (is_staffed (e_kind e)); injection R as <-; reflexivity.
  - split.
    + unfold staffed. intros G. rewrite (auto_staff_of _ _ _ (rescale_elem (L / d) e) _ G R), staff1_rescale, SN. reflexivity.
    + unfold generic. intros G. destruct (auto_voice_some _ _ _ (rescale_elem (L / d) e) _ G R) as [v V].
      exists v. split; [exact V|]. rewrite (auto_voice_of _ _ _ (rescale_elem (L / d) e) _ v G V R), SN. reflexivity.
Qed.

(* ------------------------------------------------------------------ when the merge raises *)

Lemma all_voiced_spec ps : all_voiced ps = true <->
  (forall p e, In p ps -> In e (fst p) -> generic e -> e_voice e <> None).
Proof.
  unfold all_voiced, generic. rewrite forallb_forall. split.
  - intros H p e Hp He G. specialize (H p Hp). rewrite forallb_forall in H. specialize (H e He).
    rewrite G in H. simpl in H. destruct (e_voice e); [discriminate | discriminate H].
  - intros H p Hp. apply forallb_forall. intros e He.
    destruct (is_generic (e_kind e)) eqn:G; [|reflexivity]. simpl.
    specialize (H p e Hp He G). destruct (e_voice e); [reflexivity | congruence].
Qed.

Lemma renumber_voiceless m o uv us e : m <> MStaff -> is_generic (e_kind e) = true -> e_voice e = None ->
  renumber m o uv us e = None.
Proof. unfold renumber. intros Hm G V. destruct m; [| congruence |]; rewrite G, V; reflexivity. Qed.

Lemma xform_elems_voiceless m k first o uv us : m <> MStaff -> forall es,
  (exists e, In e es /\ generic e /\ e_voice e = None) -> xform_elems m k first o uv us es = None.
Proof.
  intros Hm. induction es as [|e r IH]; intros [x [Hx [G V]]]; [destruct Hx|]. simpl.
  destruct Hx as [->|Hx].
  - unfold keep. rewrite (generic_never_discarded m _ G), orb_true_r.
    rewrite renumber_voiceless; [reflexivity | exact Hm | exact G | exact V].
  - rewrite IH by eauto. destruct (keep m first e); [|reflexivity].
    destruct (renumber m o uv us (rescale_elem k e)); reflexivity.
Qed.

Lemma merge_from_voiceless m L : m <> MStaff -> forall ps i o,
  (exists p e, In p ps /\ In e (fst p) /\ generic e /\ e_voice e = None) -> merge_from m L i o ps = None.
Proof.
  intros Hm. induction ps as [|[es d] r IH]; intros i o [p [e [Hp H]]]; [destruct Hp|]. simpl.
  destruct Hp as [<-|Hp].
  - simpl in H. rewrite (xform_elems_voiceless m _ _ _ _ _ Hm es) by eauto. reflexivity.
  - rewrite (IH (S i) (next_offs o es)) by eauto.
    destruct (xform_elems m (L / d) (Nat.eqb i 0) o (uniq (voices_of es)) (uniq (staves_of es)) es); reflexivity.
Qed.

Lemma merge_raises_iff_lemma m ts : (2 <= List.length (flat_map flatten ts))%nat ->
  (merge_parts m ts = RRaise <-> m <> MStaff /\ all_voiced (flat_map flatten ts) = false).
Proof.
  intros Hl. split.
  - intros R. split.
    + intros ->. destruct (merge_total_lemma MStaff ts Hl (or_introl eq_refl)) as [out E]. congruence.
    + destruct (all_voiced (flat_map flatten ts)) eqn:A; [|reflexivity].
      destruct (merge_total_lemma m ts Hl) as [out E]; [right; apply all_voiced_spec, A | congruence].
  - intros [Hm A]. unfold merge_parts.
    destruct (flat_map flatten ts) as [|p [|q r]] eqn:F; simpl in Hl; try lia.
    rewrite merge_from_voiceless; [reflexivity | exact Hm |].
    (* a voiceless generic element exists *)
    unfold all_voiced in A.
    assert (Ex : exists p0, In p0 (p :: q :: r) /\
              forallb (fun e => negb (is_generic (e_kind e)) || match e_voice e with Some _ => true | None => false end) (fst p0) = false).
    { clear -A. induction (p :: q :: r) as [|x l IH]; simpl in A; [discriminate|].
      apply andb_false_iff in A as [A|A]; [exists x; simpl; auto|].
      destruct (IH A) as [p0 [I B]]. exists p0. simpl; auto. }
    destruct Ex as [p0 [Hp0 B]].
    assert (Ee : exists e, In e (fst p0) /\ generic e /\ e_voice e = None).
    { clear -B. unfold generic. induction (fst p0) as [|x l IH]; simpl in B; [discriminate|].
      apply andb_false_iff in B as [B|B].
      - exists x. apply orb_false_iff in B as [B1 B2]. apply negb_false_iff in B1.
        destruct (e_voice x); [discriminate|]. simpl; auto.
      - destruct (IH B) as [e [I R]]. exists e. simpl; auto. }
    destruct Ee as [e [He [G V]]]. exists p0, e. auto.
Qed.

(* ------------------------------------------------------------------ merging a merged part again *)

Lemma lcm_list_app a b : lcm_list (a ++ b) = Z.lcm (lcm_list a) (lcm_list b).
Proof.
  induction a as [|x r IH]; simpl.
  - rewrite Z.lcm_1_l. pose proof (Z.lcm_nonneg 1 1).
    destruct b as [|y s]; simpl; [reflexivity|]. symmetry. apply Z.abs_eq. apply Z.lcm_nonneg.
  - rewrite IH, Z.lcm_assoc. reflexivity.
Qed.

Lemma merge_twice_lemma m1 m2 ts1 L1 out1 ts2 L2 out2 :
  merge_parts m1 ts1 = RMerged L1 out1 ->
  merge_parts m2 (TPart (map snd out1, L1) :: ts2) = RMerged L2 out2 ->
  divs_pos (flat_map flatten ts1) -> divs_pos (flat_map flatten ts2) ->
  L2 = lcm_list (divs_of (flat_map flatten ts1 ++ flat_map flatten ts2)) /\ 0 < L2 /\
  (forall e'', In (0%nat, e'') out2 ->
     exists j es d e, nth_error (flat_map flatten ts1) j = Some (es, d) /\ In e es /\
                      core e'' = core e /\ (d | L2) /\ same_time L2 d e e'') /\
  (forall j e'', In (S j, e'') out2 ->
     exists es d e, nth_error (flat_map flatten ts2) j = Some (es, d) /\ In e es /\
                    core e'' = core e /\ (d | L2) /\ same_time L2 d e e'').
Proof.
  intros H1 H2 P1 P2.
  destruct (merge_time_preserved_lemma _ _ _ _ H1 P1) as [E1 [Lp1 T1]].
  assert (P12 : divs_pos (flat_map flatten (TPart (map snd out1, L1) :: ts2))).
  { unfold divs_pos in *. simpl. constructor; assumption. }
  destruct (merge_time_preserved_lemma _ _ _ _ H2 P12) as [E2 [Lp2 T2]].
  assert (EL : L2 = lcm_list (divs_of (flat_map flatten ts1 ++ flat_map flatten ts2))).
  { rewrite E2. unfold divs_of in *. simpl. rewrite map_app, lcm_list_app. rewrite E1 at 1. reflexivity. }
  split; [exact EL|]. split; [exact Lp2|]. split.
  - intros e'' Hin. destruct (T2 0%nat e'' Hin) as [es [d [e' [N [He' [C2 [D2 S2]]]]]]].
    simpl in N. injection N as <- <-.
    apply in_map_iff in He' as [[j e0] [E Hj]]. simpl in E. subst e0.
    destruct (T1 j e' Hj) as [es [d [e [N1 [He [C1 [D1 S1]]]]]]].
    exists j, es, d, e. split; [exact N1|]. split; [exact He|]. split; [congruence|].
    split; [eapply Z.divide_trans; eauto|].
    destruct S1 as [A1 B1]. destruct S2 as [A2 B2]. unfold same_time. split.
    + apply (Z.mul_reg_r _ _ L1); [lia|].
      replace (e_start e'' * d * L1) with (e_start e'' * L1 * d) by ring. rewrite A2.
      replace (e_start e' * L2 * d) with (e_start e' * d * L2) by ring. rewrite A1. ring.
    + destruct (e_end e'') as [t''|], (e_end e') as [t'|], (e_end e) as [t|]; try tauto.
      apply (Z.mul_reg_r _ _ L1); [lia|].
      replace (t'' * d * L1) with (t'' * L1 * d) by ring. rewrite B2.
      replace (t' * L2 * d) with (t' * d * L2) by ring. rewrite B1. ring.
  - intros j e'' Hin. destruct (T2 (S j) e'' Hin) as [es [d [e [N R]]]].
    simpl in N. exists es, d, e. split; [exact N | exact R].
Qed.

(* ------------------------------------------------------------------ rows of the merged note array *)

Lemma midi_pitch_note_of e : n_rest (note_of e) = false -> midi_pitch (note_of e) = e_pitch e.
Proof. unfold midi_pitch. intros ->. unfold note_of. simpl. lia. Qed.

Lemma notes_of_In es n : In n (notes_of es) -> exists e, In e es /\ generic e /\ n = note_of e.
Proof.
  unfold notes_of, generic. intros H. apply in_map_iff in H as [e [E He]].
  apply filter_In in He as [He G]. exists e. auto.
Qed.

Lemma merged_array_rows_lemma L (out : list (nat * elem)) rows :
  merged_rows L out = Some rows ->
  forall r, In r rows -> exists j e', In (j, e') out /\ row_of_elem r e'.
Proof.
  unfold merged_rows. intros H r Hr.
  destruct (columns_spec_lemma _ _ _ _ H r Hr) as [h [d [Hh [_ [RM VO]]]]].
  unfold notes_tied, sounding in Hh. apply filter_In in Hh as [Hh _]. apply filter_In in Hh as [Hh NR].
  destruct (notes_of_In _ _ Hh) as [e' [He' [G ->]]].
  apply in_map_iff in He' as [[j e0] [E Hj]]. simpl in E. subst e0.
  exists j, e'. split; [exact Hj|].
  destruct RM as [_ [On [_ [Pi [_ [_ [_ [_ [_ [_ [_ [St _]]]]]]]]]]]].
  destruct VO as [VO _]. unfold row_of_elem. repeat split.
  - simpl in NR. unfold generic in G. destruct (e_kind e'); simpl in *; try discriminate; auto.
  - exact On.
  - rewrite Pi. apply midi_pitch_note_of. apply negb_true_iff, NR.
  - exact St.
  - intros v V Nv. apply VO; [exact V | exact Nv].
Qed.

(* two rows with the same number come from the same input *)
Section ArrayDisjoint.
  Variable m : mode.
  Variable sel : kind -> bool.
  Variable newv : elem -> option Z.
  Variable col : row -> Z.
  Hypothesis sel_notes : forall e, (e_kind e = KNote \/ e_kind e = KGrace) -> sel (e_kind e) = true.
  Lemma array_same_input L (out : list (nat * elem)) rows :
    merged_rows L out = Some rows ->
    (forall j e', In (j, e') out -> sel (e_kind e') = true -> exists x, newv e' = Some x /\ 0 < x) ->
    (forall j1 j2 e1 e2, In (j1, e1) out -> In (j2, e2) out -> j1 <> j2 ->
       sel (e_kind e1) = true -> sel (e_kind e2) = true -> newv e1 <> newv e2) ->
    (forall r e x, row_of_elem r e -> newv e = Some x -> 0 < x -> col r = x) ->
    forall r1 r2, In r1 rows -> In r2 rows -> col r1 = col r2 ->
    exists j e1 e2, In (j, e1) out /\ In (j, e2) out /\ row_of_elem r1 e1 /\ row_of_elem r2 e2.
  Proof.
    intros MR Pos Dis Col r1 r2 H1 H2 E.
    destruct (merged_array_rows_lemma _ _ _ MR r1 H1) as [j1 [e1 [I1 R1]]].
    destruct (merged_array_rows_lemma _ _ _ MR r2 H2) as [j2 [e2 [I2 R2]]].
    assert (S1 : sel (e_kind e1) = true) by (apply sel_notes; apply R1).
    assert (S2 : sel (e_kind e2) = true) by (apply sel_notes; apply R2).
    destruct (Pos _ _ I1 S1) as [x1 [N1 P1]]. destruct (Pos _ _ I2 S2) as [x2 [N2 P2]].
    destruct (Nat.eq_dec j1 j2) as [<-|Nj]; [exists j1, e1, e2; auto|].
    exfalso. apply (Dis _ _ _ _ I1 I2 Nj S1 S2).
    rewrite N1, N2, <- (Col _ _ _ R1 N1 P1), <- (Col _ _ _ R2 N2 P2), E. reflexivity.
  Qed.
End ArrayDisjoint.

Lemma generic_notes e : (e_kind e = KNote \/ e_kind e = KGrace) -> is_generic (e_kind e) = true.
Proof. intros [-> | ->]; reflexivity. Qed.
Lemma staffed_notes e : (e_kind e = KNote \/ e_kind e = KGrace) -> is_staffed (e_kind e) = true.
Proof. intros [-> | ->]; reflexivity. Qed.

Lemma voice_col r e x : row_of_elem r e -> e_voice e = Some x -> 0 < x -> r_voice r = x.
Proof. intros [_ [_ [_ [_ V]]]] E P. apply V; [exact E | lia]. Qed.
Lemma staff_col r e x : row_of_elem r e -> e_staff e = Some x -> 0 < x -> r_staff r = x.
Proof. intros [_ [_ [_ [S _]]]] E _. rewrite S, E. reflexivity. Qed.

(* "voice" mode: rows sharing a voice come from the same input *)
Lemma merged_array_voice_mode_lemma ts L out rows : merge_parts MVoice ts = RMerged L out ->
  parts_good voices_ok (flat_map flatten ts) -> merged_rows L out = Some rows ->
  forall r1 r2, In r1 rows -> In r2 rows -> r_voice r1 = r_voice r2 ->
  exists j e1 e2, In (j, e1) out /\ In (j, e2) out /\ row_of_elem r1 e1 /\ row_of_elem r2 e2.
Proof.
  intros H G MR. destruct (merge_parts_merged _ _ _ _ H) as [_ [M _]].
  apply (array_same_input is_generic e_voice r_voice generic_notes L out rows MR).
  - intros j e' Hin S.
    refine (window_lower MVoice is_generic e_voice o_voice maxv voices_ok _ _ _ L _ 0%nat (mkOffs 0 0 0) out G M j e' Hin S).
    + intros es Ge. pose proof (maxv_pos es Ge). lia.
    + intros o es Ge. simpl. lia.
    + intros o es k e e0 Ge. apply voice_W_in, Ge.
  - apply (voices_disjoint_lemma ts L out H G).
  - apply voice_col.
Qed.

(* "staff" mode: rows sharing a staff come from the same input *)
Lemma merged_array_staff_mode_lemma ts L out rows : merge_parts MStaff ts = RMerged L out ->
  parts_good staves_ok (flat_map flatten ts) -> merged_rows L out = Some rows ->
  forall r1 r2, In r1 rows -> In r2 rows -> r_staff r1 = r_staff r2 ->
  exists j e1 e2, In (j, e1) out /\ In (j, e2) out /\ row_of_elem r1 e1 /\ row_of_elem r2 e2.
Proof.
  intros H G MR. destruct (merge_parts_merged _ _ _ _ H) as [_ [M _]].
  apply (array_same_input is_staffed e_staff r_staff staffed_notes L out rows MR).
  - intros j e' Hin S.
    refine (window_lower MStaff is_staffed e_staff o_staff maxs staves_ok _ _ _ L _ 0%nat (mkOffs 0 0 0) out G M j e' Hin S).
    + intros es Ge. pose proof (maxs_pos es Ge). lia.
    + intros o es Ge. simpl. lia.
    + intros o es k e e0 Ge. apply staff_W_in, Ge.
  - apply (staves_disjoint_lemma ts L out H G).
  - apply staff_col.
Qed.

(* "auto" mode: rows sharing a staff come from the same input (always); rows sharing a voice too
   when no input has more than four voices per staff *)
Lemma merged_array_auto_mode_lemma ts L out rows : merge_parts MAuto ts = RMerged L out ->
  merged_rows L out = Some rows ->
  (forall r1 r2, In r1 rows -> In r2 rows -> r_staff r1 = r_staff r2 ->
     exists j e1 e2, In (j, e1) out /\ In (j, e2) out /\ row_of_elem r1 e1 /\ row_of_elem r2 e2) /\
  (parts_good four_per_staff (flat_map flatten ts) ->
   forall r1 r2, In r1 rows -> In r2 rows -> r_voice r1 = r_voice r2 ->
     exists j e1 e2, In (j, e1) out /\ In (j, e2) out /\ row_of_elem r1 e1 /\ row_of_elem r2 e2).
Proof.
  intros H MR. destruct (merge_parts_merged _ _ _ _ H) as [_ [M _]]. split.
  - apply (array_same_input is_staffed e_staff r_staff staffed_notes L out rows MR).
    + intros j e' Hin S.
      refine (window_lower MAuto is_staffed e_staff o_nstaves nstaves (fun _ => True) _ _ _ L _ 0%nat (mkOffs 0 0 0) out (all_good_True _) M j e' Hin S).
      * intros es _. unfold nstaves. lia.
      * intros o es _. simpl. lia.
      * intros o es k e e0 Ge. apply auto_staff_W_in, Ge.
    + apply (auto_staves_disjoint_lemma ts L out H).
    + apply staff_col.
  - intros G. apply (array_same_input is_generic e_voice r_voice generic_notes L out rows MR).
    + intros j e' Hin S.
      destruct (window_lower MAuto is_generic e_voice (fun o => 4 * o_nstaves o) nvoices four_per_staff) with
          (L := L) (ps := flat_map flatten ts) (i := 0%nat) (o := mkOffs 0 0 0) (out := out) (j := j) (e' := e')
        as [x [Nx Px]]; try assumption.
      * intros es _. unfold nvoices. lia.
      * intros o es Ge. unfold four_per_staff in Ge.
        change (o_nstaves (next_offs o es)) with (o_nstaves o + nstaves es). lia.
      * intros o es k e e0 Ge. apply auto_voice_W_in, Ge.
      * exists x. split; [exact Nx | simpl in Px; lia].
    + apply (auto_voices_disjoint_lemma ts L out H G).
    + apply voice_col.
Qed.

(* ------------------------------------------------------------------ the loader *)

Lemma load_as_part_lemma parts :
  load_as_part parts = merge_parts MVoice (map TPart parts) /\
  flat_map flatten (map TPart parts) = parts /\
  (forall p, parts = [p] -> load_as_part parts = RSingle p).
Proof.
  repeat split.
  - apply flatten_map_TPart.
  - intros p ->. reflexivity.
Qed.

(* ------------------------------------------------------------------ non-vacuity *)

(* percussion: a pitched note in voice 1 and unpitched notes in voice 2 / on staff 2 in the first part,
   a rest without voice in the third part *)
Definition px_p0 : part :=
  ([ mkElem 1 KMeasure 0 (Some 16) None None 0 None None;
     mkElem 2 KNote 0 (Some 4) (Some 1) (Some 1) 60 None None;
     mkElem 3 KUnpitched 0 (Some 4) (Some 2) (Some 2) 0 None None;
     mkElem 4 KUnpitched 4 (Some 8) (Some 2) (Some 2) 0 None None ], 4).
Definition px_p1 : part :=
  ([ mkElem 11 KMeasure 0 (Some 8) None None 0 None None;
     mkElem 12 KNote 2 (Some 4) (Some 1) (Some 1) 67 None None;
     mkElem 13 KNote 4 (Some 6) (Some 2) (Some 2) 69 None None ], 2).
Definition px_p2 : part :=
  ([ mkElem 21 KRest 0 (Some 3) None None 0 None None ], 3).

Definition gen_view (out : list (nat * elem)) :=
  map (fun x => (Z.of_nat (fst x), e_oid (snd x), e_start (snd x), e_voice (snd x), e_staff (snd x)))
      (filter (fun x => is_generic (e_kind (snd x))) out).

Lemma ext_examples :
  (* the unpitched voice 2 / staff 2 is counted: the second input starts at voice 3, staff 3 *)
  (exists out, merge_parts_arg MVoice (ASeq [TPart px_p0; TPart px_p1]) = RMerged 4 out /\
     gen_view out = [(0, 2, 0, Some 1, Some 1); (0, 3, 0, Some 2, Some 2); (0, 4, 4, Some 2, Some 2);
                     (1, 12, 4, Some 3, Some 1); (1, 13, 8, Some 4, Some 2)] /\
     (* structural elements: the measure of the first input only *)
     map (fun x => e_oid (snd x)) (filter (fun x => discard MVoice (e_kind (snd x))) out) = [1] /\
     (* the unpitched notes are no rows of the note array; rows carry the new voices *)
     option_map (map nrow_of) (merged_rows 4 out) = Some [(0, 4, 60, 1, 1); (4, 4, 67, 3, 1); (8, 4, 69, 4, 2)]) /\
  (exists out, merge_parts_arg MAuto (AScore [TGroup [TPart px_p0; TPart px_p1]]) = RMerged 4 out /\
     gen_view out = [(0, 2, 0, Some 1, Some 1); (0, 3, 0, Some 2, Some 2); (0, 4, 4, Some 2, Some 2);
                     (1, 12, 4, Some 9, Some 3); (1, 13, 8, Some 10, Some 4)]) /\
  (* every shape of the argument gives the same result *)
  merge_parts_arg MStaff (AOne (TGroup [TPart px_p0; TPart px_p1])) = merge_parts_arg MStaff (ASeq [TPart px_p0; TPart px_p1]) /\
  (* a rest without voice: "voice" and "auto" raise, "staff" does not *)
  merge_parts_arg MVoice (ASeq [TPart px_p0; TPart px_p2]) = RRaise /\
  merge_parts_arg MAuto (ASeq [TPart px_p0; TPart px_p2]) = RRaise /\
  (exists out, merge_parts_arg MStaff (ASeq [TPart px_p0; TPart px_p2]) = RMerged 12 out) /\
  all_voiced [px_p0; px_p2] = false /\ all_voiced [px_p0; px_p1] = true /\
  (* merging a merged part again: (4, 2) -> 4 in "staff" mode, then with divisions 3 -> 12 in "voice" mode *)
  (exists out1 out2, merge_parts MStaff [TPart px_p0; TPart px_p1] = RMerged 4 out1 /\
     merge_parts MStaff [TPart (map snd out1, 4); TPart px_p2] = RMerged 12 out2 /\
     map (fun x => (Z.of_nat (fst x), e_oid (snd x), e_start (snd x), e_end (snd x))) out2 =
       [(0, 1, 0, Some 48); (0, 2, 0, Some 12); (0, 3, 0, Some 12); (0, 4, 12, Some 24);
        (0, 12, 12, Some 24); (0, 13, 24, Some 36); (1, 21, 0, Some 12)]) /\
  (* the offsets when the second input is transferred *)
  offs_at [px_p0; px_p1; px_p2] 1 = mkOffs 2 2 2 /\ offs_at [px_p0; px_p1; px_p2] 2 = mkOffs 4 4 4 /\
  (* the loader: voice mode on the flat part list; one part is returned as it is *)
  load_as_part [px_p0; px_p1] = merge_parts MVoice [TPart px_p0; TPart px_p1] /\ load_as_part [px_p1] = RSingle px_p1.
Proof.
  split; [eexists; split; [vm_compute; reflexivity | repeat split; vm_compute; reflexivity]|].
  split; [eexists; split; vm_compute; reflexivity|].
  split; [vm_compute; reflexivity|]. split; [vm_compute; reflexivity|]. split; [vm_compute; reflexivity|].
  split; [eexists; vm_compute; reflexivity|].
  split; [vm_compute; reflexivity|]. split; [vm_compute; reflexivity|].
  split; [eexists; eexists; split; [vm_compute; reflexivity | split; vm_compute; reflexivity]|].
  repeat split; vm_compute; reflexivity.
Qed.
