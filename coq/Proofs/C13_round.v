(* C13 -- decode(encode ns) for the WHOLE roll: the decoder applied to the roll of pairwise non-touching
   notes returns, up to order, exactly the notes' frames; for grid-aligned notes, exactly their pitch,
   onset, duration and velocity. *)
From PV Require Import Lib.Base Lib.Round Model.C13.
From Coq Require Import QArith Qround Qabs Permutation.
From PV Require Import Proofs.C13_lib Proofs.C13 Proofs.C13_decode.
#[local] Open Scope Z_scope.

(* ---------- small list facts ---------- *)
Lemma In_zrange x : forall n lo, In x (zrange lo n) -> lo <= x < lo + Z.of_nat n.
Proof.
  induction n as [|n IH]; intros lo H; simpl in H; [destruct H|].
  destruct H as [<-|H]; [lia|]. apply IH in H. lia.
Qed.

Lemma flat_map_ext_In {A B} (f g : A -> list B) l :
  (forall x, In x l -> f x = g x) -> flat_map f l = flat_map g l.
Proof.
  induction l as [|x l IH]; intros H; simpl; [reflexivity|].
  rewrite (H x (or_introl eq_refl)), IH; [reflexivity|]. intros y Hy. apply H. right. exact Hy.
Qed.

Lemma flat_map_app_perm {A B} (f g : A -> list B) l :
  Permutation (flat_map (fun x => f x ++ g x) l) (flat_map f l ++ flat_map g l).
Proof.
  induction l as [|a l IH]; simpl; [constructor|].
  rewrite <- !app_assoc. apply Permutation_app_head.
  eapply Permutation_trans; [apply Permutation_app_head, IH|].
  apply Permutation_app_swap_app.
Qed.

Lemma no_hit {B} (g : Z -> B) t : forall k a, t < a ->
  flat_map (fun p => if t =? p then [g p] else []) (zrange a k) = [].
Proof.
  induction k as [|k IH]; intros a H; simpl; [reflexivity|].
  destruct (t =? a) eqn:E; [exfalso; lia|]. apply IH. lia.
Qed.

Lemma single_hit {B} (g : Z -> B) t : forall k a, a <= t < a + Z.of_nat k ->
  flat_map (fun p => if t =? p then [g p] else []) (zrange a k) = [g t].
Proof.
  induction k as [|k IH]; intros a H; [exfalso; lia|]. cbn [zrange flat_map].
  destruct (t =? a) eqn:E.
  - assert (t = a) as -> by lia. rewrite no_hit by lia. reflexivity.
  - rewrite IH by lia. reflexivity.
Qed.

Lemma Forall_perm {A} (P : A -> Prop) l l' : Permutation l l' -> Forall P l -> Forall P l'.
Proof.
  intros HP H. rewrite Forall_forall in *. intros x Hx. apply H.
  eapply Permutation_in; [apply Permutation_sym; exact HP | exact Hx].
Qed.

Lemma FOP_perm {A} (R : A -> A -> Prop) : (forall x y, R x y -> R y x) ->
  forall l l', Permutation l l' -> ForallOrdPairs R l -> ForallOrdPairs R l'.
Proof.
  intros Sym l l' P. induction P; intros H.
  - exact H.
  - inversion H as [|? ? Hx H1]; subst. constructor; [|auto].
    exact (Forall_perm _ _ _ P Hx).
  - inversion H as [|? ? Hy H1]; subst. inversion H1 as [|? ? Hx H2]; subst.
    inversion Hy as [|? ? Hyx Hyl]; subst.
    constructor; [constructor; [apply Sym; exact Hyx | exact Hx]|].
    constructor; assumption.
  - auto.
Qed.

(* ---------- rle depends on the row function pointwise ---------- *)
Lemma rle_ext f g : (forall j, f j = g j) -> forall n j cur, rle f n j cur = rle g n j cur.
Proof.
  intros E n. induction n as [|n IH]; intros j cur; cbn [rle]; [reflexivity|].
  rewrite (E j). destruct cur as [[v a]|]; rewrite !IH; reflexivity.
Qed.

Lemma row_runs_ext m m' cols p : (forall j, cell_at m p j = cell_at m' p j) ->
  row_runs m cols p = row_runs m' cols p.
Proof. intros E. unfold row_runs. rewrite (rle_ext _ _ E). reflexivity. Qed.

(* ---------- insertion sort of notes by an integer key ---------- *)
Section KeySort.
  Variable k : note -> Z.

  Fixpoint ins_k (x : note) (l : list note) : list note :=
    match l with
    | [] => [x]
    | y :: r => if k x <=? k y then x :: y :: r else y :: ins_k x r
    end.

  Definition sort_k (l : list note) : list note := fold_right ins_k [] l.

  Fixpoint ksorted (l : list note) : Prop :=
    match l with
    | [] => True
    | x :: r => Forall (fun y => k x <= k y) r /\ ksorted r
    end.

  Lemma ins_k_perm x l : Permutation (ins_k x l) (x :: l).
  Proof.
    induction l as [|y r IH]; simpl; [apply Permutation_refl|].
    destruct (k x <=? k y); [apply Permutation_refl|].
    eapply Permutation_trans; [apply perm_skip, IH | apply perm_swap].
  Qed.

  Lemma sort_k_perm l : Permutation (sort_k l) l.
  Proof.
    induction l as [|x l IH]; simpl; [constructor|].
    eapply Permutation_trans; [apply ins_k_perm | apply perm_skip, IH].
  Qed.

  Lemma ins_k_sorted x l : ksorted l -> ksorted (ins_k x l).
  Proof.
    induction l as [|y r IH]; intros H; simpl.
    - split; [constructor | exact I].
    - destruct H as [Hy Hr]. destruct (k x <=? k y) eqn:E.
      + split; [|split; assumption]. constructor; [lia|].
        eapply Forall_impl; [|exact Hy]. intros z Hz. simpl in Hz. lia.
      + split; [|apply IH, Hr].
        apply (Forall_perm _ _ _ (Permutation_sym (ins_k_perm x r))).
        constructor; [lia | exact Hy].
  Qed.

  Lemma sort_k_sorted l : ksorted (sort_k l).
  Proof. induction l as [|x l IH]; simpl; [exact I | apply ins_k_sorted, IH]. Qed.
End KeySort.

Lemma ksorted_ext k k' l : (forall n, k n = k' n) -> ksorted k l -> ksorted k' l.
Proof.
  intros E. induction l as [|x l IH]; simpl; [auto|]. intros [H1 H2]. split; [|auto].
  eapply Forall_impl; [|exact H1]. intros y Hy. simpl in Hy. rewrite <- !E. exact Hy.
Qed.

(* ---------- non-touching notes ---------- *)
(* two notes of one row are apart when an empty frame lies between them *)
Definition apart (o : opts) (mt : Q) (lo : Z) (n1 n2 : note) : Prop :=
  row_full o lo n1 = row_full o lo n2 ->
  fr_end o mt n1 < fr_on o mt n2 \/ fr_end o mt n2 < fr_on o mt n1.

(* every two rows of the note list (as positions: a row repeated twice touches itself) *)
Definition non_touching (o : opts) (mt : Q) (lo : Z) (ns : list note) : Prop :=
  ForallOrdPairs (apart o mt lo) ns.

Lemma apart_sym o mt lo x y : apart o mt lo x y -> apart o mt lo y x.
Proof. unfold apart. intros H E. destruct (H (eq_sym E)); [right | left]; assumption. Qed.

Lemma apart_comp o mt mt' lo x y : (mt == mt')%Q -> apart o mt lo x y -> apart o mt' lo x y.
Proof.
  intros E. unfold apart.
  rewrite <- !(fr_on_comp _ _ _ _ E), <- !(fr_end_comp _ _ _ _ E). auto.
Qed.

Lemma non_touching_perm o mt lo ns ns' : Permutation ns ns' ->
  non_touching o mt lo ns -> non_touching o mt lo ns'.
Proof. apply FOP_perm. intros x y. apply apart_sym. Qed.

(* the frame of a note as the decoder reports it: row of the returned roll, first frame, one past the
   last frame, velocity *)
Definition frame_of (o : opts) (mt : Q) (lo : Z) (n : note) : dnote :=
  (row_full o lo n - pr_start o, fr_on o mt n, fr_end o mt n, n_vel n).

Lemma frame_of_comp o mt mt' lo n : (mt == mt')%Q -> frame_of o mt lo n = frame_of o mt' lo n.
Proof. intros E. unfold frame_of. rewrite (fr_on_comp _ _ _ _ E), (fr_end_comp _ _ _ _ E). reflexivity. Qed.

Lemma row_boxes_comp o mt mt' lo ns r : (mt == mt')%Q -> row_boxes o mt lo ns r = row_boxes o mt' lo ns r.
Proof.
  intros E. unfold row_boxes. apply flat_map_ext. intros n.
  rewrite (fr_on_comp _ _ _ _ E), (fr_end_comp _ _ _ _ E). reflexivity.
Qed.

(* notes sorted by onset frame and pairwise apart: the runs of every row form a chain *)
Lemma chain_sorted o mt lo r cols : forall l lo0,
  ksorted (fr_on o mt) l -> ForallOrdPairs (apart o mt lo) l ->
  (forall n, In n l -> row_full o lo n = r ->
             lo0 <= fr_on o mt n /\ fr_end o mt n <= cols /\ n_vel n <> 0) ->
  chain lo0 (row_boxes o mt lo l r) cols.
Proof.
  induction l as [|x l IH]; intros lo0 Hs Hf Hb; [exact I|].
  unfold row_boxes. cbn [flat_map]. fold (row_boxes o mt lo l r).
  destruct Hs as [Hx Hs]. inversion Hf as [|? ? Hax Hf']; subst.
  destruct (row_full o lo x =? r) eqn:E.
  - cbn [app chain].
    destruct (Hb x (or_introl eq_refl)) as [H1 [H2 H3]]; [lia|].
    pose proof (fr_end_gt o mt x) as G.
    split; [exact H1|]. split; [lia|]. split; [exact H2|]. split; [exact H3|].
    apply IH; [exact Hs | exact Hf'|]. intros n Hn Hr.
    destruct (Hb n (or_intror Hn) Hr) as [_ [G2 G3]]. split; [|split; assumption].
    rewrite Forall_forall in Hx, Hax. specialize (Hx n Hn). specialize (Hax n Hn).
    unfold apart in Hax. pose proof (fr_end_gt o mt n) as Gn.
    destruct Hax as [Ha|Ha]; [lia | lia | lia].
  - cbn [app]. apply IH; [exact Hs | exact Hf'|].
    intros n Hn Hr. apply Hb; [right; exact Hn | exact Hr].
Qed.

Definition box_dn (p : Z) (x : run) : dnote := let '(v, a, b) := x in (p, a, b, v).

Lemma row_boxes_cons o mt lo x l r :
  row_boxes o mt lo (x :: l) r =
  (if row_full o lo x =? r then [(n_vel x, fr_on o mt x, fr_end o mt x)] else []) ++ row_boxes o mt lo l r.
Proof. reflexivity. Qed.

(* every note lies in exactly one row of the returned roll *)
Lemma rows_partition o mt lo rows : forall ns,
  (forall n, In n ns -> 0 <= row_full o lo n - pr_start o < Z.of_nat rows) ->
  Permutation
    (flat_map (fun p => map (box_dn p) (row_boxes o mt lo ns (p + pr_start o))) (zrange 0 rows))
    (map (frame_of o mt lo) ns).
Proof.
  induction ns as [|x l IH]; intros Hr.
  - simpl. replace (flat_map _ _) with (@nil dnote); [constructor|].
    induction (zrange 0 rows); simpl; [reflexivity | assumption].
  - cbn [map].
    eapply Permutation_trans.
    { rewrite (flat_map_ext _
        (fun p => (if row_full o lo x - pr_start o =? p
                   then [(p, fr_on o mt x, fr_end o mt x, n_vel x)] else [])
                  ++ map (box_dn p) (row_boxes o mt lo l (p + pr_start o)))).
      - apply flat_map_app_perm.
      - intros p. rewrite row_boxes_cons, map_app. f_equal.
        destruct (row_full o lo x =? p + pr_start o) eqn:E1;
          destruct (row_full o lo x - pr_start o =? p) eqn:E2; try (exfalso; lia); reflexivity. }
    pose proof (@single_hit dnote (fun p => (p, fr_on o mt x, fr_end o mt x, n_vel x))
                           (row_full o lo x - pr_start o) rows 0) as S.
    cbv beta in S.
    match goal with |- Permutation (?A ++ ?B) _ =>
      assert (S' : A = [frame_of o mt lo x])
        by (apply S; specialize (Hr x (or_introl eq_refl)); lia);
      rewrite S' end.
    cbn [app]. apply perm_skip. apply IH. intros n Hn. apply Hr. right. exact Hn.
Qed.

Lemma sort_dn_perm l : Permutation (sort_dn l) l.
Proof.
  assert (I : forall x r, Permutation (ins_dn x r) (x :: r)).
  { intros x r. induction r as [|y r IH]; simpl; [apply Permutation_refl|].
    destruct (dnote_leb x y); [apply Permutation_refl|].
    eapply Permutation_trans; [apply perm_skip, IH | apply perm_swap]. }
  induction l as [|x l IH]; simpl; [constructor|].
  eapply Permutation_trans; [apply I | apply perm_skip, IH].
Qed.

(* ---------- where the notes of an accepted roll lie ---------- *)
Lemma note_in_shape o ns R n : make_pianoroll o ns = Some R -> In n ns ->
  0 <= fr_on o (spec_min_time o ns) n /\ fr_end o (spec_min_time o ns) n <= r_cols R /\
  0 <= row_full o (lowest_pitch o ns) n < n_rows_full o ns.
Proof.
  intros H Hn. apply make_pianoroll_inv in H. cbv zeta in H.
  destruct H as [Hne [_ [N [_ [Hs ->]]]]]. cbn [r_cols].
  rewrite fill_in_shape in Hs. rewrite forallb_forall in Hs.
  pose proof (min_time_spec o ns Hne) as Q.
  set (mt := min_time o (map snd (sort_on ns))) in *.
  rewrite <- (fr_on_comp _ _ _ _ Q), <- (fr_end_comp _ _ _ _ Q).
  pose proof (fr_end_gt o mt n) as G.
  assert (Hin : In n (map snd (sort_on ns)))
    by (eapply Permutation_in; [apply Permutation_sym, sorted_perm | exact Hn]).
  assert (C : forall c, fr_on o mt n <= c < fr_end o mt n ->
              In (row_full o (lowest_pitch o ns) n, c, n_vel n)
                 (flat_map (note_cells o mt (lowest_pitch o ns)) (map snd (sort_on ns)))).
  { intros c Hc. apply in_flat_map. exists n. split; [exact Hin|]. unfold note_cells.
    apply in_map_iff. exists c. split; [reflexivity|]. apply zrange_In. lia. }
  pose proof (Hs _ (C (fr_on o mt n) ltac:(lia))) as S1.
  pose proof (Hs _ (C (fr_end o mt n - 1) ltac:(lia))) as S2.
  unfold in_shape in S1, S2. lia.
Qed.

(* ---------- decode(encode ns), whole roll, frames ---------- *)
Lemma decode_encode_roll_lemma o ns R :
  make_pianoroll o ns = Some R -> o_binary o = false ->
  (forall n, In n ns -> n_vel n <> 0 /\
             0 <= row_full o (lowest_pitch o ns) n - pr_start o < r_rows R) ->
  non_touching o (spec_min_time o ns) (lowest_pitch o ns) ns ->
  Permutation (decode_frames (r_rows R) (r_cols R) (r_cells R))
              (map (frame_of o (spec_min_time o ns) (lowest_pitch o ns)) ns).
Proof.
  intros H Hb Hv Hnt.
  set (mt := spec_min_time o ns) in *. set (lo := lowest_pitch o ns) in *.
  set (ns' := sort_k (fr_on o mt) ns).
  assert (P : Permutation ns ns') by (apply Permutation_sym, sort_k_perm).
  destruct (roll_perm_invariant_lemma _ _ _ _ P H) as [R' [H' [Er [Ec Ecell]]]].
  assert (Qm : (spec_min_time o ns' == mt)%Q) by (symmetry; apply spec_min_time_perm, P).
  assert (El : lowest_pitch o ns' = lo) by (symmetry; apply lowest_pitch_perm, P).
  unfold decode_frames.
  eapply Permutation_trans; [apply sort_dn_perm|].
  eapply Permutation_trans; [|apply Permutation_map, Permutation_sym, P].
  assert (Hrows : 0 <= r_rows R).
  { apply make_pianoroll_inv in H. cbv zeta in H. destruct H as [Hne _].
    destruct ns as [|n0 ns0]; [congruence|]. destruct (Hv n0 (or_introl eq_refl)) as [_ G]. lia. }
  rewrite (flat_map_ext_In _
             (fun p => map (box_dn p) (row_boxes o mt lo ns' (p + pr_start o)))).
  - apply rows_partition. intros n Hn.
    apply (Permutation_in _ (Permutation_sym P)) in Hn. destruct (Hv n Hn) as [_ G]. lia.
  - intros p Hp. apply In_zrange in Hp.
    rewrite (row_runs_ext _ (r_cells R') (r_cols R) p) by (intros j; symmetry; apply Ecell).
    rewrite <- Ec.
    assert (Hc : chain 0 (row_boxes o mt lo ns' (p + pr_start o)) (r_cols R')).
    { apply chain_sorted.
      - apply sort_k_sorted.
      - apply (non_touching_perm _ _ _ _ _ P Hnt).
      - intros n Hn Hr. pose proof (note_in_shape _ _ _ n H' Hn) as [S1 [S2 _]].
        rewrite (fr_on_comp _ _ _ _ Qm) in S1. rewrite (fr_end_comp _ _ _ _ Qm) in S2.
        apply (Permutation_in _ (Permutation_sym P)) in Hn. destruct (Hv n Hn) as [G _].
        split; [exact S1|]. split; [exact S2 | exact G]. }
    pose proof (decode_encode_row_lemma o ns' R' p H' Hb) as D.
    rewrite El, (row_boxes_comp _ _ _ _ _ _ Qm) in D.
    rewrite D; [reflexivity | lia | exact Hc].
Qed.

(* ---------- grid-aligned notes: pitch, onset, duration and velocity come back ---------- *)
(* onset (relative to the time origin of the roll) and duration are whole numbers of frames, the
   duration at least one frame *)
Definition grid_aligned (td : Z) (mt : Q) (n : note) : Prop :=
  exists ka kd, (inject_Z td * (n_onset n - mt) == inject_Z ka)%Q /\
                (inject_Z td * n_dur n == inject_Z kd)%Q /\ 1 <= kd.

(* a decoded row (pitch, onset, duration, velocity) is note n, onsets counted from the time origin *)
Definition recovered (mt : Q) (x : Z * Q * Q * Z) (n : note) : Prop :=
  let '(p, a, d, v) := x in
  p = n_pitch n /\ (a == n_onset n - mt)%Q /\ (d == n_dur n)%Q /\ v = n_vel n.

Lemma Qdiv_of_mult (td k : Z) (x : Q) : td <> 0 ->
  (inject_Z td * x == inject_Z k)%Q -> (inject_Z k / inject_Z td == x)%Q.
Proof.
  intros Ht E. rewrite <- E. field. intros Z0. apply Ht.
  unfold Qeq in Z0. simpl in Z0. lia.
Qed.

Lemma roundtrip_lemma o ns R :
  make_pianoroll o ns = Some R ->
  o_binary o = false -> o_onset_only o = false -> o_note_sep o = false ->
  o_pitch_margin o <= -1 -> o_time_margin o = 0 -> 0 < o_time_div o ->
  (forall n, In n ns -> grid_aligned (o_time_div o) (spec_min_time o ns) n /\ n_vel n <> 0 /\
                        (o_piano_range o = true -> 21 <= n_pitch n <= 108)) ->
  non_touching o (spec_min_time o ns) (lowest_pitch o ns) ns ->
  exists out ns', pianoroll_to_notearray (r_rows R) (r_cols R) (r_cells R) (o_time_div o) = Some out /\
    Permutation ns ns' /\ Forall2 (recovered (spec_min_time o ns)) out ns'.
Proof.
  intros H Hb Ho Hsep Hpm Htm Htd Hn Hnt.
  set (mt := spec_min_time o ns) in *. set (lo := lowest_pitch o ns) in *.
  pose proof (rows_default_lemma _ _ _ H Hpm) as Hrows.
  assert (Erow : forall n, row_full o lo n = n_pitch n).
  { intros n. unfold row_full. destruct (-1 <? o_pitch_margin o) eqn:E; [lia | reflexivity]. }
  assert (Hfull : n_rows_full o ns = 128).
  { unfold n_rows_full, highest_pitch, lowest_pitch. destruct (-1 <? o_pitch_margin o) eqn:E; [lia | reflexivity]. }
  assert (Hv : forall n, In n ns -> n_vel n <> 0 /\ 0 <= row_full o lo n - pr_start o < r_rows R).
  { intros n Hin. destruct (Hn n Hin) as [_ [G1 G2]]. split; [exact G1|].
    pose proof (note_in_shape _ _ _ n H Hin) as [_ [_ S]]. fold lo in S. rewrite Hfull in S.
    rewrite Erow in *. rewrite Hrows. unfold pr_start.
    destruct (o_piano_range o); [specialize (G2 eq_refl); lia | lia]. }
  pose proof (decode_encode_roll_lemma _ _ _ H Hb Hv Hnt) as D. fold mt lo in D.
  apply Permutation_map_inv in D as [ns' [E P]].
  assert (Hout : forall init, init = pr_start o ->
            Forall2 (recovered mt)
              (map (fun x : dnote => let '(p, a, b, v) := x in
                      (p + init, (inject_Z a / inject_Z (o_time_div o))%Q,
                       (inject_Z (b - a) / inject_Z (o_time_div o))%Q, v))
                   (map (frame_of o mt lo) ns')) ns').
  { intros init ->.
    assert (Hin' : forall n, In n ns' -> In n ns)
      by (intros n G; apply (Permutation_in _ (Permutation_sym P)), G).
    clear E P. induction ns' as [|n l IH]; [constructor|].
    cbn [map]. constructor; [|apply IH; intros m Hm; apply Hin'; right; exact Hm].
    destruct (Hn n (Hin' n (or_introl eq_refl))) as [[ka [kd [Ea [Ed Hk]]]] _].
    unfold frame_of, recovered. rewrite Erow.
    assert (Fon : fr_on o mt n = ka).
    { unfold fr_on. rewrite Ea, round_half_even_Z, Htm. lia. }
    assert (Fend : fr_end o mt n - fr_on o mt n = kd).
    { unfold fr_end, fr_off, fr_off_nom, fr_dur. rewrite Ho, Hsep, Ed, round_half_even_Z. lia. }
    split; [lia|]. split; [|split; [|reflexivity]].
    - rewrite Fon. apply Qdiv_of_mult; [lia | exact Ea].
    - rewrite Fend. apply Qdiv_of_mult; [lia | exact Ed]. }
  unfold pianoroll_to_notearray. rewrite E.
  unfold pr_start in Hout. destruct (o_piano_range o); rewrite Hrows; cbn [Z.eqb Pos.eqb].
  - eexists. exists ns'. split; [reflexivity|]. split; [exact P | apply Hout; reflexivity].
  - eexists. exists ns'. split; [reflexivity|]. split; [exact P | apply Hout; reflexivity].
Qed.

(* without remove_silence and with no negative onset the time origin is 0: onsets come back as given *)
Lemma spec_min_time_zero o ns : o_remove_silence o = false ->
  (forall n, In n ns -> (0 <= n_onset n)%Q) -> spec_min_time o ns = 0%Q.
Proof.
  intros Hr Hpos. unfold spec_min_time. destruct ns as [|n0 ns]; [reflexivity|]. cbv zeta. rewrite Hr.
  destruct (qmin_list_spec (map n_onset (n0 :: ns)) (n_onset n0)) as [Hin _].
  assert (G : (0 <= qmin_list (map n_onset (n0 :: ns)) (n_onset n0))%Q).
  { destruct Hin as [->|Hin]; [apply Hpos; left; reflexivity|].
    apply in_map_iff in Hin as [n [<- Hn]]. apply Hpos, Hn. }
  apply Qle_bool_iff in G. rewrite G. reflexivity.
Qed.

(* ---------- a concrete instance: three rows out of onset order, two of them on one pitch ---------- *)
Definition rt_opts : opts := mkOpts 4 false false (-1) 0 false false None false.
Definition rt_notes : list note :=
  [(60, (3 # 2)%Q, (1 # 2)%Q, 80); (64, 0%Q, (1 # 4)%Q, 33); (60, (1 # 4)%Q, (3 # 4)%Q, 101)].

Lemma example_roundtrip_lemma :
  exists R, make_pianoroll rt_opts rt_notes = Some R /\
    non_touching rt_opts (spec_min_time rt_opts rt_notes) (lowest_pitch rt_opts rt_notes) rt_notes /\
    (forall n, In n rt_notes -> grid_aligned 4 (spec_min_time rt_opts rt_notes) n) /\
    pianoroll_to_notearray (r_rows R) (r_cols R) (r_cells R) 4 =
      Some [(64, (0 # 4)%Q, (1 # 4)%Q, 33); (60, (1 # 4)%Q, (3 # 4)%Q, 101); (60, (6 # 4)%Q, (2 # 4)%Q, 80)].
Proof.
  eexists. split; [vm_compute; reflexivity|]. split; [|split].
  - unfold non_touching, rt_notes.
    constructor; [|constructor; [|constructor; [constructor | constructor]]].
    + constructor; [|constructor; [|constructor]]; unfold apart.
      * intros E. vm_compute in E. discriminate.
      * intros _. right. vm_compute. reflexivity.
    + constructor; [|constructor]. unfold apart. intros E. vm_compute in E. discriminate.
  - intros n [<-|[<-|[<-|[]]]].
    + exists 6, 2. vm_compute. repeat split; congruence.
    + exists 0, 1. vm_compute. repeat split; congruence.
    + exists 1, 3. vm_compute. repeat split; congruence.
  - vm_compute. reflexivity.
Qed.
