From Coq Require Import ZArith List Bool Lia.
From PV Require Import Lib.Base Model.C03_Txt.
Import ListNotations.
Open Scope Z_scope.

(* the code keeps nothing: whatever the process state, every parse answers for the text at hand *)
Lemma run_current : forall h m, run_with step m h = map words_load h.
Proof. induction h as [|t r IH]; intro m; simpl; [reflexivity|]. now rewrite IH. Qed.

Lemma run_state_free : forall h m m', run_with step m h = run_with step m' h.
Proof. intros. now rewrite !run_current. Qed.

Lemma run_app : forall h1 h2 m, run_with step m (h1 ++ h2) = run_with step m h1 ++ run_with step m h2.
Proof. intros. now rewrite !run_current, map_app. Qed.

(* clean texts come back as they are *)
Lemma lstrip_clean : forall t, (forall c r, t = c :: r -> blank c = false) -> lstrip t = t.
Proof. intros [|c r] H; simpl; [reflexivity|]. now rewrite (H c r eq_refl). Qed.

Lemma strip_clean : forall t, (forall c r, t = c :: r -> blank c = false) -> (forall c r, rev t = c :: r -> blank c = false) -> strip t = t.
Proof. intros t H1 H2. unfold strip. rewrite (lstrip_clean t H1), (lstrip_clean (rev t) H2). apply rev_involutive. Qed.

Lemma split_go_nocomma : forall t acc, ~ In comma t -> split_go acc t = [rev acc ++ t].
Proof.
  induction t as [|c r IH]; intros acc H; simpl.
  - now rewrite app_nil_r.
  - destruct (c =? comma) eqn:E.
    + exfalso. apply H. left. apply Z.eqb_eq in E. now subst.
    + rewrite IH. * simpl. now rewrite <- app_assoc. * intro X. apply H. now right.
Qed.

Lemma load_clean : forall t, clean t -> words_load t = [t].
Proof.
  intros t (Hc & H1 & H2). unfold words_load, pieces. rewrite (split_go_nocomma t [] Hc). simpl.
  now rewrite (strip_clean t H1 H2).
Qed.

Lemma clean_b_sound : forall t, clean_b t = true -> clean t.
Proof.
  intros t H. unfold clean_b in H. apply andb_prop in H as [H H3]. apply andb_prop in H as [H0 H2].
  repeat split.
  - intro X. apply negb_true_iff in H0. assert (existsb (fun c => c =? comma) t = true); [|congruence].
    apply existsb_exists. exists comma. split; [assumption|apply Z.eqb_refl].
  - intros c r E. subst t. now apply negb_true_iff in H2.
  - intros c r E. rewrite E in H3. now apply negb_true_iff in H3.
Qed.

Lemma roundtrip_clean : forall raw, clean raw -> words_load (words_save raw) = [raw].
Proof. intros. now apply load_clean. Qed.

(* several files in one process: every direction of every file comes back with the text ITS file states *)
Lemma process_roundtrip : forall h m, Forall clean h -> run_with step m (map words_save h) = map (fun t => [t]) h.
Proof.
  intros h m H. rewrite run_current. unfold words_save. rewrite map_id.
  induction H as [|t r Ht _ IH]; simpl; [reflexivity|]. now rewrite IH, (load_clean t Ht).
Qed.

Definition allegro : text := [65; 108; 108; 101; 103; 114; 111].      (* "Allegro" *)
Definition allegro_l : text := [97; 108; 108; 101; 103; 114; 111].    (* "allegro" *)
Definition allegro_m : text := [97; 108; 108; 101; 103; 114; 111; 32; 32; 109; 111; 108; 116; 111].   (* "allegro  molto" *)
Definition allegro_m1 : text := [97; 108; 108; 101; 103; 114; 111; 32; 109; 111; 108; 116; 111].      (* "allegro molto" *)
Definition at_dolce : text := [65; 32; 116; 101; 109; 112; 111; 44; 32; 68; 111; 108; 99; 101; 32].   (* "A tempo, Dolce " *)

Lemma casefold_memo_refuted :
  run_with (step_keyed casefold) [] [allegro; allegro_l] = [[allegro]; [allegro]] /\
  run_with (step_keyed casefold) [] [allegro_l; allegro] = [[allegro_l]; [allegro_l]] /\
  run [] [allegro; allegro_l] = [[allegro]; [allegro_l]] /\ clean allegro /\ clean allegro_l.
Proof. repeat split; try reflexivity; try (apply clean_b_sound; reflexivity). Qed.

Lemma squeeze_memo_refuted :
  run_with (step_keyed squeeze) [] [allegro_m1; allegro_m] = [[allegro_m1]; [allegro_m1]] /\
  run [] [allegro_m1; allegro_m] = [[allegro_m1]; [allegro_m]] /\ clean allegro_m.
Proof. repeat split; try reflexivity; try (apply clean_b_sound; reflexivity). Qed.

Lemma texts_example_lemma :
  words_load at_dolce = [[65; 32; 116; 101; 109; 112; 111]; [68; 111; 108; 99; 101]] /\
  check_texts [([allegro; at_dolce], [[68; 111; 108; 99; 101]; allegro; [65; 32; 116; 101; 109; 112; 111]]); ([allegro_l], [allegro_l])] = true /\
  check_texts [([allegro], [allegro]); ([allegro_l], [allegro])] = false.
Proof. repeat split; reflexivity. Qed.
