(* C12 -- proofs.  (a) unbounded facts about the model; (b) the regenerated
   tables (graphs of the real functions) coincide with the model on the whole
   domains named by the property. *)
From PV Require Import Lib.Base Lib.Round Lib.Tab Model.C12 Gen.C12_Tab Proofs.C12_model.
From Coq Require Import QArith Qabs Qround.
#[local] Open Scope Z_scope.

(* ---------- (a) model facts, all integers ---------- *)

Lemma ps_to_midi_C4 : ps_to_midi "C" 0 4 = Some 60.
Proof. reflexivity. Qed.

Lemma ps_to_midi_shift s a o m da do :
  ps_to_midi s a o = Some m -> ps_to_midi s (a + da) (o + do) = Some (m + da + 12 * do).
Proof.
  unfold ps_to_midi, opt_bind. destruct (base_pc s) as [b|]; [|discriminate].
  intros H. injection H as <-. f_equal. lia.
Qed.

(* keys: 15 + 15 names, bijection with (fifths, mode) *)
Definition fifths_dom : list Z := zrange (-7) 15.

Lemma key_bijection_b :
  forallb (fun f =>
    forallb (fun m =>
      match key_name f m with
      | Some n => match key_parse n with
                  | Some (f', m') => Z.eqb f f' && match m, m' with Major, Major | Minor, Minor => true | _, _ => false end
                  | None => false end
      | None => false end) [Major; Minor]) fifths_dom = true.
Proof. vm_cast_no_check (eq_refl true). Qed.

Lemma key_roundtrip_lemma f m : -7 <= f <= 7 ->
  exists n, key_name f m = Some n /\ key_parse n = Some (f, m).
Proof.
  intros Hf.
  assert (Hin : In f fifths_dom) by (apply zrange_In; simpl; lia).
  pose proof (forallb_In _ _ key_bijection_b f Hin) as H. cbv beta in H.
  assert (Hm : In m [Major; Minor]) by (destruct m; simpl; tauto).
  pose proof (forallb_In _ _ H m Hm) as H2. cbv beta in H2.
  destruct (key_name f m) as [n|]; [|discriminate].
  exists n. split; [reflexivity|].
  destruct (key_parse n) as [[f' m']|]; [|discriminate].
  apply andb_true_iff in H2 as [E1 E2]. apply Z.eqb_eq in E1. subst f'.
  destruct m, m'; try discriminate; reflexivity.
Qed.

Lemma key_name_rejects f m : ~ (-7 <= f <= 7) -> key_name f m = None.
Proof.
  intros H. unfold key_name.
  destruct ((-7 <=? f) && (f <=? 7)) eqn:E; [|reflexivity].
  apply andb_true_iff in E as [E1 E2]. lia.
Qed.

Lemma key_names_distinct : NoDup (major_keys ++ minor_keys).
Proof.
  repeat (constructor; [cbn; intros H; repeat (destruct H as [H|H]; [discriminate H|]); exact H|]).
  constructor.
Qed.

(* seconds <-> ticks *)
#[local] Open Scope Q_scope.

Lemma tick_roundtrip_lemma ppq mpq k :
  (0 < ppq)%Z -> (0 < mpq)%Z -> sec_to_tick ppq mpq (tick_to_sec ppq mpq k) = k.
Proof.
  intros Hp Hm. unfold sec_to_tick, tick_to_sec.
  assert (E : inject_Z (1000000 * ppq) * (inject_Z (mpq * k) / inject_Z (1000000 * ppq)) / inject_Z mpq == inject_Z k).
  { rewrite (inject_Z_mult mpq k).
    assert (N1 : ~ inject_Z (1000000 * ppq) == 0).
    { intros C. unfold Qeq in C. cbn [Qnum Qden inject_Z] in C. lia. }
    assert (N2 : ~ inject_Z mpq == 0).
    { intros C. unfold Qeq in C. cbn [Qnum Qden inject_Z] in C. lia. }
    field. split; assumption. }
  rewrite E. apply round_half_even_Z.
Qed.

Lemma sec_to_tick_nearest_lemma ppq mpq t :
  Qabs (inject_Z (1000000 * ppq) * t / inject_Z mpq - inject_Z (sec_to_tick ppq mpq t)) <= 1 # 2.
Proof. unfold sec_to_tick. apply round_half_even_near. Qed.

#[local] Open Scope Z_scope.

(* ---------- (b) the implementation's graph equals the model on the stated domains ---------- *)

Definition ps_key_eqb (a b : string * Z * Z) : bool :=
  let '(s, x, y) := a in let '(s', x', y') := b in String.eqb s s' && Z.eqb x x' && Z.eqb y y'.
Lemma ps_key_eqb_eq a b : ps_key_eqb a b = true -> a = b.
Proof.
  destruct a as [[s x] y], b as [[s' x'] y']. cbn. intros H.
  apply andb_true_iff in H as [H H3]. apply andb_true_iff in H as [H1 H2].
  apply String.eqb_eq in H1. apply Z.eqb_eq in H2. apply Z.eqb_eq in H3. congruence.
Qed.

Definition zz_eqb (a b : Z * Z) : bool := Z.eqb (fst a) (fst b) && Z.eqb (snd a) (snd b).
Lemma zz_eqb_eq a b : zz_eqb a b = true -> a = b.
Proof.
  destruct a, b. unfold zz_eqb. cbn. intros H. apply andb_true_iff in H as [H1 H2].
  apply Z.eqb_eq in H1. apply Z.eqb_eq in H2. congruence.
Qed.

Definition dom_ps : list (string * Z * Z) :=
  list_prod (list_prod steps7 (zrange (-3) 7)) (zrange (-1) 11).

Lemma dom_ps_In s a o : In s steps7 -> -3 <= a <= 3 -> -1 <= o <= 9 -> In (s, a, o) dom_ps.
Proof.
  intros. unfold dom_ps. apply In_list_prod; [apply In_list_prod|]; auto; apply zrange_In; simpl; lia.
Qed.

(* O1: pitch_spelling_to_midi_pitch *)
Lemma tab_ps_to_midi_covers :
  covers ps_key_eqb dom_ps tab_ps_to_midi (fun k v => let '(s, a, o) := k in zopt_eqb v (ps_to_midi s a o)) = true.
Proof. vm_cast_no_check (eq_refl true). Qed.

Lemma impl_ps_to_midi_lemma s a o :
  In s steps7 -> -3 <= a <= 3 -> -1 <= o <= 9 ->
  In ((s, a, o), ps_to_midi s a o) tab_ps_to_midi.
Proof.
  intros Hs Ha Ho.
  destruct (covers_spec ps_key_eqb ps_key_eqb_eq _ _ _ tab_ps_to_midi_covers (s, a, o) (dom_ps_In s a o Hs Ha Ho)) as [v [Hin HP]].
  cbn in HP. apply zopt_eqb_eq in HP. subst v. exact Hin.
Qed.

(* lower-case steps and alter None: where the code answers, it is the same arithmetic *)
Definition some_then_eqb (v e : option Z) : bool := match v with Some _ => zopt_eqb v e | None => true end.

Lemma tab_ps_to_midi_lower_ok :
  all_rows tab_ps_to_midi_lower (fun k v => let '(s, a, o) := k in some_then_eqb v (ps_to_midi s a o)) = true.
Proof. vm_cast_no_check (eq_refl true). Qed.

Lemma tab_ps_to_midi_none_all :
  all_rows tab_ps_to_midi_none (fun k v => zopt_eqb v (ps_to_midi (fst k) 0 (snd k))) = true.
Proof. vm_cast_no_check (eq_refl true). Qed.

(* Note(step, octave, alter).midi_pitch: same graph; alter None counts as 0 *)
Definition nm_key_eqb (a b : string * option Z * Z) : bool :=
  let '(s, x, y) := a in let '(s', x', y') := b in String.eqb s s' && zopt_eqb x x' && Z.eqb y y'.
Lemma nm_key_eqb_eq a b : nm_key_eqb a b = true -> a = b.
Proof.
  destruct a as [[s x] y], b as [[s' x'] y']. cbn. intros H.
  apply andb_true_iff in H as [H H3]. apply andb_true_iff in H as [H1 H2].
  apply String.eqb_eq in H1. apply zopt_eqb_eq in H2. apply Z.eqb_eq in H3. congruence.
Qed.
Definition alter_or_0 (a : option Z) : Z := match a with Some x => x | None => 0 end.

Lemma tab_note_midi_covers :
  covers nm_key_eqb (map (fun k => let '(s, a, o) := k in (s, Some a, o)) dom_ps) tab_note_midi
         (fun k v => let '(s, a, o) := k in zopt_eqb v (ps_to_midi s (alter_or_0 a) o)) = true.
Proof. vm_cast_no_check (eq_refl true). Qed.

Lemma tab_note_midi_all :
  all_rows tab_note_midi (fun k v => let '(s, a, o) := k in zopt_eqb v (ps_to_midi s (alter_or_0 a) o)) = true /\
  existsb (fun row => match fst row with (_, None, _) => true | _ => false end) tab_note_midi = true /\
  all_rows tab_note_midi_lower (fun k v => let '(s, a, o) := k in some_then_eqb v (ps_to_midi s a o)) = true.
Proof. repeat split; vm_cast_no_check (eq_refl true). Qed.

Lemma impl_note_midi_lemma s a o :
  In s steps7 -> -3 <= a <= 3 -> -1 <= o <= 9 ->
  In ((s, Some a, o), ps_to_midi s a o) tab_note_midi.
Proof.
  intros Hs Ha Ho.
  destruct (covers_spec nm_key_eqb nm_key_eqb_eq _ _ _ tab_note_midi_covers (s, Some a, o)) as [v [Hin HP]].
  { apply (in_map (fun k => let '(s, a, o) := k in (s, Some a, o)) dom_ps (s, a, o)). apply dom_ps_In; assumption. }
  cbn in HP. apply zopt_eqb_eq in HP. subst v. exact Hin.
Qed.

(* O1: step2pc *)
Definition sz_eqb (a b : string * Z) : bool := String.eqb (fst a) (fst b) && Z.eqb (snd a) (snd b).
Lemma sz_eqb_eq a b : sz_eqb a b = true -> a = b.
Proof.
  destruct a, b. unfold sz_eqb. cbn. intros H. apply andb_true_iff in H as [H1 H2].
  apply String.eqb_eq in H1. apply Z.eqb_eq in H2. congruence.
Qed.

Lemma tab_step2pc_covers :
  covers sz_eqb (list_prod steps7 (zrange (-3) 7)) tab_step2pc (fun k v => zopt_eqb v (step2pc (fst k) (snd k))) = true.
Proof. vm_cast_no_check (eq_refl true). Qed.

Lemma impl_step2pc_lemma s a : In s steps7 -> -3 <= a <= 3 -> In ((s, a), step2pc s a) tab_step2pc.
Proof.
  intros Hs Ha.
  destruct (covers_spec sz_eqb sz_eqb_eq _ _ _ tab_step2pc_covers (s, a)) as [v [Hin HP]].
  { apply In_list_prod; [exact Hs | apply zrange_In; simpl; lia]. }
  cbn in HP. apply zopt_eqb_eq in HP. subst v. exact Hin.
Qed.

(* O1: midi_pitch_to_pitch_spelling on 0..127: a spelling that sounds the pitch, and the one the
   algorithm midi_to_ps_with computes from the code's own pitch-class table *)
Lemma tab_dummy_ok : dummy_ok tab_dummy_ps = true.
Proof. vm_cast_no_check (eq_refl true). Qed.

Lemma midi_ps_roundtrip_lemma (m : Z) :
  exists s a o, midi_to_ps_with tab_dummy_ps m = Some (s, a, o) /\ In s steps7 /\ ps_to_midi s a o = Some m.
Proof. exact (midi_ps_roundtrip_any tab_dummy_ps tab_dummy_ok m). Qed.

Definition ps_res_eqb (r : option (string * option Z * option Z)) (m : string * Z * Z) : bool :=
  match r with
  | Some (s, Some a, Some o) => ps_key_eqb (s, a, o) m
  | _ => false
  end.

Definition midi_row_ok (m : Z) (r : option (string * option Z * option Z)) : bool :=
  match r with
  | Some (s, Some a, Some o) => sounds m (s, a, o) && psopt_eqb (midi_to_ps_with tab_dummy_ps m) (Some (s, a, o))
  | _ => false
  end.

Lemma tab_midi_to_ps_covers : covers Z.eqb (zrange 0 128) tab_midi_to_ps midi_row_ok = true.
Proof. vm_cast_no_check (eq_refl true). Qed.

Lemma ps_eqb_eq x y : ps_eqb x y = true -> x = y.
Proof. exact (ps_key_eqb_eq x y). Qed.

Lemma impl_midi_to_ps_lemma m : 0 <= m <= 127 ->
  exists s a o, In (m, Some (s, Some a, Some o)) tab_midi_to_ps /\ ps_to_midi s a o = Some m /\
                midi_to_ps_with tab_dummy_ps m = Some (s, a, o).
Proof.
  intros Hm.
  destruct (covers_spec Z.eqb (fun a b => proj1 (Z.eqb_eq a b)) _ _ _ tab_midi_to_ps_covers m) as [v [Hin HP]].
  { apply zrange_In. simpl. lia. }
  destruct v as [[[s [a|]] [o|]]|]; try discriminate.
  unfold midi_row_ok in HP. apply andb_true_iff in HP as [H1 H2].
  exists s, a, o. split; [exact Hin|]. split.
  - unfold sounds in H1. apply zopt_eqb_eq in H1. exact H1.
  - destruct (midi_to_ps_with tab_dummy_ps m) as [sp|]; [|discriminate]. cbn in H2. apply ps_eqb_eq in H2. congruence.
Qed.

(* O1: note names.  The printed name of (s,a,o) is read back by the model parser AND by the
   implementation's parser as (s,a,o) / its MIDI pitch, for octaves 0..9 (the grammar has no sign). *)
Fixpoint find_name (n : string) (tab : list (string * option (string * option Z * option Z) * option Z)) :=
  match tab with
  | [] => None
  | (n', r, m) :: rest => if String.eqb n n' then Some (r, m) else find_name n rest
  end.

Definition name_row_ok (k : string * Z * Z) (v : option string) : bool :=
  let '(s, a, o) := k in
  match v with
  | Some n =>
     if o <? 0 then true else
       psopt_eqb (parse_name n) (Some (s, a, o)) &&
       match find_name n tab_name_parse with
       | Some (r, m) => ps_res_eqb r (s, a, o) && zopt_eqb m (ps_to_midi s a o)
       | None => false
       end
  | None => false
  end.

Lemma tab_note_name_covers : covers ps_key_eqb dom_ps tab_note_name name_row_ok = true.
Proof. vm_cast_no_check (eq_refl true). Qed.

Lemma find_name_In n tab r m : find_name n tab = Some (r, m) -> In (n, r, m) tab.
Proof.
  induction tab as [|[[n' r'] m'] rest IH]; simpl; [discriminate|].
  destruct (String.eqb n n') eqn:E.
  - intros H. injection H as -> ->. apply String.eqb_eq in E. subst. left. reflexivity.
  - intros H. right. auto.
Qed.

Lemma impl_note_name_lemma s a o :
  In s steps7 -> -3 <= a <= 3 -> -1 <= o <= 9 ->
  exists n, In ((s, a, o), Some n) tab_note_name /\
  (0 <= o -> parse_name n = Some (s, a, o) /\ In (n, Some (s, Some a, Some o), ps_to_midi s a o) tab_name_parse).
Proof.
  intros Hs Ha Ho.
  destruct (covers_spec ps_key_eqb ps_key_eqb_eq _ _ _ tab_note_name_covers (s, a, o) (dom_ps_In s a o Hs Ha Ho)) as [v [Hin HP]].
  unfold name_row_ok in HP. destruct v as [n|]; [|discriminate].
  exists n. split; [exact Hin|].
  intros Hpos. destruct (o <? 0) eqn:E; [lia|].
  apply andb_true_iff in HP as [H1 H2].
  split.
  - destruct (parse_name n) as [sp|]; [|discriminate]. cbn in H1. apply ps_eqb_eq in H1. congruence.
  - destruct (find_name n tab_name_parse) as [[r m]|] eqn:F; [|discriminate].
    apply andb_true_iff in H2 as [H2 H3]. apply zopt_eqb_eq in H3. subst m.
    apply find_name_In in F.
    destruct r as [[[s' [a'|]] [o'|]]|]; try discriminate.
    unfold ps_res_eqb in H2. apply ps_key_eqb_eq in H2. injection H2 as -> -> ->. exact F.
Qed.

(* the strings of the grammar [A-G][xb#]*digits: every documented accidental string with one- and
   two-digit octaves is read by twelve-tone arithmetic; any other string of signs is either rejected
   or read by the same arithmetic; note_name_to_midi_pitch is the MIDI pitch of what was read *)
Definition gram_row_ok (n : string) (v : option (string * option Z * option Z) * option Z) : bool :=
  match fst v with
  | Some (s, Some a, Some o) => parse_agrees n (Some (s, a, o)) && zopt_eqb (snd v) (ps_to_midi s a o)
  | Some _ => false
  | None => parse_agrees n None
  end.
Definition doc_accs : list string := [""; "#"; "x"; "##"; "###"; "b"; "bb"; "bbb"]%string.
Definition oct_strings : list string := ["0"; "1"; "4"; "9"; "10"; "12"]%string.
Definition gram_dom : list string :=
  map (fun k => let '(s, a, o) := k in (s ++ a ++ o)%string) (list_prod (list_prod steps7 doc_accs) oct_strings).

Lemma tab_name_grammar_ok :
  all_rows tab_name_grammar gram_row_ok = true /\
  covers String.eqb gram_dom tab_name_grammar (fun _ v => match fst v with Some _ => true | None => false end) = true /\
  Nat.leb 224 (List.length (filter (fun row => negb (name_documented (fst row))) tab_name_grammar)) = true.
Proof. repeat split; vm_cast_no_check (eq_refl true). Qed.

Lemma impl_name_grammar_lemma :
  (forall n v, In (n, v) tab_name_grammar -> gram_row_ok n v = true) /\
  (forall s a o, In s steps7 -> In a doc_accs -> In o oct_strings ->
     exists r m, In ((s ++ a ++ o)%string, (Some r, m)) tab_name_grammar).
Proof.
  destruct tab_name_grammar_ok as [A [C _]]. split.
  - exact (all_rows_spec _ _ A).
  - intros s a o Hs Ha Ho.
    destruct (covers_spec String.eqb (fun x y => proj1 (String.eqb_eq x y)) _ _ _ C (s ++ a ++ o)%string) as [[r m] [Hin HP]].
    { unfold gram_dom. apply (in_map (fun k => let '(s, a, o) := k in (s ++ a ++ o)%string) _ (s, a, o)).
      apply In_list_prod; [apply In_list_prod|]; assumption. }
    cbn in HP. destruct r as [r|]; [|discriminate]. exists r, m. exact Hin.
Qed.

(* ensure_pitch_spelling_format: step in upper case, a sign string becomes its value, integers pass *)
Definition ensure_sign_ok (k : string * string) (r : option (string * option Z * option Z)) : bool :=
  match r, base_pc (fst k), sign_value (snd k) with
  | Some (s', Some a', Some o'), Some _, Some v => String.eqb s' (upper_step (fst k)) && Z.eqb a' v && Z.eqb o' 4
  | _, _, _ => false
  end.
Definition ss_eqb (a b : string * string) : bool := String.eqb (fst a) (fst b) && String.eqb (snd a) (snd b).

Lemma tab_ensure_ok :
  all_rows tab_ensure_sign ensure_sign_ok = true /\
  covers ss_eqb (list_prod (steps7 ++ ["c"; "d"; "e"; "f"; "g"; "a"; "b"]%string) ["n"; "#"; "x"; "b"; "bb"]%string)
         tab_ensure_sign (fun _ _ => true) = true /\
  all_rows tab_ensure_int (fun k r => let '(s, a, o) := k in ps_res_eqb r (upper_step s, a, o)) = true /\
  Nat.leb 1 (List.length tab_ensure_int) = true.
Proof. repeat split; vm_cast_no_check (eq_refl true). Qed.

(* Note.alter_sign: the sign reads back as the alteration (alterations -2..2 and None must have one) *)
Fixpoint all_acc_chars (s : string) : bool :=
  match s with EmptyString => true | String c r => is_acc_char c && all_acc_chars r end.
Lemma tab_note_alter_sign_ok :
  all_rows tab_note_alter_sign (fun al r =>
     match r with
     | Some sg => all_acc_chars sg && zopt_eqb (sign_value sg) (Some (alter_or_0 al))
     | None => match al with Some a => (a <? -2) || (2 <? a) | None => false end
     end) = true /\
  covers zopt_eqb [None; Some (-2); Some (-1); Some 0; Some 1; Some 2] tab_note_alter_sign (fun _ _ => true) = true.
Proof. split; vm_cast_no_check (eq_refl true). Qed.

(* the constant tables several modules index independently agree with the model and with each other *)
Definition lower7 : list string := ["c"; "d"; "e"; "f"; "g"; "a"; "b"]%string.
Lemma tab_constants_ok :
  (* BASE_PC and MIDI_BASE_CLASS are the model's base pitch classes *)
  all_rows tab_base_pc (fun k v => zopt_eqb (base_pc k) (Some v)) = true /\
  covers String.eqb steps7 tab_base_pc (fun _ _ => true) = true /\
  all_rows tab_midi_base_class (fun k v => zopt_eqb (base_pc k) (Some v)) = true /\
  covers String.eqb lower7 tab_midi_base_class (fun _ _ => true) = true /\
  (* STEPS is its own inverse on the seven letters and on 0..6 *)
  forallb (fun s => match slookup s tab_steps_idx with
                    | Some i => sopt_eqb (zlookup i tab_steps_letter) (Some s) | None => false end) steps7 = true /\
  forallb (fun i => match zlookup i tab_steps_letter with
                    | Some s => zopt_eqb (slookup s tab_steps_idx) (Some i) | None => false end) (zrange 0 7) = true /\
  (* step order x base pitch classes x interval sizes: the n-th step above C lies a major/perfect n above it *)
  forallb (fun n => zopt_eqb (s <- zlookup (n - 1) tab_steps_letter ;; base_pc s)
                             (interval_semitones n (if is_perfect n then "P" else "M")%string)) (zrange 1 7) = true /\
  (* accidental tables: one semitone per sign, INT_TO_ALT inverts ALT_TO_INT *)
  all_rows tab_alt_to_int (fun k v => zopt_eqb (sign_value k) (Some v)) = true /\
  all_rows tab_int_to_alt (fun i s => zopt_eqb (slookup s tab_alt_to_int) (Some i)) = true /\
  covers Z.eqb (zrange (-2) 5) tab_int_to_alt (fun _ _ => true) = true /\
  all_rows tab_sign_to_alter (fun k v => match v with Some x => zopt_eqb (sign_value k) (Some x) | None => true end) = true /\
  covers String.eqb (tl doc_accs) tab_sign_to_alter (fun _ v => match v with Some _ => true | None => false end) = true /\
  (* INTERVAL_TO_SEMITONES is the model's size on the 39 classes and has no other class of number 1..7 *)
  forallb (fun n => forallb (fun q => zopt_eqb (slookup (q ++ digit n) tab_interval_to_semitones) (interval_semitones n q))
                            ["dd"; "d"; "m"; "M"; "P"; "A"; "AA"]%string) (zrange 1 7) = true.
Proof. repeat split; vm_cast_no_check (eq_refl true). Qed.

(* O2: keys *)
Definition dom_key : list (Z * Z) := list_prod (zrange (-12) 25) (zrange 0 9).

Lemma tab_key_name_covers :
  covers zz_eqb dom_key tab_key_name (fun k v => sopt_eqb v (key_name_sp (fst k) (snd k))) = true.
Proof. vm_cast_no_check (eq_refl true). Qed.

Lemma impl_key_name_lemma f mi : -12 <= f <= 12 -> 0 <= mi <= 8 ->
  In ((f, mi), key_name_sp f mi) tab_key_name.
Proof.
  intros Hf Hm.
  destruct (covers_spec zz_eqb zz_eqb_eq _ _ _ tab_key_name_covers (f, mi)) as [v [Hin HP]].
  { apply In_list_prod; apply zrange_In; simpl; lia. }
  cbn in HP. apply sopt_eqb_eq in HP. subst v. exact Hin.
Qed.

Lemma tab_keysig_name_covers :
  covers zz_eqb dom_key tab_keysig_name (fun k v => sopt_eqb v (key_name_sp (fst k) (snd k))) = true.
Proof. vm_cast_no_check (eq_refl true). Qed.

Lemma impl_keysig_name_lemma f mi : -12 <= f <= 12 -> 0 <= mi <= 8 ->
  In ((f, mi), key_name_sp f mi) tab_keysig_name.
Proof.
  intros Hf Hm.
  destruct (covers_spec zz_eqb zz_eqb_eq _ _ _ tab_keysig_name_covers (f, mi)) as [v [Hin HP]].
  { apply In_list_prod; apply zrange_In; simpl; lia. }
  cbn in HP. apply sopt_eqb_eq in HP. subst v. exact Hin.
Qed.

Definition key_parse_res_eqb (r : option (Z * string)) (e : option (Z * mode)) : bool :=
  match r, e with
  | Some (f, ms), Some (f', m) => Z.eqb f f' && String.eqb ms (mode_string m)
  | _, _ => false
  end.

Lemma tab_key_parse_covers :
  covers String.eqb (major_keys ++ minor_keys) tab_key_parse (fun n r => key_parse_res_eqb r (key_parse n)) = true.
Proof. vm_cast_no_check (eq_refl true). Qed.

Lemma impl_key_parse_lemma n : In n (major_keys ++ minor_keys) ->
  exists f m, key_parse n = Some (f, m) /\ In (n, Some (f, mode_string m)) tab_key_parse.
Proof.
  intros Hn.
  destruct (covers_spec String.eqb (fun a b => proj1 (String.eqb_eq a b)) _ _ _ tab_key_parse_covers n Hn) as [v [Hin HP]].
  destruct v as [[f ms]|]; [|discriminate].
  destruct (key_parse n) as [[f' m]|]; [|discriminate].
  cbn in HP. apply andb_true_iff in HP as [E1 E2]. apply Z.eqb_eq in E1. apply String.eqb_eq in E2. subst.
  exists f', m. split; [reflexivity | exact Hin].
Qed.

(* O6: mode and clef codes.  Decoding gives back the mode that was encoded; every spelling of a mode
   has the code of "major" resp. "minor", the two codes differ, unknown spellings are rejected. *)
Definition mode_code (mi : Z) : option Z := match zlookup mi tab_mode_int with Some r => r | None => None end.
Definition mode_int_row_ok (mi : Z) (r : option Z) : bool :=
  match mode_of_spelling mi, r with
  | Some Major, Some c => zopt_eqb (mode_code 0) (Some c)
  | Some Minor, Some c => zopt_eqb (mode_code 1) (Some c)
  | None, None => true
  | _, _ => false
  end.
Lemma tab_mode_codes_ok :
  all_rows tab_mode_int mode_int_row_ok = true /\
  negb (zopt_eqb (mode_code 0) (mode_code 1)) = true /\
  all_rows tab_int_mode (fun mi r => sopt_eqb r (option_map mode_string (mode_of_spelling mi))) = true /\
  all_rows tab_mode_rt (fun mi r => sopt_eqb r (option_map mode_string (mode_of_spelling mi))) = true /\
  covers Z.eqb (zrange 0 9) tab_mode_int (fun _ _ => true) = true /\
  covers Z.eqb (zrange 0 9) tab_int_mode (fun _ _ => true) = true /\
  covers Z.eqb (zrange 0 9) tab_mode_rt (fun _ _ => true) = true.
Proof. repeat split; vm_cast_no_check (eq_refl true). Qed.

Fixpoint zfind {A} (k : Z) (tab : list (Z * A)) : option A :=
  match tab with [] => None | (k', v) :: r => if Z.eqb k k' then Some v else zfind k r end.

Lemma tab_clef_codes_ok :
  all_rows tab_clef (fun s r =>
    match r with
    | Some c => match zfind c tab_clef_back with Some (Some s') => String.eqb s s' | _ => false end
    | None => String.eqb s "X"
    end) = true /\
  all_rows tab_clef_back (fun c r =>
    match r with
    | Some s => match slookup s tab_clef with Some (Some c') => Z.eqb c c' | _ => false end
    | None => true
    end) = true /\
  covers String.eqb ["G"; "F"; "C"; "percussion"; "TAB"; "jianpu"; "none"]%string tab_clef
         (fun _ r => match r with Some _ => true | None => false end) = true.
Proof. repeat split; vm_cast_no_check (eq_refl true). Qed.

(* O3: intervals *)
Definition iv_key_eqb (a b : Z * string * bool) : bool :=
  let '(n, q, d) := a in let '(n', q', d') := b in Z.eqb n n' && String.eqb q q' && Bool.eqb d d'.
Lemma iv_key_eqb_eq a b : iv_key_eqb a b = true -> a = b.
Proof.
  destruct a as [[n q] d], b as [[n' q'] d']. cbn. intros H.
  apply andb_true_iff in H as [H H3]. apply andb_true_iff in H as [H1 H2].
  apply Z.eqb_eq in H1. apply String.eqb_eq in H2. apply Bool.eqb_prop in H3. congruence.
Qed.
Definition quals : list string := ["dd"; "d"; "m"; "M"; "P"; "A"; "AA"]%string.
Definition dom_iv : list (Z * string * bool) := list_prod (list_prod (zrange 1 7) quals) [true; false].

Lemma tab_interval_covers :
  covers iv_key_eqb dom_iv tab_interval (fun k v => let '(n, q, _) := k in zopt_eqb v (interval_semitones n q)) = true.
Proof. vm_cast_no_check (eq_refl true). Qed.

Lemma impl_interval_lemma n q d : 1 <= n <= 7 -> In q quals ->
  In ((n, q, d), interval_semitones n q) tab_interval.
Proof.
  intros Hn Hq.
  destruct (covers_spec iv_key_eqb iv_key_eqb_eq _ _ _ tab_interval_covers (n, q, d)) as [v [Hin HP]].
  { apply In_list_prod; [apply In_list_prod; [apply zrange_In; simpl; lia | exact Hq] | destruct d; simpl; tauto]. }
  cbn in HP. apply zopt_eqb_eq in HP. subst v. exact Hin.
Qed.

Lemma interval_classes_39 :
  List.length tab_intervalclasses = 39%nat /\
  forallb (fun n => forallb (fun q =>
     Bool.eqb (existsb (String.eqb (q ++ digit n)) tab_intervalclasses)
              (match interval_semitones n q with Some _ => true | None => false end)) quals) (zrange 1 7) = true.
Proof. split; vm_compute; reflexivity. Qed.

(* octave-class intervals (number 8): where the implementation answers at all it is 12 + the unison class *)
Lemma tab_interval_octave_ok :
  all_rows tab_interval (fun k v => let '(n, q, _) := k in
     if n =? 8 then match v, interval_semitones 1 q with
                    | Some x, Some y => Z.eqb x (12 + y) | Some _, None => false | None, _ => true end
     else true) = true.
Proof. vm_cast_no_check (eq_refl true). Qed.

(* O3: tempo units, dotted units, symbolic durations, tuplets, microseconds per quarter *)
Lemma tab_label_durs_ok :
  all_rows tab_label_durs (fun u v => match label_dur u with Some l => Qeq_bool v l | None => false end) = true
  /\ List.length tab_label_durs = 14%nat.
Proof. split; vm_compute; reflexivity. Qed.

Lemma tab_dot_mult_ok :
  list_eqb Qeq_bool tab_dot_mult [dot_mult 0; dot_mult 1; dot_mult 2; dot_mult 3] = true.
Proof. vm_cast_no_check (eq_refl true). Qed.

Lemma tab_tempo_ok :
  all_rows tab_tempo (fun k v => let '(u, dots, tp) := k in qopt_close v (quarter_tempo u dots tp)) = true
  /\ List.length tab_tempo = 280%nat.
Proof. split; vm_compute; reflexivity. Qed.

Definition unit_or_q (u : string) : string := if String.eqb u "" then "q"%string else u.
Lemma tab_mpq_ok :
  all_rows tab_mpq (fun k v => let '(u, dots, bpm) := k in
     match v, mpq_exact (unit_or_q u) dots bpm with Some x, Some e => mpq_nearest x e | _, _ => false end) = true
  /\ List.length tab_mpq = 855%nat.
Proof. split; vm_compute; reflexivity. Qed.

Lemma tab_symdur_ok :
  all_rows tab_symdur (fun k v => let '(u, dots, an, nn, divs) := k in qopt_close v (sym_dur u dots an nn divs)) = true
  /\ List.length tab_symdur = 1176%nat.
Proof. split; vm_compute; reflexivity. Qed.

Lemma tab_tuplet_ok :
  all_rows tab_tuplet (fun k v => let '(an, nn, atype, ntype) := k in qopt_close v (tuplet_mult an nn atype ntype)) = true
  /\ List.length tab_tuplet = 1182%nat.
Proof. split; vm_compute; reflexivity. Qed.

(* O5: frequency <-> MIDI pitch on 0..127 for three tunings *)
Lemma tab_freq_covers :
  covers zz_eqb (list_prod (zrange 0 128) [440; 415; 442]) tab_freq (fun k v => zopt_eqb v (Some (fst k))) = true.
Proof. vm_cast_no_check (eq_refl true). Qed.

Lemma tab_freq_off_ok :
  all_rows tab_freq_off (fun k v => zopt_eqb v (Some (fst k))) = true /\ List.length tab_freq_off = 256%nat.
Proof. split; [vm_cast_no_check (eq_refl true) | vm_compute; reflexivity]. Qed.

Lemma impl_freq_lemma m a4 : 0 <= m <= 127 -> In a4 [440; 415; 442] -> In ((m, a4), Some m) tab_freq.
Proof.
  intros Hm Ha.
  destruct (covers_spec zz_eqb zz_eqb_eq _ _ _ tab_freq_covers (m, a4)) as [v [Hin HP]].
  { apply In_list_prod; [apply zrange_In; simpl; lia | exact Ha]. }
  cbn in HP. apply zopt_eqb_eq in HP. subst v. exact Hin.
Qed.
