(* C16 -- proofs about the heap-level model of transpose() (Model/C16_Heap.v): deepcopy with its memo, then
   assignment to the cells of the copy.  Refinement to the value-level driver transpose_elems, the argument's cells
   untouched, the result made of fresh cells only. *)
From PV Require Import Lib.Base Model.C16 Model.C16_Heap Proofs.C16.
From Coq Require Import Arith.
#[local] Open Scope nat_scope.

Definition hp_d : elem := (0%Z, None).

Lemma hp_lookup_cons_ne : forall m a a' x, x <> a -> hp_lookup ((a, a') :: m) x = hp_lookup m x.
Proof.
  intros m a a' x H. simpl. destruct (Nat.eqb a x) eqn:E; [apply Nat.eqb_eq in E; congruence | reflexivity].
Qed.

Lemma hp_nodup_app_disj : forall (l l' : list nat), NoDup (l ++ l') -> forall x, In x l -> ~ In x l'.
Proof.
  induction l as [|a l IH]; intros l' ND x Hx; [destruct Hx|].
  simpl in ND. inversion ND as [|? ? Hn ND']; subst. destruct Hx as [->|Hx].
  - intro H. apply Hn. apply in_or_app. right. exact H.
  - apply IH; assumption.
Qed.

Lemma hp_nodup_app_l : forall (l l' : list nat), NoDup (l ++ l') -> NoDup l.
Proof.
  induction l as [|a l IH]; intros l' ND; [constructor|].
  simpl in ND. inversion ND as [|? ? Hn ND']; subst. constructor.
  - intro H. apply Hn. apply in_or_app. left. exact H.
  - eapply IH. exact ND'.
Qed.

Lemma hp_nodup_app_r : forall (l l' : list nat), NoDup (l ++ l') -> NoDup l'.
Proof.
  induction l as [|a l IH]; intros l' ND; [exact ND|].
  simpl in ND. inversion ND; subst. apply IH. assumption.
Qed.

(* deepcopy of objects none of which is in the memo and no two of which are the same: one new cell per object, at
   the end of the heap, holding the object's content *)
Lemma hp_copy_addrs_fresh : forall l h memo,
  NoDup l -> (forall a, In a l -> hp_lookup memo a = None) -> (forall a, In a l -> a < List.length h) ->
  exists m',
    hp_copy_addrs h memo l
      = Some ((h ++ map (fun a => nth a h hp_d) l)%list, m', seq (List.length h) (List.length l)) /\
    (forall x, hp_lookup memo x = None -> ~ In x l -> hp_lookup m' x = None).
Proof.
  induction l as [|a r IH]; intros h memo ND HM HV.
  - exists memo. simpl. rewrite app_nil_r. split; auto.
  - inversion ND as [|? ? Hnin ND']; subst.
    assert (Ha : a < List.length h) by (apply HV; left; reflexivity).
    destruct (nth_error h a) as [e|] eqn:He; [| apply nth_error_None in He; lia].
    destruct (IH (h ++ [e])%list ((a, List.length h) :: memo) ND') as (m' & C & K).
    + intros x Hx. rewrite hp_lookup_cons_ne; [apply HM; right; exact Hx | intro; subst; contradiction].
    + intros x Hx. rewrite app_length. simpl. specialize (HV x (or_intror Hx)). lia.
    + exists m'. split.
      * simpl. rewrite (HM a (or_introl eq_refl)). rewrite He. rewrite C.
        assert (E1 : nth a h hp_d = e) by (apply nth_error_nth; exact He).
        assert (E2 : map (fun x => nth x (h ++ [e])%list hp_d) r = map (fun x => nth x h hp_d) r).
        { apply map_ext_in. intros x Hx. apply app_nth1. apply HV. right. exact Hx. }
        rewrite E2, E1. rewrite <- app_assoc. simpl.
        rewrite app_length. simpl. rewrite Nat.add_1_r. reflexivity.
      * intros x Hx Hn. apply K.
        -- rewrite hp_lookup_cons_ne; [exact Hx | intro; subst; apply Hn; left; reflexivity].
        -- intro H. apply Hn. right. exact H.
Qed.

Lemma hp_copy_parts_fresh : forall ps h memo,
  NoDup (List.concat ps) -> (forall a, In a (List.concat ps) -> hp_lookup memo a = None) ->
  (forall a, In a (List.concat ps) -> a < List.length h) ->
  exists m' res,
    hp_copy_parts h memo ps = Some ((h ++ map (fun a => nth a h hp_d) (List.concat ps))%list, m', res) /\
    List.concat res = seq (List.length h) (List.length (List.concat ps)) /\
    map (@List.length nat) res = map (@List.length nat) ps.
Proof.
  induction ps as [|p r IH]; intros h memo ND HM HV.
  - exists memo, []. simpl. rewrite app_nil_r. auto.
  - simpl in ND, HM, HV.
    destruct (hp_copy_addrs_fresh p h memo) as (m1 & C1 & K1).
    + eapply hp_nodup_app_l; exact ND.
    + intros a Ha. apply HM. apply in_or_app. left. exact Ha.
    + intros a Ha. apply HV. apply in_or_app. left. exact Ha.
    + set (h1 := (h ++ map (fun a => nth a h hp_d) p)%list) in *.
      assert (L1 : List.length h1 = List.length h + List.length p)
        by (unfold h1; rewrite app_length, map_length; reflexivity).
      destruct (IH h1 m1) as (m2 & res & C2 & R2 & S2).
      * eapply hp_nodup_app_r; exact ND.
      * intros a Ha. apply K1.
        -- apply HM. apply in_or_app. right. exact Ha.
        -- intro Hp. exact (hp_nodup_app_disj _ _ ND a Hp Ha).
      * intros a Ha. rewrite L1. specialize (HV a (in_or_app _ _ _ (or_intror Ha))). lia.
      * exists m2, (seq (List.length h) (List.length p) :: res). simpl. rewrite C1, C2. split; [|split].
        -- f_equal. f_equal. f_equal. unfold h1. rewrite <- app_assoc. f_equal. rewrite map_app. f_equal.
           apply map_ext_in. intros x Hx. apply app_nth1. apply HV. apply in_or_app. right. exact Hx.
        -- rewrite R2, L1, app_length. symmetry. apply seq_app.
        -- rewrite seq_length, S2. reflexivity.
Qed.

Lemma hp_upd_app : forall (pre : hp_heap) x r e, hp_upd (pre ++ x :: r) (List.length pre) e = (pre ++ e :: r)%list.
Proof. induction pre as [|y pre IH]; intros; simpl; [reflexivity | rewrite IH; reflexivity]. Qed.

Lemma hp_nth_error_mid : forall (pre : hp_heap) x r, nth_error (pre ++ x :: r) (List.length pre) = Some x.
Proof. intros. rewrite nth_error_app2 by lia. rewrite Nat.sub_diag. reflexivity. Qed.

(* the loop over consecutive cells IS the value-level driver *)
Lemma hp_mutate_seq : forall n q up es pre,
  hp_mutate n q up (pre ++ es) (seq (List.length pre) (List.length es))
  = option_map (app pre) (transpose_elems n q up es).
Proof.
  induction es as [|a r IH]; intros pre.
  - simpl. rewrite app_nil_r. reflexivity.
  - simpl seq. simpl hp_mutate. rewrite hp_nth_error_mid. simpl transpose_elems. unfold opt_bind.
    destruct (transpose_elem n q up a) as [e'|]; [|reflexivity].
    rewrite hp_upd_app.
    replace (pre ++ e' :: r)%list with ((pre ++ [e']) ++ r)%list by (rewrite <- app_assoc; reflexivity).
    replace (S (List.length pre)) with (List.length (pre ++ [e'])%list) by (rewrite app_length; simpl; lia).
    rewrite IH. destruct (transpose_elems n q up r) as [r'|]; simpl; [|reflexivity].
    rewrite <- app_assoc. reflexivity.
Qed.

Lemma hp_transpose_elems_length : forall n q up l l', transpose_elems n q up l = Some l' -> List.length l' = List.length l.
Proof.
  intros n q up l l' H. apply transpose_elems_moved in H.
  induction H; simpl; [reflexivity | rewrite IHForall2; reflexivity].
Qed.

(* characterisation of one call *)
Lemma hp_transpose_char : forall n q up h arg,
  hp_valid h arg -> NoDup (List.concat arg) ->
  exists res,
    List.concat res = seq (List.length h) (List.length (List.concat arg)) /\
    map (@List.length nat) res = map (@List.length nat) arg /\
    hp_transpose n q up h arg
    = option_map (fun es' => ((h ++ es')%list, res))
                 (transpose_elems n q up (map (fun a => nth a h hp_d) (List.concat arg))).
Proof.
  intros n q up h arg HV ND.
  destruct (hp_copy_parts_fresh arg h []) as (m' & res & C & R & S); auto.
  exists res. split; [exact R|]. split; [exact S|].
  unfold hp_transpose. rewrite C, R.
  replace (List.length (List.concat arg)) with (List.length (map (fun a => nth a h hp_d) (List.concat arg)))
    by apply map_length.
  rewrite hp_mutate_seq. destruct (transpose_elems _ _ _ _); reflexivity.
Qed.

Lemma hp_read_valid : forall h l, (forall a, In a l -> a < List.length h) ->
  hp_read h l = map Some (map (fun a => nth a h hp_d) l).
Proof.
  intros h l H. unfold hp_read. rewrite map_map. apply map_ext_in. intros a Ha.
  apply nth_error_nth'. apply H. exact Ha.
Qed.

Lemma hp_read_seq : forall (l pre : hp_heap), hp_read (pre ++ l) (seq (List.length pre) (List.length l)) = map Some l.
Proof.
  unfold hp_read. induction l as [|a l IH]; intros pre; [reflexivity|].
  simpl. rewrite hp_nth_error_mid. f_equal.
  replace (pre ++ a :: l)%list with ((pre ++ [a]) ++ l)%list by (rewrite <- app_assoc; reflexivity).
  replace (S (List.length pre)) with (List.length (pre ++ [a])%list) by (rewrite app_length; simpl; lia).
  apply IH.
Qed.

(* ---- the statements of Props/C16.v ---- *)

(* refinement: what is read through the result = transpose_elems of what was read through the argument *)
Lemma hp_refines_lemma : forall n q up h arg h2 res,
  hp_valid h arg -> NoDup (List.concat arg) -> hp_transpose n q up h arg = Some (h2, res) ->
  exists es es',
    hp_read h (List.concat arg) = map Some es /\ transpose_elems n q up es = Some es' /\
    hp_read h2 (List.concat res) = map Some es' /\ map (@List.length nat) res = map (@List.length nat) arg.
Proof.
  intros n q up h arg h2 res HV ND H.
  destruct (hp_transpose_char n q up h arg HV ND) as (res0 & R & S & E).
  rewrite E in H. destruct (transpose_elems n q up _) as [es'|] eqn:T; [|discriminate].
  simpl in H. inversion H; subst. clear H.
  exists (map (fun a => nth a h hp_d) (List.concat arg)), es'.
  split; [apply hp_read_valid; exact HV|]. split; [exact T|]. split; [|exact S].
  rewrite R. rewrite <- (map_length (fun a => nth a h hp_d)). rewrite <- (hp_transpose_elems_length _ _ _ _ _ T).
  apply hp_read_seq.
Qed.

(* the argument is not modified: every cell that existed before the call holds what it held *)
Lemma hp_keeps_argument_lemma : forall n q up h arg h2 res,
  hp_valid h arg -> NoDup (List.concat arg) -> hp_transpose n q up h arg = Some (h2, res) ->
  firstn (List.length h) h2 = h /\ hp_read h2 (List.concat arg) = hp_read h (List.concat arg).
Proof.
  intros n q up h arg h2 res HV ND H.
  destruct (hp_transpose_char n q up h arg HV ND) as (res0 & R & S & E).
  rewrite E in H. destruct (transpose_elems n q up _) as [es'|] eqn:T; [|discriminate].
  simpl in H. inversion H; subst. clear H. split.
  - rewrite firstn_app, firstn_all, Nat.sub_diag. simpl. apply app_nil_r.
  - unfold hp_read. apply map_ext_in. intros a Ha. apply nth_error_app1. apply HV. exact Ha.
Qed.

(* the result is new: made of cells allocated by the call, pairwise different, none of them a cell of the argument *)
Lemma hp_result_fresh_lemma : forall n q up h arg h2 res,
  hp_valid h arg -> NoDup (List.concat arg) -> hp_transpose n q up h arg = Some (h2, res) ->
  Forall (fun a => List.length h <= a < List.length h2) (List.concat res) /\ NoDup (List.concat res) /\
  (forall a, In a (List.concat res) -> ~ In a (List.concat arg)).
Proof.
  intros n q up h arg h2 res HV ND H.
  destruct (hp_transpose_char n q up h arg HV ND) as (res0 & R & S & E).
  rewrite E in H. destruct (transpose_elems n q up _) as [es'|] eqn:T; [|discriminate].
  simpl in H. inversion H; subst. clear H.
  apply hp_transpose_elems_length in T. rewrite map_length in T.
  rewrite R. split; [|split].
  - apply Forall_forall. intros a Ha. apply in_seq in Ha. rewrite app_length. lia.
  - apply seq_NoDup.
  - intros a Ha Hb. apply in_seq in Ha. specialize (HV a Hb). lia.
Qed.

Lemma hp_total_lemma : forall n q up h arg sem,
  iv_semitones n q = Some sem -> hp_valid h arg -> NoDup (List.concat arg) ->
  exists h2 res, hp_transpose n q up h arg = Some (h2, res).
Proof.
  intros n q up h arg sem I HV ND.
  destruct (hp_transpose_char n q up h arg HV ND) as (res0 & R & S & E).
  destruct (transpose_elems_total n q up (map (fun a => nth a h hp_d) (List.concat arg)) sem I) as (l' & T).
  rewrite T in E. simpl in E. eauto.
Qed.

(* ---- Examples ---- *)
#[local] Open Scope Z_scope.

(* a part object, C#4 tied to a second C#4, a grace B3 and a rest; down an augmented second: B flat 3, B flat 3, A flat 3 *)
Definition hp_ex_heap : hp_heap :=
  [(10, None); (11, Some (0, 1, 4)); (12, Some (0, 1, 4)); (13, Some (6, 0, 3)); (14, None)].

Lemma hp_example_lemma :
  hp_transpose 2 5 false hp_ex_heap [[0; 1; 2; 3; 4]]%nat
  = Some ((hp_ex_heap ++ [(10, None); (11, Some (6, -1, 3)); (12, Some (6, -1, 3)); (13, Some (5, -1, 3)); (14, None)])%list,
          [[5; 6; 7; 8; 9]]%nat) /\
  hp_valid hp_ex_heap [[0; 1; 2; 3; 4]]%nat /\ NoDup (List.concat [[0; 1; 2; 3; 4]]%nat).
Proof.
  split; [vm_compute; reflexivity|]. split.
  - intros a Ha. simpl in Ha. simpl. lia.
  - simpl. repeat constructor; simpl; lia.
Qed.

(* "a perfect unison changes nothing: return the argument" -- the result is the argument's own cells *)
Lemma hp_fast_refuted_lemma :
  hp_transpose_fast 1 4 true hp_ex_heap [[0; 1; 2; 3; 4]]%nat = Some (hp_ex_heap, [[0; 1; 2; 3; 4]]%nat) /\
  ~ (forall a, In a (List.concat [[0; 1; 2; 3; 4]]%nat) -> ~ In a (List.concat [[0; 1; 2; 3; 4]]%nat)).
Proof.
  split; [vm_compute; reflexivity|]. intro H. apply (H 1%nat); simpl; auto.
Qed.

(* copy.copy instead of deepcopy: the argument's notes are assigned to *)
Lemma hp_shallow_refuted_lemma :
  exists h2 res, hp_transpose_shallow 2 5 false hp_ex_heap [[0; 1; 2; 3; 4]]%nat = Some (h2, res) /\
                 firstn (List.length hp_ex_heap) h2 <> hp_ex_heap.
Proof.
  eexists. eexists. split; [vm_compute; reflexivity|]. vm_compute. discriminate.
Qed.

(* what the code does when the SAME Part object is listed twice (the hypothesis NoDup is needed): the memo hands out
   the one copy twice, the loop visits it twice -- C4 up a major third comes back as G#4 *)
Lemma hp_same_part_twice_lemma :
  hp_transpose 3 3 true [(10, None); (11, Some (0, 0, 4))] [[0; 1]; [0; 1]]%nat
  = Some ([(10, None); (11, Some (0, 0, 4)); (10, None); (11, Some (4, 1, 4))], [[2; 3]; [2; 3]]%nat).
Proof. vm_compute. reflexivity. Qed.

(* ---- sequences of calls on one live argument ---- *)
#[local] Open Scope nat_scope.

Lemma hp_read_ext : forall h ext l, (forall a, In a l -> a < List.length h) -> hp_read (h ++ ext) l = hp_read h l.
Proof.
  intros h ext l H. unfold hp_read. apply map_ext_in. intros a Ha. apply nth_error_app1. apply H. exact Ha.
Qed.

Lemma hp_map_some_inj : forall (a b : list elem), map Some a = map Some b -> a = b.
Proof.
  induction a as [|x a IH]; intros [|y b] H; simpl in H; try discriminate; [reflexivity|].
  inversion H; subst. f_equal. apply IH. assumption.
Qed.

Lemma hp_valid_ext : forall h ext o, hp_valid h o -> hp_valid (h ++ ext) o.
Proof. intros h ext o H a Ha. rewrite app_length. specialize (H a Ha). lia. Qed.

Lemma hp_run_lemma : forall calls h arg cur h' res,
  hp_valid h arg -> NoDup (List.concat arg) -> hp_valid h cur -> NoDup (List.concat cur) ->
  hp_run calls h arg cur = Some (h', res) ->
  (exists ext, h' = (h ++ ext)%list) /\ hp_valid h' res /\ NoDup (List.concat res) /\
  exists va vc v,
    hp_read h (List.concat arg) = map Some va /\ hp_read h (List.concat cur) = map Some vc /\
    hp_vrun calls va vc = Some v /\ hp_read h' (List.concat res) = map Some v.
Proof.
  induction calls as [|[onres n q up] r IH]; intros h arg cur h' res VA NA VC NC H.
  - simpl in H. inversion H; subst. split; [exists []; rewrite app_nil_r; reflexivity|].
    split; [exact VC|]. split; [exact NC|].
    exists (map (fun a => nth a h' hp_d) (List.concat arg)), (map (fun a => nth a h' hp_d) (List.concat res)),
           (map (fun a => nth a h' hp_d) (List.concat res)).
    repeat split; try (apply hp_read_valid; assumption).
  - simpl in H.
    set (tgt := if onres then cur else arg) in *.
    assert (VT : hp_valid h tgt) by (unfold tgt; destruct onres; assumption).
    assert (NT : NoDup (List.concat tgt)) by (unfold tgt; destruct onres; assumption).
    destruct (hp_transpose n q up h tgt) as [[h1 r1]|] eqn:T; [|discriminate].
    destruct (hp_keeps_argument_lemma _ _ _ _ _ _ _ VT NT T) as (K1 & _).
    destruct (hp_result_fresh_lemma _ _ _ _ _ _ _ VT NT T) as (F1 & N1 & _).
    destruct (hp_refines_lemma _ _ _ _ _ _ _ VT NT T) as (es & es' & R0 & TE & R1 & _).
    assert (E1 : h1 = (h ++ skipn (List.length h) h1)%list).
    { rewrite <- K1 at 1. symmetry. apply firstn_skipn. }
    set (ext1 := skipn (List.length h) h1) in *.
    assert (V1 : hp_valid h1 r1).
    { intros a Ha. rewrite Forall_forall in F1. specialize (F1 a Ha). lia. }
    assert (VA1 : hp_valid h1 arg) by (rewrite E1; apply hp_valid_ext; exact VA).
    destruct (IH h1 arg r1 h' res VA1 NA V1 N1 H) as ((ext2 & E2) & VR & NR & va & vc & v & RA & RC & VR' & RR).
    split; [exists (ext1 ++ ext2)%list; rewrite E2, E1 at 1; rewrite <- app_assoc; reflexivity|].
    split; [exact VR|]. split; [exact NR|].
    rewrite R1 in RC. apply hp_map_some_inj in RC. subst vc.
    rewrite E1 in RA. rewrite hp_read_ext in RA by exact VA.
    exists va, (map (fun a => nth a h hp_d) (List.concat cur)), v.
    split; [exact RA|]. split; [apply hp_read_valid; exact VC|]. split; [|exact RR].
    simpl.
    assert (ES : (if onres then map (fun a => nth a h hp_d) (List.concat cur) else va) = es).
    { apply hp_map_some_inj. rewrite <- R0. unfold tgt. destruct onres.
      - symmetry. apply hp_read_valid. exact VC.
      - symmetry. exact RA. }
    rewrite ES, TE. exact VR'.
Qed.

(* Props statement: whatever sequence of calls (on the original argument again, or on the latest result): every cell
   that existed before the first call still holds what it held, the latest result is made of valid, pairwise
   different cells, and what is read through it is what the same sequence computes on values *)
Lemma hp_history_lemma : forall calls h arg h' res,
  hp_valid h arg -> NoDup (List.concat arg) -> hp_run calls h arg arg = Some (h', res) ->
  firstn (List.length h) h' = h /\ hp_read h' (List.concat arg) = hp_read h (List.concat arg) /\
  NoDup (List.concat res) /\
  exists va v, hp_read h (List.concat arg) = map Some va /\ hp_vrun calls va va = Some v /\
               hp_read h' (List.concat res) = map Some v.
Proof.
  intros calls h arg h' res VA NA H.
  destruct (hp_run_lemma calls h arg arg h' res VA NA VA NA H) as ((ext & E) & VR & NR & va & vc & v & RA & RC & V & RR).
  rewrite RA in RC. apply hp_map_some_inj in RC. subst vc.
  split; [rewrite E, firstn_app, firstn_all, Nat.sub_diag; simpl; apply app_nil_r|].
  split; [rewrite E; apply hp_read_ext; exact VA|]. split; [exact NR|].
  exists va, v. auto.
Qed.

#[local] Open Scope Z_scope.
Lemma hp_history_example_lemma :
  hp_run [HpCall false 3 3 true; HpCall true 2 2 false; HpCall false 5 4 true] [(10, None); (11, Some (0, 0, 4))] [[0; 1]]%nat [[0; 1]]%nat
  = Some ([(10, None); (11, Some (0, 0, 4)); (10, None); (11, Some (2, 0, 4)); (10, None); (11, Some (1, 1, 4)); (10, None); (11, Some (4, 0, 4))],
          [[6; 7]]%nat).
Proof. vm_compute. reflexivity. Qed.

Lemma hp_history_memo_refuted_lemma :
  let calls := [HpCall false 3 3 true; HpCall false 5 4 true] in
  let h := [(10, None); (11, Some (0, 0, 4))] in
  hp_run_memo calls h [[0; 1]]%nat = Some ([(10, None); (11, Some (0, 0, 4)); (10, None); (11, Some (6, 0, 4))], [[2; 3]]%nat) /\
  hp_vrun calls [(10, None); (11, Some (0, 0, 4))] [(10, None); (11, Some (0, 0, 4))] = Some [(10, None); (11, Some (4, 0, 4))].
Proof. split; vm_compute; reflexivity. Qed.
