(* C08 proofs, part 2: de-duplication of lines, duplicate-id resolution, alignment extraction *)
From PV Require Import Lib.Base Model.C08.
#[local] Open Scope Z_scope.

(* ---------------- generic ---------------- *)

Lemma zmem_In x l : zmem x l = true <-> In x l.
Proof.
  induction l as [|y r IH]; simpl; [split; [discriminate|contradiction]|].
  rewrite orb_true_iff, IH, Z.eqb_eq. split; intros [H|H]; auto.
Qed.

Lemma filter_filter_weak {A} (p q : A -> bool) l :
  (forall x, p x = true -> q x = true) -> filter p (filter q l) = filter p l.
Proof.
  intros H. induction l as [|x r IH]; simpl; [reflexivity|].
  destruct (q x) eqn:Q; simpl.
  - destruct (p x); rewrite IH; reflexivity.
  - destruct (p x) eqn:P; [rewrite (H x P) in Q; discriminate | exact IH].
Qed.

Lemma filter_and {A} (p q : A -> bool) l :
  filter p (filter q l) = filter (fun x => q x && p x) l.
Proof.
  induction l as [|x r IH]; simpl; [reflexivity|].
  destruct (q x); simpl; [destruct (p x); rewrite IH; reflexivity | exact IH].
Qed.

Lemma filter_all_true {A} (p : A -> bool) l : (forall x, In x l -> p x = true) -> filter p l = l.
Proof.
  induction l as [|x r IH]; intros H; simpl; [reflexivity|].
  rewrite (H x (or_introl eq_refl)). f_equal. apply IH. intros y Hy. apply H. right; exact Hy.
Qed.

(* subsequence *)
Inductive subseq {A} : list A -> list A -> Prop :=
| sub_nil : subseq [] []
| sub_skip x l l' : subseq l l' -> subseq l (x :: l')
| sub_keep x l l' : subseq l l' -> subseq (x :: l) (x :: l').

Lemma filter_subseq {A} (p : A -> bool) l : subseq (filter p l) l.
Proof.
  induction l as [|x r IH]; simpl; [constructor|].
  destruct (p x); constructor; exact IH.
Qed.

Lemma subseq_trans {A} (a b c : list A) : subseq a b -> subseq b c -> subseq a c.
Proof.
  intros H1 H2. revert a H1. induction H2; intros a H1.
  - exact H1.
  - constructor. apply IHsubseq. exact H1.
  - inversion H1; subst; constructor; apply IHsubseq; assumption.
Qed.

(* ---------------- first-occurrence de-duplication ---------------- *)

Lemma unique_aux_In seen l x :
  In x (unique_first_aux seen l) <-> In x l /\ ~ In x seen.
Proof.
  revert seen; induction l as [|y r IH]; intros seen; simpl; [tauto|].
  destruct (zmem y seen) eqn:M.
  - apply zmem_In in M. rewrite IH. split.
    + intros [H1 H2]; auto.
    + intros [[->|H1] H2]; [contradiction | auto].
  - assert (~ In y seen) by (intros C; apply zmem_In in C; congruence).
    simpl. rewrite IH. simpl. split.
    + intros [<-|[H1 H2]]; auto.
    + intros [[<-|H1] H2]; auto.
      destruct (Z.eq_dec y x); auto.
      right. split; auto. intros [C|C]; auto.
Qed.

Lemma unique_aux_NoDup seen l : NoDup (unique_first_aux seen l).
Proof.
  revert seen; induction l as [|y r IH]; intros seen; simpl; [constructor|].
  destruct (zmem y seen); [apply IH|].
  constructor; [|apply IH].
  rewrite unique_aux_In. intros [_ C]. apply C. left; reflexivity.
Qed.

Lemma unique_aux_subseq seen l : subseq (unique_first_aux seen l) l.
Proof.
  revert seen; induction l as [|y r IH]; intros seen; simpl; [constructor|].
  destruct (zmem y seen); constructor; apply IH.
Qed.

(* the result starts with the first line, and what follows is the result for the rest with
   that line marked as seen: every kept element is the first of its kind *)
Lemma unique_first_head x l : unique_first (x :: l) = x :: unique_first_aux [x] l.
Proof. reflexivity. Qed.

Lemma unique_first_spec l :
  NoDup (unique_first l) /\ (forall x, In x (unique_first l) <-> In x l) /\ subseq (unique_first l) l.
Proof.
  unfold unique_first. split; [apply unique_aux_NoDup|]. split; [|apply unique_aux_subseq].
  intros x. rewrite unique_aux_In. simpl. tauto.
Qed.

(* every first occurrence is kept, in place: the output for a prefix is a prefix of the output *)
Lemma unique_aux_first seen l1 x l2 :
  ~ In x l1 -> ~ In x seen ->
  exists r, unique_first_aux seen (l1 ++ x :: l2) = unique_first_aux seen l1 ++ x :: r.
Proof.
  revert seen; induction l1 as [|y l1 IH]; intros seen H1 H2; simpl.
  - destruct (zmem x seen) eqn:M; [apply zmem_In in M; contradiction|]. eexists; reflexivity.
  - assert (x <> y) by (intros C; apply H1; left; auto).
    assert (~ In x l1) by (intros C; apply H1; right; auto).
    destruct (zmem y seen).
    + apply IH; assumption.
    + destruct (IH (y :: seen)) as [r Hr]; auto.
      { intros [C|C]; auto. }
      exists r. simpl. rewrite Hr. reflexivity.
Qed.

Lemma unique_first_keeps_first l1 x l2 :
  ~ In x l1 -> exists r, unique_first (l1 ++ x :: l2) = unique_first l1 ++ x :: r.
Proof. intros H. apply unique_aux_first; auto. Qed.

(* ---------------- duplicate-id resolution ---------------- *)

Definition is_mo (x : line) : bool :=
  match l_kind x with KMatch | KOrnament => true | _ => false end.

Lemma keep_del_mo ids x : is_mo x = true -> keep_del ids x = true.
Proof. unfold is_mo, keep_del. destruct (l_kind x); try discriminate; reflexivity. Qed.
Lemma keep_ins_mo ids x : is_mo x = true -> keep_ins ids x = true.
Proof. unfold is_mo, keep_ins. destruct (l_kind x); try discriminate; reflexivity. Qed.

Lemma validate_keeps_matches_lemma l : filter is_mo (validate l) = filter is_mo l.
Proof.
  unfold validate.
  rewrite filter_filter_weak by (intros; apply keep_ins_mo; assumption).
  apply filter_filter_weak. intros; apply keep_del_mo; assumption.
Qed.

Lemma validate_subseq_lemma l : subseq (validate l) l.
Proof.
  unfold validate. eapply subseq_trans; apply filter_subseq.
Qed.

Lemma validate_is_filter_lemma l :
  validate l = filter (fun x => keep_del (sids l) x && keep_ins (pids (filter (keep_del (sids l)) l)) x) l.
Proof. unfold validate. apply filter_and. Qed.

Lemma zcount_app x a b : zcount x (a ++ b) = (zcount x a + zcount x b)%nat.
Proof.
  induction a as [|y r IH]; simpl; [reflexivity|]. destruct (x =? y); rewrite IH; reflexivity.
Qed.

Lemma zcount_flat_ge1 {A} (f : A -> list Z) l a s :
  In a l -> f a = [s] -> (1 <= zcount s (flat_map f l))%nat.
Proof.
  induction l as [|y r IH]; intros Hin E; [contradiction|]. simpl. rewrite zcount_app.
  destruct Hin as [->|Hin].
  - rewrite E. simpl. rewrite Z.eqb_refl. lia.
  - specialize (IH Hin E). lia.
Qed.

Lemma zcount_flat_ge2 {A} (f : A -> list Z) l a b s :
  In a l -> In b l -> a <> b -> f a = [s] -> f b = [s] -> (2 <= zcount s (flat_map f l))%nat.
Proof.
  induction l as [|y r IH]; intros Ha Hb N Ea Eb; [contradiction|]. simpl. rewrite zcount_app.
  destruct Ha as [->|Ha], Hb as [->|Hb].
  - contradiction.
  - rewrite Ea. simpl. rewrite Z.eqb_refl. pose proof (zcount_flat_ge1 f r b s Hb Eb). lia.
  - rewrite Eb. simpl. rewrite Z.eqb_refl. pose proof (zcount_flat_ge1 f r a s Ha Ea). lia.
  - specialize (IH Ha Hb N Ea Eb). lia.
Qed.

Lemma dup_in_ge2 s ids : (2 <= zcount s ids)%nat -> dup_in s ids = true.
Proof. intros H. unfold dup_in. apply Nat.ltb_lt. lia. Qed.

Lemma in_validate l x :
  In x (validate l) ->
  In x l /\ keep_del (sids l) x = true /\
  In x (filter (keep_del (sids l)) l) /\ keep_ins (pids (filter (keep_del (sids l)) l)) x = true.
Proof.
  unfold validate. intros H. apply filter_In in H as [H1 H2].
  pose proof H1 as H1'. apply filter_In in H1 as [H0 H3]. auto.
Qed.

(* after validation no score id of a match also heads a deletion *)
Lemma no_match_deletion_conflict_lemma l x y s :
  In x (validate l) -> In y (validate l) ->
  l_kind x = KMatch -> l_kind y = KDeletion -> l_sid x = Some s -> l_sid y <> Some s.
Proof.
  intros Hx Hy Kx Ky Sx Sy.
  apply in_validate in Hx as [Hx _]. apply in_validate in Hy as [Hy [Ky' _]].
  unfold keep_del in Ky'. rewrite Ky, Sy in Ky'.
  assert (D : dup_in s (sids l) = true).
  { apply dup_in_ge2. unfold sids. apply (zcount_flat_ge2 snote_id l x y s); auto.
    - intros C. subst. congruence.
    - unfold snote_id. rewrite Kx, Sx. reflexivity.
    - unfold snote_id. rewrite Ky, Sy. reflexivity. }
  rewrite D in Ky'. discriminate.
Qed.

(* ... and no performance id of a match or ornament also heads an insertion *)
Lemma no_match_insertion_conflict_lemma l x y p :
  In x (validate l) -> In y (validate l) ->
  is_mo x = true -> l_kind y = KInsertion -> l_pid x = Some p -> l_pid y <> Some p.
Proof.
  intros Hx Hy Kx Ky Px Py.
  apply in_validate in Hx as [_ [_ [Hx _]]]. apply in_validate in Hy as [_ [_ [Hy Ky']]].
  unfold keep_ins in Ky'. rewrite Ky, Py in Ky'.
  assert (D : dup_in p (pids (filter (keep_del (sids l)) l)) = true).
  { apply dup_in_ge2. unfold pids. apply (zcount_flat_ge2 note_id _ x y p); auto.
    - intros C. subst. unfold is_mo in Kx. rewrite Ky in Kx. discriminate.
    - unfold note_id. unfold is_mo in Kx. destruct (l_kind x); try discriminate; rewrite Px; reflexivity.
    - unfold note_id. rewrite Ky, Py. reflexivity. }
  rewrite D in Ky'. discriminate.
Qed.

Lemma zcount_flat_filter_le {A} (f : A -> list Z) (p : A -> bool) l s :
  (zcount s (flat_map f (filter p l)) <= zcount s (flat_map f l))%nat.
Proof.
  induction l as [|y r IH]; simpl; [lia|].
  destruct (p y); simpl; rewrite ?zcount_app; lia.
Qed.

(* lines whose id is not duplicated are kept *)
Lemma nonconflicting_kept_lemma l x :
  In x l ->
  (forall s, l_kind x = KDeletion -> l_sid x = Some s -> (zcount s (sids l) <= 1)%nat) ->
  (forall p, l_kind x = KInsertion -> l_pid x = Some p -> (zcount p (pids l) <= 1)%nat) ->
  In x (validate l).
Proof.
  intros Hin Hd Hi. unfold validate.
  assert (K1 : keep_del (sids l) x = true).
  { unfold keep_del. destruct (l_kind x) eqn:K; auto. destruct (l_sid x) as [s|] eqn:S; auto.
    specialize (Hd s eq_refl eq_refl). unfold dup_in. apply negb_true_iff. apply Nat.ltb_ge. lia. }
  apply filter_In. split; [apply filter_In; auto|].
  unfold keep_ins. destruct (l_kind x) eqn:K; auto. destruct (l_pid x) as [p|] eqn:P; auto.
  specialize (Hi p eq_refl eq_refl). unfold dup_in. apply negb_true_iff. apply Nat.ltb_ge.
  pose proof (zcount_flat_filter_le note_id (keep_del (sids l)) l p). unfold pids in *. lia.
Qed.

(* ---------------- alignment <-> lines ---------------- *)

Lemma alignment_of_lines_of a : alignment_of (lines_of a) = a.
Proof.
  induction a as [|e r IH]; [reflexivity|].
  unfold alignment_of, lines_of in *. simpl. rewrite IH. destruct e; reflexivity.
Qed.

Lemma sids_lines_of a : sids (lines_of a) = flat_map entry_sid a.
Proof.
  induction a as [|e r IH]; [reflexivity|].
  unfold sids, lines_of in *. simpl. rewrite IH. destruct e; reflexivity.
Qed.

Lemma pids_lines_of a : pids (lines_of a) = flat_map entry_pid a.
Proof.
  induction a as [|e r IH]; [reflexivity|].
  unfold pids, lines_of in *. simpl. rewrite IH. destruct e; reflexivity.
Qed.

Lemma NoDup_zcount l x : NoDup l -> (zcount x l <= 1)%nat.
Proof.
  induction 1 as [|y r Hn ND IH]; simpl; [lia|].
  destruct (x =? y) eqn:E; [|exact IH].
  apply Z.eqb_eq in E. subst y.
  assert (zcount x r = 0%nat).
  { clear -Hn. induction r as [|z r IH]; simpl; [reflexivity|].
    destruct (x =? z) eqn:E; [apply Z.eqb_eq in E; subst; exfalso; apply Hn; left; reflexivity|].
    apply IH. intros C. apply Hn. right; exact C. }
  lia.
Qed.

Lemma validate_unique_ids a :
  NoDup (flat_map entry_sid a) -> NoDup (flat_map entry_pid a) -> validate (lines_of a) = lines_of a.
Proof.
  intros Hs Hp. unfold validate.
  assert (F1 : filter (keep_del (sids (lines_of a))) (lines_of a) = lines_of a).
  { apply filter_all_true. intros x _. unfold keep_del.
    destruct (l_kind x); auto. destruct (l_sid x) as [s|]; auto.
    unfold dup_in. apply negb_true_iff. apply Nat.ltb_ge.
    rewrite sids_lines_of. apply NoDup_zcount; assumption. }
  rewrite F1. apply filter_all_true. intros x _. unfold keep_ins.
  destruct (l_kind x); auto. destruct (l_pid x) as [p|]; auto.
  unfold dup_in. apply negb_true_iff. apply Nat.ltb_ge.
  rewrite pids_lines_of. apply NoDup_zcount; assumption.
Qed.

Lemma alignment_extract_inverse_lemma a :
  NoDup (flat_map entry_sid a) -> NoDup (flat_map entry_pid a) ->
  alignment_of (validate (lines_of a)) = a.
Proof. intros Hs Hp. rewrite validate_unique_ids by assumption. apply alignment_of_lines_of. Qed.
