(* C02_lib -- general lemmas on previous-value lookup, sorted key lists, sums over unit
   steps and piecewise linear interpolation through cumulative sums (shared by C02 and C10). *)
From PV Require Import Lib.Base Model.C02.
From Coq Require Import QArith Qfield Lqa.
#[local] Open Scope Z_scope.

(* ------------------------------------------------------------ prev_lookup *)

Lemma prev_lookup_same {A} (tbl : list (Z * A)) a t : forall d,
  (forall k v, In (k, v) tbl -> ~ (a < k <= t)) -> a <= t ->
  prev_lookup tbl t d = prev_lookup tbl a d.
Proof.
  induction tbl as [|[k v] r IH]; intros d H Hat; simpl; auto.
  destruct (k <=? t) eqn:E1; destruct (k <=? a) eqn:E2.
  - apply IH; auto. intros k' v' Hin. apply (H k' v'). right; auto.
  - exfalso. apply (H k v); [left; auto | lia].
  - lia.
  - reflexivity.
Qed.

Lemma keys_incr_tail {A} (k : Z) (v : A) r : keys_incr ((k, v) :: r) -> keys_incr r.
Proof. simpl. tauto. Qed.

Lemma keys_incr_gt {A} : forall (r : list (Z * A)) k v, keys_incr ((k, v) :: r) ->
  forall k' v', In (k', v') r -> k < k'.
Proof.
  induction r as [|[k1 v1] r IH]; intros k v H k' v' Hin; [inversion Hin|].
  destruct H as [H1 H2]. destruct Hin as [E|Hin].
  - inversion E; subst; auto.
  - pose proof (IH k1 v1 H2 k' v' Hin). lia.
Qed.

(* the scan returns the entry in force, or the default when every key is later than t *)
Lemma prev_lookup_cases {A} t : forall (tbl : list (Z * A)) d, keys_incr tbl ->
  (prev_lookup tbl t d = d /\ forall k v, In (k, v) tbl -> t < k) \/
  in_force tbl t (prev_lookup tbl t d).
Proof.
  induction tbl as [|[k v] r IH]; intros d Hs.
  - left. split; auto. intros k v [].
  - simpl. destruct (k <=? t) eqn:E.
    + right. destruct (IH v (keys_incr_tail _ _ _ Hs)) as [[Heq Hall]|Hf].
      * rewrite Heq. exists k. split; [left; auto|]. split; [lia|].
        intros k' v' [Ein|Hin] Hle; [inversion Ein; lia|]. specialize (Hall k' v' Hin). lia.
      * destruct Hf as [k0 [Hin0 [Hle0 Hmax]]]. exists k0. split; [right; auto|]. split; auto.
        intros k' v' [Ein|Hin] Hle.
        -- inversion Ein; subst. pose proof (keys_incr_gt _ _ _ Hs _ _ Hin0). lia.
        -- eauto.
    + left. split; auto. intros k' v' [Ein|Hin].
      * inversion Ein; subst; lia.
      * pose proof (keys_incr_gt _ _ _ Hs _ _ Hin). lia.
Qed.

Lemma prev_lookup_in_force {A} (tbl : list (Z * A)) t d k v :
  keys_incr tbl -> In (k, v) tbl -> k <= t -> in_force tbl t (prev_lookup tbl t d).
Proof.
  intros Hs Hin Hle. destruct (prev_lookup_cases t tbl d Hs) as [[_ Hall]|Hf]; auto.
  specialize (Hall k v Hin). lia.
Qed.

Lemma prev_lookup_default {A} (tbl : list (Z * A)) t d :
  (forall k v, In (k, v) tbl -> t < k) -> prev_lookup tbl t d = d.
Proof.
  destruct tbl as [|[k v] r]; simpl; auto. intros H.
  specialize (H k v (or_introl eq_refl)). destruct (k <=? t) eqn:E; auto; lia.
Qed.

(* with strictly increasing keys the entry in force is unique *)
Lemma in_force_unique {A} (tbl : list (Z * A)) t v1 v2 :
  keys_incr tbl -> in_force tbl t v1 -> in_force tbl t v2 -> v1 = v2.
Proof.
  intros Hs [k1 [Hin1 [Hle1 Hmax1]]] [k2 [Hin2 [Hle2 Hmax2]]].
  assert (k1 = k2) by (pose proof (Hmax1 _ _ Hin2 Hle2); pose proof (Hmax2 _ _ Hin1 Hle1); lia).
  subst k2. clear - Hs Hin1 Hin2.
  induction tbl as [|[k v] r IH]; [inversion Hin1|].
  destruct Hin1 as [E1|Hin1]; destruct Hin2 as [E2|Hin2].
  - congruence.
  - inversion E1; subst. pose proof (keys_incr_gt _ _ _ Hs _ _ Hin2). lia.
  - inversion E2; subst. pose proof (keys_incr_gt _ _ _ Hs _ _ Hin1). lia.
  - apply IH; auto. eapply keys_incr_tail; eauto.
Qed.

Lemma prev_lookup_pos_Z tbl t : forall d, 0 < d -> (forall k v, In (k, v) tbl -> 0 < v) ->
  0 < prev_lookup tbl t d.
Proof.
  induction tbl as [|[k v] r IH]; intros d Hd H; simpl; auto.
  destruct (k <=? t); auto. apply IH; [apply (H k v); left; auto|].
  intros k' v' Hin. apply (H k' v'). right; auto.
Qed.

Lemma prev_lookup_pos_Q tbl t : forall d, (0 < d)%Q -> (forall k v, In (k, v) tbl -> (0 < v)%Q) ->
  (0 < prev_lookup tbl t d)%Q.
Proof.
  induction tbl as [|[k v] r IH]; intros d Hd H; simpl; auto.
  destruct (k <=? t); auto. apply IH; [apply (H k v); left; auto|].
  intros k' v' Hin. apply (H k' v'). right; auto.
Qed.

(* ------------------------------------------------- sorted keypoint lists *)

Inductive zincr : list Z -> Prop :=
| zincr_nil : zincr []
| zincr_cons x l : (forall y, In y l -> x < y) -> zincr l -> zincr (x :: l).

Lemma zincr_inv x l : zincr (x :: l) -> (forall y, In y l -> x < y) /\ zincr l.
Proof. intros H; inversion H; auto. Qed.

Lemma zinsert_In x : forall l y, In y (zinsert x l) <-> y = x \/ In y l.
Proof.
  induction l as [|z r IH]; intros y; simpl.
  - intuition.
  - destruct (x <? z) eqn:E1; [simpl; intuition|].
    destruct (x =? z) eqn:E2.
    + assert (x = z) by lia. subst. simpl. intuition.
    + simpl. rewrite IH. intuition.
Qed.

Lemma zinsert_incr x : forall l, zincr l -> zincr (zinsert x l).
Proof.
  induction l as [|z r IH]; intros H; simpl.
  - constructor; [intros y []|constructor].
  - destruct (zincr_inv _ _ H) as [Hlt Hr].
    destruct (x <? z) eqn:E1.
    + constructor; auto. intros y [->|Hy]; [lia|]. specialize (Hlt y Hy). lia.
    + destruct (x =? z) eqn:E2; auto.
      constructor; auto. intros y Hy. apply zinsert_In in Hy as [->|Hy]; [lia|auto].
Qed.

Lemma zsort_dedup_In l y : In y (zsort_dedup l) <-> In y l.
Proof.
  induction l as [|x r IH]; simpl; [tauto|].
  rewrite zinsert_In, IH. intuition.
Qed.

Lemma zsort_dedup_incr l : zincr (zsort_dedup l).
Proof. induction l; simpl; [constructor|apply zinsert_incr; auto]. Qed.

Fixpoint chainZ (x0 : Z) (xs : list Z) : Prop :=
  match xs with [] => True | x1 :: r => x0 < x1 /\ chainZ x1 r end.

Fixpoint lastz (x0 : Z) (xs : list Z) : Z :=
  match xs with [] => x0 | x1 :: r => lastz x1 r end.

Lemma zincr_chain : forall xs x0, zincr (x0 :: xs) -> chainZ x0 xs.
Proof.
  induction xs as [|x1 r IH]; intros x0 H; simpl; auto.
  destruct (zincr_inv _ _ H) as [Hlt Hr]. split; [apply Hlt; left; auto|auto].
Qed.

Lemma lastz_In : forall xs x0, In (lastz x0 xs) (x0 :: xs).
Proof.
  induction xs as [|x1 r IH]; intros x0; simpl; auto.
  right. apply IH.
Qed.

Lemma chainZ_le_last : forall xs x0, chainZ x0 xs -> forall y, In y (x0 :: xs) -> y <= lastz x0 xs.
Proof.
  induction xs as [|x1 r IH]; intros x0 H y Hy; simpl in *.
  - destruct Hy as [->|[]]; lia.
  - destruct H as [H1 H2]. destruct Hy as [->|Hy].
    + specialize (IH x1 H2 x1 (or_introl eq_refl)). lia.
    + apply IH; auto.
Qed.

(* r is constant on every step [x_i, x_{i+1}) *)
Fixpoint steps_const (r : Z -> Q) (x0 : Z) (xs : list Z) : Prop :=
  match xs with
  | [] => True
  | x1 :: rest => (forall k, x0 <= k < x1 -> r k = r x0) /\ steps_const r x1 rest
  end.

(* if r only changes at members of a strictly increasing list, it is constant on its steps *)
Lemma steps_const_of_keys (r : Z -> Q) (all : list Z) :
  (forall a k, a <= k -> (forall z, In z all -> ~ (a < z <= k)) -> r k = r a) ->
  forall xs x0, zincr (x0 :: xs) ->
  (forall z, In z all -> In z (x0 :: xs) \/ z <= x0) ->
  steps_const r x0 xs.
Proof.
  intros Hr. induction xs as [|x1 rest IH]; intros x0 Hinc Hall; simpl; auto.
  destruct (zincr_inv _ _ Hinc) as [Hlt Hrest].
  assert (x0 < x1) by (apply Hlt; left; auto).
  split.
  - intros k Hk. apply Hr; [lia|]. intros z Hz.
    destruct (Hall z Hz) as [[Ez|[Ez|Hin]]|Hle]; try lia.
    destruct (zincr_inv _ _ Hrest) as [Hlt1 _]. specialize (Hlt1 z Hin). lia.
  - apply IH; auto. intros z Hz.
    destruct (Hall z Hz) as [[Ez|Hin]|Hle]; [right; lia|left; auto|right; lia].
Qed.

(* ------------------------------------------------------------- sum_steps *)
#[local] Open Scope Q_scope.

Lemma sum_steps_app f : forall n m a,
  sum_steps f a (n + m) == sum_steps f a n + sum_steps f (a + Z.of_nat n)%Z m.
Proof.
  induction n as [|n IH]; intros m a.
  - simpl. replace (a + 0)%Z with a by lia. ring.
  - replace (S n + m)%nat with (S (n + m)) by lia. simpl sum_steps at 1 2.
    rewrite IH. replace (a + 1 + Z.of_nat n)%Z with (a + Z.of_nat (S n))%Z by lia. ring.
Qed.

Lemma sum_steps_const f c : forall n a,
  (forall k, (a <= k < a + Z.of_nat n)%Z -> f k == c) ->
  sum_steps f a n == c * inject_Z (Z.of_nat n).
Proof.
  induction n as [|n IH]; intros a H.
  - simpl. ring.
  - simpl sum_steps. rewrite IH by (intros k Hk; apply H; lia).
    rewrite (H a) by lia.
    replace (Z.of_nat (S n)) with (Z.of_nat n + 1)%Z by lia.
    rewrite inject_Z_plus. ring.
Qed.

Lemma sum_steps_nonneg f : forall n a,
  (forall k, (a <= k < a + Z.of_nat n)%Z -> 0 <= f k) -> 0 <= sum_steps f a n.
Proof.
  induction n as [|n IH]; intros a H; simpl; [apply Qle_refl|].
  assert (0 <= f a) by (apply H; lia).
  assert (0 <= sum_steps f (a + 1)%Z n) by (apply IH; intros k Hk; apply H; lia).
  lra.
Qed.

Lemma sum_steps_pos f : forall n a, (0 < n)%nat ->
  (forall k, (a <= k < a + Z.of_nat n)%Z -> 0 < f k) -> 0 < sum_steps f a n.
Proof.
  intros n a Hn H. destruct n as [|n]; [lia|]. simpl.
  assert (0 < f a) by (apply H; lia).
  assert (0 <= sum_steps f (a + 1)%Z n).
  { apply sum_steps_nonneg. intros k Hk. apply Qlt_le_weak. apply H. lia. }
  lra.
Qed.

Lemma sum_steps_split f a b c : (a <= b <= c)%Z ->
  sum_steps f a (Z.to_nat (c - a)) ==
  sum_steps f a (Z.to_nat (b - a)) + sum_steps f b (Z.to_nat (c - b)).
Proof.
  intros H. replace (Z.to_nat (c - a)) with (Z.to_nat (b - a) + Z.to_nat (c - b))%nat by lia.
  rewrite sum_steps_app. replace (a + Z.of_nat (Z.to_nat (b - a)))%Z with b by lia. reflexivity.
Qed.

Lemma sum_steps_constZ f c a b : (a <= b)%Z ->
  (forall k, (a <= k < b)%Z -> f k == c) ->
  sum_steps f a (Z.to_nat (b - a)) == c * (inject_Z b - inject_Z a).
Proof.
  intros H Hc. rewrite (sum_steps_const f c) by (intros k Hk; apply Hc; lia).
  replace (Z.of_nat (Z.to_nat (b - a))) with (b + - a)%Z by lia.
  rewrite inject_Z_plus, inject_Z_opp. ring.
Qed.

Lemma inject_Z_sub a b : inject_Z (a - b) == inject_Z a - inject_Z b.
Proof. replace (a - b)%Z with (a + - b)%Z by lia. rewrite inject_Z_plus, inject_Z_opp. ring. Qed.

Lemma inject_Z_lt a b : (a < b)%Z -> inject_Z a < inject_Z b.
Proof. intros. rewrite <- Zlt_Qlt. assumption. Qed.

Lemma inject_Z_le a b : (a <= b)%Z -> inject_Z a <= inject_Z b.
Proof. intros. rewrite <- Zle_Qle. assumption. Qed.

(* ------------------------------------------ interpolation through cumsums *)

(* the interpolant through the cumulative sums equals the sum over unit steps *)
Lemma interp_cum (r : Z -> Q) : forall xs x0 y0 t,
  chainZ x0 xs -> steps_const r x0 xs -> (x0 <= t <= lastz x0 xs)%Z -> xs <> [] ->
  exists v, interp_from (inject_Z x0) y0 (injx (cum r x0 y0 xs)) (inject_Z t) = Some v /\
            v == y0 + sum_steps r x0 (Z.to_nat (t - x0)).
Proof.
  induction xs as [|x1 rest IH]; intros x0 y0 t Hch Hst Ht Hne; [congruence|].
  simpl in Hch, Hst, Ht. destruct Hch as [H01 Hch]. destruct Hst as [Hc Hst].
  simpl. destruct (Qle_bool (inject_Z t) (inject_Z x1)) eqn:E.
  - apply Qle_bool_iff in E. rewrite <- Zle_Qle in E.
    eexists. split; [reflexivity|].
    rewrite (sum_steps_constZ r (r x0)) by (try lia; intros k Hk; rewrite Hc by lia; reflexivity).
    rewrite inject_Z_sub.
    assert (~ inject_Z x1 - inject_Z x0 == 0).
    { pose proof (inject_Z_lt _ _ H01). lra. }
    field. assumption.
  - assert (Hgt : (x1 < t)%Z).
    { destruct (Z_lt_le_dec x1 t); auto. apply inject_Z_le in l. apply Qle_bool_iff in l. congruence. }
    assert (rest <> []) by (destruct rest; simpl in Ht; [lia|congruence]).
    destruct (IH x1 (y0 + r x0 * inject_Z (x1 - x0)) t Hch Hst ltac:(lia) H) as [v [Hv Heq]].
    exists v. split; auto. rewrite Heq.
    rewrite (sum_steps_split r x0 x1 t) by lia.
    rewrite (sum_steps_constZ r (r x0) x0 x1) by (try lia; intros k Hk; rewrite Hc by lia; reflexivity).
    rewrite inject_Z_sub. ring.
Qed.

(* shifting all ordinates by s shifts the interpolant by s *)
Lemma interp_from_shift s : forall rest x0 y0 t,
  match interp_from x0 y0 rest t, interp_from x0 (y0 - s) (shift_pts s rest) t with
  | Some a, Some b => b == a - s
  | None, None => True
  | _, _ => False
  end.
Proof.
  induction rest as [|[x1 y1] r IH]; intros x0 y0 t; simpl; auto.
  destruct (Qle_bool t x1); [|apply IH].
  unfold Qdiv. ring.
Qed.

(* both coordinates strictly increasing along the list *)
Fixpoint chainQ (x0 y0 : Q) (rest : list (Q * Q)) : Prop :=
  match rest with
  | [] => True
  | (x1, y1) :: r => x0 < x1 /\ y0 < y1 /\ chainQ x1 y1 r
  end.

Lemma Qle_bool_false a b : Qle_bool a b = false -> b < a.
Proof.
  intros H. apply Qnot_le_lt. intros C. apply Qle_bool_iff in C. congruence.
Qed.

(* interpolating the swapped points undoes the interpolation *)
Lemma interp_from_inverse : forall rest x0 y0 t v,
  chainQ x0 y0 rest -> x0 <= t -> interp_from x0 y0 rest t = Some v ->
  (y0 <= v) /\ (x0 < t -> y0 < v) /\
  exists t', interp_from y0 x0 (swap_pts rest) v = Some t' /\ t' == t.
Proof.
  induction rest as [|[x1 y1] r IH]; intros x0 y0 t v Hch Hle Hv; simpl in *; [discriminate|].
  destruct Hch as [Hx [Hy Hch]].
  destruct (Qle_bool t x1) eqn:E.
  - apply Qle_bool_iff in E. inversion Hv; subst v; clear Hv.
    set (s := (y1 - y0) / (x1 - x0)).
    assert (Hs : 0 < s).
    { unfold s. apply Qlt_shift_div_l; lra. }
    assert (Hy1 : y1 == y0 + (x1 - x0) * s).
    { unfold s. field. lra. }
    assert (H0 : 0 <= (t - x0) * s) by (apply Qmult_le_0_compat; lra).
    assert (H1 : 0 <= (x1 - t) * s) by (apply Qmult_le_0_compat; lra).
    split; [lra|]. split.
    + intros Hlt. assert (0 < (t - x0) * s) by (apply Qmult_lt_0_compat; lra). lra.
    + assert (Hb : Qle_bool (y0 + (t - x0) * s) y1 = true).
      { apply Qle_bool_iff. rewrite Hy1.
        setoid_replace ((x1 - x0) * s) with ((t - x0) * s + (x1 - t) * s) by ring. lra. }
      rewrite Hb. eexists. split; [reflexivity|].
      unfold s. field. split; lra.
  - apply Qle_bool_false in E.
    destruct (IH x1 y1 t v Hch ltac:(lra) Hv) as [Hv1 [Hv2 [t' [Ht' Heq]]]].
    specialize (Hv2 E).
    split; [lra|]. split; [intros; lra|].
    assert (Hb : Qle_bool v y1 = false).
    { destruct (Qle_bool v y1) eqn:F; auto. apply Qle_bool_iff in F. lra. }
    rewrite Hb. exists t'. split; auto.
Qed.

