(* C05 -- proofs about state carried between calls (Model/C05_Hist.v). *)
From PV Require Import Lib.Base Model.C05 Model.C05_Ext Model.C05_Disp Model.C05_Hist.
From Coq Require Import Lia.
#[local] Open Scope Z_scope.

Lemma run_snoc s ops x : run s (ops ++ [x]) = step (run s ops) x.
Proof. unfold run. rewrite fold_left_app. reflexivity. Qed.

Lemma nth_error_set_nth {A} (l : list A) i j (x : A) :
  nth_error (set_nth j x l) i =
  if Nat.eqb i j then match nth_error l i with Some _ => Some x | None => None end else nth_error l i.
Proof.
  revert i j. induction l as [|y r IH]; intros i j.
  - destruct j, i; simpl; try reflexivity. destruct (Nat.eqb i j); reflexivity.
  - destruct j as [|j]; destruct i as [|i]; simpl; try reflexivity. apply IH.
Qed.

(* ---------- last write wins ---------- *)

Lemma content_current_lemma s ops o :
  content (s_store (run s ops)) o = content_rev (s_store s) (rev ops) o.
Proof.
  induction ops as [|x ops IH] using rev_ind.
  - reflexivity.
  - rewrite run_snoc, rev_app_distr. simpl.
    destruct x; simpl; try exact IH.
    unfold content at 1. simpl. destruct (Z.eqb o o0); [reflexivity | exact IH].
Qed.

Lemma parts_current_lemma s ops i :
  nth_error (s_parts (run s ops)) i = part_at_rev (s_parts s) (rev ops) i.
Proof.
  revert i. induction ops as [|x ops IH] using rev_ind; intros i.
  - reflexivity.
  - rewrite run_snoc, rev_app_distr. simpl.
    destruct x; simpl; try apply IH.
    + rewrite nth_error_set_nth. destruct (Nat.eqb i i0); [rewrite IH; reflexivity | apply IH].
    + reflexivity.
Qed.

(* the array read from a Score after ANY history is the array of the parts the score holds now, each with
   what it holds now -- both determined by the last write *)
Lemma score_history_current_lemma s ops uniq :
  read uniq (run s ops) VScore
    = ensure_notearray_m uniq (InMany CScore (map (content_rev (s_store s) (rev ops)) (s_parts (run s ops))))
  /\ forall i, nth_error (s_parts (run s ops)) i = part_at_rev (s_parts s) (rev ops) i.
Proof.
  split; [|intros i; apply parts_current_lemma].
  unfold read. cbn [members_of fst snd].
  rewrite (map_ext _ _ (content_current_lemma s ops)). reflexivity.
Qed.

(* ---------- the observation is a function of the current state ---------- *)


Lemma flat_rleaves_leaves ps : flat_map rleaves (map RLeaf ps) = ps.
Proof. induction ps as [|p r IH]; simpl; [reflexivity | rewrite IH; reflexivity]. Qed.

(* a Score freshly built from the current parts gives the same array, whatever happened before and whatever
   part_structure holds *)
Lemma read_equals_fresh_copy_lemma s ops uniq :
  read uniq (run s ops) VScore
    = read uniq (init_score (s_store (run s ops)) (map RLeaf (s_parts (run s ops)))) VScore.
Proof. unfold read, init_score. cbn [members_of fst snd s_parts s_store]. rewrite flat_rleaves_leaves. reflexivity. Qed.

Lemma resolve_leaves st ps : map (resolve st) (map RLeaf ps) = map (content st) ps.
Proof. rewrite map_map. reflexivity. Qed.

Lemma members_equals_fresh_copy_lemma s ops uniq c :
  read uniq (run s ops) (VMembers c)
    = read uniq (mkS (s_store (run s ops)) [] (s_struct (run s ops))) (VMembers c).
Proof. reflexivity. Qed.

(* two histories that end in the same parts with the same contents give the same array *)
Lemma read_depends_on_current_only_lemma s1 ops1 s2 ops2 uniq :
  s_parts (run s1 ops1) = s_parts (run s2 ops2) ->
  (forall o, In o (s_parts (run s1 ops1)) -> content (s_store (run s1 ops1)) o = content (s_store (run s2 ops2)) o) ->
  read uniq (run s1 ops1) VScore = read uniq (run s2 ops2) VScore.
Proof.
  intros Hp Hc. unfold read. cbn [members_of fst snd]. rewrite <- Hp.
  rewrite (map_ext_in _ _ _ Hc). reflexivity.
Qed.

(* ---------- Score, list and PartGroup given the same parts ---------- *)

Definition is_leaf (t : itree) : Prop := match t with ILeaf _ _ _ => True | IGroup _ => False end.

Lemma flat_leaves_of_leaves ts : Forall is_leaf ts -> flat_map flat_leaves ts = ts.
Proof.
  induction 1 as [|t r Ht _ IH]; simpl; [reflexivity|].
  destruct t; [simpl; rewrite IH; reflexivity | destruct Ht].
Qed.

Lemma views_agree_lemma s uniq :
  Forall is_leaf (map (content (s_store s)) (s_parts s)) ->
  read uniq s VScore = read uniq s (VParts CList) /\ read uniq s (VParts CList) = read uniq s (VParts CGroup).
Proof.
  intros H. split; [|reflexivity].
  unfold read. cbn [members_of fst snd]. unfold ensure_notearray_m, dispatch_members.
  rewrite (flat_leaves_of_leaves _ H). reflexivity.
Qed.

(* ---------- the two ways to get it wrong ---------- *)

Definition hn (oid : Z) (id : string) (s e : Z) (step : string) (oct : Z) : note :=
  mkNote oid id s e None None step None oct (Some 1) (Some 1) None false.

Definition hA : itree := ILeaf [hn 1 "a0" 0 2 "C" 4; hn 2 "a1" 2 4 "D" 4] (maps_of [] [] []) 2.
Definition hB : itree := ILeaf [hn 1 "b0" 0 3 "C" 3] (maps_of [] [] []) 3.
Definition hZ : itree := ILeaf [hn 1 "z0" 0 2 "A" 5; hn 2 "z1" 2 4 "B" 5; hn 3 "z2" 4 6 "C" 6] (maps_of [] [] []) 2.
Definition hA' : itree := ILeaf [hn 1 "a0" 0 2 "C" 4; hn 2 "a1" 2 4 "D" 4; hn 3 "a2" 4 6 "E" 4] (maps_of [] [] []) 2.

Definition h0 : sstate := init_score [(0, hA); (1, hB)] [RLeaf 0; RLeaf 1].

Definition keys (r : option (list row)) : option (list (string * Z * Z)) :=
  option_map (map (fun x => (r_id x, r_onset x, r_pitch x))) r.

(* score[0] = Z : the right reading shows Z's three notes, the reading of part_structure still shows A *)
Lemma stale_structure_values :
  keys (read true (run h0 [OPut 2 hZ; OSetPart 0 2]) VScore)
    = Some [("P01_b0", 0, 48); ("P00_z0", 0, 81); ("P00_z1", 6, 83); ("P00_z2", 12, 84)]%string /\
  keys (read_struct true (run h0 [OPut 2 hZ; OSetPart 0 2]))
    = Some [("P01_b0", 0, 48); ("P00_a0", 0, 60); ("P00_a1", 6, 62)]%string /\
  keys (read_struct true (run h0 [OPut 2 hA'; OUnfold [2; 1]]))
    = Some [("P01_b0", 0, 48); ("P00_a0", 0, 60); ("P00_a1", 6, 62)]%string /\
  keys (read true (run h0 [OPut 2 hA'; OUnfold [2; 1]]) VScore)
    = Some [("P01_b0", 0, 48); ("P00_a0", 0, 60); ("P00_a1", 6, 62); ("P00_a2", 12, 64)]%string.
Proof. vm_compute. repeat split; reflexivity. Qed.

Lemma stale_structure_refuted_lemma :
  exists s ops uniq, read_struct uniq (run s ops) <> read uniq (run s ops) VScore.
Proof.
  exists h0, [OPut 2 hZ; OSetPart 0 2], true. intros E.
  pose proof stale_structure_values as [H1 [H2 _]]. rewrite E in H2. rewrite H1 in H2. discriminate.
Qed.

(* read, edit a part in place, read again: the kept result is the table of the score as it WAS *)
Lemma memo_refuted_lemma :
  exists s x uniq v,
    let c1 := snd (read_memo uniq None s v) in
    fst (read_memo uniq c1 (step s x) v) <> read uniq (step s x) v.
Proof.
  exists h0, (OPut 0 hA'), true, VScore. simpl. intros E.
  apply (f_equal keys) in E. vm_compute in E. discriminate.
Qed.

(* not vacuous: a history with an edit in place, an item assignment and an unfolding *)
Lemma history_example_values :
  let ops := [OPut 0 hA'; OPut 2 hZ; OSetPart 1 2; OPut 3 hB; OUnfold [3; 2]; OPut 3 hA] in
  s_parts (run h0 ops) = [3; 2] /\
  content (s_store (run h0 ops)) 3 = hA /\
  keys (read false (run h0 ops) VScore)
    = Some [("a0", 0, 60); ("z0", 0, 81); ("a1", 2, 62); ("z1", 2, 83); ("z2", 4, 84)]%string /\
  map rleaves (s_struct (run h0 ops)) = [[0]; [1]].
Proof. vm_compute. repeat split; reflexivity. Qed.
