(* C09 -- make_segments on a part whose only marks are independent simple repeats, for ALL such
   parts (any number of repeats, any times, any first/last time point): the table is a simple
   table (Proofs/C09_simple.v) with exactly one flagged segment per repeat, that segment spanning
   exactly the repeated section.  Together with count_simple / maximal_simple / minimal_simple this
   gives the 2^r / twice / once statements from the marks, unbounded (the finite-domain theorem
   simple_repeats_paths of Proofs/C09_segs.v is the same statement decided by enumeration). *)
From PV Require Import Lib.Base Model.C09 Proofs.C09 Proofs.C09_simple Proofs.C09_segs.
From Coq Require Import ZArith List Bool Lia.
Import ListNotations.
#[local] Open Scope Z_scope.

(* ------------------------------------------------------------------ *)
(* the boundaries dictionary: lookups and keys *)

Lemma bget_bset t t' k v b :
  bget t (bset t' k v b) = if t =? t' then kset k v (bget t b) else bget t b.
Proof.
  unfold bget. induction b as [|[t0 d] r IH]; simpl.
  - destruct (Z.eqb_spec t t'); reflexivity.
  - destruct (Z.eqb_spec t' t0); simpl.
    + subst t0. destruct (Z.eqb_spec t t'); reflexivity.
    + destruct (Z.eqb_spec t t0); [|exact IH].
      subst t0. destruct (Z.eqb_spec t t'); [congruence|reflexivity].
Qed.

Lemma bset_keys_In t k v b x : In x (map fst (bset t k v b)) <-> x = t \/ In x (map fst b).
Proof.
  induction b as [|[t0 d] r IH]; simpl.
  - split; [intros [H|[]]; auto | intros [H|[]]; auto].
  - destruct (t =? t0) eqn:E; simpl.
    + apply Z.eqb_eq in E. subst. intuition congruence.
    + rewrite IH. intuition congruence.
Qed.

Lemma bset_keys_NoDup t k v b : NoDup (map fst b) -> NoDup (map fst (bset t k v b)).
Proof.
  induction b as [|[t0 d] r IH]; simpl; intros H.
  - constructor; [intros []|constructor].
  - inversion H as [|? ? Hn Hr]; subst. destruct (t =? t0) eqn:E; simpl.
    + constructor; auto.
    + constructor; [|auto]. intros Hin. apply bset_keys_In in Hin as [->|Hin]; [|auto].
      rewrite Z.eqb_refl in E. discriminate.
Qed.

(* ------------------------------------------------------------------ *)
(* sorting: zsort gives the strictly increasing list of the same elements *)

Fixpoint incr (l : list Z) : Prop :=
  match l with
  | a :: ((b :: _) as r) => a < b /\ incr r
  | _ => True
  end.

Lemma zinsert_In x l y : In y (zinsert x l) <-> y = x \/ In y l.
Proof.
  induction l as [|a l IH]; simpl; [intuition|].
  destruct (x <=? a); simpl; [intuition|]. rewrite IH. intuition.
Qed.

Lemma zsort_In l y : In y (zsort l) <-> In y l.
Proof.
  induction l as [|a l IH]; simpl; [tauto|]. unfold zsort in *. simpl. rewrite zinsert_In, IH. intuition.
Qed.

Lemma incr_cons a l : incr l -> (forall y, In y l -> a < y) -> incr (a :: l).
Proof. destruct l as [|b r]; simpl; auto. Qed.

Lemma incr_tail a l : incr (a :: l) -> incr l.
Proof. destruct l; simpl; tauto. Qed.

Lemma incr_lt a l : incr (a :: l) -> forall y, In y l -> a < y.
Proof.
  revert a. induction l as [|b r IH]; intros a H y Hy; [destruct Hy|].
  simpl in H. destruct H as [H1 H2]. destruct Hy as [<-|Hy]; [auto|].
  specialize (IH b H2 y Hy). lia.
Qed.

Lemma zinsert_incr x l : incr l -> ~ In x l -> incr (zinsert x l).
Proof.
  induction l as [|a l IH]; intros Hi Hn; simpl; [auto|].
  destruct (x <=? a) eqn:E.
  - apply incr_cons; [auto|]. intros y [<-|Hy].
    + assert (x <> a) by (intro; subst; apply Hn; left; auto). lia.
    + pose proof (incr_lt a l Hi y Hy). assert (x <> a) by (intro; subst; apply Hn; left; auto). lia.
  - apply incr_cons.
    + apply IH; [eapply incr_tail; eauto|]. intro; apply Hn; right; auto.
    + intros y Hy. apply zinsert_In in Hy as [->|Hy]; [lia|]. eapply incr_lt; eauto.
Qed.

Lemma zsort_incr l : NoDup l -> incr (zsort l).
Proof.
  induction l as [|a l IH]; intros H; [simpl; auto|].
  inversion H; subst. change (zsort (a :: l)) with (zinsert a (zsort l)).
  apply zinsert_incr; [auto|]. rewrite zsort_In. auto.
Qed.

(* positions in a strictly increasing list *)
Lemma incr_nth_lt l : incr l -> forall i j x y, (i < j)%nat ->
  nth_error l i = Some x -> nth_error l j = Some y -> x < y.
Proof.
  induction l as [|a l IH]; intros Hi i j x y Hlt Hx Hy; [destruct i; discriminate|].
  destruct j as [|j]; [lia|]. simpl in Hy. destruct i as [|i]; simpl in Hx.
  - injection Hx as <-. eapply incr_lt; eauto. eapply nth_error_In; eauto.
  - eapply (IH (incr_tail _ _ Hi) i j); eauto. lia.
Qed.

Lemma index_of_shift x l : forall i k, index_of x l (i + k) = option_map (Z.add k) (index_of x l i).
Proof.
  induction l as [|a l IH]; intros i k; simpl; [reflexivity|].
  destruct (x =? a); simpl; [f_equal; lia|]. replace (i + k + 1) with (i + 1 + k) by lia. apply IH.
Qed.

Lemma incr_index_of l : incr l -> forall i x, nth_error l i = Some x -> index_of x l 0 = Some (Z.of_nat i).
Proof.
  induction l as [|a l IH]; intros Hi i x Hx; [destruct i; discriminate|].
  simpl. destruct i as [|i]; simpl in Hx.
  - injection Hx as <-. rewrite Z.eqb_refl. reflexivity.
  - pose proof (incr_lt a l Hi x (nth_error_In _ _ Hx)) as Hlt.
    destruct (x =? a) eqn:E; [apply Z.eqb_eq in E; lia|].
    change 1 with (0 + 1) at 1. rewrite (index_of_shift x l 0 1).
    rewrite (IH (incr_tail _ _ Hi) i x Hx). unfold option_map. f_equal. rewrite Nat2Z.inj_succ. lia.
Qed.

Lemma index_of_None x l i : ~ In x l -> index_of x l i = None.
Proof.
  revert i; induction l as [|a l IH]; intros i H; simpl; [reflexivity|].
  destruct (x =? a) eqn:E; [apply Z.eqb_eq in E; subst; exfalso; apply H; left; auto|].
  apply IH. intro; apply H; right; auto.
Qed.

(* ------------------------------------------------------------------ *)
(* the dictionary of a part with repeats only *)

Definition rmarks (first last : Z) (reps : list (Z * Z)) : marks :=
  mkMarks first last reps [] [] [] [] [] [] [].

Definition pl (r : Z * Z) : payload := (fst r, snd r, []).
Definition addrep (b : bmap) (r : Z * Z) : bmap :=
  bset (snd r) BRE (pl r) (bset (fst r) BRS (pl r) b).

Lemma boundaries_reps first last reps :
  boundaries (rmarks first last reps) = bset first BSTART pnone (bset last BEND pnone (fold_left addrep reps [])).
Proof. reflexivity. Qed.

Definition dstep (t : Z) (d : bdict) (r : Z * Z) : bdict :=
  let d1 := if t =? fst r then kset BRS (pl r) d else d in
  if t =? snd r then kset BRE (pl r) d1 else d1.

Lemma bget_fold t reps : forall b, bget t (fold_left addrep reps b) = fold_left (dstep t) reps (bget t b).
Proof.
  induction reps as [|r reps IH]; intros b; simpl; [reflexivity|].
  rewrite IH. unfold addrep. rewrite !bget_bset. reflexivity.
Qed.

Lemma keys_fold x reps : forall b,
  In x (map fst (fold_left addrep reps b)) <->
  In x (map fst b) \/ exists r, In r reps /\ (x = fst r \/ x = snd r).
Proof.
  induction reps as [|r reps IH]; intros b; simpl.
  - split; [auto|]. intros [H|(r & [] & _)]. exact H.
  - rewrite IH. unfold addrep. rewrite !bset_keys_In. split.
    + intros [[->|[->|H]]|(r' & Hr & Hx)].
      * right. exists r. auto.
      * right. exists r. auto.
      * left. exact H.
      * right. exists r'. auto.
    + intros [H|(r' & [<-|Hr] & Hx)].
      * left. auto.
      * left. destruct Hx as [->| ->]; auto.
      * right. exists r'. auto.
Qed.

Lemma keys_fold_NoDup reps : forall b, NoDup (map fst b) -> NoDup (map fst (fold_left addrep reps b)).
Proof.
  induction reps as [|r reps IH]; intros b H; simpl; [exact H|].
  apply IH. unfold addrep. apply bset_keys_NoDup. apply bset_keys_NoDup. exact H.
Qed.

(* sorted disjoint repeats: nothing of the later ones lies before the end of an earlier one *)
Lemma disjoint_weaken lo lo' n l : lo' <= lo -> disjoint_from lo n l -> disjoint_from lo' n l.
Proof. destruct l as [|[a b] r]; simpl; [auto|]. intros H (H1 & H2 & H3 & H4). repeat split; auto. lia. Qed.

Lemma disjoint_bounds lo n l r : disjoint_from lo n l -> In r l -> lo <= fst r /\ fst r < snd r /\ snd r <= n.
Proof.
  revert lo; induction l as [|[a b] l IH]; intros lo H Hin; [destruct Hin|].
  simpl in H. destruct H as (H1 & H2 & H3 & H4). destruct Hin as [<-|Hin]; simpl; [lia|].
  specialize (IH b H4 Hin). lia.
Qed.

Lemma dstep_lt lo n reps : forall t d, disjoint_from lo n reps -> t < lo -> fold_left (dstep t) reps d = d.
Proof.
  revert lo; induction reps as [|[a b] reps IH]; intros lo t d H Ht; simpl; [reflexivity|].
  simpl in H. destruct H as (H1 & H2 & H3 & H4). unfold dstep at 2. simpl.
  destruct (Z.eqb_spec t a); [lia|]. destruct (Z.eqb_spec t b); [lia|].
  apply (IH b); [auto|lia].
Qed.

Definition has (k : Z) (d : bdict) : bool := existsb (fun e => fst e =? k) d.

Lemma kset_app k v d : has k d = false -> kset k v d = d ++ [(k, v)].
Proof.
  induction d as [|[k' v'] d IH]; simpl; intros H; [reflexivity|].
  apply orb_false_iff in H as [H1 H2]. rewrite Z.eqb_sym in H1. rewrite H1. rewrite IH; auto.
Qed.

Lemma has_app k d e : has k (d ++ e) = has k d || has k e.
Proof. unfold has. apply existsb_app. Qed.

(* the entries of the dictionary at time t coming from the repeats *)
Fixpoint rents (t : Z) (reps : list (Z * Z)) : bdict :=
  match reps with
  | [] => []
  | r :: rest =>
      if t =? fst r then [(BRS, pl r)]
      else if t =? snd r then
        (BRE, pl r) :: match rest with
                       | r' :: _ => if t =? fst r' then [(BRS, pl r')] else []
                       | [] => [] end
      else rents t rest
  end.

Lemma dstep_closed : forall reps lo n t d,
  disjoint_from lo n reps -> has BRS d = false -> has BRE d = false ->
  fold_left (dstep t) reps d = d ++ rents t reps.
Proof.
  induction reps as [|[a b] reps IH]; intros lo n t d H Hs He; simpl; [rewrite app_nil_r; reflexivity|].
  simpl in H. destruct H as (H1 & H2 & H3 & H4). unfold dstep at 2. simpl.
  destruct (Z.eqb_spec t a) as [->|Hna].
  - destruct (Z.eqb_spec a b); [lia|]. rewrite kset_app by auto.
    apply (dstep_lt b n); [auto|lia].
  - destruct (Z.eqb_spec t b) as [->|Hnb].
    + rewrite kset_app by auto.
      destruct reps as [|[a' b'] reps']; [reflexivity|].
      simpl in H4. destruct H4 as (G1 & G2 & G3 & G4). simpl. unfold dstep at 2. simpl.
      destruct (Z.eqb_spec b a') as [->|Hn].
      * destruct (Z.eqb_spec a' b'); [lia|].
        rewrite kset_app.
        -- rewrite (dstep_lt b' n); [|auto|lia]. rewrite <- app_assoc. reflexivity.
        -- rewrite has_app, Hs. reflexivity.
      * destruct (Z.eqb_spec b b'); [lia|].
        apply (dstep_lt b' n); [exact G4|lia].
    + apply (IH b n); auto.
Qed.

(* the four shapes *)
Lemma rents_cases : forall reps lo n t, disjoint_from lo n reps ->
  (rents t reps = [] /\ forall r, In r reps -> snd r <> t)
  \/ (exists r, In r reps /\ fst r = t /\ rents t reps = [(BRS, pl r)] /\ forall r', In r' reps -> snd r' <> t)
  \/ (exists r, In r reps /\ snd r = t /\
        (rents t reps = [(BRE, pl r)] \/ exists r', In r' reps /\ fst r' = t /\ rents t reps = [(BRE, pl r); (BRS, pl r')])).
Proof.
  induction reps as [|[a b] reps IH]; intros lo n t H; simpl.
  - left. split; [reflexivity|]. intros r [].
  - simpl in H. destruct H as (H1 & H2 & H3 & H4).
    destruct (Z.eqb_spec t a) as [->|Hna].
    + right. left. exists (a, b). split; [left; auto|]. split; [reflexivity|]. split; [reflexivity|].
      intros r' [<-|Hin]; simpl; [lia|]. pose proof (disjoint_bounds _ _ _ _ H4 Hin). lia.
    + destruct (Z.eqb_spec t b) as [->|Hnb].
      * right. right. exists (a, b). split; [left; auto|]. split; [reflexivity|].
        destruct reps as [|[a' b'] reps']; [left; reflexivity|].
        destruct (Z.eqb_spec b (fst (a', b'))) as [E|E]; simpl in E.
        -- right. exists (a', b'). split; [right; left; auto|]. split; [simpl; auto|]. reflexivity.
        -- left. reflexivity.
      * destruct (IH b n t H4) as [(E & F)|[(r & Hr & E1 & E2 & F)|(r & Hr & E1 & E2)]].
        -- left. split; [auto|]. intros r [<-|Hin]; simpl; auto.
        -- right. left. exists r. split; [right; auto|]. split; [auto|]. split; [auto|].
           intros r' [<-|Hin]; simpl; auto.
        -- right. right. exists r. split; [right; auto|]. split; [auto|].
           destruct E2 as [E2|(r' & Hr' & E3 & E4)]; [left; auto|].
           right. exists r'. split; [right; auto|]. auto.
Qed.

Lemma rents_keys t reps : forall e, In e (rents t reps) -> fst e = BRS \/ fst e = BRE.
Proof.
  induction reps as [|r rest IH]; intros e He; simpl in He; [destruct He|].
  destruct (t =? fst r).
  - destruct He as [<-|[]]. left; reflexivity.
  - destruct (t =? snd r).
    + destruct He as [<-|He]; [right; reflexivity|].
      destruct rest as [|r' rest']; [destruct He|]. destruct (t =? fst r'); [|destruct He].
      destruct He as [<-|[]]. left; reflexivity.
    + auto.
Qed.

Lemma rents_empty : forall reps lo n t r, disjoint_from lo n reps -> rents t reps = [] -> In r reps ->
  fst r <> t /\ snd r <> t.
Proof.
  induction reps as [|[a b] reps IH]; intros lo n t r H E Hin; [destruct Hin|].
  simpl in H. destruct H as (H1 & H2 & H3 & H4). simpl in E.
  destruct (Z.eqb_spec t a); [discriminate|]. destruct (Z.eqb_spec t b); [discriminate|].
  destruct Hin as [<-|Hin]; simpl; [split; congruence|]. eapply IH; eauto.
Qed.

(* ------------------------------------------------------------------ *)
(* one boundary entry, one segment, the whole loop *)

Lemma nth_error_upd_nth_same {A} (f : A -> A) : forall l i, nth_error (upd_nth i f l) i = option_map f (nth_error l i).
Proof. induction l as [|x l IH]; intros [|i]; simpl; auto. Qed.

Lemma nth_error_upd_nth_other {A} (f : A -> A) : forall l i j, i <> j -> nth_error (upd_nth i f l) j = nth_error l j.
Proof.
  induction l as [|x l IH]; intros [|i] [|j] H; simpl; auto; try congruence.
Qed.

Definition okkey (e : Z * payload) : Prop := fst e = BRS \/ fst e = BRE \/ fst e = BEND.

(* what one dictionary entry at the end of the segment adds to its destinations *)
Definition raw1 (T : list Z) (se : Z) (e : Z * payload) : list rdest :=
  match e with (k, (ps, _, _)) =>
    if k =? BRE then [RPlain (id_at T se); RPlain (id_at T ps)] else [RPlain (id_at T se)] end.

Definition add_raw (d : list rdest) (s : seginfo) : seginfo :=
  mkSI (si_start s) (si_end s) (si_to s ++ d) (si_type s) (si_vnums s).

Lemma step_ok m b T i ss se st e : okkey e -> bhas se BVE b = false ->
  step_boundary m b T i ss se st e =
  mkSS (upd_nth i (add_raw (raw1 T se e)) (ss_infos st)) (ss_cvrs st) (ss_cvend st) (ss_cvtotal st).
Proof.
  destruct e as [k [[ps pe] pn]]. intros [H|[H|H]] Hb; simpl in H; subst k; unfold step_boundary; simpl.
  - reflexivity.
  - rewrite Hb. reflexivity.
  - reflexivity.
Qed.

Lemma upd_nth_comp {A} (f g : A -> A) : forall l i, upd_nth i f (upd_nth i g l) = upd_nth i (fun x => f (g x)) l.
Proof. induction l as [|x l IH]; intros [|i]; simpl; auto. f_equal. apply IH. Qed.

Lemma upd_nth_ext {A} (f g : A -> A) : (forall x, f x = g x) -> forall l i, upd_nth i f l = upd_nth i g l.
Proof. intros H. induction l as [|x l IH]; intros [|i]; simpl; auto. - rewrite H; auto. - f_equal; auto. Qed.

Lemma fold_step_ok m b T i ss se : bhas se BVE b = false -> forall d st, Forall okkey d ->
  fold_left (step_boundary m b T i ss se) d st =
  mkSS (upd_nth i (add_raw (flat_map (raw1 T se) d)) (ss_infos st)) (ss_cvrs st) (ss_cvend st) (ss_cvtotal st).
Proof.
  intros Hb. induction d as [|e d IH]; intros st Hd; simpl.
  - destruct st as [infos c1 c2 c3]. simpl. f_equal.
    rewrite (upd_nth_ext (add_raw []) (fun x => x)).
    + clear. revert i. induction infos as [|x l IH]; intros [|i]; simpl; auto. f_equal; auto.
    + intros [s0 e0 to ty vn]. unfold add_raw. simpl. rewrite app_nil_r. reflexivity.
  - inversion Hd as [|? ? He Hd']; subst. rewrite (step_ok _ _ _ _ _ _ _ _ He Hb). rewrite IH by auto. simpl.
    f_equal. rewrite upd_nth_comp. apply upd_nth_ext.
    intros [s0 e0 to ty vn]. unfold add_raw. simpl. rewrite app_assoc. reflexivity.
Qed.

Definition fin (j : nat) (s : seginfo) : seginfo := if Nat.eqb j 0 then si_set_type TLEAP_END s else s.

Lemma loop_nth m b T : forall ts i st,
  (forall k se, nth_error ts (S k) = Some se -> Forall okkey (bget se b) /\ bhas se BVE b = false) ->
  forall j, nth_error (ss_infos (seg_loop m b T i ts st)) j =
    if (j <? i)%nat then nth_error (ss_infos st) j
    else match nth_error ts (S (j - i)) with
         | Some se => option_map (fun s => fin j (add_raw (flat_map (raw1 T se) (bget se b)) s)) (nth_error (ss_infos st) j)
         | None => nth_error (ss_infos st) j
         end.
Proof.
  induction ts as [|ss ts IH]; intros i st H j.
  - simpl. destruct (j <? i)%nat; [reflexivity|]. destruct (j - i)%nat; reflexivity.
  - destruct ts as [|se rest].
    + simpl. destruct (j <? i)%nat; [reflexivity|]. destruct (j - i)%nat; reflexivity.
    + change (seg_loop m b T i (ss :: se :: rest) st) with
        (seg_loop m b T (S i) (se :: rest)
           (let st1 := fold_left (step_boundary m b T i ss se) (bget se b) st in
            if Nat.eqb i 0 then mkSS (upd_nth i (si_set_type TLEAP_END) (ss_infos st1)) (ss_cvrs st1) (ss_cvend st1) (ss_cvtotal st1) else st1)).
      destruct (H O se eq_refl) as [Hk Hb].
      rewrite (fold_step_ok m b T i ss se Hb _ st Hk). cbv zeta.
      rewrite IH by (intros k se' Hn; apply (H (S k) se'); exact Hn).
      assert (Hst : forall j', nth_error (ss_infos
                 (if Nat.eqb i 0
                  then mkSS (upd_nth i (si_set_type TLEAP_END)
                               (ss_infos (mkSS (upd_nth i (add_raw (flat_map (raw1 T se) (bget se b))) (ss_infos st)) (ss_cvrs st) (ss_cvend st) (ss_cvtotal st))))
                            (ss_cvrs st) (ss_cvend st) (ss_cvtotal st)
                  else mkSS (upd_nth i (add_raw (flat_map (raw1 T se) (bget se b))) (ss_infos st)) (ss_cvrs st) (ss_cvend st) (ss_cvtotal st))) j' =
               if Nat.eqb j' i then option_map (fun s => fin i (add_raw (flat_map (raw1 T se) (bget se b)) s)) (nth_error (ss_infos st) j')
               else nth_error (ss_infos st) j').
      { intros j'. unfold fin. destruct (Nat.eqb_spec j' i) as [->|Hne].
        - destruct (Nat.eqb i 0); simpl.
          + rewrite upd_nth_comp, nth_error_upd_nth_same. reflexivity.
          + rewrite nth_error_upd_nth_same. reflexivity.
        - destruct (Nat.eqb i 0); simpl.
          + rewrite upd_nth_comp, nth_error_upd_nth_other by auto. reflexivity.
          + rewrite nth_error_upd_nth_other by auto. reflexivity. }
      simpl ss_cvrs. simpl ss_cvend. simpl ss_cvtotal.
      destruct (j <? S i)%nat eqn:E1.
      * rewrite Hst. destruct (Nat.eqb_spec j i) as [->|Hne].
        -- rewrite Nat.ltb_irrefl. rewrite Nat.sub_diag. simpl. reflexivity.
        -- apply Nat.ltb_lt in E1. assert (Hlt : (j < i)%nat) by lia. apply Nat.ltb_lt in Hlt. rewrite Hlt. reflexivity.
      * apply Nat.ltb_ge in E1. assert (Hge : (j <? i)%nat = false) by (apply Nat.ltb_ge; lia). rewrite Hge.
        replace (S (j - i)) with (S (S (j - S i))) by lia.
        change (nth_error (ss :: se :: rest) (S (S (j - S i)))) with (nth_error (se :: rest) (S (j - S i))).
        destruct (nth_error (se :: rest) (S (j - S i))); rewrite Hst;
          (destruct (Nat.eqb_spec j i); [lia|reflexivity]).
Qed.

Lemma init_infos_nth : forall ts j ss se, nth_error ts j = Some ss -> nth_error ts (S j) = Some se ->
  nth_error (init_infos ts) j = Some (mkSI ss se [] TDEFAULT []).
Proof.
  induction ts as [|a ts IH]; intros j ss se H1 H2; [destruct j; discriminate|].
  destruct ts as [|b rest]; [destruct j; simpl in H2; [discriminate|destruct j; discriminate]|].
  destruct j as [|j].
  - simpl in *. congruence.
  - change (init_infos (a :: b :: rest)) with (mkSI a b [] TDEFAULT [] :: init_infos (b :: rest)).
    simpl. apply IH; auto.
Qed.

Lemma init_infos_length : forall ts, length (init_infos ts) = pred (length ts).
Proof.
  induction ts as [|a ts IH]; [reflexivity|]. destruct ts as [|b rest]; [reflexivity|].
  change (init_infos (a :: b :: rest)) with (mkSI a b [] TDEFAULT [] :: init_infos (b :: rest)).
  change (length (mkSI a b [] TDEFAULT [] :: init_infos (b :: rest))) with (S (length (init_infos (b :: rest)))).
  rewrite IH. reflexivity.
Qed.

Definition seg_of (i : Z) (s : seginfo) : seg :=
  let '(to, aw) := clean_to (si_to s) in mkSeg i (si_start s) (si_end s) to aw (si_type s).

Lemma finish_segs_nth : forall infos i0 j,
  nth_error (finish_segs i0 infos) j = option_map (seg_of (i0 + Z.of_nat j)) (nth_error infos j).
Proof.
  induction infos as [|s infos IH]; intros i0 j; [destruct j; reflexivity|].
  unfold finish_segs; fold finish_segs.
  destruct j as [|j].
  - cbn [nth_error option_map]. unfold seg_of. replace (i0 + Z.of_nat 0) with i0 by lia.
    destruct (clean_to (si_to s)) as [to aw]. reflexivity.
  - destruct (clean_to (si_to s)) as [to aw]. cbn [nth_error]. rewrite IH.
    replace (i0 + 1 + Z.of_nat j) with (i0 + Z.of_nat (S j)) by lia. reflexivity.
Qed.

Lemma finish_segs_length : forall infos i0, length (finish_segs i0 infos) = length infos.
Proof.
  induction infos as [|s infos IH]; intros i0; [reflexivity|].
  unfold finish_segs; fold finish_segs. destruct (clean_to (si_to s)) as [to aw].
  cbn [length]. rewrite IH. reflexivity.
Qed.

(* clean_to on the destination lists that occur *)
Ltac eqbs := repeat (match goal with
                     | |- context [?a =? ?b] => destruct (Z.eqb_spec a b); try (unfold END in *; lia); cbn -[Z.eqb Z.leb]
                     | |- context [?a <=? ?b] => destruct (Z.leb_spec a b); try (unfold END in *; lia); cbn -[Z.eqb Z.leb]
                     end).

Lemma clean1 x : 0 <= x -> clean_to [RPlain x] = ([x], []).
Proof. intros H. unfold clean_to. cbn -[Z.eqb Z.leb]. eqbs. reflexivity. Qed.

Lemma cleanE : clean_to [RPlain END] = ([END], []).
Proof. reflexivity. Qed.

Lemma clean2 x y : 0 <= y -> x = y + 1 -> clean_to [RPlain x; RPlain y] = ([y; x], []).
Proof. intros H ->. unfold clean_to. cbn -[Z.eqb Z.leb]. eqbs. reflexivity. Qed.

Lemma clean2E y : 0 <= y -> clean_to [RPlain END; RPlain y; RPlain END] = ([y; END], []).
Proof. intros H. unfold clean_to. cbn -[Z.eqb Z.leb]. eqbs. reflexivity. Qed.

Lemma clean3 x y : 0 <= y -> x = y + 1 -> clean_to [RPlain x; RPlain y; RPlain x] = ([y; x], []).
Proof. intros H ->. unfold clean_to. cbn -[Z.eqb Z.leb]. eqbs. reflexivity. Qed.

Lemma zlookup_none {A} k (d : list (Z * A)) : (forall e, In e d -> fst e <> k) -> zlookup k d = None.
Proof.
  induction d as [|[k' v] d IH]; intros H; simpl; [reflexivity|].
  destruct (Z.eqb_spec k k'); [exfalso; apply (H (k', v)); [left; auto|simpl; auto]|].
  apply IH. intros e He. apply H. right; auto.
Qed.

Lemma raw_end T se : flat_map (raw1 T se) [(BEND, pnone)] = [RPlain (id_at T se)].
Proof. reflexivity. Qed.
Lemma raw_start T se r : flat_map (raw1 T se) [(BRS, pl r)] = [RPlain (id_at T se)].
Proof. reflexivity. Qed.
Lemma raw_rep T se r : flat_map (raw1 T se) [(BRE, pl r)] = [RPlain (id_at T se); RPlain (id_at T (fst r))].
Proof. reflexivity. Qed.
Lemma raw_rep_end T se r :
  flat_map (raw1 T se) [(BRE, pl r); (BEND, pnone)] = [RPlain (id_at T se); RPlain (id_at T (fst r)); RPlain (id_at T se)].
Proof. reflexivity. Qed.
Lemma raw_rep_start T se r r' :
  flat_map (raw1 T se) [(BRE, pl r); (BRS, pl r')] = [RPlain (id_at T se); RPlain (id_at T (fst r)); RPlain (id_at T se)].
Proof. reflexivity. Qed.

Lemma disjoint_pairwise : forall l lo n r r', disjoint_from lo n l -> In r l -> In r' l ->
  r = r' \/ snd r <= fst r' \/ snd r' <= fst r.
Proof.
  induction l as [|[a0 b0] l IH]; intros lo n r r' H Hr Hr'; [destruct Hr|].
  simpl in H. destruct H as (H1 & H2 & H3 & H4).
  destruct Hr as [<-|Hr]; destruct Hr' as [<-|Hr'].
  - left; auto.
  - pose proof (disjoint_bounds _ _ _ _ H4 Hr'). simpl. right; left; lia.
  - pose proof (disjoint_bounds _ _ _ _ H4 Hr). simpl. right; right; lia.
  - eapply IH; eauto.
Qed.

(* ------------------------------------------------------------------ *)
Section Reps.
Variables (first last : Z) (reps : list (Z * Z)).
Hypothesis Hd : disjoint_from first last reps.
Hypothesis Hfl : first < last.

Let m := rmarks first last reps.
Let b := boundaries m.
Let T := zsort (map fst b).

Lemma T_In x : In x T <-> x = first \/ x = last \/ exists r, In r reps /\ (x = fst r \/ x = snd r).
Proof.
  unfold T. rewrite zsort_In. unfold b, m. rewrite boundaries_reps, !bset_keys_In, keys_fold. simpl. tauto.
Qed.

Lemma T_incr : incr T.
Proof.
  unfold T. apply zsort_incr. unfold b, m. rewrite boundaries_reps.
  apply bset_keys_NoDup, bset_keys_NoDup, keys_fold_NoDup. constructor.
Qed.

Lemma T_range x : In x T -> first <= x <= last.
Proof.
  intros H. apply T_In in H as [->|[->|(r & Hr & Hx)]]; [lia|lia|].
  pose proof (disjoint_bounds _ _ _ _ Hd Hr). destruct Hx; subst; lia.
Qed.

Lemma T_first : nth_error T 0 = Some first.
Proof.
  assert (Hin : In first T) by (apply T_In; auto).
  destruct T as [|x0 l] eqn:E; [destruct Hin|]. simpl. f_equal.
  assert (H0 : In x0 T) by (rewrite E; left; auto).
  pose proof (T_range x0 H0). destruct Hin as [->|Hin]; [reflexivity|].
  pose proof T_incr as Hi. rewrite E in Hi. pose proof (incr_lt x0 l Hi first Hin). lia.
Qed.

(* the last boundary is the last element *)
Lemma T_last j : nth_error T j = Some last <-> S j = length T.
Proof.
  assert (Hin : In last T) by (apply T_In; auto).
  apply In_nth_error in Hin as (k & Hk).
  assert (Hk' : S k = length T).
  { pose proof (nth_error_Some T k) as Hs. rewrite Hk in Hs.
    assert (Hlt : (k < length T)%nat) by (apply Hs; discriminate).
    destruct (Nat.eq_dec (S k) (length T)) as [|Hne]; [auto|].
    assert (Hk1 : (S k < length T)%nat) by lia.
    apply nth_error_Some in Hk1. destruct (nth_error T (S k)) as [y|] eqn:Ey; [|congruence].
    pose proof (incr_nth_lt T T_incr k (S k) last y (Nat.lt_succ_diag_r k) Hk Ey).
    pose proof (T_range y (nth_error_In _ _ Ey)). lia. }
  split.
  - intros Hj. destruct (Nat.lt_trichotomy j k) as [Hl|[->|Hl]]; [|auto|].
    + pose proof (incr_nth_lt T T_incr j k last last Hl Hj Hk). lia.
    + pose proof (incr_nth_lt T T_incr k j last last Hl Hk Hj). lia.
  - intros Hj. assert (j = k) by lia. subst. exact Hk.
Qed.

Lemma T_length : (2 <= length T)%nat.
Proof.
  pose proof T_first as H0. destruct T as [|x0 [|x1 l]] eqn:E; simpl; try lia.
  - discriminate.
  - simpl in H0. injection H0 as ->. pose proof (proj2 (T_last 0)) as H. rewrite E in H. simpl in H.
    specialize (H eq_refl). injection H as H. lia.
Qed.

Lemma id_at_nth k x : nth_error T k = Some x ->
  id_at T x = if Z.of_nat k =? Z.of_nat (length T) - 1 then END else Z.of_nat k.
Proof. intros H. unfold id_at. rewrite (incr_index_of T T_incr k x H). reflexivity. Qed.

(* the dictionary at a boundary other than the first *)
Lemma dict_at se : se <> first ->
  bget se b = rents se reps ++ (if se =? last then [(BEND, pnone)] else []).
Proof.
  intros Hne. unfold b, m. rewrite boundaries_reps, !bget_bset.
  destruct (Z.eqb_spec se first); [congruence|].
  rewrite bget_fold. change (bget se []) with (@nil (Z * payload)).
  rewrite (dstep_closed reps first last se [] Hd eq_refl eq_refl). simpl app.
  destruct (Z.eqb_spec se last); [|rewrite app_nil_r; reflexivity].
  apply kset_app. unfold has. apply not_true_is_false. intros Hc.
  apply existsb_exists in Hc as (en & He & Hk). apply Z.eqb_eq in Hk.
  destruct (rents_keys _ _ _ He) as [H|H]; rewrite H in Hk; discriminate.
Qed.

Lemma dict_ok se : se <> first -> Forall okkey (bget se b) /\ bhas se BVE b = false.
Proof.
  intros Hne. split.
  - rewrite dict_at by auto. apply Forall_forall. intros e He. apply in_app_or in He as [He|He].
    + destruct (rents_keys _ _ _ He); unfold okkey; auto.
    + destruct (se =? last); [|destruct He]. destruct He as [<-|[]]. unfold okkey; auto.
  - unfold bhas. rewrite dict_at by auto. rewrite zlookup_none; [reflexivity|].
    intros e He. apply in_app_or in He as [He|He].
    + destruct (rents_keys _ _ _ He) as [H|H]; rewrite H; discriminate.
    + destruct (se =? last); [|destruct He]. destruct He as [<-|[]]. discriminate.
Qed.

(* no boundary lies strictly inside a repeat *)
Lemma pairwise r r' : In r reps -> In r' reps -> r = r' \/ snd r <= fst r' \/ snd r' <= fst r.
Proof. apply (disjoint_pairwise _ _ _ r r' Hd). Qed.

Lemma not_inside x r : In x T -> In r reps -> x <= fst r \/ snd r <= x.
Proof.
  intros Hx Hr. pose proof (disjoint_bounds _ _ _ _ Hd Hr) as Hb.
  apply T_In in Hx as [->|[->|(r' & Hr' & Hx)]]; [lia|lia|].
  pose proof (disjoint_bounds _ _ _ _ Hd Hr') as Hb'.
  destruct (pairwise r r' Hr Hr') as [<-|[H|H]]; destruct Hx; subst; lia.
Qed.

Definition G := make_segments m.

Lemma G_nth j : nth_error G j =
  match nth_error T j, nth_error T (S j) with
  | Some ss, Some se =>
      Some (seg_of (Z.of_nat j)
              (fin j (mkSI ss se (flat_map (raw1 T se) (bget se b)) TDEFAULT [])))
  | _, _ => None
  end.
Proof.
  unfold G, make_segments. fold b. fold T. rewrite finish_segs_nth. simpl Z.add.
  rewrite loop_nth.
  - simpl Nat.ltb. rewrite Nat.sub_0_r. simpl ss_infos.
    destruct (nth_error T (S j)) as [se|] eqn:E1.
    + assert (Hj : (j < length T)%nat).
      { assert (S j < length T)%nat by (apply nth_error_Some; congruence). lia. }
      apply nth_error_Some in Hj. destruct (nth_error T j) as [ss|] eqn:E0; [|congruence].
      rewrite (init_infos_nth T j ss se E0 E1). simpl. reflexivity.
    + assert (Hn : nth_error (init_infos T) j = None).
      { apply nth_error_None. rewrite init_infos_length. apply nth_error_None in E1. lia. }
      rewrite Hn. destruct (nth_error T j); reflexivity.
  - intros k se Hk. apply dict_ok. intro Heq. subst se.
    pose proof (incr_nth_lt T T_incr 0 (S k) first first (Nat.lt_0_succ k) T_first Hk). lia.
Qed.

Lemma G_length : S (length G) = length T.
Proof.
  pose proof T_length.
  destruct (Nat.lt_trichotomy (S (length G)) (length T)) as [Hl|[He|Hl]]; [|exact He|].
  - (* G too short: position length G exists *)
    assert (Hn : nth_error G (length G) = None) by (apply nth_error_None; lia).
    rewrite G_nth in Hn.
    assert (H1 : (length G < length T)%nat) by lia. apply nth_error_Some in H1.
    assert (H2 : (S (length G) < length T)%nat) by lia. apply nth_error_Some in H2.
    destruct (nth_error T (length G)); [|congruence]. destruct (nth_error T (S (length G))); [discriminate|congruence].
  - assert (Hn : (length G - 1 < length G)%nat) by lia. apply nth_error_Some in Hn.
    rewrite G_nth in Hn.
    assert (H2 : nth_error T (S (length G - 1)) = None) by (apply nth_error_None; lia).
    rewrite H2 in Hn. destruct (nth_error T (length G - 1)); congruence.
Qed.

Lemma pred_of_end j ss se r : nth_error T j = Some ss -> nth_error T (S j) = Some se ->
  In r reps -> snd r = se -> fst r = ss.
Proof.
  intros Hs He Hr Hse. pose proof (disjoint_bounds _ _ _ _ Hd Hr) as Hb.
  assert (Hin : In (fst r) T) by (apply T_In; right; right; exists r; auto).
  apply In_nth_error in Hin as (k & Hk).
  pose proof (incr_nth_lt T T_incr j (S j) ss se (Nat.lt_succ_diag_r j) Hs He) as Hlt.
  destruct (Nat.lt_trichotomy k j) as [Hl|[->|Hl]].
  - pose proof (incr_nth_lt T T_incr k j _ _ Hl Hk Hs).
    destruct (not_inside ss r (nth_error_In _ _ Hs) Hr); lia.
  - congruence.
  - destruct (Nat.eq_dec k (S j)) as [->|Hne].
    + rewrite He in Hk. injection Hk as Hk. lia.
    + assert (Hl2 : (S j < k)%nat) by lia. pose proof (incr_nth_lt T T_incr (S j) k _ _ Hl2 He Hk). lia.
Qed.

Lemma simpleb_intro n j ss se to ty :
  (ty = TDEFAULT \/ ty = TLEAP_END) -> (to = [j; nxtb n j] \/ to = [nxtb n j]) ->
  seg_simpleb n j (mkSeg j ss se to [] ty) = true.
Proof.
  intros Hty Hto. unfold seg_simpleb. simpl. rewrite Z.eqb_refl. simpl.
  assert (Ht : negb (ty =? TLEAP_START) = true) by (destruct Hty as [-> | ->]; reflexivity).
  rewrite Ht. simpl. destruct Hto as [-> | ->].
  - assert (E : zlist_eqb [j; nxtb n j] [j; nxtb n j] = true) by (unfold zlist_eqb; simpl; rewrite !Z.eqb_refl; reflexivity).
    rewrite E. reflexivity.
  - assert (E : zlist_eqb [nxtb n j] [nxtb n j] = true) by (unfold zlist_eqb; simpl; rewrite !Z.eqb_refl; reflexivity).
    rewrite E. apply orb_true_r.
Qed.

Definition ends_rep (x : Z) : bool := existsb (fun r => snd r =? x) reps.

Lemma ends_rep_true x : ends_rep x = true <-> exists r, In r reps /\ snd r = x.
Proof.
  unfold ends_rep. rewrite existsb_exists. split; intros (r & H1 & H2); exists r; split; auto; apply Z.eqb_eq; auto.
Qed.

(* segment j of the table: simple, flagged exactly when a repeat ends at its end, and then it is that
   repeated section *)
Lemma G_seg j s : nth_error G j = Some s ->
  seg_simpleb (Z.of_nat (length G)) (Z.of_nat j) s = true /\
  (length (s_to s) =? 2)%nat = ends_rep (s_end s) /\
  nth_error T (S j) = Some (s_end s) /\
  (forall r, In r reps -> snd r = s_end s -> s_start s = fst r).
Proof.
  intros H. rewrite G_nth in H.
  destruct (nth_error T j) as [ss|] eqn:Es; [|discriminate].
  destruct (nth_error T (S j)) as [se|] eqn:Ee; [|discriminate].
  injection H as <-.
  pose proof (incr_nth_lt T T_incr j (S j) ss se (Nat.lt_succ_diag_r j) Es Ee) as Hlt.
  pose proof (T_range ss (nth_error_In _ _ Es)) as Hrs.
  assert (Hnf : se <> first) by lia.
  pose proof G_length as HG.
  assert (HSj : (S j < length T)%nat) by (apply nth_error_Some; congruence).
  (* the id of the following segment *)
  assert (Hidse : id_at T se = nxtb (Z.of_nat (length G)) (Z.of_nat j)).
  { rewrite (id_at_nth (S j) se Ee). unfold nxtb.
    replace (Z.of_nat (length T) - 1) with (Z.of_nat (length G)) by lia.
    replace (Z.of_nat (S j)) with (Z.of_nat j + 1) by lia. reflexivity. }
  assert (Hlast : se = last <-> Z.of_nat j + 1 = Z.of_nat (length G)).
  { split; intros E.
    - subst se. apply T_last in Ee. lia.
    - assert (E' : S (S j) = length T) by lia. apply T_last in E'. congruence. }
  assert (Hty : forall raw, exists ty, (ty = TDEFAULT \/ ty = TLEAP_END) /\
             fin j (mkSI ss se raw TDEFAULT []) = mkSI ss se raw ty []).
  { intros raw. unfold fin. destruct (Nat.eqb j 0); [exists TLEAP_END|exists TDEFAULT]; split; auto. }
  rewrite (dict_at se Hnf).
  assert (Hj0 : 0 <= Z.of_nat j) by lia.
  destruct (rents_cases reps first last se Hd) as [(E & F)|[(r & Hr & E1 & E2 & F)|(r & Hr & E1 & E2)]].
  - (* nothing of a repeat here: the end of the part *)
    assert (Hl : se = last).
    { pose proof (nth_error_In _ _ Ee) as Hin. apply T_In in Hin as [->|[->|(r & Hr & Hx)]]; [congruence|auto|].
      destruct (rents_empty reps first last se r Hd E Hr). destruct Hx; congruence. }
    rewrite E. destruct (Z.eqb_spec se last); [|congruence]. cbn [app]. rewrite raw_end.
    destruct (Hty [RPlain (id_at T se)]) as (ty & Hty1 & ->).
    assert (Hn : nxtb (Z.of_nat (length G)) (Z.of_nat j) = END).
    { unfold nxtb. destruct (Z.eqb_spec (Z.of_nat j + 1) (Z.of_nat (length G))); [reflexivity|]. apply Hlast in Hl. lia. }
    unfold seg_of. cbn [si_to si_start si_end si_type]. rewrite Hidse, Hn, cleanE.
    split; [apply simpleb_intro; [auto|right; rewrite Hn; reflexivity]|].
    split; [|split; [reflexivity|]].
    + simpl. symmetry. apply not_true_is_false. intros Hc. apply ends_rep_true in Hc as (r & Hr & Hx).
      exact (F r Hr Hx).
    + intros r Hr Hx. simpl in Hx. exfalso. exact (F r Hr Hx).
  - (* a repeat starts here *)
    pose proof (disjoint_bounds _ _ _ _ Hd Hr) as Hb.
    rewrite E2. destruct (Z.eqb_spec se last); [lia|]. cbn [app]. rewrite raw_start.
    destruct (Hty [RPlain (id_at T se)]) as (ty & Hty1 & ->).
    assert (Hn : nxtb (Z.of_nat (length G)) (Z.of_nat j) = Z.of_nat j + 1).
    { unfold nxtb. destruct (Z.eqb_spec (Z.of_nat j + 1) (Z.of_nat (length G))) as [Hq|]; [|reflexivity].
      apply Hlast in Hq. lia. }
    unfold seg_of. cbn [si_to si_start si_end si_type]. rewrite Hidse, Hn, clean1 by lia.
    split; [apply simpleb_intro; [auto|right; rewrite Hn; reflexivity]|].
    split; [|split; [reflexivity|]].
    + simpl. symmetry. apply not_true_is_false. intros Hc. apply ends_rep_true in Hc as (r' & Hr' & Hx).
      exact (F r' Hr' Hx).
    + intros r' Hr' Hx. simpl in Hx. exfalso. exact (F r' Hr' Hx).
  - (* a repeat ends here: the segment is the repeated section *)
    pose proof (disjoint_bounds _ _ _ _ Hd Hr) as Hb.
    pose proof (pred_of_end j ss se r Es Ee Hr E1) as Hss.
    assert (Hidss : id_at T (fst r) = Z.of_nat j).
    { rewrite Hss. rewrite (id_at_nth j ss Es). destruct (Z.eqb_spec (Z.of_nat j) (Z.of_nat (length T) - 1)); [lia|reflexivity]. }
    assert (Hflag : ends_rep se = true) by (apply ends_rep_true; exists r; auto).
    assert (Hsame : forall r0, In r0 reps -> snd r0 = se -> ss = fst r0).
    { intros r0 Hr0 Hx. symmetry. eapply pred_of_end; eauto. }
    destruct E2 as [E2|(r' & Hr' & E3 & E4)].
    + rewrite E2.
      destruct (Z.eqb_spec se last) as [Hl|Hl].
      * (* ... and the part ends *)
        cbn [app]. rewrite raw_rep_end.
        destruct (Hty [RPlain (id_at T se); RPlain (id_at T (fst r)); RPlain (id_at T se)]) as (ty & Hty1 & ->).
        assert (Hn : nxtb (Z.of_nat (length G)) (Z.of_nat j) = END).
        { unfold nxtb. destruct (Z.eqb_spec (Z.of_nat j + 1) (Z.of_nat (length G))); [reflexivity|]. apply Hlast in Hl. lia. }
        unfold seg_of. cbn [si_to si_start si_end si_type]. rewrite Hidse, Hn, Hidss, clean2E by lia.
        split; [apply simpleb_intro; [auto|left; rewrite Hn; reflexivity]|].
        split; [simpl; rewrite Hflag; reflexivity|split; [reflexivity|]]. simpl. auto.
      * cbn [app]. rewrite raw_rep.
        destruct (Hty [RPlain (id_at T se); RPlain (id_at T (fst r))]) as (ty & Hty1 & ->).
        assert (Hn : nxtb (Z.of_nat (length G)) (Z.of_nat j) = Z.of_nat j + 1).
        { unfold nxtb. destruct (Z.eqb_spec (Z.of_nat j + 1) (Z.of_nat (length G))) as [Hq|]; [|reflexivity].
          apply Hlast in Hq. congruence. }
        unfold seg_of. cbn [si_to si_start si_end si_type]. rewrite Hidse, Hn, Hidss, (clean2 _ (Z.of_nat j)) by lia.
        split; [apply simpleb_intro; [auto|left; rewrite Hn; reflexivity]|].
        split; [simpl; rewrite Hflag; reflexivity|split; [reflexivity|]]. simpl. auto.
    + (* ... and the next repeat starts *)
      pose proof (disjoint_bounds _ _ _ _ Hd Hr') as Hb'.
      rewrite E4. destruct (Z.eqb_spec se last); [lia|]. cbn [app]. rewrite raw_rep_start.
      destruct (Hty [RPlain (id_at T se); RPlain (id_at T (fst r)); RPlain (id_at T se)]) as (ty & Hty1 & ->).
      assert (Hn : nxtb (Z.of_nat (length G)) (Z.of_nat j) = Z.of_nat j + 1).
      { unfold nxtb. destruct (Z.eqb_spec (Z.of_nat j + 1) (Z.of_nat (length G))) as [Hq|]; [|reflexivity].
        apply Hlast in Hq. lia. }
      unfold seg_of. cbn [si_to si_start si_end si_type]. rewrite Hidse, Hn, Hidss, (clean3 _ (Z.of_nat j)) by lia.
      split; [apply simpleb_intro; [auto|left; rewrite Hn; reflexivity]|].
      split; [simpl; rewrite Hflag; reflexivity|split; [reflexivity|]]. simpl. auto.
Qed.

Lemma G_simple : simple_tableb G = true.
Proof.
  unfold simple_tableb. pose proof G_length. pose proof T_length.
  apply andb_true_iff. split.
  - destruct (length G) eqn:E; [lia|reflexivity].
  - assert (Hgen : forall g i0 n, (forall j s, nth_error g j = Some s -> seg_simpleb n (i0 + Z.of_nat j) s = true) ->
                                  segs_simpleb n i0 g = true).
    { induction g as [|x g IH]; intros i0 n Hn; [reflexivity|]. simpl. apply andb_true_iff. split.
      - specialize (Hn O x eq_refl). replace (i0 + Z.of_nat 0) with i0 in Hn by lia. exact Hn.
      - apply IH. intros j s Hs. specialize (Hn (S j) s Hs).
        replace (i0 + Z.of_nat (S j)) with (i0 + 1 + Z.of_nat j) in Hn by lia. exact Hn. }
    apply Hgen. intros j s Hs. simpl. apply G_seg. exact Hs.
Qed.

Lemma nth_error_eq_ext {A} : forall (l1 l2 : list A), (forall j, nth_error l1 j = nth_error l2 j) -> l1 = l2.
Proof.
  induction l1 as [|x l1 IH]; intros [|y l2] H; auto.
  - specialize (H O). discriminate.
  - specialize (H O). discriminate.
  - pose proof (H O) as H0. simpl in H0. injection H0 as ->. f_equal. apply IH. intros j. apply (H (S j)).
Qed.

Lemma nth_error_tl {A} (l : list A) j : nth_error (tl l) j = nth_error l (S j).
Proof. destruct l; [destruct j; reflexivity|reflexivity]. Qed.

Lemma G_flags : flags_of G = map ends_rep (tl T).
Proof.
  apply nth_error_eq_ext. intros j. unfold flags_of. rewrite !nth_error_map, nth_error_tl.
  destruct (nth_error G j) as [s|] eqn:E.
  - destruct (G_seg j s E) as (_ & Hf & Ht & _). rewrite Ht. simpl. rewrite Hf. reflexivity.
  - apply nth_error_None in E. pose proof G_length.
    assert (Hn : nth_error T (S j) = None) by (apply nth_error_None; lia). rewrite Hn. reflexivity.
Qed.

End Reps.

Lemma zmem_In_r x l : zmem x l = true -> In x l.
Proof.
  induction l as [|a l IH]; simpl; [discriminate|]. intros H. apply orb_true_iff in H as [H|H].
  - apply Z.eqb_eq in H. left; auto.
  - right; auto.
Qed.

(* counting: of a strictly increasing list, exactly the elements of a strictly increasing sublist *)
Lemma count_incr : forall L E, incr L -> incr E -> (forall e, In e E -> In e L) ->
  length (filter (fun x => zmem x E) L) = length E.
Proof.
  induction L as [|x L IH]; intros E HL HE Hsub.
  - destruct E as [|e E]; [reflexivity|]. destruct (Hsub e (or_introl eq_refl)).
  - destruct E as [|e E].
    + simpl. apply (IH [] (incr_tail _ _ HL) I). intros e [].
    + assert (Hxe : x <= e).
      { destruct (Hsub e (or_introl eq_refl)) as [->|Hin]; [lia|]. pose proof (incr_lt x L HL e Hin). lia. }
      simpl. destruct (Z.eqb_spec x e) as [->|Hne].
      * simpl. f_equal.
        rewrite (filter_ext_in _ (fun y => zmem y E)).
        -- apply IH; [eapply incr_tail; eauto|eapply incr_tail; eauto|].
           intros e' He'. destruct (Hsub e' (or_intror He')) as [Heq|Hin]; [|exact Hin].
           pose proof (incr_lt e E HE e' He'). lia.
        -- intros y Hy. simpl. pose proof (incr_lt e L HL y Hy). destruct (Z.eqb_spec y e); [lia|reflexivity].
      * assert (Hnot : zmem x E = false).
        { apply not_true_is_false. intros Hc. apply zmem_In_r in Hc. pose proof (incr_lt e E HE x Hc). lia. }
        rewrite Hnot. simpl.
        apply (IH (e :: E) (incr_tail _ _ HL) HE).
        intros e' He'. destruct (Hsub e' He') as [Heq|Hin]; [|exact Hin].
        destruct He' as [He'|He']; [lia|]. pose proof (incr_lt e E HE e' He'). lia.
Qed.

Lemma ends_incr : forall reps lo n, disjoint_from lo n reps -> incr (map snd reps) /\ forall e, In e (map snd reps) -> lo < e.
Proof.
  induction reps as [|[a b] reps IH]; intros lo n H; simpl; [split; [auto|intros e []]|].
  simpl in H. destruct H as (H1 & H2 & H3 & H4). destruct (IH b n H4) as [Hi Hlt]. split.
  - apply incr_cons; [auto|]. intros y Hy. apply Hlt. exact Hy.
  - intros e [<-|He]; [lia|]. specialize (Hlt e He). lia.
Qed.

Lemma filter_map_id (f : Z -> bool) l : length (filter (fun b => b) (map f l)) = length (filter f l).
Proof. induction l as [|x l IH]; simpl; [reflexivity|]. destruct (f x); simpl; rewrite IH; reflexivity. Qed.

Lemma ends_rep_zmem reps x : ends_rep reps x = zmem x (map snd reps).
Proof.
  unfold ends_rep. induction reps as [|r l IH]; simpl; [reflexivity|]. rewrite IH, Z.eqb_sym. reflexivity.
Qed.

Lemma bset_keys_len t k v b : (length (map fst (bset t k v b)) <= S (length (map fst b)))%nat.
Proof. induction b as [|[t0 d] b IH]; simpl; [lia|]. destruct (t =? t0); simpl; lia. Qed.

Lemma fold_keys_len reps : forall b,
  (length (map fst (fold_left addrep reps b)) <= length (map fst b) + 2 * length reps)%nat.
Proof.
  induction reps as [|r l IH]; intros b; simpl; [lia|]. specialize (IH (addrep b r)).
  assert (H : (length (map fst (addrep b r)) <= S (S (length (map fst b))))%nat).
  { unfold addrep. pose proof (bset_keys_len (snd r) BRE (pl r) (bset (fst r) BRS (pl r) b)).
    pose proof (bset_keys_len (fst r) BRS (pl r) b). lia. }
  lia.
Qed.

Lemma zinsert_length x l : length (zinsert x l) = S (length l).
Proof. induction l as [|a l IH]; simpl; [reflexivity|]. destruct (x <=? a); simpl; lia. Qed.

Lemma zsort_length l : length (zsort l) = length l.
Proof.
  induction l as [|a l IH]; [reflexivity|]. change (zsort (a :: l)) with (zinsert a (zsort l)).
  rewrite zinsert_length, IH. reflexivity.
Qed.

(* ------------------------------------------------------------------ *)
(* the table of a part with r independent simple repeats, ALL such parts *)
Theorem simple_repeats_table_unbounded_lemma : forall first last reps,
  disjoint_from first last reps -> first < last ->
  let g := make_segments (mkMarks first last reps [] [] [] [] [] [] []) in
  let bs := flags_of g in
  simple_table g bs /\ bs <> [] /\ nrep bs = length reps /\
  (length g <= 2 * length reps + 1)%nat /\
  (forall r, In r reps -> exists i s, nth_error g i = Some s /\ nth i bs false = true /\
                                      s_start s = fst r /\ s_end s = snd r).
Proof.
  intros first last reps Hd Hfl g bs.
  pose proof (G_simple first last reps Hd Hfl) as Hs. fold (rmarks first last reps) in g. change (G first last reps) with g in Hs.
  destruct (simple_tableb_sound g Hs) as [HT Hne]. fold bs in HT, Hne.
  set (T := zsort (map fst (boundaries (rmarks first last reps)))).
  pose proof (G_flags first last reps Hd Hfl) as Hfl2. change (G first last reps) with g in Hfl2. fold T in Hfl2. fold bs in Hfl2.
  pose proof (T_first first last reps Hd Hfl) as HT0. fold T in HT0.
  pose proof (T_incr first last reps) as HTi. fold T in HTi.
  pose proof (G_length first last reps Hd Hfl) as HGl. change (G first last reps) with g in HGl. fold T in HGl.
  destruct (ends_incr reps first last Hd) as [HEi HElt].
  assert (Hsub : forall e, In e (map snd reps) -> In e (tl T)).
  { intros e He. assert (Hin : In e T).
    { apply (T_In first last reps). apply in_map_iff in He as (r & <- & Hr). right; right; exists r; auto. }
    specialize (HElt e He). destruct T as [|x0 l]; [destruct Hin|]. simpl in HT0. injection HT0 as ->.
    destruct Hin as [<-|Hin]; [lia|exact Hin]. }
  assert (Hcount : nrep bs = length reps).
  { unfold nrep. rewrite Hfl2, filter_map_id.
    rewrite (filter_ext _ (fun x => zmem x (map snd reps))) by (intros x; apply ends_rep_zmem).
    rewrite count_incr; [apply map_length| |exact HEi|exact Hsub].
    destruct T as [|x0 l]; [exact I|]. simpl. eapply incr_tail; eauto. }
  split; [exact HT|]. split; [exact Hne|]. split; [exact Hcount|]. split.
  - (* every boundary other than the first is the start or the end of a repeat, or the last time *)
    assert (Hlen : (length T <= 2 * length reps + 2)%nat).
    { unfold T. rewrite zsort_length, boundaries_reps.
      pose proof (bset_keys_len first BSTART pnone (bset last BEND pnone (fold_left addrep reps []))).
      pose proof (bset_keys_len last BEND pnone (fold_left addrep reps [])).
      pose proof (fold_keys_len reps []). simpl in *. lia. }
    lia.
  - intros r Hr. pose proof (disjoint_bounds _ _ _ _ Hd Hr) as Hb.
    assert (Hin : In (snd r) (tl T)) by (apply Hsub; apply in_map; exact Hr).
    apply In_nth_error in Hin as (j & Hj). rewrite nth_error_tl in Hj.
    assert (Hjl : (j < length g)%nat).
    { assert (S j < length T)%nat by (apply nth_error_Some; congruence). lia. }
    apply nth_error_Some in Hjl. destruct (nth_error g j) as [s|] eqn:Eg; [|congruence].
    destruct (G_seg first last reps Hd Hfl j s Eg) as (_ & Hf & Ht & Hst). fold T in Ht.
    assert (Hse : s_end s = snd r) by congruence.
    exists j, s. split; [exact Eg|]. split; [|split; [|exact Hse]].
    + assert (Hnb : nth_error bs j = Some (length (s_to s) =? 2)%nat).
      { unfold bs, flags_of. rewrite nth_error_map, Eg. reflexivity. }
      rewrite (nth_error_nth _ _ _ Hnb). rewrite Hf, Hse. apply (ends_rep_true reps). exists r. auto.
    + apply Hst; auto.
Qed.

(* ... hence, for ALL parts whose only marks are r independent simple repeats (any times, adjacent
   repeats, repeats from the first / up to the last time point included): 2^r distinct variants, the
   maximal policy plays every repeated section twice, the minimal one once *)
Theorem simple_repeats_unbounded_lemma : forall first last reps ign fuel,
  disjoint_from first last reps -> first < last -> (4 * length reps + 3 <= fuel)%nat ->
  let g := make_segments (mkMarks first last reps [] [] [] [] [] [] []) in
  let bs := flags_of g in
  nrep bs = length reps /\
  (exists ps, get_paths fuel g false false ign = Some ps /\ length ps = Nat.pow 2 (length reps) /\ NoDup ps) /\
  get_paths fuel g false true ign = Some [maxsfx 0 bs] /\
  get_paths fuel g true false ign = Some [minsfx 0 bs].
Proof.
  intros first last reps ign fuel Hd Hfl Hfuel g bs.
  destruct (simple_repeats_table_unbounded_lemma first last reps Hd Hfl) as (HT & Hne & Hc & Hlen & _).
  fold g in HT, Hne, Hc, Hlen. fold bs in HT, Hne, Hc.
  assert (Hf : (2 * length bs + 1 <= fuel)%nat).
  { unfold bs, flags_of. rewrite map_length. lia. }
  split; [exact Hc|]. split; [|split].
  - destruct (count_simple g bs ign fuel HT Hne Hf) as (ps & H1 & H2 & H3).
    exists ps. rewrite Hc in H2. auto.
  - apply maximal_simple; auto.
  - apply minimal_simple; auto.
Qed.

(* non-vacuity: three repeats at arbitrary times, the first from the first time point, two adjacent,
   the last up to the last time point; the part starts at time 3 *)
Example reps_example :
  let reps := [(3, 10); (10, 17); (25, 40)] in
  disjoint_from 3 40 reps /\
  let g := make_segments (mkMarks 3 40 reps [] [] [] [] [] [] []) in
  flags_of g = [true; true; false; true] /\
  option_map (@length _) (get_paths FUEL g false false true) = Some 8%nat /\
  get_paths FUEL g false true true = Some [[0; 0; 1; 1; 2; 3; 3]].
Proof. cbv zeta. split; [simpl; lia|]. vm_compute. repeat split. Qed.
