(* C17 -- estimate_key's argument handling (Model/C17_KeyApi.v): every accepted profile name resolves. *)
From PV Require Import Lib.Base Gen.C17_KeyTab Model.C17_Key Model.C17_KeyApi Proofs.C17_lib Proofs.C17_Key.
#[local] Open Scope Z_scope.

Lemma smem_In : forall s l, smem s l = true <-> In s l.
Proof.
  intros s l. unfold smem. rewrite existsb_exists. split.
  - intros [x [Hx E]]. apply String.eqb_eq in E. now subst.
  - intros H. exists s. split; auto. apply String.eqb_refl.
Qed.

Definition valid_resolve_b : bool :=
  forallb (fun nm => match ks_profile_of_name nm with Some s => (0 <=? s) && (s <=? 2) | None => false end) valid_key_profiles.

Lemma valid_resolve_true : valid_resolve_b = true.
Proof. vm_compute. reflexivity. Qed.

(* every name estimate_key accepts is a name ks_kid knows (finite: the reflected VALID_KEY_PROFILES) *)
Lemma valid_profiles_resolve : forall nm, In nm valid_key_profiles ->
  exists s, ks_profile_of_name nm = Some s /\ 0 <= s <= 2.
Proof.
  intros nm H. pose proof (forallb_In _ _ valid_resolve_true nm H) as R. cbv beta in R.
  destruct (ks_profile_of_name nm) as [s|]; [|discriminate]. exists s. split; [reflexivity|lia].
Qed.

Lemma default_profile_valid : In "krumhansl_kessler"%string valid_key_profiles.
Proof. apply smem_In. vm_compute. reflexivity. Qed.

(* estimate_key is total on the accepted arguments and returns one of the 24 key names *)
Lemma estimate_key_api_total : forall kp ns,
  (kp = None \/ exists nm, kp = Some nm /\ In nm valid_key_profiles) ->
  exists name, estimate_key_api kp ns = Some name /\ In name key_names.
Proof.
  intros kp ns H. unfold estimate_key_api.
  set (nm := match kp with None => "krumhansl_kessler"%string | Some n => n end).
  assert (V : In nm valid_key_profiles).
  { subst nm. destruct H as [->|[n [-> Hn]]]; [apply default_profile_valid|exact Hn]. }
  pose proof (proj2 (smem_In nm valid_key_profiles) V) as M. rewrite M. cbn [negb].
  destruct (valid_profiles_resolve nm V) as [s [E _]]. rewrite E.
  eexists. split; [reflexivity|]. rewrite estimate_key_fast_eq_lemma. apply key_name_valid_lemma.
Qed.

(* a name that is not in VALID_KEY_PROFILES is refused *)
Lemma estimate_key_api_refuses : forall nm ns, ~ In nm valid_key_profiles -> estimate_key_api (Some nm) ns = None.
Proof.
  intros nm ns H. unfold estimate_key_api.
  destruct (smem nm valid_key_profiles) eqn:M; [apply smem_In in M; contradiction|reflexivity].
Qed.

(* independent of the profile values: an accepted short name gives a result, the default is
   "krumhansl_kessler", an unknown name is refused *)
Lemma key_api_example :
  let ns := [(57, 4); (60, 2); (64, 2); (69, 4)] in
  estimate_key_api (Some "tp"%string) ns <> None /\
  estimate_key_api None ns = estimate_key_api (Some "krumhansl_kessler"%string) ns /\
  estimate_key_api (Some "major"%string) ns = None.
Proof. vm_compute. repeat split; discriminate. Qed.
