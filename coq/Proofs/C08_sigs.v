(* C08 -- proofs about the placement of signatures and measures (Model/C08_sigs.v) *)
From PV Require Import Lib.Base Lib.Round Model.C08 Model.C08_sigs Proofs.C08 Proofs.C08_lines.
From Coq Require Import QArith Qround Qabs Lqa Sorting.Sorted Sorting.Permutation.
#[local] Open Scope Z_scope.

(* ------------------------------------------------------------------ *)
(* measures and signatures at the barline                               *)

Lemma measure_start_roundtrip_lemma ms dpq origin ons m :
  0 < dpq -> (forall m, In m ms -> 0 < m_den m) -> NoDup (map m_num ms) ->
  (exists on, In on ons /\ find_meas ms on None = Some m) ->
  exists b, bar_time (enc_all ms dpq origin ons) (m_num m) = Some b /\
            (b == inject_Z (m_start m - origin) / inject_Z dpq)%Q.
Proof.
  intros Hd Hden ND [on [Hin F]].
  pose proof F as F'. apply find_meas_in in F' as [Hm|C]; [|discriminate].
  apply (bar_time_spec ms dpq origin (enc_all ms dpq origin ons) m ND Hm).
  - apply enc_all_ok; assumption.
  - eexists. split.
    + eapply enc_all_in; [exact Hin|]. unfold enc_sn. rewrite F. reflexivity.
    + reflexivity.
Qed.

Lemma signature_at_barline_lemma ms dpq origin ons t m :
  0 < dpq -> (forall m, In m ms -> 0 < m_den m) -> NoDup (map m_num ms) ->
  find_meas ms t None = Some m ->
  (exists on, In on ons /\ find_meas ms on None = Some m) ->
  exists n b, sig_meas ms t = Some n /\
              bar_time (enc_all ms dpq origin ons) n = Some b /\
              (b == inject_Z (m_start m - origin) / inject_Z dpq)%Q.
Proof.
  intros Hd Hden ND Ft Hn.
  destruct (measure_start_roundtrip_lemma ms dpq origin ons m Hd Hden ND Hn) as [b [Hb Eb]].
  exists (m_num m), b. unfold sig_meas. rewrite Ft. auto.
Qed.

(* ------------------------------------------------------------------ *)
(* position in divisions                                                *)

Lemma bar_time_snapped_map divs l bar :
  bar_time_snapped divs l bar =
  match bar_time l bar with Some b => Some (snap divs b) | None => None end.
Proof.
  induction l as [|s r IH]; simpl; [reflexivity|].
  destruct (s_meas s =? bar); [reflexivity|exact IH].
Qed.

Lemma snap_on_grid divs b k :
  0 < divs -> (b == inject_Z k / inject_Z divs)%Q -> (snap divs b == inject_Z k / inject_Z divs)%Q.
Proof.
  intros Hd E. unfold snap. rewrite (onset_grid_lemma divs b k Hd E). reflexivity.
Qed.

Lemma place_on_grid_lemma divs offset l bar b k o :
  0 < divs -> bar_time l bar = Some b ->
  (b == inject_Z k / inject_Z divs)%Q -> (offset == inject_Z o / inject_Z divs)%Q ->
  place divs offset l bar = Z.max 0 (k - o).
Proof.
  intros Hd Hb Eb Eo. unfold place. rewrite bar_time_snapped_map, Hb.
  f_equal. apply onset_grid_lemma; [assumption|].
  rewrite (snap_on_grid divs b k Hd Eb), Eo, inject_Z_minus.
  pose proof (injZ_nz divs ltac:(lia)). field. assumption.
Qed.

Lemma place_unknown_bar_lemma divs offset l bar :
  bar_time l bar = None -> place divs offset l bar = 0.
Proof. intros H. unfold place. now rewrite bar_time_snapped_map, H. Qed.

(* a complete last measure of [len] divisions of the written part (num/den, dpq per quarter) is
   given its full length in the divisions of the loaded part *)
Lemma closing_complete_lemma divs dpq num den len K :
  0 < dpq -> 0 < den -> len * den = num * 4 * dpq -> K * dpq = len * divs ->
  closing_len divs num den = K.
Proof.
  intros Hq Hden Hlen HK. unfold closing_len.
  assert (E : (inject_Z divs * inject_Z num * 4 / inject_Z den == inject_Z K)%Q).
  { pose proof (injZ_nz den ltac:(lia)) as Hn.
    apply (Qmult_inj_r _ _ (inject_Z den * inject_Z dpq)%Q).
    - pose proof (injZ_nz dpq ltac:(lia)). intros C.
      apply Qmult_integral in C. tauto.
    - transitivity (inject_Z (divs * (num * 4 * dpq))).
      + rewrite !inject_Z_mult. change (inject_Z 4) with 4%Q. field. assumption.
      + rewrite <- Hlen.
        replace (divs * (len * den)) with (K * dpq * den) by (rewrite HK; ring).
        rewrite !inject_Z_mult. ring. }
  rewrite E. apply round_half_even_Z.
Qed.

(* ------------------------------------------------------------------ *)
(* rows of the file -> signatures: first row of every run of equal values *)

Section RowsProofs.
  Context {V : Type} (veqb : V -> V -> bool).
  Hypothesis veqb_eq : forall a b, veqb a b = true <-> a = b.

  Lemma dedup_runs_cons prev (x : row) r :
    dedup_runs veqb prev (x :: r) =
    ((if match prev with Some v => veqb (r_val x) v | None => false end then [] else [x])
       ++ dedup_runs veqb (Some (r_val x)) r)%list.
  Proof.
    simpl. destruct prev as [v|]; [|reflexivity].
    destruct (veqb (r_val x) v) eqn:E; [|reflexivity].
    apply veqb_eq in E. now rewrite E.
  Qed.

  (* the list after a prefix is the list of the prefix, continued with the value in force *)
  Lemma runs_app_lemma prev (l1 l2 : list (@row V)) :
    dedup_runs veqb prev (l1 ++ l2) =
    (dedup_runs veqb prev l1 ++ dedup_runs veqb (last_val prev l1) l2)%list.
  Proof.
    revert prev. induction l1 as [|x r IH]; intros prev; [reflexivity|].
    rewrite <- app_comm_cons, !dedup_runs_cons, IH. cbn [last_val]. now rewrite app_assoc.
  Qed.

  (* a row is kept exactly when its value differs from the value in force before it *)
  Lemma runs_step_lemma prev (l1 : list (@row V)) x l2 :
    dedup_runs veqb prev (l1 ++ x :: l2) =
    (dedup_runs veqb prev l1 ++
     (if match last_val prev l1 with Some v => veqb (r_val x) v | None => false end then [] else [x]) ++
     dedup_runs veqb (Some (r_val x)) l2)%list.
  Proof. now rewrite runs_app_lemma, dedup_runs_cons. Qed.

  (* the value in force at the end is unchanged *)
  Lemma runs_value_in_force_lemma prev (l : list (@row V)) :
    last_val prev (dedup_runs veqb prev l) = last_val prev l.
  Proof.
    revert prev. induction l as [|x r IH]; intros prev; [reflexivity|].
    rewrite dedup_runs_cons. cbn [last_val].
    destruct prev as [v|].
    - destruct (veqb (r_val x) v) eqn:E.
      + apply veqb_eq in E. cbn [app]. rewrite <- E. apply IH.
      + cbn [app last_val]. apply IH.
    - cbn [app last_val]. apply IH.
  Qed.

  Fixpoint alternating (prev : option V) (l : list (@row V)) : Prop :=
    match l with
    | [] => True
    | x :: r => prev <> Some (r_val x) /\ alternating (Some (r_val x)) r
    end.

  Lemma runs_no_repeat_lemma prev (l : list (@row V)) : alternating prev (dedup_runs veqb prev l).
  Proof.
    revert prev. induction l as [|x r IH]; intros prev; [exact I|].
    simpl. destruct prev as [v|].
    - destruct (veqb (r_val x) v) eqn:E; [apply IH|].
      split; [|apply IH]. intros [= C]. subst v.
      assert (veqb (r_val x) (r_val x) = true) by now apply veqb_eq. congruence.
    - split; [discriminate|apply IH].
  Qed.

  Lemma runs_subseq_lemma prev (l : list (@row V)) : subseq (dedup_runs veqb prev l) l.
  Proof.
    revert prev. induction l as [|x r IH]; intros prev; [constructor|].
    simpl. destruct prev as [v|].
    - destruct (veqb (r_val x) v); [apply sub_skip|apply sub_keep]; apply IH.
    - apply sub_keep, IH.
  Qed.

  (* rows without a repetition are all kept *)
  Lemma runs_id_lemma prev (l : list (@row V)) : alternating prev l -> dedup_runs veqb prev l = l.
  Proof.
    revert prev. induction l as [|x r IH]; intros prev H; [reflexivity|].
    destruct H as [H1 H2]. simpl. destruct prev as [v|].
    - destruct (veqb (r_val x) v) eqn:E.
      + apply veqb_eq in E. subst v. now elim H1.
      + f_equal. now apply IH.
    - f_equal. now apply IH.
  Qed.
End RowsProofs.

Lemma zz_eqb_eq a b : zz_eqb a b = true <-> a = b.
Proof.
  destruct a as [a1 a2], b as [b1 b2]. unfold zz_eqb. cbn [fst snd]. split.
  - intros H. apply andb_prop in H. destruct H as [H1 H2].
    apply Z.eqb_eq in H1. apply Z.eqb_eq in H2. now subst.
  - intros [= -> ->]. now rewrite !Z.eqb_refl.
Qed.

(* ------------------------------------------------------------------ *)
(* sort_snotes *)

Definition key_leP (a b : note7) : Prop := key_le (n_key a) (n_key b) = true.

Lemma Qle_bool_total a b : Qle_bool a b = false -> Qle_bool b a = true.
Proof.
  intros H. apply Qle_bool_iff. destruct (Qlt_le_dec b a) as [L|L].
  - apply Qlt_le_weak. exact L.
  - apply Qle_bool_iff in L. congruence.
Qed.

Lemma key_le_total a b : key_le a b = false -> key_le b a = true.
Proof.
  destruct a as [[m1 b1] o1], b as [[m2 b2] o2]. unfold key_le. intros H.
  destruct (m1 <? m2) eqn:E1; [discriminate|]. simpl in H.
  destruct (m1 =? m2) eqn:E2.
  - simpl in H. destruct (b1 <? b2) eqn:E3; [discriminate|]. simpl in H.
    destruct (b1 =? b2) eqn:E4.
    + simpl in H. apply Qle_bool_total in H.
      assert (m2 =? m1 = true) by lia. assert (b2 =? b1 = true) by lia.
      rewrite H0, H1, H. simpl. now rewrite !orb_true_r.
    + assert (b2 <? b1 = true) by lia. assert (m2 =? m1 = true) by lia.
      rewrite H0, H1. simpl. now rewrite orb_true_r.
  - assert (m2 <? m1 = true) by lia. now rewrite H0.
Qed.

Lemma key_le_trans a b c : key_le a b = true -> key_le b c = true -> key_le a c = true.
Proof.
  destruct a as [[m1 b1] o1], b as [[m2 b2] o2], c as [[m3 b3] o3]. unfold key_le.
  intros H1 H2.
  destruct (m1 <? m2) eqn:A1; destruct (m2 <? m3) eqn:A2; simpl in *.
  - assert (m1 <? m3 = true) by lia. now rewrite H.
  - destruct (m2 =? m3) eqn:A3; [|discriminate]. assert (m1 <? m3 = true) by lia. now rewrite H.
  - destruct (m1 =? m2) eqn:A3; [|discriminate]. assert (m1 <? m3 = true) by lia. now rewrite H.
  - destruct (m1 =? m2) eqn:A3; [|discriminate]. destruct (m2 =? m3) eqn:A4; [|discriminate].
    simpl in *. assert (m1 <? m3 = false) by lia. assert (m1 =? m3 = true) by lia. rewrite H, H0. simpl.
    destruct (b1 <? b2) eqn:B1; destruct (b2 <? b3) eqn:B2; simpl in *.
    + assert (b1 <? b3 = true) by lia. now rewrite H3.
    + destruct (b2 =? b3) eqn:B3; [|discriminate]. assert (b1 <? b3 = true) by lia. now rewrite H3.
    + destruct (b1 =? b2) eqn:B3; [|discriminate]. assert (b1 <? b3 = true) by lia. now rewrite H3.
    + destruct (b1 =? b2) eqn:B3; [|discriminate]. destruct (b2 =? b3) eqn:B4; [|discriminate].
      simpl in *. assert (b1 <? b3 = false) by lia. assert (b1 =? b3 = true) by lia. rewrite H3, H4. simpl.
      apply Qle_bool_iff. apply Qle_bool_iff in H1. apply Qle_bool_iff in H2.
      eapply Qle_trans; eauto.
Qed.

Lemma ins_note_perm e l : Permutation (e :: l) (ins_note e l).
Proof.
  induction l as [|x r IH]; simpl; [reflexivity|].
  destruct (key_le (n_key e) (n_key x)); [reflexivity|].
  rewrite perm_swap. now apply perm_skip.
Qed.

Lemma sort_notes_perm_lemma l : Permutation l (sort_notes l).
Proof.
  induction l as [|x r IH]; simpl; [reflexivity|].
  rewrite <- ins_note_perm. now apply perm_skip.
Qed.

Lemma ins_note_In e l x : In x (ins_note e l) <-> x = e \/ In x l.
Proof.
  split.
  - intros H. apply (Permutation_in _ (Permutation_sym (ins_note_perm e l))) in H.
    destruct H as [<-|H]; auto.
  - intros H. apply (Permutation_in _ (ins_note_perm e l)). destruct H as [->|H]; [now left|now right].
Qed.

Lemma ins_note_sorted e l :
  StronglySorted key_leP l -> StronglySorted key_leP (ins_note e l).
Proof.
  induction l as [|x r IH]; intros S; simpl.
  - constructor; constructor.
  - inversion S as [|? ? Sr Hall]; subst.
    destruct (key_le (n_key e) (n_key x)) eqn:E.
    + constructor; [exact S|]. constructor; [exact E|].
      apply Forall_forall. intros y Hy. rewrite Forall_forall in Hall.
      unfold key_leP. eapply key_le_trans; [exact E|apply Hall; exact Hy].
    + constructor; [apply IH; exact Sr|].
      apply Forall_forall. intros y Hy. apply ins_note_In in Hy.
      destruct Hy as [->|Hy].
      * apply key_le_total. exact E.
      * rewrite Forall_forall in Hall. apply Hall. exact Hy.
Qed.

Lemma sort_notes_sorted_lemma l : StronglySorted key_leP (sort_notes l).
Proof. induction l as [|x r IH]; simpl; [constructor|apply ins_note_sorted; exact IH]. Qed.

(* the note the importer takes the first onset from has the least (measure, beat, offset) *)
Lemma sort_notes_head_min_lemma l h r x :
  sort_notes l = h :: r -> In x l -> key_leP h x.
Proof.
  intros E Hx. pose proof (sort_notes_sorted_lemma l) as S. rewrite E in S.
  apply (Permutation_in _ (sort_notes_perm_lemma l)) in Hx. rewrite E in Hx.
  inversion S as [|? ? Sr Hall]; subst. destruct Hx as [<-|Hx].
  - unfold key_leP. destruct (key_le (n_key h) (n_key h)) eqn:C; [reflexivity|].
    pose proof (key_le_total _ _ C) as C'. congruence.
  - rewrite Forall_forall in Hall. now apply Hall.
Qed.

(* stable: notes with equal keys keep the order of the file *)
Lemma ins_note_front e l : (forall z, In z l -> key_leP e z) -> ins_note e l = e :: l.
Proof.
  destruct l as [|x r]; intros H; [reflexivity|]. simpl.
  unfold key_leP in H. now rewrite (H x (or_introl eq_refl)).
Qed.

Lemma sort_notes_sorted_id_lemma l : StronglySorted key_leP l -> sort_notes l = l.
Proof.
  induction l as [|x r IH]; intros S; [reflexivity|]. simpl.
  inversion S as [|? ? Sr Hall]; subst. rewrite (IH Sr).
  apply ins_note_front. rewrite Forall_forall in Hall. exact Hall.
Qed.
