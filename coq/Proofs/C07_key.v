(* C07 -- proofs about the key-signature reader / writer as an algorithm (Model/C07_Key.v) on the
   configuration reflected on this run (Gen/C07_KeyCfg.v: MAJOR_KEYS, MINOR_KEYS, the three
   regular expressions) *)
From PV Require Import Lib.Base Model.C07 Model.C07_Disp Model.C07_Key Proofs.C07_lib Proofs.C07 Proofs.C07_disp
  Gen.C07_Schemas Gen.C07_KeyCfg.
From Coq Require Import Ascii.
#[local] Open Scope string_scope.
#[local] Open Scope Z_scope.

(* ------------------------------------------------------------------ the whole domain, every spelling *)

Definition key_code_rt_b (fmt : Z) (isl : bool) (k : key1) (others : list key1) : bool :=
  match key_str key_cfg fmt isl k others with
  | Some t => okey1_eqb (key_from_string key_cfg t) (Some (k, others))
  | None => false
  end.

Lemma okey1_eqb_eq a b : okey1_eqb a b = true -> a = b.
Proof.
  destruct a as [[k r]|], b as [[k' r']|]; simpl; try discriminate; auto.
  intros H. apply andb_true_iff in H as [H1 H2]. apply key1_eqb_eq in H1.
  apply (list_eqb_eq key1_eqb key1_eqb_eq) in H2. subst. reflexivity.
Qed.

Lemma key_code_rt_b_spec fmt isl k others : key_code_rt_b fmt isl k others = true ->
  exists t, key_str key_cfg fmt isl k others = Some t /\ key_from_string key_cfg t = Some (k, others).
Proof.
  unfold key_code_rt_b. destruct (key_str key_cfg fmt isl k others) as [t|]; [|discriminate].
  intros H. apply okey1_eqb_eq in H. exists t. split; [reflexivity | exact H].
Qed.

Lemma key_code_single_all :
  forallb (fun fmt => forallb (fun k => key_code_rt_b fmt false (k, None) []) key0s) [0; 1; 3] = true.
Proof. vm_compute. reflexivity. Qed.
Lemma key_code_alt_all :
  forallb (fun fmt => forallb (fun isl => forallb (fun p => key_code_rt_b fmt isl (fst p, Some (snd p)) [])
                                                   (list_prod key0s key0s)) [false; true]) [1; 3] = true.
Proof. vm_compute. reflexivity. Qed.
(* the list form with one further component (0.3.0 - 0.5.0): all 30 x 30 pairs of plain keys *)
Lemma key_code_comp_all :
  forallb (fun p => key_code_rt_b 1 true (fst p, None) [(snd p, None)]) (list_prod key0s key0s) = true.
Proof. vm_compute. reflexivity. Qed.

Theorem key_code_roundtrip_lemma fmt f mi :
  In fmt [0; 1; 3] -> -7 <= f <= 7 ->
  exists t, key_str key_cfg fmt false ((f, mi), None) [] = Some t /\
            key_from_string key_cfg t = Some (((f, mi), None), []).
Proof.
  intros Hfmt Hf. pose proof key_code_single_all as H. rewrite forallb_forall in H.
  specialize (H fmt Hfmt). rewrite forallb_forall in H. specialize (H (f, mi) (key0s_In f mi Hf)).
  apply key_code_rt_b_spec in H. exact H.
Qed.

Theorem key_code_alt_roundtrip_lemma fmt isl f mi f2 mi2 :
  In fmt [1; 3] -> -7 <= f <= 7 -> -7 <= f2 <= 7 ->
  exists t, key_str key_cfg fmt isl ((f, mi), Some (f2, mi2)) [] = Some t /\
            key_from_string key_cfg t = Some (((f, mi), Some (f2, mi2)), []).
Proof.
  intros Hfmt Hf Hf2. pose proof key_code_alt_all as H. rewrite forallb_forall in H.
  specialize (H fmt Hfmt). rewrite forallb_forall in H.
  assert (Hi : In isl [false; true]) by (destruct isl; simpl; auto).
  specialize (H isl Hi). rewrite forallb_forall in H.
  specialize (H ((f, mi), (f2, mi2)) (in_prod _ _ _ _ (key0s_In f mi Hf) (key0s_In f2 mi2 Hf2))).
  apply key_code_rt_b_spec in H. exact H.
Qed.

Theorem key_code_component_roundtrip_lemma f mi f2 mi2 :
  -7 <= f <= 7 -> -7 <= f2 <= 7 ->
  exists t, key_str key_cfg 1 true ((f, mi), None) [((f2, mi2), None)] = Some t /\
            key_from_string key_cfg t = Some (((f, mi), None), [((f2, mi2), None)]).
Proof.
  intros Hf Hf2. pose proof key_code_comp_all as H. rewrite forallb_forall in H.
  specialize (H ((f, mi), (f2, mi2)) (in_prod _ _ _ _ (key0s_In f mi Hf) (key0s_In f2 mi2 Hf2))).
  apply key_code_rt_b_spec in H. exact H.
Qed.

(* ------------------------------------------------------------------ ALL texts: plain 1.0.0 names *)

(* every name of the list the reader consults first is read by key_name_to_fifths_mode as the key
   that fifths_mode_to_key_name writes with that name *)
Definition name_rt_b (a : string) : bool :=
  match kn2fm a with
  | Some k0 => ostring_eqb (fm2kn_v1 key_cfg k0) (Some a) && (-7 <=? fst k0) && (fst k0 <=? 7)
  | None => false
  end.
Lemma valid_names_rt_all : forallb name_rt_b (valid_v1_names key_cfg) = true.
Proof. vm_compute. reflexivity. Qed.

Lemma ostring_eqb_some_eq a b : ostring_eqb a (Some b) = true -> a = Some b.
Proof.
  destruct a as [a|]; simpl; [|discriminate]. intros H. apply String.eqb_eq in H. subst. reflexivity.
Qed.

Lemma mem_str_In x l : mem_str x l = true -> In x l.
Proof.
  unfold mem_str. intros H. apply existsb_exists in H as [y [Hy E]].
  apply String.eqb_eq in E. subst. exact Hy.
Qed.

Lemma valid_name_rt a : mem_str a (valid_v1_names key_cfg) = true ->
  exists k0, kn2fm a = Some k0 /\ fm2kn_v1 key_cfg k0 = Some a /\ -7 <= fst k0 <= 7.
Proof.
  intros H. apply mem_str_In in H.
  pose proof (forallb_In _ _ valid_names_rt_all a H) as R. unfold name_rt_b in R.
  destruct (kn2fm a) as [k0|]; [|discriminate].
  apply andb_true_iff in R as [R R3]. apply andb_true_iff in R as [R1 R2].
  apply ostring_eqb_some_eq in R1. exists k0. repeat split; auto; lia.
Qed.

Lemma key_str1_v1_single cfg k0 : key_str1 cfg 3 (k0, None) = fm2kn_v1 cfg k0.
Proof.
  unfold key_str1. change (3 =? 0) with false. change (3 =? 3) with true. cbv iota.
  destruct (fm2kn_v1 cfg k0); reflexivity.
Qed.
Lemma key_str1_v1_pair cfg k0 k2 a b :
  fm2kn_v1 cfg k0 = Some a -> fm2kn_v1 cfg k2 = Some b -> key_str1 cfg 3 (k0, Some k2) = Some (a ++ "/" ++ b).
Proof.
  intros E F. unfold key_str1. change (3 =? 0) with false. change (3 =? 3) with true. cbv iota.
  rewrite E, F. reflexivity.
Qed.

(* For EVERY text: if every "/"-part of it (one or two), blanks around it dropped, is a plain 1.0.0
   key name, the text is read as exactly those keys -- whatever the regular expression of the older
   formats would have made of it -- and the 1.0.0 spelling of what was read is the text without the
   blanks: formatting is a fixpoint after one round, fifths within -7..7 *)
Theorem key_v1_text_fixpoint_lemma s :
  let names := map strip_ws (split_on "/" s) in
  (List.length names = 1 \/ List.length names = 2)%nat ->
  forallb (fun x => mem_str x (valid_v1_names key_cfg)) names = true ->
  exists k, parse_key key_cfg s = Some k /\
            key_str1 key_cfg 3 k = Some (join "/" names) /\
            -7 <= fst (fst k) <= 7.
Proof.
  intros names Hlen Hall. unfold parse_key, parse_key_with. fold names.
  rewrite Hall.
  assert (Hn : (Nat.eqb (List.length names) 1 || Nat.eqb (List.length names) 2) = true).
  { destruct Hlen as [E|E]; rewrite E; reflexivity. }
  rewrite Hn. cbn [andb].
  destruct names as [|a [|b [|c r]]]; simpl in Hlen; try (destruct Hlen; discriminate).
  - simpl in Hall. apply andb_true_iff in Hall as [Ha _].
    destruct (valid_name_rt a Ha) as [k0 [E1 [E2 E3]]]. rewrite E1.
    exists (k0, None). split; [reflexivity|]. split; [|exact E3].
    rewrite key_str1_v1_single, E2. reflexivity.
  - simpl in Hall. apply andb_true_iff in Hall as [Ha Hb]. apply andb_true_iff in Hb as [Hb _].
    destruct (valid_name_rt a Ha) as [k0 [E1 [E2 E3]]].
    destruct (valid_name_rt b Hb) as [k2 [F1 [F2 F3]]]. rewrite E1, F1.
    exists (k0, Some k2). split; [reflexivity|]. split; [|exact E3].
    rewrite (key_str1_v1_pair _ _ _ _ _ E2 F2). reflexivity.
Qed.

(* non-vacuity: a text with blanks and two names *)
Example key_v1_text_example :
  let s := " Ab / F#m  " in
  forallb (fun x => mem_str x (valid_v1_names key_cfg)) (map strip_ws (split_on "/" s)) = true /\
  parse_key key_cfg s = Some ((-4, false), Some (3, true)) /\
  key_str1 key_cfg 3 ((-4, false), Some (3, true)) = Some "Ab/F#m".
Proof. vm_compute. repeat split. Qed.

(* ------------------------------------------------------------------ the statement discriminates *)

(* the list of plain names built from range(-7, 7) (seven sharps missing): A# minor, written "A#m",
   falls through to the regular expression of the older formats and comes back as 10 sharps major *)
Definition names_without_seven_sharps : list string :=
  flat_map (fun mi => flat_map (fun f => match fm2kn_v1 key_cfg (f, mi) with Some n => [n] | None => [] end)
                               (zrange (-7) 14)) [false; true].
Example key_names_range_refuted :
  key_str key_cfg 3 false ((7, true), None) [] = Some "A#m" /\
  key_from_string key_cfg "A#m" = Some (((7, true), None), []) /\
  key_from_string_with key_cfg names_without_seven_sharps "A#m" = Some (((10, false), None), []) /\
  key_from_string_with key_cfg names_without_seven_sharps "C#/A#m" <> Some (((7, false), Some (7, true)), []).
Proof. vm_compute. repeat split. discriminate. Qed.

(* the regular expression of the older formats consulted first (no plain names known): the flat
   sign of "Ab" is read as the mode word, A flat major comes back as A major *)
Example key_old_pattern_first_refuted :
  key_str key_cfg 3 false ((-4, false), None) [] = Some "Ab" /\
  key_from_string key_cfg "Ab" = Some (((-4, false), None), []) /\
  key_from_string_with key_cfg [] "Ab" = Some (((3, false), None), []).
Proof. vm_compute. repeat split. Qed.

(* the names are looked up AFTER the blanks were dropped: with the raw parts (no strip) the
   fixpoint statement fails on a text with blanks -- witness that the hypothesis of
   key_v1_text_fixpoint is about the stripped parts *)
Example key_names_in_old_spelling_not_plain :
  forallb (fun x => mem_str x (valid_v1_names key_cfg)) (map strip_ws (split_on "/" "Ab Maj")) = false /\
  key_from_string key_cfg "Ab Maj" = Some (((-4, false), None), []).
Proof. vm_compute. repeat split. Qed.

(* ------------------------------------------------------------------ lists of keys of ANY length *)

Definition all_key1s : list key1 :=
  (map (fun k => (k, None)) key0s ++ map (fun p => (fst p, Some (snd p))) (list_prod key0s key0s))%list.

Definition key1_in_range (k : key1) : Prop :=
  -7 <= fst (fst k) <= 7 /\ match snd k with Some k2 => -7 <= fst k2 <= 7 | None => True end.

Lemma all_key1s_In k : key1_in_range k -> In k all_key1s.
Proof.
  destruct k as [[f mi] [[f2 mi2]|]]; unfold key1_in_range; cbn [fst snd]; intros [H1 H2]; unfold all_key1s; apply in_or_app.
  - right. apply (in_map (fun p => (fst p, Some (snd p))) _ ((f, mi), (f2, mi2))).
    apply in_prod; apply key0s_In; auto.
  - left. apply (in_map (fun k => (k, @None key0)) _ (f, mi)). apply key0s_In; auto.
Qed.

Definition first_not_space (t : string) : bool :=
  match t with String c _ => negb (py_space c) | EmptyString => false end.
Definition txt (k : key1) : string := match key_str1 key_cfg 1 k with Some t => t | None => "" end.
(* what the proof needs of the text of one key in the 0.3.0 spelling *)
Definition elem_ok (k : key1) : bool :=
  match key_str1 key_cfg 1 k with
  | Some t =>
      match parse_key key_cfg t with Some k' => key1_eqb k' k | None => false end
      && String.eqb (strip_ws t) t && Nat.eqb (count_char comma t) 0
      && negb (mem_str (lower t) mode_words) && first_not_space t
  | None => false
  end.
Lemma all_elems_ok : forallb elem_ok all_key1s = true.
Proof. vm_compute. reflexivity. Qed.

Lemma elem_ok_spec k : key1_in_range k ->
  key_str1 key_cfg 1 k = Some (txt k) /\ parse_key key_cfg (txt k) = Some k /\ strip_ws (txt k) = txt k /\
  count_char comma (txt k) = O /\ mem_str (lower (txt k)) mode_words = false /\ first_not_space (txt k) = true.
Proof.
  intros H. pose proof (forallb_In _ _ all_elems_ok k (all_key1s_In k H)) as R.
  unfold elem_ok in R. unfold txt. destruct (key_str1 key_cfg 1 k) as [t|]; [|discriminate].
  repeat (apply andb_true_iff in R; destruct R as [R ?]).
  destruct (parse_key key_cfg t) as [k'|]; [|discriminate]. apply key1_eqb_eq in R. subst k'.
  repeat split; auto.
  - apply String.eqb_eq; auto.
  - apply Nat.eqb_eq; auto.
  - apply negb_true_iff; auto.
Qed.

Lemma nonempty_strip_first s : first_not_space s = true -> nonempty (strip_ws s) = true.
Proof.
  destruct s as [|c r]; simpl; [discriminate|]. intros H. apply negb_true_iff in H.
  unfold strip_ws. cbn [lstrip]. rewrite H. cbn [rstrip]. destruct (rstrip r); [rewrite H|]; reflexivity.
Qed.

Lemma first_join t ts : first_not_space t = true -> first_not_space (join comma (t :: ts)) = true.
Proof. destruct t as [|c r]; simpl; [discriminate|]. destruct ts; simpl; auto. Qed.

Definition good_text (t : string) : Prop :=
  strip_ws t = t /\ count_char comma t = O /\ first_not_space t = true.

Lemma bt_list_pat inner : bt [RLit "["; RGrp RAnyC 0; RLit "]"] (String "[" (inner ++ "]")) = Some ([inner], "").
Proof.
  transitivity (bt [RGrp RAnyC 0; RLit "]"] (inner ++ "]")); [reflexivity|].
  apply bt_any_last; [discriminate | lia].
Qed.

(* interpret_as_list on a written list: the group between the first "[" and the LAST "]" *)
Lemma interp_list_written ts : ts <> [] -> Forall good_text ts ->
  interp_list key_cfg ("[" ++ join comma ts ++ "]") = ts.
Proof.
  intros Hne H. unfold interp_list.
  change (kc_list key_cfg) with [RLit "["; RGrp RAnyC 0; RLit "]"].
  change ("[" ++ join comma ts ++ "]") with (String "[" (join comma ts ++ "]")).
  rewrite bt_list_pat.
  destruct ts as [|t ts']; [congruence|].
  inversion H as [|? ? [_ [_ Hf]] _]; subst.
  rewrite (nonempty_strip_first _ (first_join t ts' Hf)).
  rewrite split_join; [|discriminate|].
  - clear Hne Hf. induction H as [|x l [Hx _] _ IH]; simpl; [reflexivity|]. rewrite Hx, IH. reflexivity.
  - eapply Forall_impl; [|exact H]. intros a [_ [Ha _]]. exact Ha.
Qed.

Lemma map_opt_txt others : Forall key1_in_range others ->
  map_opt (key_str1 key_cfg 1) others = Some (map txt others).
Proof.
  induction 1 as [|k l Hk _ IH]; simpl; [reflexivity|].
  destruct (elem_ok_spec k Hk) as [E _]. rewrite E, IH. reflexivity.
Qed.

Lemma map_opt_parse ks : Forall key1_in_range ks ->
  map_opt (parse_key_with key_cfg (valid_v1_names key_cfg)) (map txt ks) = Some ks.
Proof.
  intros H. apply map_opt_map. eapply Forall_impl; [|exact H].
  intros k Hk. destruct (elem_ok_spec k Hk) as [_ [E _]]. exact E.
Qed.

(* The list spelling of 0.3.0 - 0.5.0, a key (with or without alternative) and ANY number of
   further components: what is written is read back as the same key with the same components *)
Theorem key_list_roundtrip_lemma k others :
  key1_in_range k -> Forall key1_in_range others ->
  exists t, key_str key_cfg 1 true k others = Some t /\ key_from_string key_cfg t = Some (k, others).
Proof.
  intros Hk Ho.
  destruct (elem_ok_spec k Hk) as [E _].
  exists ("[" ++ join comma (txt k :: map txt others) ++ "]"). split.
  - unfold key_str. rewrite E, (map_opt_txt others Ho). reflexivity.
  - unfold key_from_string, key_from_string_with.
    assert (Hall : Forall key1_in_range (k :: others)) by (constructor; auto).
    assert (Hgood : Forall good_text (map txt (k :: others))).
    { apply Forall_map. eapply Forall_impl; [|exact Hall]. intros x Hx.
      destruct (elem_ok_spec x Hx) as [_ [_ [A [B [_ C]]]]]. repeat split; auto. }
    change (txt k :: map txt others) with (map txt (k :: others)).
    rewrite interp_list_written by (auto; discriminate).
    pose proof (map_opt_parse (k :: others) Hall) as P.
    destruct others as [|o [|o2 r]].
    + cbn [map] in *. rewrite P. reflexivity.
    + cbn [map] in *. inversion Ho as [|? ? Ho1 _]; subst.
      destruct (elem_ok_spec o Ho1) as [_ [_ [_ [_ [M _]]]]]. rewrite M, P. reflexivity.
    + cbn [map] in *. rewrite P. reflexivity.
Qed.

Example key_list_example :
  key_str key_cfg 1 true ((-4, false), Some (-4, true)) [((0, false), None); ((3, true), Some (1, false)); ((7, true), None)]
    = Some "[Ab Maj/F min,C Maj,F# min/G Maj,A# min]" /\
  key_from_string key_cfg "[Ab Maj/F min,C Maj,F# min/G Maj,A# min]"
    = Some (((-4, false), Some (-4, true)), [((0, false), None); ((3, true), Some (1, false)); ((7, true), None)]).
Proof. vm_compute. split; reflexivity. Qed.

(* the "[name,mode]" form of 0.1.0 is recognised by the SECOND item of a two-item list being a mode
   word, before the items are looked at as keys: with that test dropped, a 0.1.0 text is read as a
   list of two keys of which the second cannot be read -- and a two-key list whose second key has a
   one-word text would be taken for the 0.1.0 form: the theorem needs exactly the side condition
   "no written key text is a mode word" (elem_ok) *)
Example key_v01_form_by_second_item :
  key_from_string key_cfg "[f#,minor]" = Some (((3, true), None), []) /\
  map_opt (parse_key key_cfg) (interp_list key_cfg "[f#,minor]") = None /\
  key_from_string key_cfg "[F# min,Maj]" = Some (((6, false), None), []).
Proof. vm_compute. repeat split. Qed.

(* ------------------------------------------------------------------ plain 1.0.0 names with ANY blanks around them *)

Lemma lstrip_blanks_app w s : all_chars py_space w = true -> lstrip (w ++ s) = lstrip s.
Proof.
  induction w as [|c w IH]; simpl; intros H; auto.
  apply andb_true_iff in H as [Hc H]. rewrite Hc. auto.
Qed.
Lemma lstrip_first n : first_not_space n = true -> lstrip n = n.
Proof. destruct n as [|c r]; simpl; [discriminate|]. intros H. apply negb_true_iff in H. rewrite H. reflexivity. Qed.
Lemma first_not_space_app n s : first_not_space n = true -> first_not_space (n ++ s) = true.
Proof. destruct n; simpl; auto. discriminate. Qed.
Lemma rstrip_blanks w : all_chars py_space w = true -> rstrip w = "".
Proof.
  induction w as [|c w IH]; simpl; intros H; auto.
  apply andb_true_iff in H as [Hc H]. rewrite (IH H), Hc. reflexivity.
Qed.
Lemma rstrip_app_blanks a w : all_chars py_space w = true -> rstrip (a ++ w) = rstrip a.
Proof.
  intros H. induction a as [|c a IH]; simpl; [apply rstrip_blanks; auto|]. rewrite IH. reflexivity.
Qed.

Lemma strip_ws_padded w1 n w2 :
  all_chars py_space w1 = true -> all_chars py_space w2 = true ->
  first_not_space n = true -> strip_ws n = n -> strip_ws (w1 ++ n ++ w2) = n.
Proof.
  intros H1 H2 Hf Hs. unfold strip_ws in *.
  rewrite lstrip_blanks_app by auto. rewrite (lstrip_first _ (first_not_space_app n w2 Hf)).
  rewrite rstrip_app_blanks by auto. rewrite (lstrip_first _ Hf) in Hs. exact Hs.
Qed.

(* what the proof needs of the plain name of one key *)
Definition v1_name_ok (k : key0) : bool :=
  match fm2kn_v1 key_cfg k with
  | Some n =>
      mem_str n (valid_v1_names key_cfg)
      && match kn2fm n with Some k' => key0_eqb k' k | None => false end
      && first_not_space n && String.eqb (strip_ws n) n && Nat.eqb (count_char "/" n) 0
  | None => false
  end.
Lemma v1_names_ok_all : forallb v1_name_ok key0s = true.
Proof. vm_compute. reflexivity. Qed.

Lemma v1_name_ok_spec k n : -7 <= fst k <= 7 -> fm2kn_v1 key_cfg k = Some n ->
  mem_str n (valid_v1_names key_cfg) = true /\ kn2fm n = Some k /\ first_not_space n = true /\
  strip_ws n = n /\ count_char "/" n = O.
Proof.
  intros H E. destruct k as [f mi]. pose proof (forallb_In _ _ v1_names_ok_all (f, mi) (key0s_In f mi H)) as R.
  unfold v1_name_ok in R. rewrite E in R.
  repeat (apply andb_true_iff in R; destruct R as [R ?]).
  destruct (kn2fm n) as [k'|]; [|discriminate]. apply key0_eqb_eq in H3. subst k'.
  repeat split; auto; [apply String.eqb_eq | apply Nat.eqb_eq]; auto.
Qed.

Lemma blanks_no_slash w : all_chars py_space w = true -> count_char "/" w = O.
Proof. intros H. apply (count_char_none _ py_space); auto. Qed.

Lemma padded_no_slash w1 n w2 :
  all_chars py_space w1 = true -> all_chars py_space w2 = true -> count_char "/" n = O ->
  count_char "/" (w1 ++ n ++ w2) = O.
Proof.
  intros H1 H2 Hn. rewrite !count_char_app. rewrite (blanks_no_slash w1 H1), (blanks_no_slash w2 H2), Hn. reflexivity.
Qed.

(* every key of the domain, ANY runs of blanks (blank, tab, ...) before and after its plain name *)
Theorem key_v1_blanks_single_lemma k n w1 w2 :
  -7 <= fst k <= 7 -> fm2kn_v1 key_cfg k = Some n ->
  all_chars py_space w1 = true -> all_chars py_space w2 = true ->
  parse_key key_cfg (w1 ++ n ++ w2) = Some (k, None).
Proof.
  intros Hk En H1 H2. destruct (v1_name_ok_spec k n Hk En) as [Hm [Hr [Hf [Hs Hc]]]].
  unfold parse_key, parse_key_with.
  rewrite (split_on_none _ _ (padded_no_slash w1 n w2 H1 H2 Hc)).
  cbn [map List.length Nat.eqb orb forallb andb]. rewrite (strip_ws_padded w1 n w2 H1 H2 Hf Hs).
  rewrite Hm. cbn [andb]. rewrite Hr. reflexivity.
Qed.

(* ... and every pair of keys, blanks before and after both names and around the "/" *)
Theorem key_v1_blanks_pair_lemma k k2 n n2 w1 w2 w3 w4 :
  -7 <= fst k <= 7 -> -7 <= fst k2 <= 7 -> fm2kn_v1 key_cfg k = Some n -> fm2kn_v1 key_cfg k2 = Some n2 ->
  all_chars py_space w1 = true -> all_chars py_space w2 = true ->
  all_chars py_space w3 = true -> all_chars py_space w4 = true ->
  parse_key key_cfg ((w1 ++ n ++ w2) ++ "/" ++ (w3 ++ n2 ++ w4)) = Some (k, Some k2).
Proof.
  intros Hk Hk2 En En2 H1 H2 H3 H4.
  destruct (v1_name_ok_spec k n Hk En) as [Hm [Hr [Hf [Hs Hc]]]].
  destruct (v1_name_ok_spec k2 n2 Hk2 En2) as [Hm2 [Hr2 [Hf2 [Hs2 Hc2]]]].
  unfold parse_key, parse_key_with.
  change ("/" ++ (w3 ++ n2 ++ w4)) with (String "/" (w3 ++ n2 ++ w4)).
  rewrite (split_on_app _ _ _ (padded_no_slash w1 n w2 H1 H2 Hc)).
  rewrite (split_on_none _ _ (padded_no_slash w3 n2 w4 H3 H4 Hc2)).
  cbn [map List.length Nat.eqb orb forallb andb].
  rewrite (strip_ws_padded w1 n w2 H1 H2 Hf Hs), (strip_ws_padded w3 n2 w4 H3 H4 Hf2 Hs2).
  rewrite Hm, Hm2. cbn [andb]. rewrite Hr, Hr2. reflexivity.
Qed.

(* without the strip of the parts (the names looked up as they stand between the separators) the
   same text is not read as the two keys: the statement discriminates *)
Definition parse_key_nostrip (kstr : string) : option key1 :=
  let names := split_on "/" kstr in
  if forallb (fun x => mem_str x (valid_v1_names key_cfg)) names then parse_key key_cfg kstr
  else parse_key_with key_cfg [] kstr.
Example key_v1_blanks_nostrip_refuted :
  parse_key key_cfg "Ab / F#m" = Some ((-4, false), Some (3, true)) /\
  parse_key_nostrip "Ab / F#m" <> Some ((-4, false), Some (3, true)).
Proof. vm_compute. split; [reflexivity | discriminate]. Qed.
