(* C17 (2b/3) -- totality of the outer layer of estimate_voices: an oracle (the VoSA search)
   that answers exactly the representatives it was given yields a voice for EVERY note
   (zero-duration notes are notes like any other for this layer). *)
From PV Require Import Lib.Base Model.C17_Voices Proofs.C17_lib Proofs.C17_Voices.
#[local] Open Scope Z_scope.

(* ------------------------------------------------------------------ *)
(* small list facts *)

Lemma zinsert_In : forall x y l, In y (zinsert x l) <-> y = x \/ In y l.
Proof.
  intros x y l. induction l as [|a r IH]; cbn [zinsert].
  - cbn. intuition.
  - destruct (x <=? a).
    + cbn. intuition.
    + cbn [In]. rewrite IH. intuition.
Qed.

Lemma zsort_In : forall y l, In y (zsort l) <-> In y l.
Proof.
  intros y l. induction l as [|a r IH]; cbn [zsort fold_right]; [tauto|].
  fold (zsort r). rewrite zinsert_In, IH. cbn. intuition.
Qed.

Lemma zlookup_In_fst : forall {A} k (l : list (Z * A)), In k (map fst l) -> exists v, zlookup k l = Some v.
Proof.
  intros A k l. induction l as [|[k' v'] r IH]; [intros []|].
  intros H. cbn [zlookup]. destruct (k =? k') eqn:E; [eauto|].
  destruct H as [H|H]; [cbn in H; zb; congruence | apply IH; exact H].
Qed.

Lemma zlookup_NoDup : forall {A} k v (l : list (Z * A)),
  NoDup (map fst l) -> In (k, v) l -> zlookup k l = Some v.
Proof.
  intros A k v l. induction l as [|[k' v'] r IH]; intros N H; [destruct H|].
  cbn in N. inversion N as [|? ? N1 N2]; subst. cbn [zlookup].
  destruct H as [H|H].
  - inversion H; subst. rewrite Z.eqb_refl. reflexivity.
  - destruct (k =? k') eqn:E; [|apply IH; assumption].
    zb. subst k'. exfalso. apply N1. apply in_map_iff. exists (k, v). auto.
Qed.

Lemma NoDup_map_on : forall {A B} (f : A -> B) l,
  (forall x y, In x l -> In y l -> f x = f y -> x = y) -> NoDup l -> NoDup (map f l).
Proof.
  intros A B f l. induction l as [|a r IH]; intros Inj N; cbn; [constructor|].
  inversion N as [|? ? N1 N2]; subst. constructor.
  - intros H. apply in_map_iff in H. destruct H as [y [E Hy]].
    assert (y = a) by (apply Inj; [right; exact Hy | left; reflexivity | exact E]).
    subst y. exact (N1 Hy).
  - apply IH; [|exact N2]. intros x y Hx Hy. apply Inj; right; assumption.
Qed.

Lemma NoDup_of_map : forall {A B} (f : A -> B) l, NoDup (map f l) -> NoDup l.
Proof.
  intros A B f l. induction l as [|a r IH]; intros N; [constructor|].
  cbn in N. inversion N as [|? ? N1 N2]; subst. constructor; [|apply IH; exact N2].
  intros H. apply N1. apply in_map. exact H.
Qed.

Lemma all_some_total : forall {A B} (f : A -> option B) l,
  (forall x, In x l -> exists y, f x = Some y) ->
  exists l', all_some (map f l) = Some l' /\ forall x, In x l -> exists y, f x = Some y /\ In y l'.
Proof.
  intros A B f l. induction l as [|a r IH]; intros H.
  - exists []. split; [reflexivity | intros x []].
  - destruct (H a (or_introl eq_refl)) as [b Hb].
    destruct (IH (fun x Hx => H x (or_intror Hx))) as [r' [E Hr]].
    exists (b :: r'). split.
    + cbn [map all_some]. rewrite Hb, E. reflexivity.
    + intros x [<-|Hx]; [exists b; split; [exact Hb | left; reflexivity]|].
      destruct (Hr x Hx) as [y [H1 H2]]. exists y. split; [exact H1 | right; exact H2].
Qed.

Lemma final_voice_some : forall writes i,
  (exists w, In w writes /\ mem_z i (fst w) = true) -> exists v, final_voice writes i = Some v.
Proof.
  intros writes i. unfold final_voice.
  assert (Keep : forall (ws : list (list Z * Z)) (v : Z), exists v',
            fold_left (fun acc w => if mem_z i (fst w) then Some (snd w) else acc) ws (Some v) = Some v').
  { induction ws as [|w r IH]; intros v; cbn [fold_left]; [eauto|].
    destruct (mem_z i (fst w)); apply IH. }
  generalize (@None Z).
  induction writes as [|w r IH]; intros acc [w0 [Hin Hm]]; [destruct Hin|].
  cbn [fold_left]. destruct Hin as [->|Hin].
  - rewrite Hm. apply Keep.
  - apply IH. exists w0. auto.
Qed.

(* ------------------------------------------------------------------ *)
(* the chord groups: non-empty, disjoint, representative inside the chord *)

Lemma add_groups_nonempty : forall k0 id0 gs,
  (forall k ids, In (k, ids) gs -> ids <> []) ->
  forall k ids, In (k, ids) (add_to_groups k0 id0 gs) -> ids <> [].
Proof.
  intros k0 id0 gs. induction gs as [|[k' ids'] r IH]; intros H k ids Hin; cbn [add_to_groups] in Hin.
  - destruct Hin as [E|[]]. inversion E. discriminate.
  - destruct (ckey_eqb k' k0).
    + destruct Hin as [E|Hin].
      * inversion E; subst. intros C. apply app_eq_nil in C. destruct C as [_ C]. discriminate.
      * apply (H k ids). right. exact Hin.
    + destruct Hin as [E|Hin].
      * inversion E; subst. apply (H k ids). left. reflexivity.
      * apply (IH (fun k ids Hx => H k ids (or_intror Hx)) k ids Hin).
Qed.

Lemma group_fold_nonempty : forall ins gs,
  (forall k ids, In (k, ids) gs -> ids <> []) ->
  forall k ids, In (k, ids) (fold_left (fun gs x => add_to_groups (ckey_of (snd x)) (fst x) gs) ins gs) -> ids <> [].
Proof.
  induction ins as [|x ins IH]; intros gs H; cbn [fold_left]; [exact H|].
  apply IH. apply add_groups_nonempty. exact H.
Qed.

Lemma group_notes_nonempty : forall ins k ids, In (k, ids) (group_notes ins) -> ids <> [].
Proof. intros ins. unfold group_notes. apply group_fold_nonempty. intros k ids []. Qed.

Lemma rep_from_In : forall ins ids best, In (rep_from ins best ids) (best :: ids).
Proof.
  intros ins ids. induction ids as [|i r IH]; intros best; cbn [rep_from]; [left; reflexivity|].
  specialize (IH (if pitch_of ins best <? pitch_of ins i then i else best)).
  destruct IH as [H|H]; [|right; right; exact H].
  destruct (pitch_of ins best <? pitch_of ins i); [right; left | left]; exact H.
Qed.

Lemma rep_of_In : forall ins ids, ids <> [] -> In (rep_of ins ids) ids.
Proof. intros ins [|i r] H; [congruence|]. unfold rep_of. apply rep_from_In. Qed.

(* an id is in one group only *)
Lemma group_unique : forall ins k ids k' ids' id,
  NoDup (map fst ins) ->
  In (k, ids) (group_notes ins) -> In (k', ids') (group_notes ins) ->
  In id ids -> In id ids' -> (k, ids) = (k', ids').
Proof.
  intros ins k ids k' ids' id N H1 H2 I1 I2.
  destruct (group_notes_ok ins) as [Ga [_ Gc]].
  destruct (Ga _ _ _ H1 I1) as [n [Hn En]]. destruct (Ga _ _ _ H2 I2) as [n' [Hn' En']].
  assert (n = n') by (apply (NoDup_fst_functional ins id n n' N Hn Hn')). subst n'.
  subst k k'.
  f_equal. apply (NoDup_fst_functional (group_notes ins) (ckey_of n) ids ids' Gc H1 H2).
Qed.

(* a choice of representative: a member of the (non-empty) chord *)
Definition rep_in (rp : list Z -> Z) : Prop := forall ids, ids <> [] -> In (rp ids) ids.

Lemma rep_of_is_member : forall ins, rep_in (rep_of ins).
Proof. intros ins ids H. apply rep_of_In. exact H. Qed.

Lemma rep_obs_is_member : forall vin ins, rep_in (rep_obs vin ins).
Proof.
  intros vin ins ids H. unfold rep_obs.
  destruct (filter (fun i => mem_z i vin) ids) as [|x r] eqn:E.
  - destruct ids; [congruence | left; reflexivity].
  - assert (Hx : In x (filter (fun i => mem_z i vin) ids)) by (rewrite E; left; reflexivity).
    apply filter_In in Hx. tauto.
Qed.

Lemma equivs_chord_NoDup : forall rp ins, rep_in rp -> NoDup (map fst ins) ->
  NoDup (map fst (equivs_with rp false ins)).
Proof.
  intros rp ins RI N. unfold equivs_with. rewrite map_map. cbn [fst].
  destruct (group_notes_ok ins) as [_ [_ Gc]].
  apply NoDup_map_on; [|exact (NoDup_of_map _ _ Gc)].
  intros [k ids] [k' ids'] H1 H2 E. cbn [snd] in E.
  pose proof (RI ids (group_notes_nonempty _ _ _ H1)) as R1.
  pose proof (RI ids' (group_notes_nonempty _ _ _ H2)) as R2.
  rewrite E in R1. eapply group_unique; eauto.
Qed.

(* every note is a member of the entry the dictionary lookup of its representative returns *)
Lemma equivs_cover : forall rp mono ins i, rep_in rp -> NoDup (map fst ins) -> In i (map fst ins) ->
  exists r mem, In r (map fst (equivs_with rp mono ins)) /\
                  zlookup r (equivs_with rp mono ins) = Some mem /\ In i mem.
Proof.
  intros rp mono ins i RI N Hi. destruct mono.
  - exists i, [i]. unfold equivs_with. split; [|split; [|left; reflexivity]].
    + rewrite map_map. cbn [fst]. exact Hi.
    + clear N. induction ins as [|[a n] r IH]; [destruct Hi|].
      cbn [map fst zlookup]. destruct (i =? a) eqn:E; [zb; subst; reflexivity|].
      apply IH. destruct Hi as [H|H]; [cbn in H; zb; congruence | exact H].
  - apply in_map_iff in Hi. destruct Hi as [[i' n] [E Hin]]. cbn in E. subst i'.
    destruct (group_notes_ok ins) as [_ [Gb _]].
    destruct (Gb _ _ Hin) as [ids [Hg Hids]].
    exists (rp ids), ids.
    assert (He : In (rp ids, ids) (equivs_with rp false ins)).
    { unfold equivs_with. apply in_map_iff. exists (ckey_of n, ids). split; [reflexivity | exact Hg]. }
    split; [apply in_map_iff; exists (rp ids, ids); split; [reflexivity | exact He]|].
    split; [|exact Hids].
    apply zlookup_NoDup; [apply equivs_chord_NoDup; assumption | exact He].
Qed.

Lemma vosa_input_fst : forall ins eqv, map fst (vosa_input ins eqv) = zsort (map fst eqv).
Proof.
  intros ins eqv. unfold vosa_input. rewrite map_map. cbn [fst]. apply map_id.
Qed.

(* ------------------------------------------------------------------ *)

Lemma forallb_mem_z : forall l l', forallb (fun i => mem_z i l') l = true -> forall i, In i l -> In i l'.
Proof. intros l l' H i Hi. apply mem_z_In. exact (forallb_In _ _ H i Hi). Qed.

Section Total.
  Variable rep : list (Z * vnote) -> list Z -> Z.
  Variable oracle : list (Z * vnote) -> list (Z * Z).
  Hypothesis rep_member : forall ins, rep_in (rep ins).

  Lemma voices_total_lemma : forall mono notes,
    let ins := indexed_from 0 notes in
    let inp := vosa_input ins (equivs_with (rep ins) mono ins) in
    oracle_total_on inp (oracle inp) = true ->
    exists out, estimate_voices rep oracle mono notes = Some out /\ List.length out = List.length notes.
  Proof.
    intros mono notes ins inp T.
    assert (ND : NoDup (map fst ins)) by (unfold ins; rewrite indexed_from_fst; apply zrange_NoDup).
    unfold oracle_total_on in T. apply andb_true_iff in T. destruct T as [T1 T2].
    pose proof (forallb_mem_z _ _ T1) as R1. pose proof (forallb_mem_z _ _ T2) as R2. clear T1 T2.
    unfold inp in R1 at 2. unfold inp in R2 at 1. rewrite vosa_input_fst in R1, R2.
    set (eqv := equivs_with (rep ins) mono ins) in *. set (res := oracle inp) in *.
    (* 1: every id VoSA returns is a key of idx_equivs *)
    set (f := fun r : Z * Z => match zlookup (fst r) eqv with Some mem => Some (mem, snd r) | None => None end).
    assert (F : forall r, In r res -> exists w, f r = Some w).
    { intros r Hr. assert (Hk : In (fst r) (map fst eqv)).
      { apply (zsort_In (fst r)). apply R1. apply in_map. exact Hr. }
      destruct (zlookup_In_fst _ _ Hk) as [mem E]. exists (mem, snd r). unfold f. rewrite E. reflexivity. }
    destruct (all_some_total f res F) as [writes [W Wc]].
    (* 2: every note is written *)
    set (g := fun x : Z * vnote => final_voice writes (fst x)).
    assert (G : forall x, In x ins -> exists v, g x = Some v).
    { intros x Hx. unfold g. apply final_voice_some.
      destruct (equivs_cover (rep ins) mono ins (fst x) (rep_member ins) ND (in_map fst _ _ Hx)) as [rp [mem [H1 [H2 H3]]]].
      fold eqv in H1, H2.
      assert (Hr : In rp (map fst res)).
      { apply R2. apply zsort_In. exact H1. }
      apply in_map_iff in Hr. destruct Hr as [r [Er Hr]].
      destruct (Wc r Hr) as [w [Hw1 Hw2]]. exists w. split; [exact Hw2|].
      unfold f in Hw1. rewrite Er, H2 in Hw1. inversion Hw1; subst w. cbn [fst].
      apply mem_z_In. exact H3. }
    destruct (all_some_total g ins G) as [vs [V _]].
    assert (S : scatter rep oracle mono notes = Some vs).
    { unfold scatter. fold ins. fold eqv. fold inp. fold res. fold f. rewrite W. exact V. }
    exists (reverse_voices (rename_voices vs)). split.
    - unfold estimate_voices. rewrite S. reflexivity.
    - unfold reverse_voices, rename_voices. rewrite !map_length. apply (scatter_length rep oracle mono notes vs S).
  Qed.
End Total.

(* the hypothesis is what the correspondence checks on every call: the rows VoSA returned carry
   exactly the ids of the array it was given (here: notes 0, 1, 3; note 2 is in note 1's chord) *)
Example voices_total_example :
  let notes := [(60, 0, 4); (72, 0, 2); (67, 0, 2); (74, 2, 0)] in
  let ins := indexed_from 0 notes in
  oracle_total_on (vosa_input ins (equivs_of false ins)) [(0, 0); (3, 1); (1, 1)] = true.
Proof. vm_compute. reflexivity. Qed.

(* the same input when the implementation is observed to hand the LOWER chord note (id 2) to VoSA:
   the observed choice is a member, the checker's model follows it *)
Example voices_other_representative :
  voices_check (false, [(60, 0, 4); (72, 0, 2); (67, 0, 2); (74, 2, 0)], [3; 2; 0],
                [(0, 0); (3, 1); (2, 1)], [2; 1; 1; 1]) = true.
Proof. vm_compute. reflexivity. Qed.
