(* C06 -- load (save p) with tracks merged on export, on import, or both *)
From PV Require Import Lib.Base Lib.Round Model.C12 Model.C06 Proofs.C06_lib Proofs.C06 Proofs.C06_pair Proofs.C06_save.
From Coq Require Import QArith Sorted Permutation.
#[local] Open Scope Z_scope.

(* ---- ForallOrdPairs of a symmetric relation does not depend on the order *)
Lemma FOP_perm {A} (R : A -> A -> Prop) (Rsym : forall a b, R a b -> R b a) l l' :
  Permutation l l' -> ForallOrdPairs R l -> ForallOrdPairs R l'.
Proof.
  induction 1 as [|x l l' P IH|x y l|l l' l'' P1 IH1 P2 IH2]; intros H; auto.
  - inversion H as [|? ? Hx Hl]; subst. constructor; auto. eapply Permutation_Forall; eauto.
  - inversion H as [|? ? Hy Hl]; subst. inversion Hl as [|? ? Hx Hl']; subst. inversion Hy as [|? ? Hyx Hy']; subst.
    constructor; [constructor; auto|]. constructor; auto.
Qed.

Lemma disj_sym a b : disj a b -> disj b a.
Proof. unfold disj. tauto. Qed.

Lemma flat_map_ext_in' {A B} (f g : A -> list B) l : (forall a, In a l -> f a = g a) -> flat_map f l = flat_map g l.
Proof.
  induction l as [|x r IH]; intros H; [reflexivity|]. cbn [flat_map]. rewrite (H x), IH; auto; simpl; auto.
  intros a Ha. apply H. right. exact Ha.
Qed.

(* ---- grouping a list by the values of a NoDup list of keys covering it is a permutation *)
Section Group.
  Context {A : Type} (f : A -> Z).
  Let blk (l : list A) (t : Z) := filter (fun x => f x =? t) l.

  Lemma group_cons x l : forall ts, NoDup ts -> In (f x) ts ->
    Permutation (flat_map (blk (x :: l)) ts) (x :: flat_map (blk l) ts).
  Proof.
    induction ts as [|t ts IH]; intros ND Hin; [destruct Hin|].
    inversion ND as [|? ? Hnt ND']; subst. cbn [flat_map]. unfold blk at 1. cbn [filter].
    destruct (f x =? t) eqn:E.
    - apply Z.eqb_eq in E. subst t. fold (blk l (f x)). cbn [app]. apply perm_skip. apply Permutation_app_head.
      rewrite (flat_map_ext_in' (blk (x :: l)) (blk l)); [reflexivity|].
      intros t Ht. unfold blk. cbn [filter]. destruct (f x =? t) eqn:E2; auto.
      apply Z.eqb_eq in E2. subst t. contradiction.
    - fold (blk l t). destruct Hin as [Hin|Hin]; [lia|].
      rewrite (IH ND' Hin). symmetry. apply Permutation_middle.
  Qed.

  Lemma group_perm ts : NoDup ts -> forall l, Forall (fun x => In (f x) ts) l -> Permutation (flat_map (blk l) ts) l.
  Proof.
    intros ND. induction l as [|x l IH]; intros H.
    - clear ND H. unfold blk. cbn [filter]. induction ts; simpl; auto.
    - inversion H; subst. rewrite group_cons by assumption. apply perm_skip. apply IH. assumption.
  Qed.
End Group.

Lemma zuniq_NoDup l : NoDup (zuniq l).
Proof.
  induction l as [|x r IH]; simpl; [constructor|].
  destruct (zmem x r) eqn:E; auto. constructor; auto.
  intros H. apply (proj1 (zuniq_In x r)) in H. apply (proj2 (zmem_In x r)) in H. rewrite H in E. discriminate.
Qed.
Lemma sorted_uniq_NoDup l : NoDup (sorted_uniq l).
Proof.
  unfold sorted_uniq. eapply Permutation_NoDup; [symmetry; apply sort_le_perm|apply zuniq_NoDup].
Qed.

(* ---- mido.merge_tracks seen through one key *)
Lemma proj_flat_map {A} k (g : A -> list (Z * msg)) l : proj k (flat_map g l) = flat_map (fun x => proj k (g x)) l.
Proof. induction l as [|x r IH]; [reflexivity|]. cbn [flat_map]. rewrite proj_app, IH. reflexivity. Qed.

Lemma proj_strip_eot k l : proj k (filter (fun e : Z * msg => negb (msg_eqb (snd e) EndOfTrack)) l) = proj k l.
Proof.
  induction l as [|[t m] r IH]; [reflexivity|]. cbn [filter snd].
  destruct m; cbn [msg_eqb negb]; unfold proj in *; cbn [filter snd is_note_ev]; try rewrite IH; reflexivity.
Qed.

Lemma undelta_app : forall a b t, exists t', undelta t (a ++ b) = undelta t a ++ undelta t' b.
Proof.
  induction a as [|[d m] r IH]; intros b t.
  - exists t. reflexivity.
  - cbn [app undelta]. destruct (IH b (t + d)) as (t' & E). exists t'. rewrite E. reflexivity.
Qed.

Lemma proj_merge k ts :
  proj k (undelta 0 (merge_tracks ts)) = sort_by_tick (flat_map (fun t => proj k (undelta 0 t)) ts).
Proof.
  unfold merge_tracks.
  destruct (undelta_app (deltas 0 (sort_by_tick (flat_map (fun t => filter (fun e : Z * msg => negb (msg_eqb (snd e) EndOfTrack)) (undelta 0 t)) ts)))
                        [(0, EndOfTrack)] 0) as (t' & E).
  rewrite E, proj_app, undelta_deltas. cbn [undelta]. unfold proj at 2. cbn [filter snd is_note_ev]. rewrite app_nil_r.
  unfold proj at 1. rewrite filter_sort_by_tick. fold (proj k (flat_map (fun t => filter (fun e : Z * msg => negb (msg_eqb (snd e) EndOfTrack)) (undelta 0 t)) ts)).
  rewrite proj_flat_map. f_equal. apply flat_map_ext. intros t. apply proj_strip_eot.
Qed.

(* a track is good for key k and the notes N when its messages of key k are those of a permutation of
   N written one after the other *)
Definition good (k : Z) (t : list (Z * msg)) (N : list lnote) : Prop :=
  exists N', Permutation N' N /\ proj k (undelta 0 t) = evs N'.

Lemma good_concat k : forall ts Ns, Forall2 (good k) ts Ns ->
  exists N', Permutation N' (List.concat Ns) /\ flat_map (fun t => proj k (undelta 0 t)) ts = evs N'.
Proof.
  induction 1 as [|t N ts Ns (N1 & P1 & E1) H (N2 & P2 & E2)].
  - exists []. split; auto.
  - exists (N1 ++ N2). split.
    + cbn [List.concat]. apply Permutation_app; assumption.
    + cbn [flat_map]. rewrite E1, E2, evs_app. reflexivity.
Qed.

Lemma merge_good k ts Ns :
  Forall2 (good k) ts Ns ->
  Forall (fun n => ln_on n <= ln_off n) (List.concat Ns) -> ForallOrdPairs disj (List.concat Ns) ->
  good k (merge_tracks ts) (List.concat Ns).
Proof.
  intros HG Hle Hd. destruct (good_concat k ts Ns HG) as (N1 & P1 & E1).
  destruct (sort_note_events N1) as (N2 & P2 & E2).
  - eapply Permutation_Forall; [symmetry; exact P1|exact Hle].
  - eapply FOP_perm; [exact disj_sym|symmetry; exact P1|exact Hd].
  - exists N2. split; [etransitivity; eassumption|]. rewrite proj_merge, E1. exact E2.
Qed.

(* ---- from goodness for every key to the paired notes *)
Lemma good_pairs (t : list (Z * msg)) (M : list lnote) :
  Forall (fun n => 0 < ln_vel n) M ->
  (forall k, good k t (filter (on_key k) M)) ->
  Permutation (pair_notes [] (undelta 0 t)) M.
Proof.
  intros Hv HG. apply (filter_perm_perm key_of). intros k.
  change (fun x : lnote => key_of x =? k) with (on_key k).
  rewrite pair_notes_key. change (restrict [] k) with (@nil (Z * (Z * Z))).
  destruct (HG k) as (N' & P & E). rewrite E. unfold evs. rewrite pairing_inverts_sequential_lemma; [exact P|].
  apply Forall_forall. intros x Hx. apply (Permutation_in _ P) in Hx. apply filter_In in Hx as [Hx _].
  rewrite Forall_forall in Hv. auto.
Qed.

Lemma good_perm k t N M : Permutation N M -> good k t N -> good k t M.
Proof. intros P (N' & P' & E). exists N'. split; [etransitivity; eassumption|exact E]. Qed.

Lemma Forall2_map_same {A B C} (R : B -> C -> Prop) (f : A -> B) (g : A -> C) l :
  (forall x, In x l -> R (f x) (g x)) -> Forall2 R (map f l) (map g l).
Proof.
  induction l as [|x r IH]; intros H; constructor.
  - apply H. left. reflexivity.
  - apply IH. intros y Hy. apply H. right. exact Hy.
Qed.

Lemma map_flat_map' {A B C} (f : B -> C) (g : A -> list B) l : map f (flat_map g l) = flat_map (fun x => map f (g x)) l.
Proof. induction l as [|x r IH]; [reflexivity|]. cbn [flat_map]. rewrite map_app, IH. reflexivity. Qed.

Section MergedSaveLoad.
  Variables (rule ppq mpq : Z).
  Let Qn := quantised rule ppq mpq.

  (* as notes_ok, but two notes of one (channel, pitch) have disjoint tick intervals on whatever tracks they are *)
  Definition notes_ok_merged (ps : list ppart) : Prop :=
    Forall items_ok ps /\
    Forall (fun n => 0 < pn_vel n /\ ln_on (Qn n) <= ln_off (Qn n)) (all_notes ps) /\
    ForallOrdPairs (fun a b => pkey a = pkey b -> disj (Qn a) (Qn b)) (all_notes ps).

  Lemma notes_ok_merged_weaken ps : notes_ok_merged ps -> notes_ok rule ppq mpq ps.
  Proof.
    intros (H1 & H2 & H3). split; [exact H1|]. split; [exact H2|].
    eapply FOP_impl; [|exact H3]. intros a b _ _ H _ Hk. apply H. exact Hk.
  Qed.

  Lemma track_good tr k ps : notes_ok rule ppq mpq ps ->
    exists N', Permutation N' (map Qn (filter (sel_tk tr k) (all_notes ps))) /\
               proj k (track_msgs (emit_parts rule ppq mpq [] ps) tr) = evs N'.
  Proof.
    intros (Hi & Hv & Hd).
    unfold track_msgs.
    change (map (fun e : ev => (ev_tick e, snd e)) (filter (fun e : ev => ev_track e =? tr) (emit_parts rule ppq mpq [] ps)))
      with (track_abs tr (emit_parts rule ppq mpq [] ps)).
    unfold proj. rewrite filter_sort_by_tick. fold (proj k (track_abs tr (emit_parts rule ppq mpq [] ps))).
    rewrite (track_abs_parts rule ppq mpq) by assumption. cbn [app track_abs filter map proj].
    set (N := map (quantised rule ppq mpq) (filter (sel_tk tr k) (all_notes ps))).
    assert (HN1 : Forall (fun n => ln_on n <= ln_off n) N).
    { apply Forall_forall. intros x Hx. apply in_map_iff in Hx as (n & <- & Hn). apply filter_In in Hn as [Hn _].
      rewrite Forall_forall in Hv. apply (Hv n Hn). }
    assert (HN2 : ForallOrdPairs disj N).
    { apply FOP_map. eapply FOP_impl; [|apply FOP_filter; exact Hd].
      intros a b Ha Hb H. apply filter_In in Ha as [_ Ha]. apply filter_In in Hb as [_ Hb].
      unfold sel_tk in Ha, Hb. apply H; lia. }
    destruct (sort_note_events N HN1 HN2) as (N' & P & E).
    exists N'. split; [exact P|exact E].
  Qed.

  Lemma save_good k ps : notes_ok rule ppq mpq ps ->
    Forall2 (good k) (save rule ppq mpq false ps)
            (map (fun tr => map Qn (filter (sel_tk tr k) (all_notes ps))) (save_tracks rule ppq mpq ps)).
  Proof.
    intros Hok. unfold save. fold (save_tracks rule ppq mpq ps). cbn [andb].
    destruct (save_tracks rule ppq mpq ps) as [|tr0 trs]; [constructor|].
    cbn [map]. constructor.
    - destruct (track_good tr0 k ps Hok) as (N' & P & E). exists N'. split; [exact P|].
      cbn [undelta]. change (0 + 0) with 0. rewrite undelta_deltas.
      unfold proj at 1. cbn [filter snd is_note_ev]. exact E.
    - apply Forall2_map_same. intros tr _.
      destruct (track_good tr k ps Hok) as (N' & P & E). exists N'. split; [exact P|].
      rewrite undelta_deltas. exact E.
  Qed.

  Lemma filter_sel tr k (l : list pnote) :
    filter (sel_tk tr k) l = filter (fun n => pn_track n =? tr) (filter (fun n => pkey n =? k) l).
  Proof.
    induction l as [|n r IH]; [reflexivity|]. cbn [filter]. unfold sel_tk at 1.
    destruct (pkey n =? k); cbn [filter]; destruct (pn_track n =? tr); cbn [andb]; rewrite IH; reflexivity.
  Qed.

  Lemma filter_map_key' k l : filter (on_key k) (map Qn l) = map Qn (filter (fun n => pkey n =? k) l).
  Proof.
    induction l as [|n r IH]; [reflexivity|]. cbn [map filter]. unfold on_key at 1.
    change (key_of (Qn n)) with (pkey n). destruct (pkey n =? k); cbn [map]; rewrite IH; reflexivity.
  Qed.

  Lemma groups_perm k ps :
    Permutation (List.concat (map (fun tr => map Qn (filter (sel_tk tr k) (all_notes ps))) (save_tracks rule ppq mpq ps)))
                (filter (on_key k) (map Qn (all_notes ps))).
  Proof.
    rewrite <- flat_map_concat_map, <- map_flat_map', filter_map_key'. apply Permutation_map.
    rewrite (flat_map_ext _ (fun tr => filter (fun n => pn_track n =? tr) (filter (fun n => pkey n =? k) (all_notes ps))))
      by (intros tr; apply filter_sel).
    apply (group_perm pn_track).
    - apply sorted_uniq_NoDup.
    - apply Forall_forall. intros n Hn. apply filter_In in Hn as [Hn _]. apply note_track_saved. exact Hn.
  Qed.

  Lemma merged_good k ps : notes_ok_merged ps ->
    good k (merge_tracks (save rule ppq mpq false ps)) (filter (on_key k) (map Qn (all_notes ps))).
  Proof.
    intros Hok. pose proof (notes_ok_merged_weaken ps Hok) as Hok'. destruct Hok as (Hi & Hv & Hd).
    eapply good_perm; [apply groups_perm|].
    assert (HF : Forall (fun n => ln_on n <= ln_off n) (filter (on_key k) (map Qn (all_notes ps)))).
    { apply Forall_forall. intros x Hx. apply filter_In in Hx as [Hx _]. apply in_map_iff in Hx as (n & <- & Hn).
      rewrite Forall_forall in Hv. apply (Hv n Hn). }
    assert (HD : ForallOrdPairs disj (filter (on_key k) (map Qn (all_notes ps)))).
    { rewrite filter_map_key'. apply FOP_map. eapply FOP_impl; [|apply FOP_filter; exact Hd].
      intros a b Ha Hb H. apply filter_In in Ha as [_ Ha]. apply filter_In in Hb as [_ Hb]. apply H. lia. }
    apply merge_good.
    - apply save_good. exact Hok'.
    - eapply Permutation_Forall; [symmetry; apply groups_perm|exact HF].
    - eapply FOP_perm; [exact disj_sym|symmetry; apply groups_perm|exact HD].
  Qed.

  Lemma vel_pos ps : notes_ok_merged ps -> Forall (fun n => 0 < ln_vel n) (map Qn (all_notes ps)).
  Proof.
    intros (_ & Hv & _). apply Forall_forall. intros x Hx. apply in_map_iff in Hx as (n & <- & Hn).
    rewrite Forall_forall in Hv. apply (Hv n Hn).
  Qed.

  (* merged once: merge_tracks_save on a file of several tracks read without merging, or a file saved
     without merging read with merge_tracks *)
  Theorem save_load_notes_merged_lemma ps : notes_ok_merged ps ->
    Permutation (lp_notes (read_track 0 (undelta 0 (merge_tracks (save rule ppq mpq false ps))))) (map Qn (all_notes ps)).
  Proof.
    intros Hok. unfold read_track. cbn [lp_notes]. unfold sort_notes. rewrite sort_le_perm.
    apply good_pairs; [apply vel_pos; exact Hok|]. intros k. apply merged_good. exact Hok.
  Qed.

  (* merged twice: merge_tracks_save and merge_tracks *)
  Theorem save_load_notes_merged_twice_lemma ps : notes_ok_merged ps ->
    Permutation (lp_notes (read_track 0 (undelta 0 (merge_tracks [merge_tracks (save rule ppq mpq false ps)])))) (map Qn (all_notes ps)).
  Proof.
    intros Hok. unfold read_track. cbn [lp_notes]. unfold sort_notes. rewrite sort_le_perm.
    apply good_pairs; [apply vel_pos; exact Hok|]. intros k.
    pose proof (merged_good k ps Hok) as G.
    set (N := filter (on_key k) (map Qn (all_notes ps))) in *.
    assert (HF : Forall (fun n => ln_on n <= ln_off n) N).
    { destruct Hok as (_ & Hv & _). apply Forall_forall. intros x Hx. apply filter_In in Hx as [Hx _].
      apply in_map_iff in Hx as (n & <- & Hn). rewrite Forall_forall in Hv. apply (Hv n Hn). }
    assert (HD : ForallOrdPairs disj N).
    { destruct Hok as (_ & _ & Hd). unfold N. rewrite filter_map_key'. apply FOP_map.
      eapply FOP_impl; [|apply FOP_filter; exact Hd].
      intros a b Ha Hb H. apply filter_In in Ha as [_ Ha]. apply filter_In in Hb as [_ Hb]. apply H. lia. }
    apply (good_perm k _ (List.concat [N])); [cbn [List.concat]; rewrite app_nil_r; reflexivity|].
    apply merge_good.
    - constructor; [exact G|constructor].
    - cbn [List.concat]. rewrite app_nil_r. exact HF.
    - cbn [List.concat]. rewrite app_nil_r. exact HD.
  Qed.

  (* how save and load use merge_tracks *)
  Lemma save_merge_shape_lemma ps :
    save rule ppq mpq true ps
    = if 1 <? Z.of_nat (List.length (save rule ppq mpq false ps))
      then [merge_tracks (save rule ppq mpq false ps)] else save rule ppq mpq false ps.
  Proof. reflexivity. Qed.
  Lemma load_merged_parts_lemma dmpq tracks :
    fst (load dmpq true tracks) = filter nonempty_part [read_track 0 (undelta 0 (merge_tracks tracks))].
  Proof. reflexivity. Qed.
End MergedSaveLoad.

(* satisfiable: ex_ps with the note of the second part moved to another channel *)
Definition ex_ps_m : list ppart :=
  [mkPP [mkPI 0 0 (Meta 1)] [] [] [mkPI 0 (1 # 4) (CC 0 64 127)]
        [mkPN 0 0 60 64 0 (1 # 2); mkPN 0 1 60 70 (1 # 4) 2; mkPN 0 0 60 30 (3 # 4) (999 # 1000); mkPN 0 0 60 5 1 1] [];
   mkPP [] [] [] [] [mkPN 1 2 60 90 (1 # 10) (7 # 10)] [mkPI 1 0 (PC 0 5)]].

Lemma save_load_notes_merged_example_lemma :
  notes_ok_merged 0 480 500000 ex_ps_m /\
  map lp_notes (fst (load 500000 true (save 0 480 500000 true ex_ps_m)))
  = [[mkLN 60 64 0 0 480; mkLN 60 90 2 96 672; mkLN 60 70 1 240 1920; mkLN 60 30 0 720 959; mkLN 60 5 0 960 960]].
Proof.
  split; [|vm_compute; reflexivity].
  unfold notes_ok_merged, ex_ps_m, items_ok, all_notes. cbn [flat_map app pp_notes pp_metas pp_keys pp_times pp_ctrls pp_progs].
  split; [|split].
  - repeat constructor.
  - repeat constructor; vm_compute; congruence.
  - repeat (apply FOP_cons;
      [repeat (apply Forall_cons;
         [intros Hk; first [ vm_compute in Hk; discriminate Hk
                           | unfold disj; vm_compute; first [left; reflexivity | right; reflexivity] ]|]);
       apply Forall_nil|]); apply FOP_nil.
Qed.
