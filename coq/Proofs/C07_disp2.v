(* C07 -- the whole chain for one family of lines, for ALL field values: a pedal line written by the
   library is read by parse_matchline (ordered list of its version) as the same kind with equal fields *)
From PV Require Import Lib.Base Model.C07 Model.C07_Disp Proofs.C07_lib Proofs.C07 Proofs.C07_disp Gen.C07_Schemas Gen.C07_Parsers.
From Coq Require Import Ascii.
#[local] Open Scope string_scope.
#[local] Open Scope Z_scope.

(* ------------------------------------------------------------------ characters of a text *)

Definition within (allowed : string) (s : string) : bool := all_chars (fun c => mem_char c allowed) s.

Lemma within_app al a b : within al (a ++ b) = within al a && within al b.
Proof. apply all_chars_app. Qed.

Lemma occurs_within al l s : occurs l s -> within al s = true -> within al l = true.
Proof.
  intros (a & b & ->) H. rewrite !within_app in H.
  apply andb_true_iff in H as [_ H]. apply andb_true_iff in H as [H _]. exact H.
Qed.

Lemma search_none_within al pat s l :
  In (RLit l) pat -> within al s = true -> within al l = false -> re_search pat s = None.
Proof.
  intros Hin Hs Hl. destruct (re_search pat s) as [r|] eqn:E; auto.
  pose proof (search_lit_occurs _ _ _ _ E Hin) as O. pose proof (occurs_within _ _ _ O Hs). congruence.
Qed.

(* ------------------------------------------------------------------ a certificate that a method fails *)

Definition has_foreign_lit (al : string) (pat : rpat) : bool :=
  existsb (fun it => match it with RLit l => negb (within al l) | _ => false end) pat.

(* the method cannot read any text whose characters are all in [al] and which starts with [c0]:
   its first pattern holds a literal with a character outside [al], or it must start the line with
   another character *)
Definition fails_by (al : string) (c0 : ascii) (p : lparser) : bool :=
  match lp_steps p with
  | PSearch pat :: _ | PSearchThen pat _ :: _ => has_foreign_lit al pat
  | PMatch (RLit (String c _) :: _) :: _ => negb (Ascii.eqb c c0)
  | [] => match lp_codecs p with PByAttr [] => true | _ => false end
  | _ => false
  end.

Lemma has_foreign_lit_spec al pat : has_foreign_lit al pat = true -> exists l, In (RLit l) pat /\ within al l = false.
Proof.
  unfold has_foreign_lit. rewrite existsb_exists. intros ([l| |cl m] & Hin & H); try discriminate.
  exists l. split; auto. apply negb_true_iff in H. exact H.
Qed.

Lemma fails_by_spec tab al c0 p s :
  fails_by al c0 p = true -> within al (String c0 s) = true -> run_parser tab p (String c0 s) = None.
Proof.
  unfold fails_by, run_parser. intros F W.
  destruct (lp_steps p) as [|[pat|pat|pat q] sts] eqn:E.
  - destruct (lp_codecs p) as [cs|[|x t]]; try discriminate. reflexivity.
  - apply has_foreign_lit_spec in F as (l & Hin & Hl).
    cbn [run_steps run_step]. rewrite (search_none_within al pat _ l Hin W Hl). reflexivity.
  - destruct pat as [|[[|c l]| |cl m] pat]; try discriminate.
    apply negb_true_iff in F. cbn [run_steps run_step bt strip_prefix]. rewrite F. reflexivity.
  - apply has_foreign_lit_spec in F as (l & Hin & Hl).
    cbn [run_steps run_step]. rewrite (search_none_within al pat _ l Hin W Hl). reflexivity.
Qed.

Lemma dispatch_skip_all tab al c0 s : forall ps i,
  forallb (fails_by al c0) ps = true -> within al (String c0 s) = true ->
  forall qs, dispatch_from tab (ps ++ qs) (String c0 s) i = dispatch_from tab qs (String c0 s) (i + List.length ps).
Proof.
  induction ps as [|p ps IH]; intros i F W qs; simpl.
  - f_equal. lia.
  - apply andb_true_iff in F as [Fp F]. rewrite (fails_by_spec tab al c0 p s Fp W).
    rewrite IH; auto. f_equal. lia.
Qed.

(* ------------------------------------------------------------------ a pedal line on its own pattern *)

Lemma bt_grp_last cl m l v :
  all_chars (rc_in cl) v = true -> l <> "" -> (m <= String.length v)%nat ->
  bt [RGrp cl m; RLit l] (v ++ l) = Some ([v], "").
Proof.
  intros Hv Hl Hm. cbn [bt].
  replace [v] with (stake (String.length v) (v ++ l) :: []) by (rewrite stake_app; reflexivity).
  apply try_lens_first.
  - split; auto. apply run_len_app. exact Hv.
  - rewrite sdrop_app. cbn [bt]. rewrite strip_prefix_refl. reflexivity.
  - intros j' Hj. cbn [bt]. rewrite strip_prefix_short; auto.
    rewrite sdrop_length, length_app_s. destruct l; [congruence|]. simpl. simpl in Hj.
    pose proof (run_len_le (rc_in cl) (v ++ String a l)) as Hle. rewrite length_app_s in Hle. simpl in Hle. lia.
Qed.

Definition int_chars : string := "0123456789-".

Lemma print_N_within al n : (forall c, is_digit c = true -> mem_char c al = true) -> within al (print_N n) = true.
Proof. intros H. apply all_chars_weaken with (p := is_digit); auto. apply print_N_digits. Qed.

Lemma print_Z_chars p z :
  (forall c, is_digit c = true -> p c = true) -> p "-"%char = true -> all_chars p (print_Z z) = true.
Proof.
  intros Hd Hm. unfold print_Z. destruct (z <? 0).
  - simpl. rewrite Hm. simpl. apply all_chars_weaken with (p := is_digit); auto. apply print_N_digits.
  - apply all_chars_weaken with (p := is_digit); auto. apply print_N_digits.
Qed.

Lemma print_Z_len z : (1 <= String.length (print_Z z))%nat.
Proof. unfold print_Z. destruct (z <? 0); simpl; [lia | apply print_N_len]. Qed.

Lemma digit_cases (P : ascii -> Prop) :
  P "0"%char -> P "1"%char -> P "2"%char -> P "3"%char -> P "4"%char -> P "5"%char -> P "6"%char ->
  P "7"%char -> P "8"%char -> P "9"%char -> forall c, is_digit c = true -> P c.
Proof.
  intros. destruct c as [[] [] [] [] [] [] [] []]; try discriminate; assumption.
Qed.

Definition pedal_pat (name : string) : rpat :=
  [RLit (name ++ "("); RGrp (RNot ",") 1; RLit ","; RGrp (RNot ",") 1; RLit ")."].

Lemma not_comma_int z : all_chars (rc_in (RNot ",")) (print_Z z) = true.
Proof. apply print_Z_chars; [apply digit_cases; reflexivity | reflexivity]. Qed.

Lemma bt_pedal name t v :
  bt (pedal_pat name) (name ++ "(" ++ print_Z t ++ "," ++ print_Z v ++ ").") = Some ([print_Z t; print_Z v], "").
Proof.
  unfold pedal_pat.
  replace (name ++ "(" ++ print_Z t ++ "," ++ print_Z v ++ ").") with ((name ++ "(") ++ print_Z t ++ "," ++ print_Z v ++ ").")
    by (rewrite app_assoc_s; reflexivity).
  rewrite bt_lit. apply bt_grp_exact.
  - apply not_comma_int.
  - apply print_Z_len.
  - reflexivity.
  - change ("," ++ print_Z v ++ ").") with ("," ++ (print_Z v ++ ").")). rewrite bt_lit.
    apply bt_grp_last; [apply not_comma_int | discriminate | apply print_Z_len].
Qed.

Lemma search_hit pat s i gs rest : bt pat s = Some (gs, rest) -> search_from pat s i = Some (i, gs, rest).
Proof. intros H. destruct s; cbn [search_from]; rewrite H; reflexivity. Qed.

Lemma run_pedal_parser tab name cname t v :
  run_parser tab (mk_lparser cname [PSearch (pedal_pat name)] (PFixed [CInt; CInt]))
             (name ++ "(" ++ print_Z t ++ "," ++ print_Z v ++ ").") = Some ([print_Z t; print_Z v], [VInt t; VInt v]).
Proof.
  unfold run_parser. cbn [lp_steps lp_codecs run_steps run_step]. unfold re_search.
  rewrite (search_hit _ _ _ _ _ (bt_pedal name t v)). cbn [app decode_groups map2_opt dec].
  rewrite !parse_print_Z. reflexivity.
Qed.

(* ------------------------------------------------------------------ through the ordered lists *)

Definition disp_result (ps : list lparser) (s : string) : option (string * list value) :=
  match dispatch key_tab ps s with
  | Some (i, _, vs) => match nth_error ps i with Some p => Some (lp_name p, vs) | None => None end
  | None => None
  end.

(* the characters of a pedal line *)
Definition sustain_chars : string := "sustain(,).0123456789-".
Definition soft_chars : string := "soft(,).0123456789-".

Lemma pedal_text_within al name t v :
  within al (name ++ "(") = true -> within al ",)." = true ->
  (forall c, is_digit c = true -> mem_char c al = true) -> mem_char "-"%char al = true ->
  within al (name ++ "(" ++ print_Z t ++ "," ++ print_Z v ++ ").") = true.
Proof.
  intros Hn Hp Hd Hm.
  replace (name ++ "(" ++ print_Z t ++ "," ++ print_Z v ++ ").") with ((name ++ "(") ++ print_Z t ++ "," ++ print_Z v ++ ").")
    by (rewrite app_assoc_s; reflexivity).
  unfold within in *. cbn [all_chars] in Hp.
  apply andb_true_iff in Hp as [H1 Hp]. apply andb_true_iff in Hp as [H2 Hp]. apply andb_true_iff in Hp as [H3 _].
  rewrite (all_chars_app _ (name ++ "(")), Hn.
  rewrite (all_chars_app _ (print_Z t)), (print_Z_chars _ _ Hd Hm).
  cbn [append all_chars]. rewrite H1.
  rewrite (all_chars_app _ (print_Z v)), (print_Z_chars _ _ Hd Hm).
  cbn [all_chars]. rewrite H2, H3. reflexivity.
Qed.

(* one list: the methods before the pedal method all fail by certificate, the pedal method reads the line *)
Lemma dispatch_pedal_in ps before cname name al c0 rest after t v :
  ps = (before ++ mk_lparser cname [PSearch (pedal_pat name)] (PFixed [CInt; CInt]) :: after)%list ->
  name = String c0 rest ->
  forallb (fails_by al c0) before = true ->
  within al (name ++ "(") = true -> within al ",)." = true ->
  (forall c, is_digit c = true -> mem_char c al = true) -> mem_char "-"%char al = true ->
  disp_result ps (name ++ "(" ++ print_Z t ++ "," ++ print_Z v ++ ").") = Some (cname, [VInt t; VInt v]).
Proof.
  intros Hps Hname F W1 W2 Hd Hm. unfold disp_result, dispatch.
  pose proof (pedal_text_within al name t v W1 W2 Hd Hm) as W.
  pose proof (run_pedal_parser key_tab name cname t v) as R.
  subst ps. revert W R. rewrite Hname. cbn [append]. intros W R.
  rewrite (dispatch_skip_all key_tab al c0 _ before 0 F W). cbn [dispatch_from]. rewrite R.
  rewrite nth_error_app2 by lia. replace (0 + List.length before - List.length before)%nat with O by lia.
  reflexivity.
Qed.

(* position of the method of a class in a list (whatever the order of the list is on this run) *)
Fixpoint index_of (cname : string) (ps : list lparser) : nat :=
  match ps with
  | [] => O
  | p :: r => if String.eqb (lp_name p) cname then O else S (index_of cname r)
  end.

Ltac pedal cname name al c0 rest lst :=
  let n := eval vm_compute in (index_of cname lst) in
  apply (dispatch_pedal_in lst (firstn n lst) cname name al c0 rest (skipn (S n) lst));
  [ reflexivity | reflexivity | vm_compute; reflexivity | reflexivity | reflexivity
  | apply digit_cases; reflexivity | reflexivity ].

(* every format version, every time and value: the pedal lines the library writes are read by the ordered
   parser list of their version as the same kind with the same field values *)
Theorem dispatch_pedal_lines_lemma v ps t val :
  In (v, ps) parser_table ->
  disp_result ps ("sustain(" ++ print_Z t ++ "," ++ print_Z val ++ ").") = Some ("MatchSustainPedal", [VInt t; VInt val]) /\
  disp_result ps ("soft(" ++ print_Z t ++ "," ++ print_Z val ++ ").") = Some ("MatchSoftPedal", [VInt t; VInt val]).
Proof.
  intros H. unfold parser_table in H. simpl in H.
  destruct H as [H|[H|[H|[H|[H|[H|[]]]]]]]; inversion H; subst; split.
  - pedal "MatchSustainPedal" "sustain" sustain_chars "s"%char "ustain" parsers_v0_1_0.
  - pedal "MatchSoftPedal" "soft" soft_chars "s"%char "oft" parsers_v0_1_0.
  - pedal "MatchSustainPedal" "sustain" sustain_chars "s"%char "ustain" parsers_v0_2_0.
  - pedal "MatchSoftPedal" "soft" soft_chars "s"%char "oft" parsers_v0_2_0.
  - pedal "MatchSustainPedal" "sustain" sustain_chars "s"%char "ustain" parsers_v0_3_0.
  - pedal "MatchSoftPedal" "soft" soft_chars "s"%char "oft" parsers_v0_3_0.
  - pedal "MatchSustainPedal" "sustain" sustain_chars "s"%char "ustain" parsers_v0_4_0.
  - pedal "MatchSoftPedal" "soft" soft_chars "s"%char "oft" parsers_v0_4_0.
  - pedal "MatchSustainPedal" "sustain" sustain_chars "s"%char "ustain" parsers_v0_5_0.
  - pedal "MatchSoftPedal" "soft" soft_chars "s"%char "oft" parsers_v0_5_0.
  - pedal "MatchSustainPedal" "sustain" sustain_chars "s"%char "ustain" parsers_v1_0_0.
  - pedal "MatchSoftPedal" "soft" soft_chars "s"%char "oft" parsers_v1_0_0.
Qed.

(* what the library writes for a pedal object, on the schemas reflected from the pedal classes of every version *)
Lemma pedal_lines_written_lemma t val :
  Forall (fun sch => format_line key_tab sch [VInt t; VInt val] = Some ("sustain(" ++ print_Z t ++ "," ++ print_Z val ++ ")."))
         [sch_sustain_v0_1_0; sch_sustain_v0_2_0; sch_sustain_v0_3_0; sch_sustain_v0_4_0; sch_sustain_v0_5_0; sch_sustain_v1_0_0] /\
  Forall (fun sch => format_line key_tab sch [VInt t; VInt val] = Some ("soft(" ++ print_Z t ++ "," ++ print_Z val ++ ")."))
         [sch_soft_v0_1_0; sch_soft_v0_2_0; sch_soft_v0_3_0; sch_soft_v0_4_0; sch_soft_v0_5_0; sch_soft_v1_0_0].
Proof. split; repeat constructor. Qed.
