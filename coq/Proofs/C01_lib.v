(* C01 -- structural lemmas: list helpers, searchsorted split, sortedness, link chains, registries. *)
From PV Require Import Lib.Base Gen.C01_ClassTree Model.C01 Model.C01_Spec.
From Coq Require Import Sorting.Sorted.

(* ---------------------------------------------------------------- objects *)
Lemma obj_eqb_eq a b : obj_eqb a b = true <-> a = b.
Proof.
  unfold obj_eqb. destruct a as [a1 a2], b as [b1 b2]; simpl.
  rewrite andb_true_iff, !Z.eqb_eq. split; [intros [-> ->]; auto | intros E; inversion E; auto].
Qed.
Lemma obj_eqb_refl a : obj_eqb a a = true.
Proof. apply obj_eqb_eq; auto. Qed.
Lemma obj_eqb_neq a b : obj_eqb a b = false <-> a <> b.
Proof. rewrite <- obj_eqb_eq. destruct (obj_eqb a b); split; intros; try discriminate; auto. exfalso; auto. Qed.

Lemma oset_add_In o l x : In x (oset_add o l) <-> x = o \/ In x l.
Proof.
  unfold oset_add. destruct (existsb (obj_eqb o) l) eqn:E.
  - split; [auto|]. intros [->|H]; auto.
    apply existsb_exists in E as [y [Hy Ey]]. apply obj_eqb_eq in Ey. subst; auto.
  - rewrite in_app_iff. simpl. intuition.
Qed.

Lemma oset_add_NoDup o l : NoDup l -> NoDup (oset_add o l).
Proof.
  intros H. unfold oset_add. destruct (existsb (obj_eqb o) l) eqn:E; auto.
  assert (~ In o l).
  { intros Hin. assert (existsb (obj_eqb o) l = true); [|congruence].
    apply existsb_exists. exists o. split; auto. apply obj_eqb_refl. }
  clear E. induction H as [|y l Hy Hl IH]; simpl.
  - constructor; auto. constructor.
  - constructor.
    + rewrite in_app_iff. simpl. intros [A|[A|[]]]; [auto|]. subst. apply H0. left; auto.
    + apply IH. intros A. apply H0. right; auto.
Qed.

Lemma oset_remove_In o l x : In x (oset_remove o l) <-> x <> o /\ In x l.
Proof.
  unfold oset_remove. rewrite filter_In, negb_true_iff, obj_eqb_neq. intuition congruence.
Qed.

Lemma oset_remove_NoDup o l : NoDup l -> NoDup (oset_remove o l).
Proof. apply NoDup_filter. Qed.

(* ---------------------------------------------------------------- last / upd_last / upd_head *)
Lemma last_opt_cons {A} (a : A) l : last_opt (a :: l) = match l with [] => Some a | _ => last_opt l end.
Proof. reflexivity. Qed.

Lemma last_opt_some {A} (a : A) l : exists x, last_opt (a :: l) = Some x.
Proof. revert a. induction l as [|b l IH]; intros a; [eexists; reflexivity|]. rewrite last_opt_cons. apply IH. Qed.

Lemma lastt_cons p l a : lastt (p :: l) a = lastt l (Some (pt p)).
Proof.
  destruct l as [|p0 l]; [reflexivity|]. unfold lastt. rewrite last_opt_cons.
  destruct (last_opt_some p0 l) as [x ->]. reflexivity.
Qed.

Lemma hdt_app l r b : hdt (l ++ r) b = hdt l (hdt r b).
Proof. destruct l; reflexivity. Qed.

Lemma upd_last_cons {A} (f : A -> A) a l :
  upd_last f (a :: l) = match l with [] => [f a] | _ => a :: upd_last f l end.
Proof. reflexivity. Qed.

Lemma map_upd_last {A B} (g : A -> B) (f : A -> A) l :
  (forall a, g (f a) = g a) -> map g (upd_last f l) = map g l.
Proof.
  intros H. induction l as [|a l IH]; auto. rewrite upd_last_cons.
  destruct l as [|b l]; simpl; [rewrite H; auto|]. simpl in IH. rewrite IH. auto.
Qed.

Lemma map_upd_head {A B} (g : A -> B) (f : A -> A) l :
  (forall a, g (f a) = g a) -> map g (upd_head f l) = map g l.
Proof. intros H. destruct l; simpl; auto. rewrite H; auto. Qed.

Lemma flat_map_upd_last {A B} (g : A -> list B) (f : A -> A) l :
  (forall a, g (f a) = g a) -> flat_map g (upd_last f l) = flat_map g l.
Proof.
  intros H. induction l as [|a l IH]; auto. rewrite upd_last_cons.
  destruct l as [|b l]; simpl; [rewrite H; auto|]. simpl in IH. rewrite IH. auto.
Qed.

Lemma flat_map_upd_head {A B} (g : A -> list B) (f : A -> A) l :
  (forall a, g (f a) = g a) -> flat_map g (upd_head f l) = flat_map g l.
Proof. intros H. destruct l; simpl; auto. rewrite H; auto. Qed.

Lemma Forall_upd_last {A} (P : A -> Prop) f l :
  (forall a, P a -> P (f a)) -> Forall P l -> Forall P (upd_last f l).
Proof.
  intros H. induction l as [|a l IH]; intros F; auto. rewrite upd_last_cons.
  inversion F; subst. destruct l; constructor; auto.
Qed.

Lemma Forall_upd_head {A} (P : A -> Prop) f l :
  (forall a, P a -> P (f a)) -> Forall P l -> Forall P (upd_head f l).
Proof. intros H F. destruct l; simpl; auto. inversion F; subst. constructor; auto. Qed.

Lemma lastt_upd_last f l a : (forall x, pt (f x) = pt x) -> lastt (upd_last f l) a = lastt l a.
Proof.
  intros H. revert a. induction l as [|p l IH]; intros a; auto.
  rewrite upd_last_cons. destruct l as [|p' l].
  - unfold lastt; simpl. rewrite H; auto.
  - rewrite (lastt_cons p (upd_last f (p' :: l))), (lastt_cons p (p' :: l)). apply IH.
Qed.

Lemma hdt_upd_head f r b : (forall x, pt (f x) = pt x) -> hdt (upd_head f r) b = hdt r b.
Proof. intros H. destruct r; simpl; auto. rewrite H; auto. Qed.

(* ---------------------------------------------------------------- the searchsorted split *)
Lemma before_from t ps : before t ps ++ from t ps = ps.
Proof. induction ps as [|p r IH]; simpl; auto. destruct (pt p <? t); simpl; [rewrite IH|]; auto. Qed.

Lemma before_lt t ps : Forall (fun q => pt q < t) (before t ps).
Proof.
  induction ps as [|p r IH]; simpl; auto. destruct (pt p <? t) eqn:E; auto.
  constructor; auto. lia.
Qed.

Lemma from_hd_ge t ps q r : from t ps = q :: r -> t <= pt q.
Proof.
  induction ps as [|p ps IH]; simpl; [discriminate|].
  destruct (pt p <? t) eqn:E; auto. intros H; inversion H; subst. lia.
Qed.

(* ---------------------------------------------------------------- strictly increasing times *)
Lemma SS_app_iff (l r : list Z) :
  StronglySorted Z.lt (l ++ r) <->
  StronglySorted Z.lt l /\ StronglySorted Z.lt r /\ (forall x y, In x l -> In y r -> x < y).
Proof.
  induction l as [|a l IH]; simpl.
  - split; [intros H; repeat split; auto; [constructor | intros x y []] | tauto].
  - split.
    + intros H. inversion H as [|? ? Hs Hf]; subst. apply IH in Hs as [H1 [H2 H3]].
      rewrite Forall_forall in Hf. repeat split; auto.
      * constructor; auto. apply Forall_forall. intros x Hx. apply Hf. apply in_app_iff; auto.
      * intros x y [->|Hx] Hy; [apply Hf; apply in_app_iff; auto | auto].
    + intros [H1 [H2 H3]]. inversion H1 as [|? ? Hs Hf]; subst. constructor.
      * apply IH. repeat split; auto.
      * rewrite Forall_forall in *. intros x Hx. apply in_app_iff in Hx as [Hx|Hx]; auto.
Qed.

Lemma SS_cons_inv (a : Z) l : StronglySorted Z.lt (a :: l) -> StronglySorted Z.lt l /\ forall x, In x l -> a < x.
Proof. intros H. inversion H; subst. split; auto. apply Forall_forall; auto. Qed.

Lemma from_ge t ps : StronglySorted Z.lt (map pt ps) -> Forall (fun q => t <= pt q) (from t ps).
Proof.
  induction ps as [|p r IH]; simpl; intros H; auto.
  apply SS_cons_inv in H as [H1 H2].
  destruct (pt p <? t) eqn:E; auto.
  constructor; [lia|]. apply Forall_forall. intros x Hx.
  assert (pt p < pt x) by (apply H2; apply in_map; auto). lia.
Qed.

(* a member of a strictly increasing list heads the split at its own time *)
Lemma from_member ps q : StronglySorted Z.lt (map pt ps) -> In q ps -> exists r, from (pt q) ps = q :: r.
Proof.
  induction ps as [|p r IH]; simpl; intros H Hin; [tauto|].
  apply SS_cons_inv in H as [H1 H2].
  destruct (pt p <? pt q) eqn:E.
  - destruct Hin as [->|Hin]; [lia|]. auto.
  - destruct Hin as [->|Hin]; [eauto|].
    assert (pt p < pt q) by (apply H2; apply in_map; auto). lia.
Qed.

Lemma pt_unique ps q q' : StronglySorted Z.lt (map pt ps) -> In q ps -> In q' ps -> pt q = pt q' -> q = q'.
Proof.
  intros H A B E. destruct (from_member ps q H A) as [r Hr]. destruct (from_member ps q' H B) as [r' Hr'].
  rewrite E in Hr. congruence.
Qed.

Lemma find_pt_Some t ps q : find_pt t ps = Some q -> In q ps /\ pt q = t.
Proof. unfold find_pt. intros H. apply find_some in H as [A B]. apply Z.eqb_eq in B. auto. Qed.

Lemma find_pt_member ps q : StronglySorted Z.lt (map pt ps) -> In q ps -> find_pt (pt q) ps = Some q.
Proof.
  intros H Hin. unfold find_pt. destruct (find (fun x => pt x =? pt q) ps) as [q'|] eqn:E.
  - apply find_some in E as [A B]. apply Z.eqb_eq in B. f_equal. eapply pt_unique; eauto.
  - exfalso. pose proof (find_none _ _ E q Hin) as N. simpl in N. rewrite Z.eqb_refl in N. discriminate.
Qed.

Lemma get_point_member ps q : StronglySorted Z.lt (map pt ps) -> In q ps -> get_point (pt q) ps = Some q.
Proof.
  intros H Hin. unfold get_point. destruct (from_member ps q H Hin) as [r ->]. rewrite Z.eqb_refl. auto.
Qed.

Lemma get_point_Some t ps q : get_point t ps = Some q -> In q ps /\ pt q = t.
Proof.
  unfold get_point. destruct (from t ps) as [|x r] eqn:E; [discriminate|].
  destruct (pt x =? t) eqn:E2; [|discriminate]. intros H; inversion H; subst.
  split; [|lia]. rewrite <- (before_from t ps), E. apply in_app_iff. right. left. auto.
Qed.

Lemma get_point_None t ps : StronglySorted Z.lt (map pt ps) -> get_point t ps = None ->
  Forall (fun q => t < pt q) (from t ps).
Proof.
  intros H G. pose proof (from_ge t ps H) as F. unfold get_point in G.
  destruct (from t ps) as [|x r] eqn:E; auto.
  destruct (pt x =? t) eqn:E2; [discriminate|].
  rewrite <- (before_from t ps), E, map_app in H. apply SS_app_iff in H as [_ [H _]]. simpl in H.
  apply SS_cons_inv in H as [_ H]. inversion F; subst.
  constructor; [lia|]. apply Forall_forall. intros y Hy.
  assert (pt x < pt y) by (apply H; apply in_map; auto). lia.
Qed.

(* ---------------------------------------------------------------- chains *)
Lemma chain_app a l r b : chain a (l ++ r) b <-> chain a l (hdt r b) /\ chain (lastt l a) r b.
Proof.
  revert a. induction l as [|p l IH]; intros a.
  - simpl. unfold lastt; simpl. tauto.
  - rewrite lastt_cons. simpl. rewrite hdt_app, IH. tauto.
Qed.

Lemma chain_upd_last a l b b' : chain a l b -> chain a (upd_last (set_next b') l) b'.
Proof.
  revert a. induction l as [|p l IH]; intros a H; auto. rewrite upd_last_cons.
  destruct l as [|p' l].
  - simpl in *. tauto.
  - destruct H as [H1 [H2 H3]]. specialize (IH _ H3). rewrite upd_last_cons in IH.
    split; auto. split; auto. simpl in H2. rewrite H2.
    destruct l; reflexivity.
Qed.

Lemma chain_upd_head a a' r b : chain a r b -> chain a' (upd_head (set_prev a') r) b.
Proof. destruct r as [|p r]; simpl; auto. tauto. Qed.

Lemma chain_map g a ps b :
  (forall q, pt (g q) = pt q /\ pprev (g q) = pprev q /\ pnext (g q) = pnext q) ->
  chain a ps b -> chain a (map g ps) b.
Proof.
  intros Hg. revert a. induction ps as [|p r IH]; intros a; simpl; auto.
  destruct (Hg p) as [E1 [E2 E3]]. rewrite E1, E2, E3. intros [H1 [H2 H3]].
  split; auto. split; auto. rewrite H2. destruct r; simpl; auto. destruct (Hg p0) as [-> _]. auto.
Qed.

(* ---------------------------------------------------------------- registries *)
Lemma regs_app s l r : regs s (l ++ r) = regs s l ++ regs s r.
Proof. unfold regs. apply flat_map_app. Qed.

Lemma regs_In s ps t o : In (t, o) (regs s ps) <-> exists q, In q ps /\ pt q = t /\ In o (preg s q).
Proof.
  unfold regs. rewrite in_flat_map. split.
  - intros [q [Hq H]]. apply in_map_iff in H as [x [E Hx]]. inversion E; subst. eauto.
  - intros [q [Hq [E Ho]]]. exists q. split; auto. apply in_map_iff. exists o. subst; auto.
Qed.

Lemma regs_links_last s f l :
  (forall q, pt (f q) = pt q /\ preg s (f q) = preg s q) -> regs s (upd_last f l) = regs s l.
Proof. intros H. unfold regs. apply flat_map_upd_last. intros q. destruct (H q) as [-> ->]. auto. Qed.

Lemma regs_links_head s f l :
  (forall q, pt (f q) = pt q /\ preg s (f q) = preg s q) -> regs s (upd_head f l) = regs s l.
Proof. intros H. unfold regs. apply flat_map_upd_head. intros q. destruct (H q) as [-> ->]. auto. Qed.

Lemma regs_map s g ps :
  (forall q, pt (g q) = pt q /\ preg s (g q) = preg s q) -> regs s (map g ps) = regs s ps.
Proof.
  intros H. unfold regs. induction ps as [|p r IH]; simpl; auto.
  destruct (H p) as [-> ->]. rewrite IH. auto.
Qed.

Lemma preg_set_next s v q : pt (set_next v q) = pt q /\ preg s (set_next v q) = preg s q.
Proof. destruct s; auto. Qed.
Lemma preg_set_prev s v q : pt (set_prev v q) = pt q /\ preg s (set_prev v q) = preg s q.
Proof. destruct s; auto. Qed.

Lemma preg_set_preg_same s l q : preg s (set_preg s l q) = l.
Proof. destruct s; auto. Qed.
Lemma preg_set_preg_other s s' l q : s <> s' -> preg s' (set_preg s l q) = preg s' q.
Proof. destruct s, s'; auto; congruence. Qed.

Lemma upd_at_In t f ps q' :
  In q' (upd_at t f ps) <-> exists q, In q ps /\ q' = (if pt q =? t then f q else q).
Proof. unfold upd_at. rewrite in_map_iff. split; intros [q [A B]]; exists q; auto. Qed.

(* registrations after editing the side-s registry of the point at time t with g *)
Lemma regs_upd_at_same s t g ps t' x :
  In (t', x) (regs s (upd_at t (fun q => set_preg s (g (preg s q)) q) ps)) <->
  exists q, In q ps /\ pt q = t' /\ In x (if t' =? t then g (preg s q) else preg s q).
Proof.
  rewrite regs_In. split.
  - intros [q' [Hq' [E Hx]]]. apply upd_at_In in Hq' as [q [Hq ->]]. exists q. split; auto.
    destruct (pt q =? t) eqn:Et.
    + assert (pt (set_preg s (g (preg s q)) q) = pt q) by (destruct s; auto).
      rewrite H in E. subst t'. rewrite Et. rewrite preg_set_preg_same in Hx. auto.
    + subst t'. rewrite Et. auto.
  - intros [q [Hq [E Hx]]]. exists (if pt q =? t then set_preg s (g (preg s q)) q else q). split.
    + apply upd_at_In. eauto.
    + subst t'. destruct (pt q =? t); [|auto]. split; [destruct s; auto|]. rewrite preg_set_preg_same. auto.
Qed.

Lemma regs_upd_at_other s s' t g ps : s <> s' ->
  regs s' (upd_at t (fun q => set_preg s (g (preg s q)) q) ps) = regs s' ps.
Proof.
  intros N. unfold upd_at. apply regs_map. intros q. destruct (pt q =? t); auto.
  split; [destruct s; auto|]. apply preg_set_preg_other; auto.
Qed.
