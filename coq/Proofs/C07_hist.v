(* C07 -- histories: programs of operations on shared duration objects (Model/C07.v: fstep,
   prog_run) and the upgrade to 1.0.0 (line_to_v1). *)
From PV Require Import Lib.Base Lib.Round Model.C07 Proofs.C07_lib Gen.C07_Schemas Proofs.C07 Proofs.C07_codec.
From Coq Require Import QArith Qround Qabs Ascii.
#[local] Open Scope string_scope.
#[local] Open Scope Z_scope.

(* ------------------------------------------------------------------ programs *)

Lemma fstep_run_prefix env s env' : fstep_run env s = Some env' -> exists l, env' = (env ++ l)%list.
Proof.
  unfold fstep_run. destruct (fstep_new env s) as [[f|]|]; intros H; inversion H; subst.
  - exists [f]. reflexivity.
  - exists []. rewrite app_nil_r. reflexivity.
Qed.

Lemma prog_run_prefix prog : forall env env', prog_run env prog = Some env' -> exists l, env' = (env ++ l)%list.
Proof.
  induction prog as [|s prog IH]; intros env env' H; simpl in H.
  - inversion H. exists []. rewrite app_nil_r. reflexivity.
  - destruct (fstep_run env s) as [e1|] eqn:E; [|discriminate].
    destruct (fstep_run_prefix _ _ _ E) as [l1 ->]. destruct (IH _ _ H) as [l2 ->].
    exists (l1 ++ l2)%list. rewrite app_assoc. reflexivity.
Qed.

(* no operation of any program changes an object that exists already: whatever is done later
   (additions on either side, int +, radd, sum, parsing, comparisons), object i keeps its fields and
   therefore its text and value *)
Theorem prog_run_keeps_lemma prog env env' i f :
  prog_run env prog = Some env' -> nth_error env i = Some f ->
  nth_error env' i = Some f.
Proof.
  intros H Hi. destruct (prog_run_prefix _ _ _ H) as [l ->].
  rewrite nth_error_app1; [exact Hi|]. apply nth_error_Some. congruence.
Qed.

(* the result of an addition is a function of the operands' fields only *)
Theorem fstep_add_result env i j f g env' :
  nth_error env i = Some f -> nth_error env j = Some g -> fstep_run env (SAdd i j) = Some env' ->
  env' = (env ++ [frac_add f g])%list.
Proof. unfold fstep_run, fstep_new. intros -> ->. intros H. inversion H. reflexivity. Qed.

(* sum([x1, x2, ...]) = ((0 + x1) + x2) + ... is the left-to-right sum starting from zero *)
Lemma frac_add_zero_comm f : frac_add f frac_zero = frac_add frac_zero f.
Proof.
  unfold frac_add, frac_zero, mk_frac. rewrite (bound_pair_noop 0 1) by (unfold frac_bound; lia).
  cbn [fnum fden ftd tdiv fcomps frac_comps frac_triple].
  rewrite (Z.lcm_comm (1 * 1)), filter_app, filter_app. cbn [filter fst negb Z.eqb].
  rewrite app_nil_r.
  replace (Z.lcm (fden f * tdiv (ftd f)) (1 * 1) / (1 * 1) * 0 +
           Z.lcm (fden f * tdiv (ftd f)) (1 * 1) / (fden f * tdiv (ftd f)) * fnum f)
    with (Z.lcm (fden f * tdiv (ftd f)) (1 * 1) / (fden f * tdiv (ftd f)) * fnum f +
          Z.lcm (fden f * tdiv (ftd f)) (1 * 1) / (1 * 1) * 0) by ring.
  reflexivity.
Qed.

Theorem frac_sum_py_spec x r : frac_sum_py (x :: r) = Some (frac_sum (x :: r)).
Proof. unfold frac_sum_py, frac_sum. cbn [fold_left]. rewrite frac_add_zero_comm. reflexivity. Qed.

(* the hypotheses are satisfiable: t = 1/4+1/16 is added to twice, compared, and still prints as itself *)
Example prog_example :
  exists env, prog_run [] [SParse "1/4+1/16"; SNew 1 32 None; SAdd 0 1; SNew 1 8 (Some 3); SAdd 0 3; SNop; SSum [0%nat; 0%nat]] = Some env /\
    map print_frac env = ["1/4+1/16"; "1/32"; "1/4+1/16+1/32"; "1/8/3"; "1/4+1/16+1/8/3"; "1/4+1/16+1/4+1/16"].
Proof. eexists. split; vm_compute; reflexivity. Qed.

(* ------------------------------------------------------------------ programs within the bound keep
   "numeric value = sum of the printed components" for every live object *)

Lemma fcomps_mk_frac n d td cs : fcomps (mk_frac n d td cs) = cs.
Proof. unfold mk_frac. destruct (bound_pair n d). reflexivity. Qed.

Lemma parse_simple_plain t f : parse_simple t = Some f -> fcomps f = None.
Proof.
  unfold parse_simple. destruct (map_opt parse_N (split_on "/" t)) as [[|a [|b [|c [|? ?]]]]|]; try discriminate;
    intros H; injection H as <-; apply fcomps_mk_frac.
Qed.

Lemma map_opt_Forall {A B} (f : A -> option B) (P : B -> Prop) :
  (forall x y, f x = Some y -> P y) -> forall l ys, map_opt f l = Some ys -> Forall P ys.
Proof.
  intros HP. induction l as [|x l IH]; intros ys H; simpl in H.
  - injection H as <-. constructor.
  - destruct (f x) as [y|] eqn:E; [|discriminate]. destruct (map_opt f l) as [ys'|]; [|discriminate].
    injection H as <-. constructor; [eapply HP; eauto | apply IH; reflexivity].
Qed.

Lemma fold_inv ps : forall acc, frac_inv acc -> Forall frac_inv ps -> fold_within acc ps ->
  frac_inv (fold_left frac_add ps acc).
Proof.
  induction ps as [|p ps IH]; intros acc Ha Hps Hw; simpl; auto.
  inversion Hps; subst. destruct Hw as [Hw1 Hw2].
  apply IH; auto. apply frac_inv_add_lemma; auto.
Qed.

Definition step_within (env : list frac) (s : fstep) : Prop :=
  match s with
  | SParse t =>
      forall ps, parse_simple t = None -> map_opt parse_simple (split_on "+" t) = Some ps ->
                 fold_within frac_zero ps
  | SNew _ _ _ | SNop => True
  | SAdd i j => forall f g, nth_error env i = Some f -> nth_error env j = Some g -> add_within f g
  | SAddInt i k | SRAddInt k i =>
      forall f, nth_error env i = Some f -> add_within f (mk_frac k 1 None None)
  | SSum l =>
      forall x r, map_opt (nth_error env) l = Some (x :: r) ->
                  add_within x frac_zero /\ fold_within (frac_add x frac_zero) r
  end.

Fixpoint prog_within (env : list frac) (prog : list fstep) : Prop :=
  match prog with
  | [] => True
  | s :: r => step_within env s /\ forall env1, fstep_run env s = Some env1 -> prog_within env1 r
  end.

Lemma frac_zero_inv : frac_inv frac_zero.
Proof. apply frac_inv_simple. reflexivity. Qed.

Lemma Forall_nth_error {A} (P : A -> Prop) l : Forall P l -> forall i x, nth_error l i = Some x -> P x.
Proof. intros H i x Hi. rewrite Forall_forall in H. apply H. eapply nth_error_In; eauto. Qed.

Lemma step_inv env s f :
  Forall frac_inv env -> step_within env s -> fstep_new env s = Some (Some f) -> frac_inv f.
Proof.
  intros Henv Hw H. pose proof (Forall_nth_error _ _ Henv) as Hnth.
  destruct s as [t|n d td|i j|i k|k i|l|]; simpl in H, Hw.
  - unfold parse_frac in H. destruct (parse_simple t) as [g|] eqn:E.
    + injection H as <-. apply frac_inv_simple. eapply parse_simple_plain; eauto.
    + destruct (split_on "+" t) as [|a [|b parts]] eqn:Es; try discriminate.
      destruct (map_opt parse_simple (a :: b :: parts)) as [ps|] eqn:Em; [|discriminate].
      injection H as <-. unfold frac_sum. apply fold_inv.
      * apply frac_zero_inv.
      * eapply map_opt_Forall; [|exact Em]. intros x y Hx. apply frac_inv_simple. eapply parse_simple_plain; eauto.
      * apply Hw; auto.
  - injection H as <-. apply frac_inv_simple. apply fcomps_mk_frac.
  - destruct (nth_error env i) as [f1|] eqn:E1; [|discriminate].
    destruct (nth_error env j) as [f2|] eqn:E2; [|discriminate]. injection H as <-.
    apply frac_inv_add_lemma; eauto.
  - destruct (nth_error env i) as [f1|] eqn:E1; [|discriminate]. injection H as <-.
    apply frac_inv_add_lemma; eauto. apply frac_inv_simple. apply fcomps_mk_frac.
  - destruct (nth_error env i) as [f1|] eqn:E1; [|discriminate]. injection H as <-.
    apply frac_inv_add_lemma; eauto. apply frac_inv_simple. apply fcomps_mk_frac.
  - destruct (map_opt (nth_error env) l) as [fs|] eqn:Em; [|discriminate].
    assert (Hfs : Forall frac_inv fs).
    { eapply map_opt_Forall; [|exact Em]. intros x y Hx. eapply Hnth; eauto. }
    destruct fs as [|x r]; [discriminate|]. simpl in H. injection H as <-.
    inversion Hfs as [|? ? Hx Hr]; subst. destruct (Hw x r eq_refl) as [Hw1 Hw2].
    apply fold_inv; auto. apply frac_inv_add_lemma; auto. apply frac_zero_inv.
  - discriminate.
Qed.

(* every object a program creates, as long as its additions stay within the bound, stands for the
   sum of the components it prints -- hence (frac_text_value_rt) keeps its value through its text *)
Theorem prog_inv_lemma prog : forall env env',
  Forall frac_inv env -> prog_within env prog -> prog_run env prog = Some env' -> Forall frac_inv env'.
Proof.
  induction prog as [|s prog IH]; intros env env' Henv Hw H; simpl in H.
  - injection H as <-. exact Henv.
  - destruct Hw as [Hs Hr]. destruct (fstep_run env s) as [env1|] eqn:E; [|discriminate].
    apply (IH env1 env'); auto.
    unfold fstep_run in E. destruct (fstep_new env s) as [[f|]|] eqn:En; try discriminate; injection E as <-.
    + apply Forall_app. split; [exact Henv|]. constructor; [|constructor]. eapply step_inv; eauto.
    + exact Henv.
Qed.

Example prog_inv_example :
  prog_within [] [SParse "1/4+1/16"; SNew 1 32 None; SAdd 0 1; SSum [0%nat; 2%nat]].
Proof.
  simpl. split.
  { intros ps _ H. vm_compute in H. injection H as <-. simpl. unfold add_within. repeat split; vm_compute; congruence. }
  intros env1 H1. vm_compute in H1. injection H1 as <-. split; [exact I|].
  intros env2 H2. vm_compute in H2. injection H2 as <-. split.
  { intros f g Hf Hg. vm_compute in Hf, Hg. injection Hf as <-. injection Hg as <-.
    unfold add_within. repeat split; vm_compute; congruence. }
  intros env3 H3. vm_compute in H3. injection H3 as <-. split; [|intros; exact I].
  intros x r H. vm_compute in H. injection H as <- <-. simpl. unfold add_within. repeat split; vm_compute; congruence.
Qed.

(* C07-K1 in the model: a sum of zero durations has no component left, prints as the empty text,
   and the empty text is not a duration *)
Theorem frac_zero_sum_text_lemma :
  print_frac (frac_add (mk_frac 0 4 None None) (mk_frac 0 8 None None)) = "" /\ parse_frac "" = None.
Proof. split; vm_compute; reflexivity. Qed.

(* ------------------------------------------------------------------ to_v1 *)


Theorem note_to_v1_content id step alt oct on off vel out adj :
  note_to_v1 (match adj with
              | Some a => [VStr id; VStr step; alt; VInt oct; on; off; a; vel]
              | None => [VStr id; VStr step; alt; VInt oct; on; off; vel]
              end) = Some out ->
  exists a p on' off',
    alter_of alt = Some a /\ midi_pitch step a oct = Some p /\
    tick_to_v1 on = Some on' /\ tick_to_v1 off = Some off' /\
    out = [VStr id; VInt p; on'; off'; vel; VInt 1; VInt 0].
Proof.
  intros H. destruct adj; cbn [note_to_v1] in H;
    destruct (alter_of alt) as [a|] eqn:Ea; try discriminate;
    destruct (tick_to_v1 on) as [on'|] eqn:E1; try discriminate;
    destruct (tick_to_v1 off) as [off'|] eqn:E2; try discriminate;
    destruct (midi_pitch step a oct) as [p|] eqn:Ep; try discriminate;
    injection H as <-; exists a, p, on', off'; repeat split; auto.
Qed.

(* the converted tick is the nearest integer; an integral tick is kept *)
Theorem tick_to_v1_int z : tick_to_v1 (VInt z) = Some (VInt z).
Proof. reflexivity. Qed.

Theorem tick_to_v1_near neg q t : tick_to_v1 (VQ neg q) = Some (VInt t) ->
  (Qabs ((if neg then - q else q) - inject_Z t) <= 1 # 2)%Q.
Proof.
  unfold tick_to_v1. intros H. injection H as <-. destruct neg.
  - assert (E : (- q - inject_Z (- round_half_even q) == - (q - inject_Z (round_half_even q)))%Q)
      by (rewrite inject_Z_opp; ring).
    rewrite E, Qabs_opp. apply round_half_even_near.
  - apply round_half_even_near.
Qed.

Theorem tick_to_v1_exact neg k : tick_to_v1 (VQ neg (inject_Z k)) = Some (VInt (if neg then - k else k)).
Proof. simpl. rewrite round_half_even_Z. reflexivity. Qed.

Theorem midi_pitch_spec step a oct p : midi_pitch step a oct = Some p ->
  exists b, step_pc step = Some b /\ p = 12 * (oct + 1) + b + a.
Proof.
  unfold midi_pitch. destruct (step_pc step) as [b|]; [|discriminate].
  intros H. injection H as <-. exists b. split; [reflexivity|ring].
Qed.

(* the score-note part (11 fields: anchor, pitch spelling, measure, beat, offset, duration, onset and
   offset in beats, attributes) is carried over unchanged *)
Theorem to_v1_keeps_snote sn no out :
  List.length sn = snote_len -> line_to_v1 KSnoteNote (sn ++ no)%list = Some out ->
  exists no', note_to_v1 no = Some no' /\ out = (sn ++ no')%list.
Proof.
  intros Hl. unfold line_to_v1.
  rewrite <- Hl, skipn_app, firstn_app, Nat.sub_diag, skipn_all, firstn_all. simpl.
  rewrite app_nil_r. destruct (note_to_v1 no) as [no'|]; [|discriminate].
  intros H. injection H as <-. exists no'. split; reflexivity.
Qed.

Theorem to_v1_keeps_deletion_and_pedal vs :
  line_to_v1 KSnoteOnly vs = Some vs /\ line_to_v1 KPedal vs = Some vs.
Proof. split; reflexivity. Qed.

Theorem to_v1_trill anchor no out :
  line_to_v1 KTrill (anchor :: no) = Some out ->
  exists no', note_to_v1 no = Some no' /\ out = anchor :: VList ["trill"] :: no'.
Proof.
  simpl. destruct (note_to_v1 no) as [no'|]; [|discriminate]. intros H. injection H as <-. eauto.
Qed.

Example to_v1_example :
  line_to_v1 KTrill [VStr "n3"; VStr "1"; VStr "C"; VInt 1; VInt 4; VQ false (5 # 2); VQ false (7 # 2); VInt 64]
  = Some [VStr "n3"; VList ["trill"]; VStr "1"; VInt 61; VInt 2; VInt 4; VInt 64; VInt 1; VInt 0].
Proof. vm_compute. reflexivity. Qed.
