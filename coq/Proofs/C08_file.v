(* C08 proofs, part 8: the header of the file, the clock the loader takes from it, one leg and a
   chain of legs at the level of the file *)
From PV Require Import Lib.Base Lib.Round Model.C12 Model.C08 Model.C08_file Proofs.C08 Proofs.C08_perf.
From Coq Require Import Ascii String QArith Qabs Lqa.
#[local] Open Scope Z_scope.

(* ---------------- header ---------------- *)

Lemma header_clock_lemma ver o ppq mpq :
  clock_of (header_of ver o ppq mpq) = Some (arg_ppq ppq, arg_mpq mpq).
Proof. reflexivity. Qed.

Lemma header_texts_lemma ver o ppq mpq :
  let h := header_of ver o ppq mpq in
  info "matchFileVersion" h = Some (HStr ver) /\
  info "performer" h = Some (HStr (dash (o_performer o))) /\
  info "piece" h = Some (HStr (dash (o_piece o))) /\
  info "composer" h = Some (HStr (dash (o_composer o))) /\
  info "scoreFileName" h = Some (HStr (dash (o_score_fn o))) /\
  info "midiFileName" h = Some (HStr (dash (o_perf_fn o))) /\
  info "midiClockUnits" h = Some (HInt (arg_ppq ppq)) /\
  info "midiClockRate" h = Some (HInt (arg_mpq mpq)) /\
  List.length h = 8%nat.
Proof. cbv zeta. repeat split; reflexivity. Qed.

(* the lookup takes the FIRST line with the attribute: lines after the header cannot change the clock *)
Lemma slookup_app {A} k (l1 l2 : list (string * A)) v :
  slookup k l1 = Some v -> slookup k (l1 ++ l2) = Some v.
Proof.
  induction l1 as [|[k' v'] r IH]; cbn; [discriminate|].
  destruct (String.eqb k k'); [auto | exact IH].
Qed.

Lemma clock_of_app l more x : clock_of l = Some x -> clock_of (l ++ more) = Some x.
Proof.
  unfold clock_of, info. intros H.
  destruct (slookup "midiClockUnits" l) as [[p|s]|] eqn:E1; try discriminate.
  destruct (slookup "midiClockRate" l) as [[m|s]|] eqn:E2; try discriminate.
  unfold info_line in *. rewrite (slookup_app _ l more _ E1), (slookup_app _ l more _ E2). exact H.
Qed.

Lemma header_clock_first_lemma ver o ppq mpq more :
  clock_of (header_of ver o ppq mpq ++ more) = Some (arg_ppq ppq, arg_mpq mpq).
Proof. apply clock_of_app. reflexivity. Qed.

(* ---------------- one leg of the file ---------------- *)

Lemma file_leg_lemma ver o c ns cs :
  file_leg ver o c (ns, cs) =
  Some (arg_ppq (fst c), arg_mpq (snd c),
        map (leg (arg_ppq (fst c)) (arg_mpq (snd c))) ns,
        ped_roundtrip (arg_ppq (fst c)) (arg_mpq (snd c)) cs).
Proof.
  unfold file_leg, load_perf, save_file. cbn [mf_info mf_notes mf_peds fst snd].
  rewrite header_clock_lemma. cbn [first_at_zero]. rewrite map_map. reflexivity.
Qed.

(* ---------------- chain of legs ---------------- *)

Definition cleg (c : option Z * option Z) (p : pnote) : pnote := leg (arg_ppq (fst c)) (arg_mpq (snd c)) p.
Definition cped (c : option Z * option Z) (cs : list ctrl) : list ctrl :=
  ped_roundtrip (arg_ppq (fst c)) (arg_mpq (snd c)) cs.
Definition leg_chain (cl : list (option Z * option Z)) (p : pnote) : pnote := fold_left (fun p c => cleg c p) cl p.
Definition ped_chain (cl : list (option Z * option Z)) (cs : list ctrl) : list ctrl := fold_left (fun s c => cped c s) cl cs.

Lemma legs_total_lemma ver o cl : forall ns cs,
  legs ver o cl (ns, cs) = Some (map (leg_chain cl) ns, ped_chain cl cs).
Proof.
  induction cl as [|c r IH]; intros ns cs.
  - cbn. rewrite map_id. reflexivity.
  - cbn [legs]. rewrite file_leg_lemma. rewrite IH. unfold leg_chain, ped_chain. cbn [fold_left].
    rewrite map_map. reflexivity.
Qed.

Definition clock_pos (c : option Z * option Z) : Prop := 0 < arg_ppq (fst c) /\ 0 < arg_mpq (snd c).

Lemma leg_chain_lemma cl : forall p,
  Forall clock_pos cl ->
  let r := leg_chain cl p in
  p_pitch r = p_pitch p /\ p_vel r = p_vel p /\
  (Qabs (p_on r - p_on p) <= drift cl)%Q /\ (Qabs (p_off r - p_off p) <= drift cl)%Q.
Proof.
  induction cl as [|c rest IH]; intros p H; cbv zeta.
  - unfold leg_chain. cbn [fold_left drift]. repeat split.
    + setoid_replace (p_on p - p_on p)%Q with 0%Q by ring. discriminate.
    + setoid_replace (p_off p - p_off p)%Q with 0%Q by ring. discriminate.
  - inversion H as [|c' r' [Hp Hm] Hr]; subst.
    unfold leg_chain. cbn [fold_left drift]. fold (leg_chain rest (cleg c p)).
    destruct (IH (cleg c p) Hr) as (A & B & C & D).
    destruct (leg_note_lemma _ _ p Hp Hm) as (A1 & B1 & _ & _ & _ & _ & _ & C1 & D1).
    fold (cleg c p) in A1, B1, C1, D1. fold (clock_half c) in C1, D1.
    repeat split.
    + rewrite A. exact A1.
    + rewrite B. exact B1.
    + setoid_replace (p_on (leg_chain rest (cleg c p)) - p_on p)%Q
        with ((p_on (cleg c p) - p_on p) + (p_on (leg_chain rest (cleg c p)) - p_on (cleg c p)))%Q by ring.
      eapply Qle_trans; [apply Qabs_triangle|]. apply Qplus_le_compat; assumption.
    + setoid_replace (p_off (leg_chain rest (cleg c p)) - p_off p)%Q
        with ((p_off (cleg c p) - p_off p) + (p_off (leg_chain rest (cleg c p)) - p_off (cleg c p)))%Q by ring.
      eapply Qle_trans; [apply Qabs_triangle|]. apply Qplus_le_compat; assumption.
Qed.

(* the last leg decides the ticks: they are the nearest ticks, in the LAST clock, of the seconds held
   before that leg *)
Lemma leg_chain_last cl c p :
  leg_chain (cl ++ [c]) p = cleg c (leg_chain cl p).
Proof. unfold leg_chain. rewrite fold_left_app. reflexivity. Qed.

(* the statement of the chain theorem, as a predicate of the "legs" function, so that variants can be
   put in its place *)
Definition legs_spec (L : list (option Z * option Z) -> list pnote * list ctrl -> option (list pnote * list ctrl)) : Prop :=
  forall cl ns cs, Forall clock_pos cl ->
  exists ns' cs', L cl (ns, cs) = Some (ns', cs') /\
    List.length ns' = List.length ns /\
    forall i p, nth_error ns i = Some p ->
      exists r, nth_error ns' i = Some r /\
        p_pitch r = p_pitch p /\ p_vel r = p_vel p /\
        (Qabs (p_on r - p_on p) <= drift cl)%Q /\ (Qabs (p_off r - p_off p) <= drift cl)%Q.

Lemma legs_spec_lemma ver o : legs_spec (legs ver o).
Proof.
  intros cl ns cs H. exists (map (leg_chain cl) ns), (ped_chain cl cs).
  split; [apply legs_total_lemma|]. split; [apply map_length|].
  intros i p Hi. exists (leg_chain cl p). split.
  - rewrite nth_error_map, Hi. reflexivity.
  - exact (leg_chain_lemma cl p H).
Qed.

Definition legs_last_spec (L : list (option Z * option Z) -> list pnote * list ctrl -> option (list pnote * list ctrl)) : Prop :=
  forall cl c ns cs,
  L (cl ++ [c]) (ns, cs) =
  match L cl (ns, cs) with
  | Some (ms, ds) => Some (map (leg (arg_ppq (fst c)) (arg_mpq (snd c))) ms,
                           ped_roundtrip (arg_ppq (fst c)) (arg_mpq (snd c)) ds)
  | None => None
  end.

Lemma legs_last_lemma ver o : legs_last_spec (legs ver o).
Proof.
  intros cl c ns cs.
  rewrite !legs_total_lemma. f_equal. f_equal.
  - rewrite map_map. apply map_ext. intros p. apply leg_chain_last.
  - unfold ped_chain. rewrite fold_left_app. reflexivity.
Qed.

(* ---------------- first_note_at_zero ---------------- *)

Lemma tts_lt ppq mpq k1 k2 : 0 < ppq -> 0 < mpq -> k1 < k2 -> (tick_to_sec ppq mpq k1 < tick_to_sec ppq mpq k2)%Q.
Proof.
  intros Hp Hm H. unfold tick_to_sec, Qdiv.
  apply Qmult_lt_compat_r.
  - apply Qinv_lt_0_compat. apply injZ_pos. lia.
  - rewrite <- Zlt_Qlt. nia.
Qed.

Lemma tts_le_bool ppq mpq a b : 0 < ppq -> 0 < mpq ->
  Qle_bool (tick_to_sec ppq mpq a) (tick_to_sec ppq mpq b) = (a <=? b).
Proof.
  intros Hp Hm. destruct (Z.leb_spec a b) as [H|H].
  - apply Qle_bool_iff. apply tick_to_sec_mono; assumption.
  - destruct (Qle_bool _ _) eqn:E; [|reflexivity].
    apply Qle_bool_iff in E. pose proof (tts_lt ppq mpq b a Hp Hm H) as L.
    exfalso. apply (Qlt_not_le _ _ L E).
Qed.

Lemma qmin_tts ppq mpq : 0 < ppq -> 0 < mpq -> forall ks k0,
  qmin_list (tick_to_sec ppq mpq k0) (map (tick_to_sec ppq mpq) ks) = tick_to_sec ppq mpq (zmin_list k0 ks).
Proof.
  intros Hp Hm. induction ks as [|k r IH]; intros k0; cbn [map qmin_list zmin_list]; [reflexivity|].
  rewrite IH. rewrite tts_le_bool by assumption.
  destruct (Z.leb_spec k0 (zmin_list k r)) as [H|H].
  - rewrite Z.min_l by lia. reflexivity.
  - rewrite Z.min_r by lia. reflexivity.
Qed.

Lemma tts_sub ppq mpq a d : 0 < ppq ->
  (tick_to_sec ppq mpq a - tick_to_sec ppq mpq d == tick_to_sec ppq mpq (a - d))%Q.
Proof.
  intros Hp. unfold tick_to_sec.
  assert (N : ~ (inject_Z (1000000 * ppq) == 0)%Q).
  { intros C. pose proof (injZ_pos (1000000 * ppq) ltac:(lia)) as P. rewrite C in P. discriminate. }
  set (A := inject_Z (1000000 * ppq)) in *.
  rewrite !inject_Z_mult. unfold Z.sub. rewrite inject_Z_plus, inject_Z_opp. field. exact N.
Qed.

Definition ticks_ok (ppq mpq : Z) (n : pnote) : Prop :=
  exists a b, p_stored n = Some (a, b) /\ (p_on n == tick_to_sec ppq mpq a)%Q /\ (p_off n == tick_to_sec ppq mpq b)%Q.

Lemma imp_ok ppq mpq f : ticks_ok ppq mpq (imp_note ppq mpq f).
Proof. exists (f_on f), (f_off f). repeat split; reflexivity. Qed.

Lemma zmin_le_all k0 ks : zmin_list k0 ks <= k0 /\ forall k, In k ks -> zmin_list k0 ks <= k.
Proof.
  revert k0. induction ks as [|k r IH]; intros k0; cbn [zmin_list].
  - split; [lia | intros k []].
  - destruct (IH k) as [A B]. split; [lia|].
    intros x [E|I]; [subst; lia | specialize (B x I); lia].
Qed.

Lemma zmin_in k0 ks : In (zmin_list k0 ks) (k0 :: ks).
Proof.
  revert k0. induction ks as [|k r IH]; intros k0; cbn [zmin_list]; [left; reflexivity|].
  destruct (Z.min_spec k0 (zmin_list k r)) as [[_ E]|[_ E]]; rewrite E.
  - left; reflexivity.
  - right. apply IH.
Qed.

(* first_note_at_zero on what the loader made from a file *)
Lemma first_zero_lemma ppq mpq fl :
  0 < ppq -> 0 < mpq ->
  let l := map (imp_note ppq mpq) fl in
  let r := first_at_zero true l in
  first_at_zero false l = l /\
  List.length r = List.length l /\
  Forall (ticks_ok ppq mpq) r /\
  (forall i n, nth_error l i = Some n -> exists n', nth_error r i = Some n' /\
      p_pitch n' = p_pitch n /\ p_vel n' = p_vel n /\ (p_off n' - p_on n' == p_off n - p_on n)%Q) /\
  ((forall f, In f fl -> 0 < f_on f) -> fl <> [] ->
     (exists n', In n' r /\ stored_on n' = 0 /\ (p_on n' == 0)%Q) /\ forall n', In n' r -> 0 <= stored_on n').
Proof.
  intros Hp Hm. cbv zeta.
  split; [destruct fl; reflexivity|].
  destruct fl as [|f fr].
  { cbn [map first_at_zero]. split; [reflexivity|]. split; [constructor|]. split.
    - intros i n H. destruct i; discriminate H.
    - intros _ C. exfalso. apply C. reflexivity. }
  cbn [map first_at_zero].
  set (x := imp_note ppq mpq f). set (r := map (imp_note ppq mpq) fr).
  assert (Edq : qmin_list (p_on x) (map p_on r) = tick_to_sec ppq mpq (zmin_list (f_on f) (map f_on fr))).
  { unfold x, r. cbn [imp_note p_on]. rewrite map_map. cbn [p_on].
    rewrite <- (map_map f_on (tick_to_sec ppq mpq)). apply qmin_tts; assumption. }
  assert (Edk : zmin_list (stored_on x) (map stored_on r) = zmin_list (f_on f) (map f_on fr)).
  { unfold x, r. cbn [imp_note stored_on p_stored]. rewrite map_map. reflexivity. }
  rewrite Edq, Edk. set (dk := zmin_list (f_on f) (map f_on fr)).
  assert (Hall : Forall (ticks_ok ppq mpq) (x :: r)).
  { constructor; [apply imp_ok|]. unfold r. apply Forall_forall. intros n Hn. apply in_map_iff in Hn as (g & <- & _). apply imp_ok. }
  assert (Hshift : forall n, ticks_ok ppq mpq n -> ticks_ok ppq mpq (shift_note (tick_to_sec ppq mpq dk) dk n)).
  { intros n (a & b & S & A & B). exists (a - dk), (b - dk). unfold shift_note. cbn [p_stored p_on p_off]. rewrite S.
    split; [reflexivity|]. split; [rewrite A | rewrite B]; apply tts_sub; assumption. }
  destruct (Qle_bool (tick_to_sec ppq mpq dk) 0 || (dk <=? 0)) eqn:C.
  - (* no shift *)
    split; [reflexivity|]. split; [exact Hall|]. split.
    + intros i n H. exists n. repeat split; try assumption; reflexivity.
    + intros Hpos _. exfalso.
      assert (0 < dk).
      { pose proof (zmin_in (f_on f) (map f_on fr)) as I. fold dk in I.
        destruct I as [E|I]; [rewrite <- E; apply Hpos; left; reflexivity|].
        apply in_map_iff in I as (g & <- & Ig). apply Hpos. right; exact Ig. }
      apply Bool.orb_true_iff in C as [C|C]; [|lia].
      apply Qle_bool_iff in C. pose proof (tts_lt ppq mpq 0 dk Hp Hm H) as L.
      assert (Z0 : (tick_to_sec ppq mpq 0 == 0)%Q) by (unfold tick_to_sec; rewrite Z.mul_0_r; reflexivity).
      rewrite Z0 in L. apply (Qlt_not_le _ _ L C).
  - (* shift *)
    change (shift_note (tick_to_sec ppq mpq dk) dk x :: map (shift_note (tick_to_sec ppq mpq dk) dk) r)
      with (map (shift_note (tick_to_sec ppq mpq dk) dk) (x :: r)).
    split; [rewrite map_length; reflexivity|]. split.
    + apply Forall_forall. intros n Hn. apply in_map_iff in Hn as (g & <- & Ig). apply Hshift.
      rewrite Forall_forall in Hall. apply Hall. exact Ig.
    + split.
      * intros i n H. exists (shift_note (tick_to_sec ppq mpq dk) dk n). rewrite nth_error_map, H.
        split; [reflexivity|]. unfold shift_note. cbn [p_pitch p_vel p_on p_off]. repeat split; try reflexivity. ring.
      * intros Hpos _. split.
        -- pose proof (zmin_in (f_on f) (map f_on fr)) as I. fold dk in I.
           assert (exists g, In g (f :: fr) /\ f_on g = dk) as (g & Ig & Eg).
           { destruct I as [E|I]; [exists f; split; [left; reflexivity | exact E]|].
             apply in_map_iff in I as (g & E & Ig). exists g. split; [right; exact Ig | exact E]. }
           exists (shift_note (tick_to_sec ppq mpq dk) dk (imp_note ppq mpq g)). split.
           ++ apply in_map. change (x :: r) with (map (imp_note ppq mpq) (f :: fr)). apply in_map. exact Ig.
           ++ unfold shift_note, stored_on. cbn [imp_note p_stored p_on]. rewrite Eg. split; [lia | ring].
        -- intros n' Hn. apply in_map_iff in Hn as (n & <- & In_).
           change (x :: r) with (map (imp_note ppq mpq) (f :: fr)) in In_. apply in_map_iff in In_ as (g & <- & Ig).
           unfold shift_note, stored_on. cbn [imp_note p_stored].
           destruct (zmin_le_all (f_on f) (map f_on fr)) as [A B]. fold dk in A, B.
           destruct Ig as [E|Ig]; [subst; lia|]. specialize (B (f_on g) (in_map f_on _ _ Ig)). lia.
Qed.

(* ---------------- examples ---------------- *)

#[local] Open Scope string_scope.

(* options that repeat attribute names as their text, one clock argument left out *)
Example header_nontrivial :
  let o := mkO (Some "midiClockUnits") None (Some "midiClockRate") (Some "x/y.musicxml") None in
  header_of "1.0.0" o (Some 96) None =
  [ ("matchFileVersion", HStr "1.0.0"); ("piece", HStr "-"); ("scoreFileName", HStr "x/y.musicxml");
    ("midiFileName", HStr "-"); ("composer", HStr "midiClockRate"); ("performer", HStr "midiClockUnits");
    ("midiClockUnits", HInt 96); ("midiClockRate", HInt 500000) ].
Proof. vm_compute. reflexivity. Qed.

Definition ex_opts := mkO None (Some "p") None None None.
Definition ex_note := mkP 60 70 (1001 # 1000) (3 # 2) (Some (7, 9)).

(* three legs with three clocks (the second by default arguments): Some, and the clocks are positive *)
Example legs_nontrivial :
  Forall clock_pos [(Some 48, Some 500000); (None, None); (Some 1000, Some 600000)] /\
  match legs "1.0.0" ex_opts [(Some 48, Some 500000); (None, None); (Some 1000, Some 600000)] ([ex_note], [(64, 1 # 3, 100)]) with
  | Some ([r], [(64, t, 100)]) =>
      p_pitch r = 60 /\ p_stored r = Some (1667, 2500) /\ (p_on r == 10002 # 10000)%Q /\ (t == 3336 # 10000)%Q
  | _ => False
  end.
Proof.
  split; [repeat constructor|].
  vm_compute. repeat split.
Qed.

(* variant: the header carries the clock attributes of the performed part (480, 500000 below) while the
   ticks are those of the clock asked for: the file-leg statement fails *)
Example file_leg_part_clock_refuted :
  load_perf false (save_file_part_clock "1.0.0" ex_opts (Some 1000) (Some 600000) (480, 500000) [ex_note] [])
  <> Some (1000, 600000, map (leg 1000 600000) [ex_note], ped_roundtrip 1000 600000 []).
Proof. vm_compute. discriminate. Qed.

(* variant: a key of header_order misspelt: the clock-units line is left out and the loader has no clock *)
Example header_order_typo_refuted :
  clock_of (assemble header_order_typo (header_dict "1.0.0" ex_opts 480 500000)) = None.
Proof. vm_compute. reflexivity. Qed.

(* variant of the chain: every leg saves with the clock of the FIRST leg (a clock remembered between
   calls): the last leg no longer writes the ticks of the clock asked for *)
Definition legs_sticky ver o (cl : list (option Z * option Z)) st :=
  match cl with
  | [] => Some st
  | c :: _ => legs ver o (map (fun _ => c) cl) st
  end.
Example legs_sticky_refuted : ~ legs_last_spec (legs_sticky "1.0.0" ex_opts).
Proof.
  intros H.
  specialize (H [(Some 1000, Some 1000000)] (Some 4, Some 1000000) [mkP 60 70 (1 # 10) (3 # 8) None] []).
  vm_compute in H. discriminate H.
Qed.

(* first_note_at_zero: three notes, the earliest not the first line; shifted by 96 ticks = 0.1 s *)
Example first_zero_nontrivial :
  map (fun n => (p_stored n, Qred (p_on n))) (first_at_zero true (map (imp_note 480 500000) [mkF 60 64 192 480; mkF 62 64 96 200; mkF 64 64 960 970]))
  = [(Some (96, 384), (1 # 10)%Q); (Some (0, 104), 0%Q); (Some (864, 874), (9 # 10)%Q)].
Proof. vm_compute. reflexivity. Qed.

(* variant: only the onsets are shifted -- the offsets no longer are the seconds of their ticks *)
Definition shift_on_only (dq : Q) (dk : Z) (p : pnote) : pnote :=
  mkP (p_pitch p) (p_vel p) (p_on p - dq) (p_off p)
      (match p_stored p with Some (a, b) => Some (a - dk, b - dk) | None => None end).
Example shift_on_only_refuted :
  ~ ticks_ok 480 500000 (shift_on_only (tick_to_sec 480 500000 96) 96 (imp_note 480 500000 (mkF 60 64 192 480))).
Proof.
  intros (a & b & S & _ & B). vm_compute in S. injection S as <- <-. vm_compute in B. discriminate B.
Qed.
