(* C17 -- the running chroma context vectors of compute_chroma_vector_array hold the counts of the
   context slices of Model/C17_Spelling.v (refinement, all arrays, all K_pre / K_post). *)
From PV Require Import Lib.Base Gen.C17_PS13 Model.C17_Spelling Model.C17_Chroma Proofs.C17_lib Proofs.C17_Spelling.
#[local] Open Scope Z_scope.

Lemma firstn_In_Z : forall (l : list Z) k x, In x (firstn k l) -> In x l.
Proof.
  induction l as [|y l IH]; intros [|k] x H; cbn in H; try contradiction.
  destruct H as [<-|H]; [now left|right; eauto].
Qed.

Definition cv_wf (v : cvec) : Prop := List.length v = 12%nat.

Lemma cv_add_at_length : forall d k v, List.length (cv_add_at d k v) = List.length v.
Proof. intros d k v. revert k. induction v as [|x r IH]; intros [|k]; cbn; auto. Qed.

Lemma cv_add_at_nth_same : forall d k v, (k < List.length v)%nat ->
  nth k (cv_add_at d k v) 0 = nth k v 0 + d.
Proof.
  intros d k v. revert k. induction v as [|x r IH]; intros [|k] H; cbn in *; try lia.
  apply IH. lia.
Qed.

Lemma cv_add_at_nth_other : forall d k j v, k <> j -> nth j (cv_add_at d k v) 0 = nth j v 0.
Proof.
  intros d k j v. revert k j. induction v as [|x r IH]; intros [|k] [|j] H; cbn; auto; try lia.
Qed.

Lemma cv_get_add : forall d x v c, cv_wf v -> 0 <= x < 12 -> 0 <= c < 12 ->
  cv_get (cv_add d x v) c = cv_get v c + (if x =? c then d else 0).
Proof.
  intros d x v c W Hx Hc. unfold cv_get, cv_add.
  destruct (x =? c) eqn:E.
  - apply Z.eqb_eq in E. subst c. apply cv_add_at_nth_same. unfold cv_wf in W. lia.
  - apply Z.eqb_neq in E. rewrite cv_add_at_nth_other by lia. lia.
Qed.

Lemma cv_add_wf : forall d x v, cv_wf v -> cv_wf (cv_add d x v).
Proof. intros. unfold cv_wf, cv_add in *. now rewrite cv_add_at_length. Qed.

(* the vector v holds the chroma counts of the list w *)
Definition cv_counts (v : cvec) (w : list Z) : Prop :=
  cv_wf v /\ forall c, 0 <= c < 12 -> cv_get v c = ps_count c w.

Lemma ps_count_app : forall c a b, ps_count c (a ++ b) = ps_count c a + ps_count c b.
Proof.
  intros c a b. unfold ps_count. induction a as [|x a IH]; cbn; [lia|].
  destruct (x =? c); lia.
Qed.

Lemma ps_count_cons : forall c x w, ps_count c (x :: w) = ps_count c w + (if x =? c then 1 else 0).
Proof. intros. unfold ps_count. cbn. destruct (x =? c); lia. Qed.

Lemma firstn_snoc : forall (l : list Z) k, (k < List.length l)%nat ->
  firstn (S k) l = firstn k l ++ [nth k l 0].
Proof.
  induction l as [|x l IH]; intros k H; cbn in H; [lia|].
  destruct k as [|k]; [reflexivity|].
  change (firstn (S (S k)) (x :: l)) with (x :: firstn (S k) l).
  change (firstn (S k) (x :: l)) with (x :: firstn k l).
  change (nth (S k) (x :: l) 0) with (nth k l 0).
  rewrite (IH k) by lia. reflexivity.
Qed.

Lemma nth_skipn_Z : forall (l : list Z) a k, nth k (skipn a l) 0 = nth (a + k) l 0.
Proof.
  induction l as [|x l IH]; intros a k.
  - rewrite skipn_nil. destruct k, a; reflexivity.
  - destruct a as [|a]; [reflexivity|]. cbn [skipn]. rewrite IH. reflexivity.
Qed.

Lemma ps_seg_snoc : forall cs a b, (a <= b)%nat -> (b < List.length cs)%nat ->
  ps_seg a (S b) cs = ps_seg a b cs ++ [nth b cs 0].
Proof.
  intros cs a b Hab Hb. unfold ps_seg.
  replace (S b - a)%nat with (S (b - a)) by lia.
  rewrite firstn_snoc by (rewrite skipn_length; lia).
  rewrite nth_skipn_Z. replace (a + (b - a))%nat with b by lia. reflexivity.
Qed.

Lemma skipn_uncons : forall (l : list Z) a, (a < List.length l)%nat ->
  skipn a l = nth a l 0 :: skipn (S a) l.
Proof.
  induction l as [|x l IH]; intros a H; cbn in H; [lia|].
  destruct a as [|a]; [reflexivity|].
  cbn [skipn nth]. rewrite (IH a) by lia. reflexivity.
Qed.

Lemma ps_seg_uncons : forall cs a b, (a < b)%nat -> (a < List.length cs)%nat ->
  ps_seg a b cs = nth a cs 0 :: ps_seg (S a) b cs.
Proof.
  intros cs a b Hab Ha. unfold ps_seg.
  replace (b - a)%nat with (S (b - S a)) by lia.
  rewrite (skipn_uncons cs a Ha). reflexivity.
Qed.

Lemma cv_counts_add : forall v w x, cv_counts v w -> 0 <= x < 12 ->
  cv_counts (cv_add 1 x v) (w ++ [x]).
Proof.
  intros v w x [W H] Hx. split; [now apply cv_add_wf|].
  intros c Hc. rewrite cv_get_add by auto. rewrite H by auto.
  rewrite ps_count_app, ps_count_cons. cbn. destruct (x =? c); lia.
Qed.

Lemma cv_counts_remove : forall v w x, cv_counts v (x :: w) -> 0 <= x < 12 ->
  cv_counts (cv_add (-1) x v) w.
Proof.
  intros v w x [W H] Hx. split; [now apply cv_add_wf|].
  intros c Hc. rewrite cv_get_add by auto. rewrite H by auto.
  rewrite ps_count_cons. destruct (x =? c); lia.
Qed.

Definition chromas_ok (cs : list Z) : Prop := forall x, In x cs -> 0 <= x < 12.

Lemma chromas_ok_nth : forall cs k, chromas_ok cs -> (k < List.length cs)%nat -> 0 <= nth k cs 0 < 12.
Proof. intros cs k H Hk. apply H. now apply nth_In. Qed.

(* the initial vector: the counts of the first min(n, K_post) chromas *)
Lemma cv_init_counts : forall kpost cs, chromas_ok cs ->
  cv_counts (cv_init kpost cs) (ps_seg 0 (Nat.min (List.length cs) kpost) cs).
Proof.
  intros kpost cs Hok. unfold cv_init, ps_seg. cbn [skipn]. rewrite Nat.sub_0_r.
  replace (firstn (Nat.min (List.length cs) kpost) cs) with (firstn kpost cs).
  2:{ destruct (Nat.le_ge_cases kpost (List.length cs)).
      - now rewrite Nat.min_r by lia.
      - rewrite Nat.min_l by lia. rewrite !firstn_all2 by lia. reflexivity. }
  assert (Hin : forall x, In x (firstn kpost cs) -> 0 <= x < 12).
  { intros x Hx. apply Hok. eapply firstn_In_Z; eauto. }
  assert (G : forall l v w, (forall x, In x l -> 0 <= x < 12) -> cv_counts v w ->
              cv_counts (fold_left (fun v c => cv_add 1 c v) l v) (w ++ l)).
  { induction l as [|x l IH]; intros v w Hl Hv; cbn.
    - now rewrite app_nil_r.
    - replace (w ++ x :: l) with ((w ++ [x]) ++ l) by (rewrite <- app_assoc; reflexivity).
      apply IH; [intros y Hy; apply Hl; now right|].
      apply cv_counts_add; auto. apply Hl. now left. }
  apply (G (firstn kpost cs) cv_zero [] Hin).
  split; [reflexivity|]. intros c Hc. unfold cv_get, cv_zero.
  assert (Hc' : (Z.to_nat c < 12)%nat) by lia. change (ps_count c []) with 0.
  generalize dependent (Z.to_nat c). intros n Hn.
  do 12 (destruct n as [|n]; [reflexivity|]). lia.
Qed.

(* one iteration of the loop: from the context of note i-1 to the context of note i *)
Lemma cv_step_counts : forall kpre kpost cs i v, chromas_ok cs ->
  (1 <= i)%nat -> (i < List.length cs)%nat ->
  cv_counts v (ps_seg (i - 1 - kpre) (Nat.min (List.length cs) (i - 1 + kpost)) cs) ->
  let v1 := if (i + kpost <=? List.length cs)%nat then cv_add 1 (nth (i + kpost - 1) cs 0) v else v in
  let v2 := if (kpre <? i)%nat then cv_add (-1) (nth (i - kpre - 1) cs 0) v1 else v1 in
  cv_counts v2 (ps_seg (i - kpre) (Nat.min (List.length cs) (i + kpost)) cs).
Proof.
  intros kpre kpost cs i v Hok Hi Hn Hv v1 v2.
  set (n := List.length cs) in *.
  assert (H1 : cv_counts v1 (ps_seg (i - 1 - kpre) (Nat.min n (i + kpost)) cs)).
  { subst v1. destruct (i + kpost <=? n)%nat eqn:E.
    - apply Nat.leb_le in E.
      rewrite Nat.min_r in Hv by lia. rewrite Nat.min_r by lia.
      replace (i + kpost - 1)%nat with (i - 1 + kpost)%nat by lia.
      replace (i + kpost)%nat with (S (i - 1 + kpost)) by lia.
      rewrite ps_seg_snoc by (fold n; lia).
      apply cv_counts_add; auto. apply chromas_ok_nth; auto. fold n. lia.
    - apply Nat.leb_gt in E.
      rewrite Nat.min_l in Hv by lia. rewrite Nat.min_l by lia. exact Hv. }
  subst v2. destruct (kpre <? i)%nat eqn:E.
  - apply Nat.ltb_lt in E.
    rewrite (ps_seg_uncons cs (i - 1 - kpre) (Nat.min n (i + kpost))) in H1 by (fold n; lia).
    replace (S (i - 1 - kpre)) with (i - kpre)%nat in H1 by lia.
    replace (i - kpre - 1)%nat with (i - 1 - kpre)%nat by lia.
    apply cv_counts_remove in H1; auto. apply chromas_ok_nth; auto. fold n. lia.
  - apply Nat.ltb_ge in E.
    replace (i - kpre)%nat with (i - 1 - kpre)%nat by lia. exact H1.
Qed.

Lemma cv_loop_counts : forall kpre kpost cs, chromas_ok cs ->
  forall steps i v, (1 <= i)%nat -> (i + steps <= List.length cs)%nat ->
  cv_counts v (ps_seg (i - 1 - kpre) (Nat.min (List.length cs) (i - 1 + kpost)) cs) ->
  forall k, (k < steps)%nat ->
  cv_counts (nth k (cv_loop kpre kpost cs steps i v) cv_zero)
            (ps_seg (i + k - kpre) (Nat.min (List.length cs) (i + k + kpost)) cs).
Proof.
  intros kpre kpost cs Hok. induction steps as [|s IH]; intros i v Hi Hn Hv k Hk; [lia|].
  pose proof (cv_step_counts kpre kpost cs i v Hok Hi ltac:(lia) Hv) as Hs. cbv zeta in Hs.
  cbn [cv_loop]. destruct k as [|k].
  - cbn [nth]. rewrite Nat.add_0_r. exact Hs.
  - cbn [nth]. replace (i + S k)%nat with (S i + k)%nat by lia.
    apply IH; try lia.
    replace (S i - 1)%nat with i by lia. exact Hs.
Qed.

Lemma cv_loop_length : forall kpre kpost cs steps i v, List.length (cv_loop kpre kpost cs steps i v) = steps.
Proof. intros kpre kpost cs. induction steps as [|s IH]; intros; cbn; auto. Qed.

Lemma chroma_vectors_length : forall kpre kpost cs, cs <> [] ->
  List.length (chroma_vectors kpre kpost cs) = List.length cs.
Proof.
  intros kpre kpost cs H. unfold chroma_vectors. cbn [List.length]. rewrite cv_loop_length.
  destruct cs; [contradiction|]. cbn. lia.
Qed.

Lemma ps_window_is_seg : forall kpre kpost cs j,
  ps_window kpre kpost cs j = ps_seg (j - kpre) (Nat.min (List.length cs) (j + kpost)) cs.
Proof. reflexivity. Qed.

(* THE REFINEMENT: the running vector stored for note j holds, for every chroma, the number of
   notes of that chroma in the slice max(0, j-K_pre) .. min(n, j+K_post)-1 -- all arrays, all K *)
Lemma chroma_vectors_window : forall kpre kpost cs j, chromas_ok cs -> (j < List.length cs)%nat ->
  cv_counts (nth j (chroma_vectors kpre kpost cs) cv_zero) (ps_window kpre kpost cs j).
Proof.
  intros kpre kpost cs j Hok Hj. rewrite ps_window_is_seg. unfold chroma_vectors.
  pose proof (cv_init_counts kpost cs Hok) as H0.
  destruct j as [|j].
  - cbn [nth]. cbn [Nat.sub Nat.add]. exact H0.
  - cbn [nth].
    pose proof (cv_loop_counts kpre kpost cs Hok (List.length cs - 1) 1 (cv_init kpost cs)
                  ltac:(lia) ltac:(lia)) as L.
    cbn [Nat.sub Nat.add] in L. specialize (L H0 j ltac:(lia)).
    replace (S j) with (1 + j)%nat by lia. exact L.
Qed.

(* the note's own chroma is counted in its own vector (K_post >= 1): the fact the bound on the
   accidentals rests on (selected_morph_has_support) *)
Lemma own_chroma_counted : forall kpre kpost cs j, chromas_ok cs -> (1 <= kpost)%nat ->
  (j < List.length cs)%nat ->
  1 <= cv_get (nth j (chroma_vectors kpre kpost cs) cv_zero) (nth j cs 0).
Proof.
  intros kpre kpost cs j Hok Hk Hj.
  destruct (chroma_vectors_window kpre kpost cs j Hok Hj) as [_ H].
  rewrite H by (apply chromas_ok_nth; auto).
  apply ps_count_In. apply window_contains; auto.
Qed.

Lemma argmax_first_ext : forall f g cands best, (forall x, f x = g x) ->
  argmax_first f cands best = argmax_first g cands best.
Proof.
  intros f g cands. induction cands as [|x l IH]; intros best E; cbn; [reflexivity|].
  rewrite !E. apply IH. exact E.
Qed.

Lemma morph_strength_v_eq : forall c0 c v w m, cv_counts v w ->
  morph_strength_v c0 c v m = morph_strength c0 c w m.
Proof.
  intros c0 c v w m [_ H]. unfold morph_strength_v, morph_strength.
  assert (G : forall l, (forall ct, In ct l -> 0 <= ct < 12) ->
    fold_right (fun ct a => if mftc c0 c ct =? m then cv_get v ct + a else a) 0 l =
    fold_right (fun ct a => if mftc c0 c ct =? m then ps_count ct w + a else a) 0 l).
  { induction l as [|x l IH]; intros Hl; cbn; [reflexivity|].
    rewrite IH by (intros; apply Hl; now right). rewrite H by (apply Hl; now left). reflexivity. }
  apply G. intros ct Hct. apply zrange_In_inv in Hct. lia.
Qed.

Lemma select_morph_v_eq : forall c0 c v w, cv_counts v w -> select_morph_v c0 c v = select_morph c0 c w.
Proof.
  intros. unfold select_morph_v, select_morph. apply argmax_first_ext.
  intros m. now apply morph_strength_v_eq.
Qed.

Lemma skipn_uncons_gen : forall {A} (l : list A) a d, (a < List.length l)%nat ->
  skipn a l = nth a l d :: skipn (S a) l.
Proof.
  intros A. induction l as [|x l IH]; intros a d H; cbn in H; [lia|].
  destruct a as [|a]; [reflexivity|].
  cbn [skipn nth]. rewrite (IH a d) by lia. reflexivity.
Qed.

Lemma spell_from_v_eq : forall kpre kpost cs c0, chromas_ok cs ->
  forall rs j, (j + List.length rs <= List.length cs)%nat ->
  spell_from_v c0 (skipn j (chroma_vectors kpre kpost cs)) rs = spell_from kpre kpost cs c0 j rs.
Proof.
  intros kpre kpost cs c0 Hok. induction rs as [|r rs IH]; intros j Hj; [destruct (skipn j _); reflexivity|].
  cbn [List.length] in Hj.
  assert (Hne : cs <> []) by (intros ->; cbn in Hj; lia).
  rewrite (skipn_uncons_gen (chroma_vectors kpre kpost cs) j cv_zero)
    by (rewrite chroma_vectors_length by auto; lia).
  cbn [spell_from_v spell_from].
  rewrite (select_morph_v_eq c0 _ _ (ps_window kpre kpost cs j))
    by (apply chroma_vectors_window; auto; lia).
  f_equal. apply IH. lia.
Qed.

Lemma chroma_of_pitch_range : forall p, 0 <= chroma_of_pitch p < 12.
Proof. intros. unfold chroma_of_pitch. apply Z.mod_pos_bound. lia. Qed.

(* ps13 spelled from the running vectors (what the code does) IS the table the theorems are about *)
Lemma spell_tab_v_eq : forall kpre kpost rows, spell_tab_v kpre kpost rows = spell_tab kpre kpost rows.
Proof.
  intros kpre kpost rows. unfold spell_tab_v, spell_tab.
  set (s := ps_sort rows). set (cs := map (fun r => chroma_of_pitch (r_pitch r)) s).
  assert (Hok : chromas_ok cs).
  { intros x Hx. unfold cs in Hx. apply in_map_iff in Hx. destruct Hx as [r [<- _]]. apply chroma_of_pitch_range. }
  change (chroma_vectors kpre kpost cs) with (skipn 0 (chroma_vectors kpre kpost cs)).
  apply spell_from_v_eq; auto. unfold cs. rewrite map_length. lia.
Qed.

Lemma chroma_vectors_window_counts : forall kpre kpost cs j c,
  (forall x, In x cs -> 0 <= x < 12) -> (j < List.length cs)%nat -> 0 <= c < 12 ->
  cv_get (nth j (chroma_vectors kpre kpost cs) cv_zero) c = ps_count c (ps_window kpre kpost cs j).
Proof. intros kpre kpost cs j c Hok Hj Hc. exact (proj2 (chroma_vectors_window kpre kpost cs j Hok Hj) c Hc). Qed.

Lemma chroma_vectors_example_lemma :
  map (fun v => (cv_get v 0, cv_get v 3, cv_get v 7)) (chroma_vectors 1 2 [0; 3; 3; 7; 0; 7])
  = [(1, 1, 0); (1, 2, 0); (0, 2, 1); (1, 1, 1); (1, 0, 2); (1, 0, 1)].
Proof. vm_compute. reflexivity. Qed.
