(* C03 -- proofs, part 7: what save_musicxml returns after ANY history of calls, in-place edits and part
   replacements is a function of the CURRENT Score.parts alone (Model/C03_Hist.v): nothing an earlier call left
   behind, no earlier result and not the second view Score.part_structure enters it.  The three variants that carry
   state between calls are refuted by concrete histories. *)
From PV Require Import Lib.Base Model.C03_Rng Model.C03_Hist.
#[local] Open Scope Z_scope.

Lemma run_current : forall h pr, run h pr = map save (parts_at h (p_parts pr)).
Proof.
  unfold run. induction h as [|o h IH]; intro pr; simpl; [reflexivity|].
  destruct o as [|i p|i p]; simpl.
  - destruct (save_parts (p_parts pr) c0) as [out st] eqn:E. simpl.
    rewrite IH. simpl. unfold save at 2. rewrite E. reflexivity.
  - rewrite IH. reflexivity.
  - rewrite IH. reflexivity.
Qed.

(* in particular: two processes that agree on Score.parts observe the same, whatever else they hold *)
Lemma run_parts_only : forall h pr pr', p_parts pr = p_parts pr' -> run h pr = run h pr'.
Proof. intros h pr pr' H. rewrite !run_current, H. reflexivity. Qed.

(* the call after any history writes save (the parts as they are then) *)
Lemma parts_at_snoc : forall h s, parts_at (h ++ [HSave]) s = parts_at h s ++ [cur_parts h s].
Proof.
  induction h as [|o h IH]; intro s; simpl; [reflexivity|].
  destruct o; simpl; rewrite IH; reflexivity.
Qed.

Lemma run_last : forall h pr, run (h ++ [HSave]) pr = run h pr ++ [save (cur_parts h (p_parts pr))].
Proof. intros h pr. rewrite !run_current, parts_at_snoc, map_app. reflexivity. Qed.

Definition ex_p1 : hpart := mkHP [1; 2] [mkRN (0, 0) [] [10]; mkRN (1, 4) [10] []] [].
Definition ex_p2 : hpart := mkHP [2; 3] [mkRN (0, 0) [] [11; 12]; mkRN (1, 4) [11] []] [mkRN (0, 0) [] [20]; mkRN (1, 4) [20] []].
Definition ex_p3 : hpart := mkHP [7] [mkRN (0, 0) [] [13]] [].

(* non-vacuity: two parts sharing a note id (second writing: suffix 2); the second call, after part 0 was replaced
   through Score.__setitem__, starts from empty counters again (id 2 is written without suffix); the slur the new
   part 0 leaves open keeps number 1 for the rest of THAT call (the counters are per call, not per part) *)
Lemma hist_example_lemma :
  run [HSave; HSetPart 0 ex_p3; HSave] (mkP [ex_p1; ex_p2] [ex_p1; ex_p2] c0 None) =
  [ [ ([(1, 1); (2, 1)], [[(1, true)]; [(1, false)]], []);
      ([(2, 2); (3, 1)], [[(1, true); (2, true)]; [(1, false)]], [[(1, true)]; [(1, false)]]) ];
    [ ([(7, 1)], [[(1, true)]], []);
      ([(2, 1); (3, 1)], [[(2, true); (3, true)]; [(2, false)]], [[(1, true)]; [(1, false)]]) ] ].
Proof. vm_compute. reflexivity. Qed.

Lemma leaky_refuted_lemma :
  exists h s, run_with step_leaky h (mkP s s c0 None) <> map save (parts_at h s).
Proof. exists [HSave; HSave], [ex_p3]. vm_compute. discriminate. Qed.

Lemma memo_refuted_lemma :
  exists h s, run_with step_memo h (mkP s s c0 None) <> map save (parts_at h s).
Proof. exists [HSave; HEdit 0 ex_p3; HSave], [ex_p1]. vm_compute. discriminate. Qed.

Lemma structure_refuted_lemma :
  exists h s, run_with step_structure h (mkP s s c0 None) <> map save (parts_at h s).
Proof. exists [HSetPart 0 ex_p3; HSave], [ex_p1]. vm_compute. discriminate. Qed.
