(* C09 -- proofs about the path search: every returned path is a walk in the segment graph. *)
From PV Require Import Lib.Base Model.C09.
From Coq Require Import ZArith List Bool Lia.
Import ListNotations.
#[local] Open Scope Z_scope.

(* ------------------------------------------------------------------ *)
(* the segment graph *)

(* b is an allowed destination of segment a in the table g: it is among a's destinations or
   among its awaiting destinations *)
Definition allowed (g : list seg) (a b : Z) : Prop :=
  exists s, find_seg a g = Some s /\ In b (s_to s ++ s_await s).

Fixpoint chain (g : list seg) (p : list Z) : Prop :=
  match p with
  | a :: ((b :: _) as r) => allowed g a b /\ chain g r
  | _ => True
  end.

(* a walk: starts at the first segment (id 0 = "A"), every step is an allowed destination,
   and END is an allowed destination of the last segment *)
Definition is_walk (g : list seg) (p : list Z) : Prop :=
  (exists r, p = 0 :: r) /\ chain g p /\ allowed g (zlast p) END.

(* the per-path table only ever offers destinations the original table allows *)
Definition sub_table (g segs : list seg) : Prop :=
  forall i s, nth_error segs i = Some s ->
    exists s0, nth_error g i = Some s0 /\ incl (s_to s) (s_to s0 ++ s_await s0) /\ s_await s = s_await s0.

Lemma sub_table_refl g : sub_table g g.
Proof. intros i s H. exists s. split; [auto|]. split; [|auto]. intros x Hx. apply in_or_app; auto. Qed.

Lemma sub_table_rewrite g segs : sub_table g segs -> sub_table g (map rewrite_seg segs).
Proof.
  intros H i s Hs. rewrite nth_error_map in Hs.
  destruct (nth_error segs i) as [s1|] eqn:E; simpl in Hs; [|discriminate].
  injection Hs as <-. destruct (H i s1 E) as (s0 & H0 & Hi & Ha).
  exists s0. split; [auto|]. unfold rewrite_seg.
  destruct (s_await s1) as [|w ws] eqn:Ea.
  - split; [exact Hi | congruence].
  - simpl. split; [|congruence].
    intros x Hx. apply in_app_or in Hx as [Hx|Hx].
    + apply filter_In in Hx as [Hx _]. apply Hi; auto.
    + apply in_or_app; right. rewrite <- Ha. exact Hx.
Qed.

Lemma find_seg_sub g segs a s : sub_table g segs -> find_seg a segs = Some s ->
  exists s0, find_seg a g = Some s0 /\ incl (s_to s) (s_to s0 ++ s_await s0).
Proof.
  unfold find_seg. intros H. destruct (a <? 0); [discriminate|]. intros E.
  destruct (H _ _ E) as (s0 & ? & ? & ?). eauto.
Qed.

(* ------------------------------------------------------------------ *)
(* lists *)

Lemma zlast_snoc p x : zlast (p ++ [x]) = x.
Proof. unfold zlast. apply last_last. Qed.

Lemma last_In (l : list Z) d : l <> [] -> In (last l d) l.
Proof.
  induction l as [|x l IH]; [congruence|]. intros _. destruct l as [|y l]; [left; auto|].
  right. apply IH. discriminate.
Qed.

Lemma chain_snoc g p d : p <> [] -> chain g p -> allowed g (zlast p) d -> chain g (p ++ [d]).
Proof.
  induction p as [|a p IH]; [congruence|]. intros _ Hc Ha.
  destruct p as [|b p].
  - simpl in *. split; auto.
  - simpl in Hc. destruct Hc as [H1 H2]. change ((a :: b :: p) ++ [d]) with (a :: (b :: p) ++ [d]).
    simpl. split; [auto|]. apply IH; [discriminate|auto|]. exact Ha.
Qed.

Lemma znth_In l i x : znth l i = Some x -> In x l.
Proof. unfold znth. destruct (i <? 0); [discriminate|]. apply nth_error_In. Qed.

Lemma skipn_incl {A} n (l : list A) : incl (skipn n l) l.
Proof.
  revert l; induction n as [|n IH]; intros l; simpl; [apply incl_refl|].
  destruct l; [apply incl_refl|]. apply incl_tl, IH.
Qed.

(* ------------------------------------------------------------------ *)
(* destinations offered by the model are destinations of the current segment *)

Lemma dests_sub st ds : dests st = Some ds ->
  exists s, find_seg (zlast (p_path st)) (p_segs st) = Some s /\ incl ds (s_to s).
Proof.
  unfold dests. destruct (find_seg (zlast (p_path st)) (p_segs st)) as [s|] eqn:E; [|discriminate].
  intros H. exists s. split; [auto|].
  assert (Hlast : s_to s <> [] -> In (zlast (s_to s)) (s_to s)) by (apply last_In).
  destruct (used_of (zlast (p_path st)) (p_used st)) as [|u us].
  - destruct (p_norep st).
    + destruct (s_to s) eqn:Et; [discriminate|]. injection H as <-. rewrite <- Et in *.
      intros x [<-|[]]. apply Hlast. rewrite Et; discriminate.
    + destruct (p_allrep st).
      * destruct (s_to s) eqn:Et; [discriminate|]. injection H as <-. intros x [<-|[]]. left; auto.
      * injection H as <-. apply incl_refl.
  - destruct (last_dest_index (s_to s) (u :: us)) as [ldi|] eqn:El; [|discriminate].
    assert (Hne : s_to s <> []).
    { intro Hn. unfold last_dest_index in El. rewrite Hn in El. simpl in El. discriminate. }
    destruct (p_norep st).
    + injection H as <-. intros x [<-|[]]. auto.
    + destruct (p_allrep st).
      * destruct (ldi <? Z.of_nat (length (s_to s)) - 1).
        -- destruct (znth (s_to s) (ldi + 1)) eqn:Ez; simpl in H; [|discriminate].
           injection H as <-. intros x [<-|[]]. eapply znth_In; eauto.
        -- destruct (znth (s_to s) 0) eqn:Ez; simpl in H; [|discriminate].
           injection H as <-. intros x [<-|[]]. eapply znth_In; eauto.
      * destruct (ldi <? Z.of_nat (length (s_to s)) - 1); injection H as <-.
        -- apply skipn_incl.
        -- apply incl_refl.
Qed.

Lemma jump_path ign st d : p_path (jump ign st d) = p_path st ++ [d].
Proof.
  unfold jump.
  destruct ((seg_type d (p_segs st) =? TLEAP_END) && (seg_type (zlast (p_path st)) (p_segs st) =? TLEAP_START));
    [destruct (p_jumped st)|]; reflexivity.
Qed.

Lemma jump_sub g ign st d : sub_table g (p_segs st) -> sub_table g (p_segs (jump ign st d)).
Proof.
  intros H. unfold jump.
  destruct ((seg_type d (p_segs st) =? TLEAP_END) && (seg_type (zlast (p_path st)) (p_segs st) =? TLEAP_START));
    [destruct (p_jumped st)|]; simpl; auto using sub_table_rewrite.
Qed.

(* ------------------------------------------------------------------ *)
(* main invariant: every path returned from a state extends the state's path by allowed steps *)

Definition good (g : list seg) (st : pstate) : Prop :=
  sub_table g (p_segs st) /\ p_path st <> [] /\ chain g (p_path st).

Lemma unfold_walks g ign : forall fuel st ps,
  good g st -> C09.unfold fuel ign st = Some ps ->
  forall p, In p ps -> (exists q, p = p_path st ++ q) /\ chain g p /\ allowed g (zlast p) END.
Proof.
  induction fuel as [|f IH]; intros st ps Hg Hu; [discriminate|].
  simpl in Hu. destruct (dests st) as [ds|] eqn:Ed; [|discriminate].
  destruct (dests_sub _ _ Ed) as (s & Hs & Hincl).
  destruct Hg as (Hsub & Hne & Hch).
  destruct (find_seg_sub _ _ _ _ Hsub Hs) as (s0 & Hs0 & Hi0).
  assert (Hall : forall d, In d ds -> allowed g (zlast (p_path st)) d).
  { intros d Hd. exists s0. split; auto. }
  clear Ed Hincl Hs Hs0 Hi0.
  revert ps Hu Hall. induction ds as [|d r IHr]; intros ps Hu Hall.
  - injection Hu as <-. intros p [].
  - destruct (d =? END) eqn:Eend.
    + destruct ((fix go (ds : list Z) : option (list (list Z)) := _) r) as [b|] eqn:Eg; [|discriminate].
      injection Hu as <-. intros p [<-|Hp].
      * split; [exists []; rewrite app_nil_r; auto|]. split; [auto|].
        apply Z.eqb_eq in Eend. subst d. apply Hall. left; auto.
      * eapply IHr; eauto. intros; apply Hall; right; auto.
    + destruct (find_seg d (p_segs st)) as [sd|]; [|discriminate].
      destruct (C09.unfold f ign (jump ign st d)) as [a|] eqn:Ea; [|discriminate].
      destruct ((fix go (ds : list Z) : option (list (list Z)) := _) r) as [b|] eqn:Eg; [|discriminate].
      injection Hu as <-. intros p Hp. apply in_app_or in Hp as [Hp|Hp].
      * assert (Hg' : good g (jump ign st d)).
        { split; [apply jump_sub; auto|]. rewrite jump_path. split.
          - intro Hn. apply app_eq_nil in Hn as [_ Hn]. discriminate.
          - apply chain_snoc; auto. apply Hall; left; auto. }
        destruct (IH _ _ Hg' Ea p Hp) as ((q & Hq) & H2 & H3).
        split; [|auto]. rewrite jump_path in Hq. exists (d :: q). rewrite Hq, <- app_assoc. reflexivity.
      * eapply IHr; eauto. intros; apply Hall; right; auto.
Qed.

(* every path returned by get_paths, for any policy, is a walk in the segment table it was
   computed from (all tables, all policies, any fuel: partial correctness) *)
Theorem paths_are_walks_lemma : forall fuel g norep allrep ign ps,
  get_paths fuel g norep allrep ign = Some ps ->
  forall p, In p ps -> is_walk g p.
Proof.
  intros fuel g nr ar ign ps H p Hp. unfold get_paths in H.
  assert (Hg : good g (init_path nr ar g)).
  { split; [apply sub_table_refl|]. split; simpl; [discriminate|auto]. }
  destruct (unfold_walks g ign _ _ _ Hg H p Hp) as ((q & Hq) & H2 & H3).
  split; [exists q; exact Hq|]. split; auto.
Qed.

(* ------------------------------------------------------------------ *)
Lemma total_len_app a b : total_len (a ++ b) = total_len a + total_len b.
Proof. unfold total_len. induction a as [|x a IH]; simpl; [lia|]. rewrite IH. lia. Qed.
