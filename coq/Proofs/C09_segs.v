(* C09 -- finite-domain theorems (complete enumeration + vm_compute) tying make_segments to the
   graph-level theorems: independent simple repeats give a "simple table"; repeats with two or
   three endings (single and comma numbers) are played pass by pass with the matching ending by
   the maximal policy and once with the last ending by the minimal policy; the general shape of
   the segment list (consecutive, covering first..last). *)
From PV Require Import Lib.Base Model.C09 Proofs.C09 Proofs.C09_simple.
From Coq Require Import ZArith List Bool Lia.
Import ListNotations.
#[local] Open Scope Z_scope.

(* ------------------------------------------------------------------ *)
(* independent simple repeats on the measure boundaries 0..N *)

Definition rep_marks (n : Z) (reps : list (Z * Z)) : marks :=
  mkMarks 0 n reps [] [] [] [] [] [] [].

(* all sets of pairwise disjoint (possibly adjacent) intervals [a, b) with lo <= a < b <= n, in
   increasing order; fuel = n - lo + 1 *)
Fixpoint layouts (fuel : nat) (lo n : Z) : list (list (Z * Z)) :=
  match fuel with
  | O => [[]]
  | S f =>
      if n <=? lo then [[]]
      else
        (* no interval starts at lo *)
        layouts f (lo + 1) n ++
        (* an interval [lo, b) *)
        flat_map (fun b => map (fun r => (lo, b) :: r) (layouts f b n))
                 (zrange (lo + 1) (Z.to_nat (n - lo)))
  end.

Definition NMEAS : Z := 7.
Definition simple_layouts : list (list (Z * Z)) :=
  filter (fun l => (length l <=? 4)%nat) (layouts 8 0 NMEAS).

Definition nxtb (n i : Z) : Z := if i + 1 =? n then END else i + 1.

(* boolean form of "g is a simple table": segment i has id i, no awaiting destinations, is no
   leap start, and goes to [i; next] (a repeated section) or [next] *)
Definition seg_simpleb (n : Z) (i : Z) (s : seg) : bool :=
  (s_id s =? i) && (match s_await s with [] => true | _ => false end) && negb (s_type s =? TLEAP_START) &&
  (zlist_eqb (s_to s) [i; nxtb n i] || zlist_eqb (s_to s) [nxtb n i]).

Fixpoint segs_simpleb (n i : Z) (g : list seg) : bool :=
  match g with [] => true | s :: r => seg_simpleb n i s && segs_simpleb n (i + 1) r end.

Definition flags_of (g : list seg) : list bool := map (fun s => (length (s_to s) =? 2)%nat) g.
Definition simple_tableb (g : list seg) : bool :=
  negb (length g =? 0)%nat && segs_simpleb (Z.of_nat (length g)) 0 g.
Definition nflags (g : list seg) : nat := length (filter (fun b => b) (flags_of g)).

(* each repeat is exactly one segment of the table, flagged; everything else unflagged *)
Definition layout_ok (reps : list (Z * Z)) : bool :=
  let g := make_segments (rep_marks NMEAS reps) in
  simple_tableb g && (nflags g =? length reps)%nat &&
  forallb (fun r => existsb (fun s => (s_start s =? fst r) && (s_end s =? snd r) && (length (s_to s) =? 2)%nat) g) reps.

Lemma simple_layouts_ok : forallb layout_ok simple_layouts = true.
Proof. vm_cast_no_check (eq_refl true). Qed.

Lemma simple_layouts_nonempty : (100 <= length simple_layouts)%nat.
Proof. vm_compute. repeat constructor. Qed.

Lemma simple_layouts_small :
  forallb (fun reps => (length (make_segments (rep_marks NMEAS reps)) <=? 16)%nat) simple_layouts = true.
Proof. vm_cast_no_check (eq_refl true). Qed.

(* completeness of the enumeration: every increasing list of disjoint intervals within 0..n is listed *)
Fixpoint disjoint_from (lo n : Z) (l : list (Z * Z)) : Prop :=
  match l with
  | [] => True
  | (a, b) :: r => lo <= a /\ a < b /\ b <= n /\ disjoint_from b n r
  end.

Lemma layouts_complete : forall fuel lo n l,
  (Z.to_nat (n - lo) < fuel)%nat -> disjoint_from lo n l -> In l (layouts fuel lo n).
Proof.
  induction fuel as [|f IH]; intros lo n l Hf Hd; [lia|].
  simpl. destruct (n <=? lo) eqn:E.
  - destruct l as [|[a b] r]; [left; auto|]. simpl in Hd. lia.
  - apply in_or_app. destruct l as [|[a b] r].
    + left. apply IH; [lia|simpl; auto].
    + simpl in Hd. destruct Hd as (H1 & H2 & H3 & H4).
      destruct (Z.eq_dec a lo) as [->|Hne].
      * right. apply in_flat_map. exists b. split.
        -- apply zrange_In. lia.
        -- apply in_map. apply IH; [lia|auto].
      * left. apply IH; [lia|]. simpl. repeat split; auto. lia.
Qed.

Theorem simple_repeats_table_lemma : forall reps,
  disjoint_from 0 NMEAS reps -> (length reps <= 4)%nat ->
  let g := make_segments (rep_marks NMEAS reps) in
  simple_tableb g = true /\ nflags g = length reps.
Proof.
  intros reps Hd Hl g.
  assert (Hin : In reps simple_layouts).
  { unfold simple_layouts. apply filter_In. split; [|apply Nat.leb_le; auto].
    apply layouts_complete; [unfold NMEAS; simpl; lia|auto]. }
  pose proof (forallb_In _ _ simple_layouts_ok reps Hin) as H. unfold layout_ok in H. fold g in H.
  apply andb_true_iff in H as [H _]. apply andb_true_iff in H as [H1 H2].
  split; [auto|]. apply Nat.eqb_eq; auto.
Qed.

(* the boolean check implies the table predicate of Proofs/C09_simple.v *)
Lemma segs_simpleb_nth n : forall g i0 i s,
  segs_simpleb n i0 g = true -> nth_error g i = Some s -> seg_simpleb n (i0 + Z.of_nat i) s = true.
Proof.
  induction g as [|x g IH]; intros i0 i s H Hn; [destruct i; discriminate|].
  simpl in H. apply andb_true_iff in H as [H1 H2]. destruct i as [|i]; simpl in Hn.
  - injection Hn as <-. replace (i0 + Z.of_nat 0) with i0 by lia. auto.
  - replace (i0 + Z.of_nat (S i)) with (i0 + 1 + Z.of_nat i) by lia. eapply IH; eauto.
Qed.

Lemma zlist_eqb_eq a b : zlist_eqb a b = true -> a = b.
Proof. apply (list_eqb_eq Z.eqb). intros x y H. apply Z.eqb_eq; auto. Qed.

Lemma simple_tableb_sound g : simple_tableb g = true -> simple_table g (flags_of g) /\ flags_of g <> [].
Proof.
  unfold simple_tableb. intros H. apply andb_true_iff in H as [Hne H].
  assert (Hlen : length g = length (flags_of g)) by (unfold flags_of; rewrite map_length; auto).
  split.
  - split; [auto|]. intros i s Hi. rewrite <- Hlen.
    pose proof (segs_simpleb_nth _ _ 0 i s H Hi) as Hs. simpl in Hs.
    unfold seg_simpleb in Hs.
    apply andb_true_iff in Hs as [Hs Hto]. apply andb_true_iff in Hs as [Hs Hty].
    apply andb_true_iff in Hs as [Hid Haw].
    apply Z.eqb_eq in Hid. apply negb_true_iff in Hty. apply Z.eqb_neq in Hty.
    assert (Hfl : nth i (flags_of g) false = (length (s_to s) =? 2)%nat).
    { apply nth_error_nth. unfold flags_of.
      apply (map_nth_error (fun s0 : seg => (length (s_to s0) =? 2)%nat) i g Hi). }
    rewrite Hfl. unfold nxt. unfold nxtb in Hto.
    split; [auto|]. split; [destruct (s_await s); [auto|discriminate]|]. split; [auto|].
    apply orb_true_iff in Hto as [Hto|Hto]; apply zlist_eqb_eq in Hto; rewrite Hto; reflexivity.
  - destruct g; [discriminate|]. discriminate.
Qed.

(* ------------------------------------------------------------------ *)
(* repeats with endings *)

Record vlayout := mkVL { vl_head : Z; vl_body : Z; vl_ends : list (list Z); vl_tail : Z }.

Definition vl_total (l : vlayout) : Z := fold_right Z.max 0 (concat (vl_ends l)).
Definition vl_nmeas (l : vlayout) : Z := vl_head l + vl_body l + Z.of_nat (length (vl_ends l)) + vl_tail l.

(* ending i occupies measure head + body + i; every ending holding a non-final number closes a
   repeat that starts at the body start *)
Fixpoint vl_objs (a m total : Z) (ends : list (list Z)) : list (Z * Z) * list (Z * Z * list Z) :=
  match ends with
  | [] => ([], [])
  | ns :: r =>
      let '(reps, es) := vl_objs a (m + 1) total r in
      ((if existsb (fun x => negb (x =? total)) ns then [(a, m + 1)] else []) ++ reps, (m, m + 1, ns) :: es)
  end.

Definition vl_marks (l : vlayout) : marks :=
  let '(reps, es) := vl_objs (vl_head l) (vl_head l + vl_body l) (vl_total l) (vl_ends l) in
  mkMarks 0 (vl_nmeas l) reps es [] [] [] [] [] [].

Fixpoint ending_index (p : Z) (ends : list (list Z)) (i : Z) : Z :=
  match ends with [] => -1 | ns :: r => if zmem p ns then i else ending_index p r (i + 1) end.

(* what the notation says, in measures *)
Definition vl_reference (maximal : bool) (l : vlayout) : list Z :=
  let a := vl_head l in
  let eb := a + vl_body l in
  let passes := if maximal then zrange 1 (Z.to_nat (vl_total l)) else [vl_total l] in
  zrange 0 (Z.to_nat a) ++
  flat_map (fun p => zrange a (Z.to_nat (vl_body l)) ++ [eb + ending_index p (vl_ends l) 0]) passes ++
  zrange (eb + Z.of_nat (length (vl_ends l))) (Z.to_nat (vl_tail l)).

Definition path_measures (g : list seg) (p : list Z) : list Z :=
  flat_map (fun i => match find_seg i g with
                     | Some s => zrange (s_start s) (Z.to_nat (s_end s - s_start s))
                     | None => [-1] end) p.

Definition end_patterns : list (list (list Z)) :=
  [ [[1]; [2]]; [[1]; [2]; [3]]; [[1; 2]; [3]]; [[1]; [2; 3]]; [[1; 2]; [3; 4]]; [[1; 2; 3]; [4]]; [[1]; [2]; [3]; [4]] ].

Definition volta_layouts : list vlayout :=
  flat_map (fun h => flat_map (fun b => flat_map (fun e => map (fun t => mkVL h b e t) [0; 1; 2])
                                                 end_patterns) [1; 2; 3]) [0; 1; 2].

Definition single_path_measures (g : list seg) (ps : option (list (list Z))) : option (list Z) :=
  match ps with Some [p] => Some (path_measures g p) | _ => None end.

Definition volta_ok (l : vlayout) : bool :=
  let g := make_segments (vl_marks l) in
  forallb (fun ign =>
    opt_eqb zlist_eqb (single_path_measures g (get_paths FUEL g false true ign)) (Some (vl_reference true l)) &&
    opt_eqb zlist_eqb (single_path_measures g (get_paths FUEL g true false ign)) (Some (vl_reference false l)))
    [true; false].

Lemma volta_layouts_ok : forallb volta_ok volta_layouts = true.
Proof. vm_cast_no_check (eq_refl true). Qed.

Theorem volta_unfolding_lemma : forall l ign, In l volta_layouts ->
  let g := make_segments (vl_marks l) in
  single_path_measures g (get_paths FUEL g false true ign) = Some (vl_reference true l) /\
  single_path_measures g (get_paths FUEL g true false ign) = Some (vl_reference false l).
Proof.
  intros l ign Hin g.
  pose proof (forallb_In _ _ volta_layouts_ok l Hin) as H. unfold volta_ok in H. fold g in H.
  assert (Hd : forall a b, opt_eqb zlist_eqb a b = true -> a = b).
  { intros [a|] [b|]; simpl; try discriminate; auto. intros E. f_equal.
    apply (list_eqb_eq Z.eqb); auto. intros x y Hxy. apply Z.eqb_eq; auto. }
  simpl in H. apply andb_true_iff in H as [Ht Hf]. apply andb_true_iff in Hf as [Hf _].
  apply andb_true_iff in Ht as [T1 T2]. apply andb_true_iff in Hf as [F1 F2].
  destruct ign; split; apply Hd; auto.
Qed.

(* endings without any repeat sign, at the very beginning of the piece: the group repeats from the
   beginning, wherever the part starts on its time axis (first = 0 or 5) *)
Definition vl_marks_nosigns (first : Z) (l : vlayout) : marks :=
  let '(_, es) := vl_objs (vl_head l) (vl_head l + vl_body l) (vl_total l) (vl_ends l) in
  mkMarks first (first + vl_nmeas l) []
          (map (fun v => match v with (s, e, ns) => (s + first, e + first, ns) end) es) [] [] [] [] [] [].

Definition volta_start_ok (first : Z) (l : vlayout) : bool :=
  let g := make_segments (vl_marks_nosigns first l) in
  forallb (fun ign =>
    opt_eqb zlist_eqb (single_path_measures g (get_paths FUEL g false true ign)) (Some (map (Z.add first) (vl_reference true l))) &&
    opt_eqb zlist_eqb (single_path_measures g (get_paths FUEL g true false ign)) (Some (map (Z.add first) (vl_reference false l))))
    [true; false].

Definition from_start_layouts : list vlayout := filter (fun l => vl_head l =? 0) volta_layouts.

Lemma volta_start_layouts_ok :
  forallb (fun first => forallb (volta_start_ok first) from_start_layouts) [0; 5] = true.
Proof. vm_cast_no_check (eq_refl true). Qed.

Lemma from_start_layouts_nonempty : (60 <= length from_start_layouts)%nat.
Proof. vm_compute. repeat constructor. Qed.

Theorem volta_from_start_lemma : forall l first ign, In l volta_layouts -> vl_head l = 0 -> In first [0; 5] ->
  let g := make_segments (vl_marks_nosigns first l) in
  single_path_measures g (get_paths FUEL g false true ign) = Some (map (Z.add first) (vl_reference true l)) /\
  single_path_measures g (get_paths FUEL g true false ign) = Some (map (Z.add first) (vl_reference false l)).
Proof.
  intros l first ign Hin Hh Hf g.
  assert (Hl : In l from_start_layouts).
  { unfold from_start_layouts. apply filter_In. split; [auto|]. rewrite Hh. reflexivity. }
  pose proof (forallb_In _ _ volta_start_layouts_ok first Hf) as H0. cbv beta in H0.
  pose proof (forallb_In _ _ H0 l Hl) as H. unfold volta_start_ok in H. fold g in H.
  assert (Hd : forall a b, opt_eqb zlist_eqb a b = true -> a = b).
  { intros [a|] [b|]; simpl; try discriminate; auto. intros E. f_equal.
    apply (list_eqb_eq Z.eqb); auto. intros x y Hxy. apply Z.eqb_eq; auto. }
  simpl in H. apply andb_true_iff in H as [Ht Hf']. apply andb_true_iff in Hf' as [Hf' _].
  apply andb_true_iff in Ht as [T1 T2]. apply andb_true_iff in Hf' as [F1 F2].
  destruct ign; split; apply Hd; auto.
Qed.

(* ------------------------------------------------------------------ *)
(* a part without navigation marks: one segment from first to last going to END *)

Theorem no_marks_segments_lemma : forall first last, first < last ->
  make_segments (mkMarks first last [] [] [] [] [] [] [] []) = [mkSeg 0 first last [END] [] TLEAP_END].
Proof.
  intros first last H. unfold make_segments, boundaries. simpl.
  destruct (first =? last) eqn:E1; [lia|]. simpl.
  destruct (last <=? first) eqn:E2; [lia|].
  unfold seg_loop, init_infos, bget. simpl. rewrite Z.eqb_refl. simpl.
  unfold step_boundary. simpl. unfold id_at. simpl.
  destruct (last =? first) eqn:E3; [lia|]. rewrite Z.eqb_refl. simpl.
  reflexivity.
Qed.

(* ------------------------------------------------------------------ *)
(* make_segments + path search for independent simple repeats: 2^r variants; the maximal policy
   plays every repeated section twice, the minimal one once (segment-level statement) *)
Theorem simple_repeats_paths_lemma : forall reps ign,
  disjoint_from 0 NMEAS reps -> (length reps <= 4)%nat ->
  let g := make_segments (rep_marks NMEAS reps) in
  let bs := flags_of g in
  nrep bs = length reps /\
  (exists ps, get_paths FUEL g false false ign = Some ps /\ length ps = Nat.pow 2 (length reps) /\ NoDup ps) /\
  get_paths FUEL g false true ign = Some [maxsfx 0 bs] /\
  get_paths FUEL g true false ign = Some [minsfx 0 bs].
Proof.
  intros reps ign Hd Hl g bs.
  destruct (simple_repeats_table_lemma reps Hd Hl) as [Ht Hn]. fold g in Ht, Hn.
  destruct (simple_tableb_sound g Ht) as [Hs Hne]. fold bs in Hs, Hne.
  assert (Hlen : (length bs <= 16)%nat).
  { assert (Hin : In reps simple_layouts).
    { unfold simple_layouts. apply filter_In. split; [|apply Nat.leb_le; auto].
      apply layouts_complete; [unfold NMEAS; simpl; lia|auto]. }
    pose proof (forallb_In _ _ simple_layouts_small reps Hin) as H. apply Nat.leb_le in H.
    unfold bs, flags_of. rewrite map_length. exact H. }
  assert (Hf : (2 * length bs + 1 <= FUEL)%nat) by (unfold FUEL; lia).
  split; [exact Hn|]. split; [|split].
  - destruct (count_simple g bs ign FUEL Hs Hne Hf) as (ps & H1 & H2 & H3).
    exists ps. unfold nflags in Hn. fold bs in Hn. unfold nrep in H2. rewrite Hn in H2. auto.
  - apply maximal_simple; auto.
  - apply minimal_simple; auto.
Qed.
