(* T1 -- lemmas about the prelude Lib/Py.v and the tactics the equivalence proofs
   (Proofs/C12_t1.v, Proofs/C16_t1.v) finish with.  Nothing here mentions a generated name. *)
From PV Require Import Lib.Base Lib.Py.
From Coq Require Import Ascii NArith QArith Decimal DecimalString DecimalN DecimalPos.
#[local] Open Scope Z_scope.

(* ---------- option / bool plumbing ---------- *)
Lemma opt_bind_some {A B} (a : A) (f : A -> option B) : opt_bind (Some a) f = f a.
Proof. reflexivity. Qed.
Lemma opt_bind_none {A B} (f : A -> option B) : opt_bind None f = None.
Proof. reflexivity. Qed.
Lemma qopt_equiv_refl a : qopt_equiv a a.
Proof. destruct a; cbn; [reflexivity | exact I]. Qed.

(* a stub (the function was outside the translator's subset) is the spec itself *)
Ltac t1_by_stub flag :=
  let b := eval cbv in flag in
  lazymatch b with
  | false => solve [intros; first [reflexivity | apply qopt_equiv_refl]]
  | true => fail "translated"
  end.

Ltac t1_cbn :=
  unfold set_n_step, set_n_alter, set_n_octave in *;
  cbn [opt_bind option_map fst snd n_step n_alter n_octave set_n_step set_n_alter set_n_octave
       i_number i_quality i_direction t_actual_notes t_normal_notes t_actual_type t_normal_type k_fifths k_mode] in *.
(* use the equivalence theorem of a callee: rewrite every call -- or, when the callee is a stub (then it is
   convertible with its spec and [rewrite] could match the wrong subterm), just unfold the stub *)
Ltac t1_rw flag f thm :=
  let b := eval cbv in flag in
  lazymatch b with
  | false => try unfold f
  | true => repeat rewrite thm
  end.
(* open every match / if of the goal, options first *)
Ltac t1_split :=
  repeat (t1_cbn;
    match goal with
    | |- context [match ?x with Some _ => _ | None => _ end] => is_var x; destruct x
    | |- context [if ?c then _ else _] => lazymatch c with context [if _ then _ else _] => fail | context [match _ with _ => _ end] => fail | _ => destruct c eqn:? end
    | |- context [match ?x with Some _ => _ | None => _ end] => lazymatch x with context [if _ then _ else _] => fail | context [match _ with _ => _ end] => fail | _ => destruct x eqn:? end
    | |- context [opt_bind ?x _] => lazymatch x with context [if _ then _ else _] => fail | context [match _ with _ => _ end] => fail | context [opt_bind _ _] => fail | _ => destruct x eqn:? end
    end).
(* equal constructors apart, integers by lia (never f_equal into an arithmetic expression that lia rejects first) *)
Ltac t1_eq := repeat first [ reflexivity | lia | discriminate | progress f_equal ].
Ltac t1_close :=
  t1_cbn;
  try reflexivity; try discriminate; try congruence; try lia; try solve [t1_eq].
Ltac t1_finish := t1_split; t1_close.
(* decide every atomic string / integer equality test of the goal (the same atom may occur in several conditions) *)
Ltac t1_atoms :=
  repeat match goal with
  | |- context [String.eqb ?a ?b] => destruct (String.eqb a b) eqn:?
  | |- context [Z.eqb ?a ?b] => destruct (Z.eqb_spec a b)
  end.

(* ---------- strings: case analysis ---------- *)
Lemma eqb_length a b : String.eqb a b = true -> String.length a = String.length b.
Proof. intros H. apply String.eqb_eq in H. subst. reflexivity. Qed.

(* a table whose keys have at most one character has no entry for a longer string *)
Lemma slookup_long {A} (tab : list (string * A)) c d r :
  forallb (fun kv => Nat.leb (String.length (fst kv)) 1) tab = true -> slookup (String c (String d r)) tab = None.
Proof.
  induction tab as [|[k v] t IH]; cbn [slookup forallb fst]; [reflexivity|].
  intros H. apply andb_true_iff in H as [H1 H2].
  destruct (String.eqb (String c (String d r)) k) eqn:E.
  - apply eqb_length in E. cbn [String.length] in E. apply Nat.leb_le in H1. lia.
  - auto.
Qed.
Lemma slookup_empty {A} (tab : list (string * A)) :
  forallb (fun kv => Nat.leb 1 (String.length (fst kv))) tab = true -> slookup EmptyString tab = None.
Proof.
  induction tab as [|[k v] t IH]; cbn [slookup forallb fst]; [reflexivity|].
  intros H. apply andb_true_iff in H as [H1 H2].
  destruct k; [discriminate|]. cbn. auto.
Qed.
Lemma in_strs_long l c d r :
  forallb (fun k => Nat.leb (String.length k) 1) l = true -> py_in_strs (String c (String d r)) l = false.
Proof.
  unfold py_in_strs. induction l as [|k t IH]; cbn [existsb forallb]; [reflexivity|].
  intros H. apply andb_true_iff in H as [H1 H2]. rewrite (IH H2), orb_false_r.
  destruct (String.eqb (String c (String d r)) k) eqn:E; [|reflexivity].
  apply eqb_length in E. cbn [String.length] in E. apply Nat.leb_le in H1. lia.
Qed.

(* all 256 characters *)
Ltac ascii_cases c := destruct c as [[] [] [] [] [] [] [] []].
(* s = "" | one character (256 cases) | two or more characters *)
Ltac string_cases s := destruct s as [|?c [|?d ?r]]; [ | ascii_cases c | ].

Lemma py_lower_cons c r : py_lower (String c r) = String (lower_ascii c) (py_lower r).
Proof. reflexivity. Qed.
Lemma py_upper_cons c r : py_upper (String c r) = String (upper_ascii c) (py_upper r).
Proof. reflexivity. Qed.
Lemma py_capitalize_cons c r : py_capitalize (String c r) = String (upper_ascii c) (py_lower r).
Proof. reflexivity. Qed.

(* String.eqb with the literal on the left, Z.eqb likewise: one normal form for case analysis *)
Ltac str_lit_left q := rewrite ?(String.eqb_sym q) in *.
Ltac z_lit_left n := rewrite ?(Z.eqb_sym n) in *.

(* decide [String.eqb lit q] for a variable q: either q becomes the literal or the test is false *)
Ltac case_str_lit lit q :=
  let E := fresh "E" in
  destruct (String.eqb lit q) eqn:E; [apply String.eqb_eq in E; subst q | ].
Ltac case_int_lit v n :=
  let E := fresh "E" in
  destruct (Z.eqb v n) eqn:E; [apply Z.eqb_eq in E; subst n | ].

(* ---------- str(int) ---------- *)
Lemma N_to_uint_nonnil n : N.to_uint n <> Nil.
Proof. destruct n; [discriminate | apply Unsigned.to_uint_nonnil]. Qed.

Lemma py_uint_str n : py_uint_of_str (py_str_N n) = Some n.
Proof.
  unfold py_uint_of_str, py_str_N.
  pose proof (N_to_uint_nonnil n) as NN.
  rewrite NilEmpty.usu, DecimalN.Unsigned.of_to.
  destruct (N.to_uint n); try contradiction; reflexivity.
Qed.

Lemma py_str_N_head n : exists c r, py_str_N n = String c r /\ c <> "-"%char.
Proof.
  unfold py_str_N. pose proof (N_to_uint_nonnil n) as NN.
  destruct (N.to_uint n); try contradiction; cbn [NilEmpty.string_of_uint]; eexists _, _; (split; [reflexivity | discriminate]).
Qed.

Lemma py_int_str z : py_int_of_str (py_str_Z z) = Some z.
Proof.
  unfold py_str_Z. destruct (z <? 0) eqn:E.
  - cbn [py_int_of_str]. rewrite py_uint_str. f_equal. lia.
  - destruct (py_str_N_head (Z.to_N z)) as [c [r [H Hc]]].
    pose proof (py_uint_str (Z.to_N z)) as U. rewrite H in *.
    unfold py_int_of_str. rewrite U.
    assert (R : Z.of_N (Z.to_N z) = z) by lia. rewrite R.
    ascii_cases c; try reflexivity. exfalso. apply Hc. reflexivity.
Qed.

Lemma py_str_Z_inj a b : py_str_Z a = py_str_Z b -> a = b.
Proof. intros H. pose proof (py_int_str a) as A. rewrite H, py_int_str in A. congruence. Qed.

Lemma canon_int_key_iff k z : canon_int_key k = Some z <-> k = py_str_Z z.
Proof.
  unfold canon_int_key. split.
  - destruct (py_int_of_str k) as [y|]; [|discriminate].
    destruct (String.eqb (py_str_Z y) k) eqn:E; [|discriminate].
    intros H. injection H as <-. apply String.eqb_eq in E. auto.
  - intros ->. rewrite py_int_str, String.eqb_refl. reflexivity.
Qed.

(* str(z) as a key of a table: only canonical integer keys can match *)
Fixpoint int_keys {A} (l : list (string * A)) : list (Z * A) :=
  match l with
  | [] => []
  | (k, v) :: r => match canon_int_key k with Some z => (z, v) :: int_keys r | None => int_keys r end
  end.
Lemma eqb_str_Z z k : String.eqb (py_str_Z z) k = match canon_int_key k with Some y => Z.eqb z y | None => false end.
Proof.
  destruct (canon_int_key k) as [y|] eqn:C.
  - apply canon_int_key_iff in C. subst k.
    destruct (Z.eqb z y) eqn:E.
    + apply Z.eqb_eq in E. subst. apply String.eqb_refl.
    + apply String.eqb_neq. intros H. apply py_str_Z_inj in H. apply Z.eqb_neq in E. contradiction.
  - apply String.eqb_neq. intros H. symmetry in H. apply canon_int_key_iff in H. congruence.
Qed.
Lemma slookup_str_Z {A} (l : list (string * A)) z : slookup (py_str_Z z) l = zlookup z (int_keys l).
Proof.
  induction l as [|[k v] r IH]; cbn [slookup int_keys]; [reflexivity|].
  rewrite eqb_str_Z. destruct (canon_int_key k); cbn [zlookup]; [destruct (Z.eqb z z0)|]; auto.
Qed.

(* q ++ str(z) as a key: split every key into (prefix, canonical integer suffix) *)
Fixpoint splits (k : string) : list (string * string) :=
  (EmptyString, k) :: match k with
                      | EmptyString => []
                      | String c r => map (fun ps => (String c (fst ps), snd ps)) (splits r)
                      end.
Lemma splits_spec k p s : In (p, s) (splits k) <-> (p ++ s)%string = k.
Proof.
  revert p. induction k as [|c r IH]; intros p; cbn [splits In].
  - split.
    + intros [H|[]]. injection H as <- <-. reflexivity.
    + intros H. left. destruct p; [cbn in H; subst; reflexivity | discriminate].
  - split.
    + intros [H|H]. { injection H as <- <-. reflexivity. }
      apply in_map_iff in H as [[p' s'] [E I]]. cbn [fst snd] in E. injection E as <- <-.
      apply IH in I. cbn. f_equal. exact I.
    + intros H. destruct p as [|c' p'].
      * left. cbn in H. subst. reflexivity.
      * right. cbn in H. injection H as -> H. apply in_map_iff. exists (p', s). split; [reflexivity|]. apply IH. exact H.
Qed.
Definition int_suffix_splits (k : string) : list (string * Z) :=
  flat_map (fun ps => match canon_int_key (snd ps) with Some z => [(fst ps, z)] | None => [] end) (splits k).
Lemma int_suffix_splits_spec k q z : In (q, z) (int_suffix_splits k) <-> (q ++ py_str_Z z)%string = k.
Proof.
  unfold int_suffix_splits. rewrite in_flat_map. split.
  - intros [[p s] [I H]]. cbn [fst snd] in H. destruct (canon_int_key s) as [y|] eqn:C; [|contradiction].
    destruct H as [H|[]]. injection H as <- <-. apply canon_int_key_iff in C. subst s. apply splits_spec. exact I.
  - intros H. exists (q, py_str_Z z). split; [apply splits_spec; exact H|].
    cbn [fst snd]. rewrite (proj2 (canon_int_key_iff _ _) eq_refl). left. reflexivity.
Qed.
Definition split_matches (q : string) (z : Z) (sp : list (string * Z)) : bool :=
  existsb (fun pz => String.eqb (fst pz) q && Z.eqb (snd pz) z) sp.
Lemma eqb_app_str_Z q z k : String.eqb (q ++ py_str_Z z) k = split_matches q z (int_suffix_splits k).
Proof.
  apply Bool.eq_iff_eq_true. rewrite String.eqb_eq. unfold split_matches. rewrite existsb_exists.
  rewrite <- int_suffix_splits_spec. split.
  - intros H. exists (q, z). split; [exact H|]. cbn. rewrite String.eqb_refl, Z.eqb_refl. reflexivity.
  - intros [[p y] [I H]]. cbn [fst snd] in H. apply andb_true_iff in H as [H1 H2].
    apply String.eqb_eq in H1. apply Z.eqb_eq in H2. subst. exact I.
Qed.
Fixpoint lookup_splits {A} (l : list (list (string * Z) * A)) (q : string) (z : Z) : option A :=
  match l with
  | [] => None
  | (sp, v) :: r => if split_matches q z sp then Some v else lookup_splits r q z
  end.
Definition split_table {A} (l : list (string * A)) : list (list (string * Z) * A) :=
  map (fun kv => (int_suffix_splits (fst kv), snd kv)) l.
Lemma slookup_app_str_Z {A} (l : list (string * A)) q z :
  slookup (q ++ py_str_Z z) l = lookup_splits (split_table l) q z.
Proof.
  induction l as [|[k v] r IH]; cbn [slookup split_table map lookup_splits fst snd]; [reflexivity|].
  rewrite eqb_app_str_Z. destruct (split_matches q z (int_suffix_splits k)); [reflexivity | exact IH].
Qed.
Lemma in_strs_app_str_Z (l : list string) q z :
  py_in_strs (q ++ py_str_Z z) l = existsb (split_matches q z) (map int_suffix_splits l).
Proof.
  unfold py_in_strs. induction l as [|k r IH]; cbn [existsb map]; [reflexivity|].
  rewrite eqb_app_str_Z, IH. reflexivity.
Qed.

(* ---------- lookups ---------- *)
Lemma py_nth_range {A} (l : list A) i : 0 <= i < Z.of_nat (List.length l) -> py_nth l i = nth_error l (Z.to_nat i).
Proof. intros H. unfold py_nth. replace ((0 <=? i) && (i <? Z.of_nat (List.length l))) with true by lia. reflexivity. Qed.

Lemma py_fraction_spec n d : d <> 0 -> exists q, py_fraction n d = Some q /\ (q == inject_Z n / inject_Z d)%Q.
Proof.
  intros Hd. destruct d as [|p|p]; [contradiction| |]; cbn [py_fraction]; eexists; (split; [reflexivity|]).
  - unfold Qeq, Qdiv, Qmult, Qinv, inject_Z. cbn. lia.
  - unfold Qeq, Qdiv, Qmult, Qinv, inject_Z. cbn. lia.
Qed.
Lemma py_fraction_zero n : py_fraction n 0 = None.
Proof. reflexivity. Qed.

(* ---------- case changes are idempotent ---------- *)
Lemma lower_ascii_idem c : lower_ascii (lower_ascii c) = lower_ascii c.
Proof. ascii_cases c; reflexivity. Qed.
Lemma upper_ascii_idem c : upper_ascii (upper_ascii c) = upper_ascii c.
Proof. ascii_cases c; reflexivity. Qed.
Lemma py_lower_idem s : py_lower (py_lower s) = py_lower s.
Proof. induction s as [|c r IH]; cbn; [reflexivity|]. rewrite lower_ascii_idem, IH. reflexivity. Qed.
Lemma py_upper_idem s : py_upper (py_upper s) = py_upper s.
Proof. induction s as [|c r IH]; cbn; [reflexivity|]. rewrite upper_ascii_idem, IH. reflexivity. Qed.
Lemma py_capitalize_idem s : py_capitalize (py_capitalize s) = py_capitalize s.
Proof. destruct s as [|c r]; cbn; [reflexivity|]. rewrite upper_ascii_idem, py_lower_idem. reflexivity. Qed.
#[global] Hint Rewrite py_lower_idem py_upper_idem py_capitalize_idem : t1.

(* ---------- zero tests of rationals (divisors) ---------- *)
Lemma qeq_bool_zero x : Qeq_bool x 0 = (Qnum x =? 0).
Proof. apply Bool.eq_iff_eq_true. rewrite Qeq_bool_iff, Z.eqb_eq. unfold Qeq. cbn. lia. Qed.
Lemma qeq_bool_zero_inject a : Qeq_bool (inject_Z a) 0 = (a =? 0).
Proof. rewrite qeq_bool_zero. reflexivity. Qed.
Lemma qeq_bool_zero_mult x y : Qeq_bool (x * y) 0 = Qeq_bool x 0 || Qeq_bool y 0.
Proof.
  rewrite !qeq_bool_zero. unfold Qmult. cbn [Qnum].
  apply Bool.eq_iff_eq_true. rewrite orb_true_iff, !Z.eqb_eq. apply Z.mul_eq_0.
Qed.
#[global] Hint Rewrite qeq_bool_zero_mult qeq_bool_zero_inject : t1q.
