(* C01 -- the registry-level model (Model/C01_Dict.v: class-keyed defaultdict of ordered sets, buckets created
   by every lookup, clean-up by the sum of the bucket sizes) simulates the flat registries of Model/C01.v:
   step by step, for every operation whatsoever, with read-only queries interleaved. *)
From PV Require Import Lib.Base Gen.C01_ClassTree Model.C01 Model.C01_Spec Model.C01_Dict Model.C01_Tree Proofs.C01_tree Proofs.C01_lib Proofs.C01_points Proofs.C01_inv Proofs.C01_main Proofs.C01_query.
From Coq Require Import Sorting.Sorted Sorting.Permutation.

(* ---------------------------------------------------------------- one dictionary *)

Lemma d_has_In c d : d_has c d = true <-> In c (map fst d).
Proof.
  unfold d_has. rewrite existsb_exists, in_map_iff. split.
  - intros [b [Hb E]]. exists b. split; auto. lia.
  - intros [b [E Hb]]. exists b. split; auto. lia.
Qed.

Lemma zlookup_app {A} c (d e : list (Z * A)) :
  zlookup c (d ++ e) = match zlookup c d with Some v => Some v | None => zlookup c e end.
Proof. induction d as [|[k v] d IH]; simpl; auto. destruct (c =? k); auto. Qed.

Lemma zlookup_none {A} c (d : list (Z * A)) : ~ In c (map fst d) -> zlookup c d = None.
Proof.
  induction d as [|[k v] d IH]; simpl; auto. intros H. destruct (c =? k) eqn:E; [exfalso; apply H; left; lia|].
  apply IH. intros I. apply H. auto.
Qed.

Lemma zlookup_In {A} c (d : list (Z * A)) v : NoDup (map fst d) -> In (c, v) d -> zlookup c d = Some v.
Proof.
  induction d as [|[k w] d IH]; simpl; intros N H; [destruct H|]. inversion N; subst.
  destruct H as [H|H].
  - inversion H; subst. rewrite Z.eqb_refl. auto.
  - destruct (c =? k) eqn:E; [|auto]. exfalso. assert (c = k) by lia. subst. apply H2. apply in_map_iff. exists (k, v). auto.
Qed.

Lemma zlookup_Some_In {A} c (d : list (Z * A)) v : zlookup c d = Some v -> In (c, v) d.
Proof.
  induction d as [|[k w] d IH]; simpl; [discriminate|]. destruct (c =? k) eqn:E; auto.
  intros H. inversion H; subst. left. f_equal. lia.
Qed.

Lemma d_bucket_touch c' c d : d_bucket c' (d_touch c d) = d_bucket c' d.
Proof.
  unfold d_touch. destruct (d_has c d) eqn:H; auto.
  unfold d_bucket. rewrite zlookup_app. destruct (zlookup c' d) eqn:E; auto.
  simpl. destruct (c' =? c); auto.
Qed.

Lemma keys_touch c d : NoDup (map fst d) -> NoDup (map fst (d_touch c d)).
Proof.
  intros N. unfold d_touch. destruct (d_has c d) eqn:H; auto.
  rewrite map_app. simpl. apply NoDup_app_intro; auto.
  - constructor; [intros []|constructor].
  - intros x Hx [<-|[]]. apply d_has_In in Hx. congruence.
Qed.

Lemma touch_has c d : d_has c (d_touch c d) = true.
Proof.
  unfold d_touch. destruct (d_has c d) eqn:H; auto. apply d_has_In. rewrite map_app, in_app_iff. right. left. auto.
Qed.

Lemma bucket_rel_touch c d l : bucket_rel d l -> bucket_rel (d_touch c d) l.
Proof. intros [N B]. split; [apply keys_touch; auto|]. intros c'. rewrite d_bucket_touch. auto. Qed.

Lemma bucket_rel_touches cs d l : bucket_rel d l -> bucket_rel (fold_left (fun d' x => d_touch x d') cs d) l.
Proof. revert d. induction cs as [|c cs IH]; intros d H; simpl; auto. apply IH. apply bucket_rel_touch; auto. Qed.

(* editing the bucket of c *)
Lemma zlookup_map_upd c' c (f : list obj -> list obj) (d : rdict) :
  zlookup c' (map (fun b => if fst b =? c then (fst b, f (snd b)) else b) d)
  = if c' =? c then option_map f (zlookup c' d) else zlookup c' d.
Proof.
  induction d as [|[k v] d IH]; simpl; [destruct (c' =? c); auto|].
  destruct (k =? c) eqn:E1; simpl; destruct (c' =? k) eqn:E2.
  - assert (E3 : c' =? c = true) by lia. rewrite E3. auto.
  - rewrite IH. auto.
  - assert (E3 : c' =? c = false) by lia. rewrite E3. auto.
  - rewrite IH. auto.
Qed.

Lemma zlookup_has {A} c (d : list (Z * A)) : In c (map fst d) -> exists v, zlookup c d = Some v.
Proof.
  induction d as [|[k v] d IH]; simpl; [intros []|]. destruct (c =? k) eqn:E; [eauto|].
  intros [H|H]; [lia|auto].
Qed.

Lemma d_bucket_upd c' c f d :
  d_bucket c' (d_upd c f d) = if c' =? c then f (d_bucket c' d) else d_bucket c' d.
Proof.
  unfold d_upd, d_bucket at 1. rewrite zlookup_map_upd.
  fold (d_bucket c' (d_touch c d)). destruct (c' =? c) eqn:E.
  - assert (c' = c) by lia. subst c'. rewrite <- (d_bucket_touch c c d). unfold d_bucket.
    destruct (zlookup_has c (d_touch c d)) as [v ->]; [apply d_has_In; apply touch_has|]. reflexivity.
  - apply d_bucket_touch.
Qed.

Lemma keys_upd c f d : NoDup (map fst d) -> NoDup (map fst (d_upd c f d)).
Proof.
  intros N. unfold d_upd. rewrite map_map.
  erewrite map_ext; [apply keys_touch; eauto|]. intros b. simpl. destruct (fst b =? c); auto.
Qed.

Lemma by_cls_oset_add c o l :
  by_cls c (oset_add o l) = if c =? ocls o then oset_add o (by_cls c l) else by_cls c l.
Proof.
  unfold oset_add.
  assert (EX : c = ocls o -> existsb (obj_eqb o) (by_cls c l) = existsb (obj_eqb o) l).
  { intros ->. apply eq_true_iff_eq. rewrite !existsb_exists. split.
    - intros [x [Hx E]]. apply by_cls_In in Hx as [Hx _]. eauto.
    - intros [x [Hx E]]. exists x. split; auto. apply by_cls_In. split; auto. apply obj_eqb_eq in E. subst; auto. }
  destruct (c =? ocls o) eqn:E.
  - assert (c = ocls o) by lia. rewrite (EX H). destruct (existsb (obj_eqb o) l); auto.
    unfold by_cls. rewrite filter_app. simpl. assert (E2 : ocls o =? c = true) by lia. rewrite E2. auto.
  - destruct (existsb (obj_eqb o) l); auto.
    unfold by_cls. rewrite filter_app. simpl. assert (E2 : ocls o =? c = false) by lia. rewrite E2. apply app_nil_r.
Qed.

Lemma filter_all {A} (f : A -> bool) l : (forall x, In x l -> f x = true) -> filter f l = l.
Proof. induction l as [|a l IH]; intros H; simpl; auto. rewrite (H a) by (left; auto). f_equal. apply IH. intros; apply H; right; auto. Qed.

Lemma by_cls_oset_remove c o l :
  by_cls c (oset_remove o l) = if c =? ocls o then oset_remove o (by_cls c l) else by_cls c l.
Proof.
  assert (C : by_cls c (oset_remove o l) = oset_remove o (by_cls c l)).
  { unfold by_cls, oset_remove. induction l as [|a l IH]; simpl; auto.
    destruct (obj_eqb o a) eqn:E1, (ocls a =? c) eqn:E2; simpl; rewrite ?E1, ?E2; simpl; rewrite ?IH; auto. }
  rewrite C. destruct (c =? ocls o) eqn:E; auto.
  unfold oset_remove. apply filter_all. intros x Hx. apply by_cls_In in Hx as [_ Hx].
  apply negb_true_iff. apply obj_eqb_neq. intros ->. lia.
Qed.

Lemma bucket_rel_add o d l : bucket_rel d l -> bucket_rel (d_add o d) (oset_add o l).
Proof.
  intros [N B]. split; [apply keys_upd; auto|]. intros c. unfold d_add.
  rewrite d_bucket_upd, by_cls_oset_add, B. reflexivity.
Qed.

Lemma bucket_rel_remove o d l : bucket_rel d l -> bucket_rel (d_remove o d) (oset_remove o l).
Proof.
  intros [N B]. split; [apply keys_upd; auto|]. intros c. unfold d_remove.
  rewrite d_bucket_upd, by_cls_oset_remove, B. reflexivity.
Qed.

Lemma bucket_rel_remove_guarded o d l : bucket_rel d l -> bucket_rel (d_remove_guarded o d) (oset_remove o l).
Proof.
  intros H. unfold d_remove_guarded. destruct (d_has (ocls o) d) eqn:Hh; [apply bucket_rel_remove; auto|].
  destruct H as [N B]. split; auto. intros c. rewrite by_cls_oset_remove, B.
  destruct (c =? ocls o) eqn:E; auto. assert (c = ocls o) by lia. subst c.
  assert (Z : d_bucket (ocls o) d = []).
  { unfold d_bucket. rewrite zlookup_none; auto. intros I. apply d_has_In in I. congruence. }
  rewrite <- B, Z. reflexivity.
Qed.

Lemma bucket_rel_nil : bucket_rel [] [].
Proof. split; [constructor | reflexivity]. Qed.

(* the clean-up decision: the sum of the bucket sizes is 0 exactly when nothing is listed, however many
   empty buckets queries and removals have left behind *)
Lemma d_total_zero d : d_total d = O <-> forall b, In b d -> snd b = [].
Proof.
  induction d as [|[k v] d IH]; simpl; [tauto|]. split.
  - intros H b [<-|Hb]; [simpl; destruct v; auto; simpl in H; lia|]. apply IH; auto. lia.
  - intros H. assert (V : v = []) by (apply (H (k, v)); auto). subst v. simpl. apply IH. intros b Hb. apply H. auto.
Qed.

Lemma bucket_rel_total d l : bucket_rel d l -> (d_total d = O <-> l = []).
Proof.
  intros [N B]. rewrite d_total_zero. split.
  - intros H. destruct l as [|o l]; auto. exfalso.
    assert (I : In o (by_cls (ocls o) (o :: l))) by (apply by_cls_In; split; [left|]; auto).
    rewrite <- B in I. unfold d_bucket in I. destruct (zlookup (ocls o) d) as [v|] eqn:E; [|destruct I].
    apply zlookup_Some_In in E. specialize (H _ E). simpl in H. subst v. destruct I.
  - intros -> [k v] Hb. simpl. pose proof (B k) as Bk. unfold d_bucket in Bk. rewrite (zlookup_In k d v N Hb) in Bk. auto.
Qed.

Lemma d_total_touch c d : d_total (d_touch c d) = d_total d.
Proof.
  unfold d_touch. destruct (d_has c d); auto. induction d as [|b d IH]; simpl; auto.
Qed.

(* iter_starting / iter_ending: exactly what the flat registry yields, and nothing listed changes *)
Lemma d_iter_rel c sub d l : bucket_rel d l ->
  bucket_rel (fst (d_iter c sub d)) l /\
  (forall k, c = Some k -> snd (d_iter c sub d) = iter_reg l c sub).
Proof.
  intros H. split; [apply bucket_rel_touches; auto|]. intros k ->. destruct H as [N B].
  unfold d_iter, iter_reg, visited. simpl. rewrite B. f_equal.
  destruct sub; simpl; auto. induction (iter_subclasses k) as [|x xs IH]; simpl; auto. rewrite B, IH. auto.
Qed.

(* ---------------------------------------------------------------- time points and the part *)

Definition same_regs (q q' : point) : Prop := pt q' = pt q /\ pstart q' = pstart q /\ pend q' = pend q.

Lemma rel_same dq q q' : point_rel dq q -> same_regs q q' -> point_rel dq q'.
Proof. intros [A [B C]] [E1 [E2 E3]]. unfold point_rel. rewrite E1, E2, E3. auto. Qed.

Lemma rel_before t dps ps : points_rel dps ps -> points_rel (dbefore t dps) (before t ps).
Proof.
  induction 1 as [|dq q dps ps H F IH]; simpl; [constructor|].
  destruct H as [E H']. rewrite E. destruct (pt q <? t); constructor; auto. split; auto.
Qed.
Lemma rel_from t dps ps : points_rel dps ps -> points_rel (dfrom t dps) (from t ps).
Proof.
  induction 1 as [|dq q dps ps H F IH]; simpl; [constructor|].
  destruct H as [E H']. rewrite E. destruct (pt q <? t); auto. constructor; auto. split; auto.
Qed.

Lemma rel_upd_last f dl l : (forall q, same_regs q (f q)) -> points_rel dl l -> points_rel dl (upd_last f l).
Proof.
  intros Hf. induction 1 as [|dq q dl l H F IH]; [constructor|]. rewrite upd_last_cons.
  destruct l as [|q' l].
  - inversion F; subst. constructor; [eapply rel_same; eauto|constructor].
  - constructor; auto.
Qed.
Lemma rel_upd_head f dl l : (forall q, same_regs q (f q)) -> points_rel dl l -> points_rel dl (upd_head f l).
Proof. intros Hf. destruct 1; simpl; constructor; auto. eapply rel_same; eauto. Qed.
Lemma rel_map f dl l : (forall q, same_regs q (f q)) -> points_rel dl l -> points_rel dl (map f l).
Proof. intros Hf. induction 1; simpl; constructor; auto. eapply rel_same; eauto. Qed.

Lemma same_set_next v q : same_regs q (set_next v q). Proof. repeat split. Qed.
Lemma same_set_prev v q : same_regs q (set_prev v q). Proof. repeat split. Qed.

Lemma rel_app dl1 l1 dl2 l2 : points_rel dl1 l1 -> points_rel dl2 l2 -> points_rel (dl1 ++ dl2) (l1 ++ l2).
Proof. apply Forall2_app. Qed.

(* get_or_add_point *)
Lemma rel_get_or_add t qd dps ps : points_rel dps ps ->
  points_rel (d_get_or_add t dps)
    (match get_point t ps with Some _ => ps | None => add_point (fresh_point t qd) ps end).
Proof.
  intros R. pose proof (rel_from t _ _ R) as RF. pose proof (rel_before t _ _ R) as RB.
  assert (INS : get_point t ps = None ->
     points_rel (dbefore t dps ++ mkDPoint t [] [] :: dfrom t dps) (add_point (fresh_point t qd) ps)).
  { intros G. destruct (add_point_fresh t qd ps G) as [tp' [E [Et [Eq [Es [Ee _]]]]]]. rewrite E.
    apply rel_app; [apply rel_upd_last; auto; apply same_set_next|].
    constructor; [|apply rel_upd_head; auto; apply same_set_prev].
    unfold point_rel. simpl. rewrite Et, Es, Ee. repeat split; auto; apply bucket_rel_nil. }
  unfold d_get_or_add. unfold get_point in *.
  remember (from t ps) as fr. remember (dfrom t dps) as dfr.
  destruct RF as [|dq q' dr r H F]; [apply INS; auto|].
  destruct H as [E _]. rewrite E. destruct (pt q' =? t); [auto|apply INS; auto].
Qed.

Lemma rel_upd_at t G F dps ps :
  (forall dq q, point_rel dq q -> point_rel (G dq) (F q)) ->
  points_rel dps ps -> points_rel (d_upd_at t G dps) (upd_at t F ps).
Proof.
  intros H. induction 1 as [|dq q dps ps Hq Fa IH]; simpl; constructor; auto.
  destruct Hq as [E Hq']. rewrite E. destruct (pt q =? t); [apply H|]; split; auto.
Qed.

Lemma rel_set_reg s dq q d l : point_rel dq q -> bucket_rel d l -> point_rel (set_dreg s d dq) (set_preg s l q).
Proof. intros [A [B C]] H. destruct s; unfold point_rel; simpl; auto. Qed.
Lemma rel_reg s dq q : point_rel dq q -> bucket_rel (dreg s dq) (preg s q).
Proof. intros [A [B C]]. destruct s; auto. Qed.

(* _cleanup_point / _remove_point *)
Inductive opt_rel {A B} (R : A -> B -> Prop) : option A -> option B -> Prop :=
| opt_rel_none : opt_rel R None None
| opt_rel_some a b : R a b -> opt_rel R (Some a) (Some b).

Lemma rel_remove_point t dps ps : points_rel dps ps -> opt_rel points_rel (d_remove_point t dps) (remove_point t ps).
Proof.
  intros R. pose proof (rel_from t _ _ R) as RF. pose proof (rel_before t _ _ R) as RB.
  unfold d_remove_point, remove_point.
  remember (from t ps) as fr. remember (dfrom t dps) as dfr.
  destruct RF as [|dq q dr r H F]; [constructor|].
  destruct H as [E _]. rewrite E. destruct (pt q =? t); constructor; auto.
  apply rel_app; [apply rel_upd_last; auto; apply same_set_next | apply rel_upd_head; auto; apply same_set_prev].
Qed.

Lemma rel_find t dps ps : points_rel dps ps ->
  opt_rel point_rel (find (fun q => dpt q =? t) dps) (find_pt t ps).
Proof.
  unfold find_pt. induction 1 as [|dq q dps ps H F IH]; simpl; [constructor|].
  pose proof H as [E _]. rewrite E. destruct (pt q =? t); [constructor|]; auto.
Qed.

Lemma rel_is_empty dq q : point_rel dq q -> d_is_empty dq = is_empty q.
Proof.
  intros [_ [B C]]. apply eq_true_iff_eq. unfold d_is_empty. rewrite is_empty_true, Nat.eqb_eq.
  rewrite <- (bucket_rel_total _ _ B), <- (bucket_rel_total _ _ C). lia.
Qed.

Lemma rel_cleanup t dps ps : points_rel dps ps -> opt_rel points_rel (d_cleanup t dps) (cleanup_point t ps).
Proof.
  intros R. unfold d_cleanup, cleanup_point. destruct (rel_find t _ _ R) as [|dq q H]; [constructor; auto|].
  rewrite (rel_is_empty _ _ H). destruct (is_empty q); [apply rel_remove_point; auto | constructor; auto].
Qed.

(* ---------------------------------------------------------------- operations *)
Lemma part_rel_refs s dp p : part_rel dp p -> dref s dp = oref s p.
Proof. intros [_ [A B]]. destruct s; auto. Qed.

Lemma rel_set_ref s f dps ps dp p : part_rel dp p -> points_rel dps ps ->
  part_rel (set_dref s f dps dp) (set_oref s f ps p).
Proof. intros [_ [A B]] R. destruct s; unfold part_rel; simpl; auto. Qed.

Lemma rel_add_side s dp p o t : part_rel dp p -> part_rel (d_add_side s dp o t) (add_side s p o t).
Proof.
  intros R. unfold d_add_side, add_side.
  assert (R1 : part_rel (mkDPart (d_get_or_add t (dpoints dp)) (drs dp) (dre dp)) (get_or_add_point p t)).
  { destruct R as [RP [A B]]. pose proof (rel_get_or_add t (qd_at (qtab p) t) _ _ RP) as G.
    unfold get_or_add_point. destruct (get_point t (points p)); split; simpl; auto. }
  set (p1 := get_or_add_point p t) in *.
  assert (ER : dref s dp = oref s p1).
  { destruct R1 as [_ [A B]]. destruct s; simpl in *; auto. }
  rewrite ER.
  assert (RS : part_rel (set_dref s (fset (oref s p1) o (Some t))
                 (d_upd_at t (fun q => set_dreg s (d_add o (dreg s q)) q) (d_get_or_add t (dpoints dp)))
                 (mkDPart (d_get_or_add t (dpoints dp)) (drs dp) (dre dp)))
               (set_oref s (fset (oref s p1) o (Some t))
                 (upd_at t (fun q => set_preg s (oset_add o (preg s q)) q) (points p1)) p1)).
  { apply rel_set_ref; auto. apply rel_upd_at; [|apply R1].
    intros dq q H. apply rel_set_reg; auto. apply bucket_rel_add. apply rel_reg; auto. }
  destruct s; exact RS.
Qed.

Lemma rel_tp_remove s dp p o : part_rel dp p -> part_rel (d_tp_remove s dp o) (tp_remove s p o).
Proof.
  intros R. unfold d_tp_remove, tp_remove. rewrite (part_rel_refs s dp p R).
  destruct (oref s p o) as [t|]; auto.
  apply rel_set_ref; auto. apply rel_upd_at; [|apply R].
  intros dq q H. apply rel_set_reg; auto. apply bucket_rel_remove_guarded. apply rel_reg; auto.
Qed.

Definition out_ok (o : out) : bool := match o with OutOk => true | _ => false end.

Lemma rel_add_opt s dp p b ob o t :
  part_rel dp p -> b = out_ok ob ->
  part_rel (fst (d_add_opt s (dp, b) o t)) (fst (add_opt s (p, ob) o t)) /\
  snd (d_add_opt s (dp, b) o t) = out_ok (snd (add_opt s (p, ob) o t)).
Proof.
  intros R ->. unfold d_add_opt, add_opt. destruct ob; simpl; auto.
  destruct t as [t|]; simpl; auto. destruct (t <? 0); simpl; auto. split; auto. apply rel_add_side; auto.
Qed.

Lemma rel_remove_side s dp p o : part_rel dp p ->
  part_rel (fst (d_remove_side s dp o)) (fst (remove_side s p o)) /\
  snd (d_remove_side s dp o) = out_ok (snd (remove_side s p o)).
Proof.
  intros R. unfold d_remove_side, remove_side. rewrite (part_rel_refs s dp p R).
  destruct (oref s p o) as [t|]; [|split; auto].
  assert (R1 : points_rel (d_upd_at t (fun q => set_dreg s (d_remove o (dreg s q)) q) (dpoints dp))
                 (upd_at t (fun q => set_preg s (oset_remove o (preg s q)) q) (points p))).
  { apply rel_upd_at; [|apply R]. intros dq q H. apply rel_set_reg; auto. apply bucket_rel_remove. apply rel_reg; auto. }
  destruct (rel_cleanup t _ _ R1) as [|dps2 ps2 R2]; simpl; split; auto; apply rel_set_ref; auto.
Qed.

(* every operation -- valid, rejected or otherwise -- keeps the registry-level part an implementation of the flat one *)
Lemma dstep_refines_lemma dp p o : part_rel dp p -> part_rel (dstep dp o) (fst (step p o)).
Proof.
  intros R. destruct o as [ob s e | ob w | t q | t | ob s]; simpl.
  5:{ apply rel_tp_remove; auto. }
  - unfold d_add_op, add. destruct (neg_opt s || neg_opt e); auto.
    destruct (rel_add_opt SStart dp p true OutOk ob s R eq_refl) as [R1 B1].
    destruct (d_add_opt SStart (dp, true) ob s) as [dp1 b1]. destruct (add_opt SStart (p, OutOk) ob s) as [p1 o1].
    simpl in R1, B1. apply (rel_add_opt SEnd dp1 p1 b1 o1 ob e R1 B1).
  - unfold d_remove_op, remove. destruct w.
    + apply rel_remove_side; auto.
    + apply rel_remove_side; auto.
    + destruct (rel_remove_side SStart dp p ob R) as [R1 B1].
      destruct (d_remove_side SStart dp ob) as [dp1 b1]. destruct (remove_side SStart p ob) as [p1 o1].
      simpl in R1, B1. destruct o1; simpl in B1; subst b1; auto. apply rel_remove_side; auto.
  - unfold set_quarter_duration. destruct (set_q_tab t q None (qtab p)) as [tab' ch]. destruct ch; auto.
    destruct R as [RP [A B]]. split; simpl; auto. apply rel_map; auto.
    intros x. destruct (in_span t (next_change t tab') (pt x)); repeat split.
  - destruct (t <? 0); auto. destruct R as [RP [A B]].
    pose proof (rel_get_or_add t (qd_at (qtab p) t) _ _ RP) as G.
    unfold get_or_add_point. destruct (get_point t (points p)); split; simpl; auto.
Qed.

Lemma dinit_rel q0 : part_rel dinit (init q0).
Proof. repeat split. constructor. Qed.

Lemma drun_refines_lemma ops : forall dp p, part_rel dp p -> part_rel (drun dp ops) (run p ops).
Proof. induction ops as [|o r IH]; intros dp p R; simpl; auto. apply IH. apply dstep_refines_lemma; auto. Qed.

(* ---------------------------------------------------------------- queries *)
Lemma rel_visit mode c sub dq q : point_rel dq q ->
  point_rel (fst (d_visit mode c sub dq)) q /\
  (forall k, c = Some k -> snd (d_visit mode c sub dq) = tagged mode c sub q).
Proof.
  intros H. pose proof (rel_reg mode _ _ H) as B. destruct (d_iter_rel c sub _ _ B) as [B1 B2].
  unfold d_visit, d_iter in *. simpl in *. split.
  - assert (E : set_preg mode (preg mode q) q = q) by (destruct mode, q; reflexivity).
    rewrite <- E. apply rel_set_reg; auto.
  - intros k Hk. unfold tagged. rewrite (B2 k Hk). destruct H as [-> _]. reflexivity.
Qed.

Lemma rel_visits mode c sub dm m : points_rel dm m ->
  points_rel (map fst (map (d_visit mode c sub) dm)) m /\
  (forall k, c = Some k -> flat_map snd (map (d_visit mode c sub) dm) = flat_map (tagged mode c sub) m).
Proof.
  induction 1 as [|dq q dm m H F [IH1 IH2]]; [simpl; split; [constructor|auto]|].
  cbn [map flat_map]. destruct (rel_visit mode c sub dq q H) as [V1 V2]. split.
  - constructor; auto.
  - intros k Hk. rewrite (V2 k Hk), (IH2 k Hk). reflexivity.
Qed.

Definition head_opt (a : option Z) (ps : list point) := match a with Some t => before t ps | None => [] end.
Definition tail_opt (b : option Z) (ps : list point) := match b with Some t => from t ps | None => [] end.

Lemma ps_split a b ps : ps = head_opt a ps ++ before_opt b (from_opt a ps) ++ tail_opt b (from_opt a ps).
Proof.
  assert (M : forall m, m = before_opt b m ++ tail_opt b m).
  { intros m. destruct b as [t|]; simpl; [symmetry; apply before_from | symmetry; apply app_nil_r]. }
  rewrite <- M. destruct a as [t|]; simpl; [symmetry; apply before_from | reflexivity].
Qed.

Lemma d_iter_all_refines dp p c a b sub mode : part_rel dp p ->
  part_rel (fst (d_iter_all dp c a b sub mode)) p /\
  (forall k, c = Some k -> snd (d_iter_all dp c a b sub mode) = iter_all p c a b sub mode).
Proof.
  intros [R [A B]]. unfold d_iter_all, iter_all. simpl.
  assert (RM : points_rel (dfrom_opt a (dpoints dp)) (from_opt a (points p))).
  { destruct a; simpl; auto. apply rel_from; auto. }
  assert (RW : points_rel (dbefore_opt b (dfrom_opt a (dpoints dp))) (before_opt b (from_opt a (points p)))).
  { destruct b; simpl; auto. apply rel_before; auto. }
  destruct (rel_visits mode c sub _ _ RW) as [V1 V2]. split; [|exact V2].
  split; [|split; auto]. simpl. rewrite (ps_split a b (points p)) at 1.
  apply rel_app; [destruct a; simpl; [apply rel_before; auto | constructor]|].
  apply rel_app; auto. destruct b; simpl; [apply rel_from; auto | constructor].
Qed.

(* a query leaves the part an implementation of the SAME flat part (only empty buckets appear), and
   iter_all for a class yields, as a list, what the flat model yields *)
Lemma dquery_refines_lemma dp p q : part_rel dp p ->
  part_rel (fst (dquery dp q)) p /\
  (forall k a b sub mode, q = QIterAll (Some k) a b sub mode ->
     snd (dquery dp q) = Some (iter_all p (Some k) a b sub mode)).
Proof.
  intros R. destruct q; unfold dquery; try (split; [exact R | intros; discriminate]).
  - destruct (d_iter_all_refines dp p c a b sub mode R) as [R1 E1].
    destruct (d_iter_all dp c a b sub mode) as [dp' res]. cbn [fst snd] in *. split; auto.
    intros k a' b' sub' mode' E. inversion E; subst. rewrite (E1 k eq_refl). reflexivity.
  - cbn [fst snd]. split; [|intros; discriminate]. apply d_iter_all_refines; auto.
  - cbn [fst snd]. split; [|intros; discriminate]. apply d_iter_all_refines; auto.
Qed.

Lemma devents_refines_lemma es : forall dp p, part_rel dp p -> part_rel (devents dp es) (fevents p es).
Proof.
  unfold devents, fevents. induction es as [|e es IH]; intros dp p R; simpl; auto. apply IH.
  destruct e as [o|q]; simpl; [apply dstep_refines_lemma; auto | apply dquery_refines_lemma; auto].
Qed.

Lemma reachable_dict_lemma q0 es : part_rel (devents dinit es) (fevents (init q0) es).
Proof. apply devents_refines_lemma. apply dinit_rel. Qed.

Lemma Forall2_impl' {A B} (P Q : A -> B -> Prop) l l' : (forall a b, P a b -> Q a b) -> Forall2 P l l' -> Forall2 Q l l'.
Proof. intros H. induction 1; constructor; auto. Qed.

(* what part_rel gives: clean-up decision, listing, and what a class query sees *)
Lemma part_rel_facts_lemma dp p : part_rel dp p ->
  map dpt (dpoints dp) = map pt (points p) /\
  Forall2 (fun dq q => (d_is_empty dq = true <-> pstart q = [] /\ pend q = []) /\
                       (forall c, d_bucket c (dstart dq) = by_cls c (pstart q)) /\
                       (forall c, d_bucket c (dend dq) = by_cls c (pend q)) /\
                       (forall o, In o (d_flat (dstart dq)) <-> In o (pstart q)) /\
                       (forall o, In o (d_flat (dend dq)) <-> In o (pend q)))
          (dpoints dp) (points p).
Proof.
  intros [R _]. split.
  - induction R as [|dq q dps ps H F IH]; simpl; auto. destruct H as [-> _]. f_equal; auto.
  - eapply Forall2_impl'; [|exact R]. intros dq q H. pose proof H as [_ [[N1 B1] [N2 B2]]].
    assert (FL : forall d l, bucket_rel d l -> forall o, In o (d_flat d) <-> In o l).
    { intros d l [N B] o. unfold d_flat. rewrite in_flat_map. split.
      - intros [[k v] [Hb Ho]]. simpl in Ho. pose proof (B k) as Bk. unfold d_bucket in Bk.
        rewrite (zlookup_In k d v N Hb) in Bk. rewrite Bk in Ho. apply by_cls_In in Ho. tauto.
      - intros Ho. assert (I : In o (by_cls (ocls o) l)) by (apply by_cls_In; auto).
        rewrite <- B in I. unfold d_bucket in I. destruct (zlookup (ocls o) d) as [v|] eqn:E; [|destruct I].
        exists (ocls o, v). split; auto. apply zlookup_Some_In; auto. }
    split; [|split; [|split; [|split]]]; auto.
    + rewrite (rel_is_empty _ _ H). apply is_empty_true.
    + apply FL. split; auto.
    + apply FL. split; auto.
Qed.

(* cls=None (Part.iter_all turns it into object + subclasses): inside the tree every class is the root or
   below it, so the buckets visited are all buckets *)
Lemma root_covers : forallb (fun d => (d =? 0) || zmem d (iter_subclasses 0)) classes = true.
Proof. vm_compute. reflexivity. Qed.

Lemma d_iter_none_lemma d l : bucket_rel d l -> (forall o, In o l -> valid_cls (ocls o)) ->
  forall o, In o (snd (d_iter None true d)) <-> In o l.
Proof.
  intros [N B] V o. unfold d_iter, visited. simpl. rewrite B.
  assert (E : In o (by_cls 0 l ++ flat_map (fun x => d_bucket x d) (iter_subclasses 0)) <-> In o (iter_reg l (Some 0) true)).
  { unfold iter_reg. rewrite !in_app_iff, !in_flat_map. split; (intros [H|[x [Hx H]]]; [left; auto|right; exists x; split; auto]).
    - rewrite <- B; auto.
    - rewrite B; auto. }
  rewrite E, iter_reg_In. split; [tauto|]. intros H. split; auto. unfold cls_match.
  pose proof (V o H) as Vo. apply classes_In in Vo.
  pose proof (forallb_In _ _ root_covers _ Vo) as C. cbv beta in C.
  apply orb_true_iff in C as [C|C]; [left; lia | right; split; auto; apply zmem_In; auto].
Qed.

(* not vacuous: a query over TimedObject and its subclasses leaves one bucket per class at the point, of
   which one lists an object; removing that object removes the point, on both levels *)
Definition dict_ex : list event :=
  [EOp (OAdd (5, 0) (Some 8) None); EQuery (QIterAll (Some 0) None None true SStart); EOp (ORemove (5, 0) WBoth)].
Lemma dict_nontrivial_lemma :
  forallb (fun q => (dpt q =? 8) && (2 <? List.length (dstart q))%nat && (d_total (dstart q) =? 1)%nat)
          (dpoints (devents dinit (firstn 2 dict_ex))) = true /\
  List.length (dpoints (devents dinit (firstn 2 dict_ex))) = 1%nat /\
  dpoints (devents dinit dict_ex) = [] /\ points (fevents (init 1) dict_ex) = [].
Proof. vm_compute. repeat split; reflexivity. Qed.
