From PV Require Import Lib.Base Model.C08 Model.C08_attrs Model.C08_glue Proofs.C08_lines.
From Coq Require Import Ascii String.
#[local] Open Scope string_scope.
#[local] Open Scope Z_scope.

Lemma starts_n_cons s : starts "n" ("n" ++ s) = true.
Proof. reflexivity. Qed.

Lemma fmt_pid_prefixed_lemma s : starts "n" (fmt_pid s) = true.
Proof. unfold fmt_pid. destruct (starts "n" s) eqn:E; [exact E|reflexivity]. Qed.

Lemma fmt_pid_keeps_lemma s : starts "n" s = true -> fmt_pid s = s.
Proof. intros H. unfold fmt_pid. now rewrite H. Qed.

Lemma fmt_pid_idem_lemma s : fmt_pid (fmt_pid s) = fmt_pid s.
Proof. apply fmt_pid_keeps_lemma, fmt_pid_prefixed_lemma. Qed.

(* what is loaded is the id the exporter wrote, and saving it again changes nothing *)
Lemma pid_leg_lemma s : pid_leg s = fmt_pid s /\ pid_leg (pid_leg s) = pid_leg s.
Proof. unfold pid_leg. now rewrite !fmt_pid_idem_lemma. Qed.

(* two different ids of the same kind (both with or both without the prefix) stay different *)
Lemma fmt_pid_inj_lemma a b : starts "n" a = starts "n" b -> fmt_pid a = fmt_pid b -> a = b.
Proof.
  unfold fmt_pid. intros H. rewrite <- H. destruct (starts "n" a); [auto|].
  intros E. now injection E.
Qed.

(* the time map exists iff some match entry pairs a performed note with a score note that has a duration *)
Lemma save_defined_iff_lemma snotes pids al :
  save_defined snotes pids al = true <->
  exists s p, In (EMatch s p) al /\ zmem p pids = true /\ zlookup s snotes = Some true.
Proof.
  unfold save_defined, matched_durs. rewrite existsb_exists. split.
  - intros [d [Hd Ed]]. subst d. apply in_flat_map in Hd. destruct Hd as [e [He Hd]].
    destruct e as [s p| | |]; try (now destruct Hd).
    destruct (zmem p pids) eqn:Ep; [|now destruct Hd].
    destruct (zlookup s snotes) as [d|] eqn:Es; [|now destruct Hd].
    destruct Hd as [->|[]]. exists s, p. auto.
  - intros [s [p [Hin [Hp Hs]]]]. exists true. split; [|reflexivity].
    apply in_flat_map. exists (EMatch s p). split; [exact Hin|]. rewrite Hp, Hs. now left.
Qed.

(* C08-K1: no match of a note with a duration (only deletions, insertions, ornaments, matched grace
   notes or unknown ids) -> no map, save_match raises *)
Lemma k1_boundary_lemma snotes pids al :
  (forall s p, In (EMatch s p) al -> zmem p pids = true -> zlookup s snotes <> Some true) ->
  save_defined snotes pids al = false.
Proof.
  intros H. destruct (save_defined snotes pids al) eqn:E; [|reflexivity].
  apply save_defined_iff_lemma in E. destruct E as [s [p [Hin [Hp Hs]]]].
  exfalso. exact (H s p Hin Hp Hs).
Qed.
