(* C14 -- the sounding ends do not depend on how a time is written: note lists and control streams
   whose times are equal as rationals (1 and 2/2; in the code: int 1, float 1.0, numpy scalars of any
   dtype) give equal columns.  The model-level counterpart of "no dtype is inherited from the input". *)
From PV Require Import Lib.Base Lib.Round Model.C12 Model.C14 Proofs.C14_lib Proofs.C14_pedal Proofs.C14_so.
From Coq Require Import QArith Qminmax List Bool Lia.
#[local] Open Scope Q_scope.

Definition note_eqv (n n' : note) : Prop :=
  n_pitch n = n_pitch n' /\ n_vel n = n_vel n' /\ n_on n == n_on n' /\ n_off n == n_off n'.
Definition ctrl_eqv (c c' : ctrl) : Prop :=
  c_num c = c_num c' /\ c_time c == c_time c' /\ c_val c = c_val c'.

Lemma Qle_bool_compat a a' b b' : a == a' -> b == b' -> Qle_bool a b = Qle_bool a' b'.
Proof.
  intros Ha Hb. apply eq_true_iff_eq. rewrite !Qle_bool_iff, Ha, Hb. reflexivity.
Qed.
Lemma Qltb_compat a a' b b' : a == a' -> b == b' -> Qltb a b = Qltb a' b'.
Proof. intros Ha Hb. unfold Qltb. rewrite (Qle_bool_compat b b' a a' Hb Ha). reflexivity. Qed.
Lemma Qmin_compat a a' b b' : a == a' -> b == b' -> Qmin a b == Qmin a' b'.
Proof. intros Ha Hb. rewrite Ha, Hb. reflexivity. Qed.
Lemma Qmax_compat a a' b b' : a == a' -> b == b' -> Qmax a b == Qmax a' b'.
Proof. intros Ha Hb. rewrite Ha, Hb. reflexivity. Qed.

Section Generic.
  Context {A : Type} (R : A -> A -> Prop) (key : A -> Q).
  Hypothesis key_compat : forall x y, R x y -> key x == key y.

  Lemma insert_by_compat x x' l l' :
    R x x' -> Forall2 R l l' -> Forall2 R (insert_by key x l) (insert_by key x' l').
  Proof.
    intros Hx H. induction H as [|y y' r r' Hy Hr IH]; simpl.
    - constructor; [exact Hx|constructor].
    - rewrite (Qle_bool_compat (key x) (key x') (key y) (key y') (key_compat _ _ Hx) (key_compat _ _ Hy)).
      destruct (Qle_bool (key x') (key y')).
      + constructor; [exact Hx|]. constructor; assumption.
      + constructor; [exact Hy|exact IH].
  Qed.
  Lemma sort_by_compat l l' : Forall2 R l l' -> Forall2 R (sort_by key l) (sort_by key l').
  Proof.
    intros H. induction H as [|y y' r r' Hy Hr IH]; simpl; [constructor|].
    apply insert_by_compat; assumption.
  Qed.
  Lemma filter_compat (f : A -> bool) l l' :
    (forall x y, R x y -> f x = f y) -> Forall2 R l l' -> Forall2 R (filter f l) (filter f l').
  Proof.
    intros Hf H. induction H as [|y y' r r' Hy Hr IH]; simpl; [constructor|].
    rewrite (Hf _ _ Hy). destruct (f y'); [constructor; assumption|exact IH].
  Qed.
  Lemma last_compat l l' d d' : R d d' -> Forall2 R l l' -> R (last l d) (last l' d').
  Proof.
    intros Hd H. induction H as [|y y' r r' Hy Hr IH]; simpl; [exact Hd|].
    destruct Hr; [exact Hy|exact IH].
  Qed.
End Generic.

Lemma Forall2_map_compat {A B} (R : A -> A -> Prop) (S : B -> B -> Prop) (f : A -> B) l l' :
  (forall x y, R x y -> S (f x) (f y)) -> Forall2 R l l' -> Forall2 S (map f l) (map f l').
Proof. intros Hf H. induction H; simpl; constructor; auto. Qed.

Lemma Forall2_len {A B} (R : A -> B -> Prop) l l' : Forall2 R l l' -> List.length l = List.length l'.
Proof. intros H. induction H; simpl; congruence. Qed.

Definition row_eqv (r r' : Q * bool) : Prop := fst r == fst r' /\ snd r = snd r'.

Lemma sorted_pedal_compat cs cs' : Forall2 ctrl_eqv cs cs' -> Forall2 ctrl_eqv (sorted_pedal cs) (sorted_pedal cs').
Proof.
  intros H. unfold sorted_pedal, pedal_events. apply sort_by_compat.
  - intros x y (_ & Ht & _). exact Ht.
  - apply filter_compat; [|exact H]. intros x y (Hn & _). unfold is_pedal. rewrite Hn. reflexivity.
Qed.
Lemma rows_compat thr cs cs' : Forall2 ctrl_eqv cs cs' ->
  Forall2 row_eqv (map (pedal_row thr) (sorted_pedal cs)) (map (pedal_row thr) (sorted_pedal cs')).
Proof.
  intros H. apply (Forall2_map_compat ctrl_eqv); [|apply sorted_pedal_compat; exact H].
  intros x y (_ & Ht & Hv). unfold row_eqv, pedal_row. simpl. rewrite Hv. split; [exact Ht|reflexivity].
Qed.

Lemma state_before_compat R R' off off' : Forall2 row_eqv R R' -> off == off' ->
  forall st, state_before st R off = state_before st R' off'.
Proof.
  intros H Ho. induction H as [|[t s] [t' s'] r r' [Ht Hs] Hr IH]; intros st; simpl; [reflexivity|].
  simpl in Ht, Hs. subst s'. rewrite (Qltb_compat t t' off off' Ht Ho). destruct (Qltb t' off'); [apply IH|reflexivity].
Qed.
Lemma first_up_compat R R' off off' T T' : Forall2 row_eqv R R' -> off == off' -> T == T' ->
  first_up R off T == first_up R' off' T'.
Proof.
  intros H Ho HT. induction H as [|[t s] [t' s'] r r' [Ht Hs] Hr IH]; simpl; [exact HT|].
  simpl in Ht, Hs. subst s'. rewrite (Qle_bool_compat off off' t t' Ho Ht).
  destruct (Qle_bool off' t' && negb s); [exact Ht|exact IH].
Qed.

Lemma qmax_list_compat l l' d d' : d == d' -> Forall2 Qeq l l' -> qmax_list d l == qmax_list d' l'.
Proof.
  intros Hd H. unfold qmax_list. induction H as [|y y' r r' Hy Hr IH]; simpl; [exact Hd|].
  apply Qmax_compat; assumption.
Qed.
Lemma offs_compat ns ns' : Forall2 note_eqv ns ns' -> Forall2 Qeq (map n_off ns) (map n_off ns').
Proof. apply Forall2_map_compat. intros x y (_ & _ & _ & H). exact H. Qed.
Lemma last_off_compat ns ns' : Forall2 note_eqv ns ns' -> last_off ns == last_off ns'.
Proof.
  intros H. unfold last_off. pose proof (offs_compat ns ns' H) as Ho.
  apply qmax_list_compat; [|exact Ho]. destruct Ho; simpl; [reflexivity|assumption].
Qed.
Lemma closing_compat ns ns' cs cs' : Forall2 note_eqv ns ns' -> Forall2 ctrl_eqv cs cs' ->
  closing ns cs == closing ns' cs'.
Proof.
  intros Hn Hc. unfold closing. apply Qmax_compat.
  - assert (E : ctrl_eqv (last (sorted_pedal cs) (mkCtrl 0 0 0)) (last (sorted_pedal cs') (mkCtrl 0 0 0))).
    { apply last_compat; [|apply sorted_pedal_compat; exact Hc]. repeat split; reflexivity. }
    destruct E as (_ & Ht & _). rewrite Ht. reflexivity.
  - rewrite (last_off_compat ns ns' Hn). reflexivity.
Qed.
Lemma ped_end_compat thr ns ns' cs cs' off off' :
  Forall2 note_eqv ns ns' -> Forall2 ctrl_eqv cs cs' -> off == off' ->
  ped_end thr ns cs off == ped_end thr ns' cs' off'.
Proof.
  intros Hn Hc Ho. unfold ped_end.
  rewrite (state_before_compat _ _ off off' (rows_compat thr cs cs' Hc) Ho).
  destruct (state_before false (map (pedal_row thr) (sorted_pedal cs')) off'); [|exact Ho].
  apply first_up_compat; [apply rows_compat; exact Hc|exact Ho|apply closing_compat; assumption].
Qed.

(* the re-strike *)
Definition ent_eqv (e e' : nat * note) : Prop := fst e = fst e' /\ note_eqv (snd e) (snd e').
Lemma indexed_compat ns ns' : Forall2 note_eqv ns ns' -> Forall2 ent_eqv (indexed ns) (indexed ns').
Proof.
  intros H. unfold indexed. rewrite (Forall2_len _ _ _ H). generalize 0%nat.
  induction H as [|y y' r r' Hy Hr IH]; intros k; simpl; [constructor|].
  constructor; [split; [reflexivity|exact Hy]|]. apply IH.
Qed.
Lemma pitch_group_compat ns ns' p : Forall2 note_eqv ns ns' -> Forall2 ent_eqv (pitch_group ns p) (pitch_group ns' p).
Proof.
  intros H. unfold pitch_group. apply sort_by_compat.
  - intros x y (_ & _ & _ & Ho & _). exact Ho.
  - apply filter_compat; [|apply indexed_compat; exact H]. intros x y (_ & Hp & _). rewrite Hp. reflexivity.
Qed.
Lemma after_compat i g g' : Forall2 ent_eqv g g' -> Forall2 ent_eqv (after i g) (after i g').
Proof.
  intros H. induction H as [|[j n] [j' n'] r r' [Hj Hn] Hr IH]; simpl; [constructor|].
  simpl in Hj. subst j'. destruct (Nat.eqb i j); [exact Hr|exact IH].
Qed.
Definition oq_eqv (a b : option Q) : Prop :=
  match a, b with Some x, Some y => x == y | None, None => True | _, _ => False end.
Lemma next_strike_compat ns ns' i n n' : Forall2 note_eqv ns ns' -> note_eqv n n' ->
  oq_eqv (next_strike ns i n) (next_strike ns' i n').
Proof.
  intros H (Hp & _ & _ & Hoff). unfold next_strike. rewrite <- Hp.
  pose proof (after_compat i _ _ (pitch_group_compat ns ns' (n_pitch n) H)) as G.
  induction G as [|e e' r r' [_ (_ & _ & Hon & _)] Hr IH]; simpl; [exact I|].
  rewrite (Qle_bool_compat (n_off n) (n_off n') (n_on (snd e)) (n_on (snd e')) Hoff Hon).
  destruct (Qle_bool (n_off n') (n_on (snd e'))); [exact Hon|exact IH].
Qed.
Lemma clip_compat so so' st st' : so == so' -> oq_eqv st st' -> clip so st == clip so' st'.
Proof.
  intros Hs H. destruct st, st'; simpl in *; try contradiction; [apply Qmin_compat; assumption|exact Hs].
Qed.

Lemma pedal_events_nil_compat cs cs' : Forall2 ctrl_eqv cs cs' -> (pedal_events cs = [] <-> pedal_events cs' = []).
Proof.
  intros H. assert (F : Forall2 ctrl_eqv (pedal_events cs) (pedal_events cs')).
  { unfold pedal_events. apply filter_compat; [|exact H]. intros x y (Hn & _). unfold is_pedal. rewrite Hn. reflexivity. }
  destruct F; split; intros E; try reflexivity; discriminate E.
Qed.

Lemma sound_off1_compat thr ns ns' cs cs' i n n' :
  Forall2 note_eqv ns ns' -> Forall2 ctrl_eqv cs cs' -> note_eqv n n' ->
  sound_off1 thr ns cs i n == sound_off1 thr ns' cs' i n'.
Proof.
  intros Hn Hc He. unfold sound_off1. pose proof (pedal_events_nil_compat cs cs' Hc) as N.
  assert (Hoff : n_off n == n_off n') by (destruct He as (_ & _ & _ & H); exact H).
  destruct (pedal_events cs) eqn:E1, (pedal_events cs') eqn:E2.
  - exact Hoff.
  - exfalso. assert (X : c :: l = []) by (apply N; reflexivity). discriminate X.
  - exfalso. assert (X : c :: l = []) by (apply N; reflexivity). discriminate X.
  - apply clip_compat; [apply ped_end_compat; assumption|apply next_strike_compat; assumption].
Qed.

Lemma representation_irrelevant_lemma thr ns ns' cs cs' :
  Forall2 note_eqv ns ns' -> Forall2 ctrl_eqv cs cs' ->
  Forall2 Qeq (sound_offs thr ns cs) (sound_offs thr ns' cs').
Proof.
  intros Hn Hc. rewrite !sound_offs_char.
  pose proof (indexed_compat ns ns' Hn) as G.
  induction G as [|e e' r r' [Hi He] Hr IH]; simpl; [constructor|].
  constructor; [|exact IH]. rewrite Hi. apply sound_off1_compat; assumption.
Qed.

(* non-vacuity: the same part written with other numerators and denominators *)
Lemma representation_example_lemma :
  let ns := [mkNote 60 64 0 2; mkNote 62 64 0 1; mkNote 62 64 (3#2) 3] in
  let ns' := [mkNote 60 64 (0#5) (4#2); mkNote 62 64 0 (3#3); mkNote 62 64 (6#4) (9#3)] in
  let cs := [mkCtrl 64 (1#2) 100; mkCtrl 64 (5#2) 0] in
  let cs' := [mkCtrl 64 (2#4) 100; mkCtrl 64 (10#4) 0] in
  Forall2 note_eqv ns ns' /\ Forall2 ctrl_eqv cs cs' /\ ns <> ns' /\
  sound_offs 64 ns cs = [5#2; 3#2; 3] /\ Forall2 Qeq (sound_offs 64 ns' cs') [5#2; 3#2; 3].
Proof.
  cbv zeta. split; [|split; [|split; [|split]]].
  - repeat constructor.
  - repeat constructor.
  - intros H. discriminate H.
  - vm_compute. reflexivity.
  - vm_compute. repeat constructor.
Qed.
