(* C14 -- sound_offs as a whole: element form, lower bound, identity cases, monotonicity *)
From PV Require Import Lib.Base Model.C14 Proofs.C14_lib Proofs.C14_pedal.
From Coq Require Import QArith Qminmax Lqa Sorted Permutation.
#[local] Open Scope Q_scope.

Lemma qmin_list_le d l x : In x l -> qmin_list d l <= x.
Proof.
  induction l as [|y r IH]; intros H; [destruct H|]. simpl.
  destruct H as [->|H].
  - apply Q.le_min_l.
  - pose proof (Q.le_min_r y (qmin_list d r)). specialize (IH H). lra.
Qed.

Lemma qmax_list_ge d l x : In x l -> x <= qmax_list d l.
Proof.
  induction l as [|y r IH]; intros H; [destruct H|]. simpl.
  destruct H as [->|H].
  - apply Q.le_max_l.
  - pose proof (Q.le_max_r y (qmax_list d r)). specialize (IH H). lra.
Qed.

(* ---- indexed lists *)
Lemma nth_error_indexed_from {A} (l : list A) : forall k i,
  nth_error (combine (seq k (List.length l)) l) i = option_map (fun x => ((k + i)%nat, x)) (nth_error l i).
Proof.
  induction l as [|x r IH]; intros k i; simpl.
  - destruct i; reflexivity.
  - destruct i; simpl.
    + rewrite Nat.add_0_r. reflexivity.
    + rewrite IH. replace (S k + i)%nat with (k + S i)%nat by lia. reflexivity.
Qed.

Lemma nth_error_indexed ns i :
  nth_error (indexed ns) i = option_map (fun n => (i, n)) (nth_error ns i).
Proof. unfold indexed. rewrite nth_error_indexed_from. reflexivity. Qed.

Lemma In_indexed ns i n : In (i, n) (indexed ns) <-> nth_error ns i = Some n.
Proof.
  split.
  - intros H. apply In_nth_error in H as [k Hk]. rewrite nth_error_indexed in Hk.
    destruct (nth_error ns k) eqn:E; simpl in Hk; inversion Hk; subst. exact E.
  - intros H. apply (nth_error_In _ i). rewrite nth_error_indexed, H. reflexivity.
Qed.

Lemma indexed_length ns : List.length (indexed ns) = List.length ns.
Proof. unfold indexed. rewrite combine_length, seq_length. lia. Qed.

Lemma Forall2_nth_error {A B} (P : A -> B -> Prop) : forall l1 l2,
  List.length l1 = List.length l2 ->
  (forall i a b, nth_error l1 i = Some a -> nth_error l2 i = Some b -> P a b) ->
  Forall2 P l1 l2.
Proof.
  induction l1 as [|x r IH]; intros [|y s] HL H; simpl in HL; try discriminate; constructor.
  - apply (H 0%nat); reflexivity.
  - apply IH; [lia|]. intros i a b Ha Hb. apply (H (S i)); assumption.
Qed.

Lemma Forall2_map_indexed {B} (P : note -> B -> Prop) (f : nat * note -> B) ns :
  (forall i n, nth_error ns i = Some n -> P n (f (i, n))) ->
  Forall2 P ns (map f (indexed ns)).
Proof.
  intros H. apply Forall2_nth_error.
  - rewrite map_length, indexed_length. reflexivity.
  - intros i a b Ha Hb. rewrite nth_error_map, nth_error_indexed, Ha in Hb. simpl in Hb.
    inversion Hb; subst. apply H; assumption.
Qed.

(* ---- element form of sound_offs *)
Definition last_off (ns : list note) : Q := qmax_list (hd 0 (map n_off ns)) (map n_off ns).
Definition closing (ns : list note) (cs : list ctrl) : Q :=
  Qmax (c_time (last (sorted_pedal cs) (mkCtrl 0 0 0)) + 1) (last_off ns + 1).
(* where the pedal alone lets a note released at [off] end *)
Definition ped_end (thr : Z) (ns : list note) (cs : list ctrl) (off : Q) : Q :=
  let rows := map (pedal_row thr) (sorted_pedal cs) in
  if state_before false rows off then first_up rows off (closing ns cs) else off.
Definition sound_off1 (thr : Z) (ns : list note) (cs : list ctrl) (i : nat) (n : note) : Q :=
  match pedal_events cs with
  | [] => n_off n
  | _ => clip (ped_end thr ns cs (n_off n)) (next_strike ns i n)
  end.

Lemma last_map {A B} (f : A -> B) l d : last (map f l) (f d) = f (last l d).
Proof.
  induction l as [|x r IH]; simpl; auto. destruct r; simpl in *; auto.
Qed.

Lemma end_sentinel_closing thr ns cs :
  sorted_pedal cs <> [] ->
  end_sentinel (map (pedal_row thr) (sorted_pedal cs)) (last_off ns) = closing ns cs.
Proof.
  intros H. unfold end_sentinel, closing.
  destruct (sorted_pedal cs) as [|c r] eqn:E; [congruence|].
  replace (last (map (pedal_row thr) (c :: r)) (0, false))
    with (pedal_row thr (last (c :: r) (mkCtrl 0 0 0))).
  - reflexivity.
  - symmetry. set (l := c :: r).
    assert (Hl : l <> []) by (unfold l; congruence).
    clearbody l. clear E H.
    induction l as [|x s IH]; [congruence|]. simpl.
    destruct s as [|y s']; [reflexivity|]. simpl in *. apply IH. congruence.
Qed.

Lemma sorted_pedal_rows thr cs : sorted_rows (map (pedal_row thr) (sorted_pedal cs)).
Proof.
  unfold sorted_rows, sorted_pedal.
  pose proof (sort_by_sorted c_time (pedal_events cs)) as S.
  induction S as [|c l S IH HF]; simpl; constructor; auto.
  rewrite Forall_map. eapply Forall_impl; [|exact HF]. intros a Ha. exact Ha.
Qed.

Lemma sorted_pedal_nil cs : sorted_pedal cs = [] <-> pedal_events cs = [].
Proof.
  unfold sorted_pedal. split; intros H.
  - apply sort_by_nil in H. exact H.
  - rewrite H. reflexivity.
Qed.

Lemma map_snd_indexed {B} (g : note -> B) ns : map (fun e => g (snd e)) (indexed ns) = map g ns.
Proof.
  unfold indexed. generalize 0%nat. induction ns as [|x r IH]; intros k; simpl; auto.
  rewrite IH. reflexivity.
Qed.

Lemma sound_offs_char thr ns cs :
  sound_offs thr ns cs = map (fun e => sound_off1 thr ns cs (fst e) (snd e)) (indexed ns).
Proof.
  unfold sound_offs, sound_off1.
  destruct (pedal_events cs) as [|c0 r0] eqn:Ep.
  - assert (E : sorted_pedal cs = []) by (apply sorted_pedal_nil; exact Ep). rewrite E.
    symmetry. apply (map_snd_indexed n_off).
  - assert (Hne : sorted_pedal cs <> []).
    { intros C. apply sorted_pedal_nil in C. congruence. }
    destruct (sorted_pedal cs) as [|c1 r1] eqn:Es; [congruence|].
    apply map_ext_in. intros [i n] Hin. cbn [fst snd].
    f_equal. unfold ped_end. rewrite Es.
    assert (Hn : In (n_off n) (map n_off ns)).
    { apply in_map. apply in_combine_r in Hin. exact Hin. }
    rewrite pedal_off_table.
    + fold (last_off ns). rewrite <- Es. rewrite end_sentinel_closing by (rewrite Es; congruence). reflexivity.
    + simpl. congruence.
    + rewrite <- Es. apply sorted_pedal_rows.
    + apply qmin_list_le. exact Hn.
    + apply qmax_list_ge. exact Hn.
Qed.

Lemma sound_offs_length thr ns cs : List.length (sound_offs thr ns cs) = List.length ns.
Proof. rewrite sound_offs_char, map_length, indexed_length. reflexivity. Qed.

Lemma sound_offs_nth thr ns cs i n :
  nth_error ns i = Some n -> nth_error (sound_offs thr ns cs) i = Some (sound_off1 thr ns cs i n).
Proof.
  intros H. rewrite sound_offs_char, nth_error_map, nth_error_indexed, H. reflexivity.
Qed.

(* ---- never before the release *)
Lemma closing_gt_off ns cs n : In n ns -> n_off n < closing ns cs.
Proof.
  intros H. unfold closing.
  pose proof (Q.le_max_r (c_time (last (sorted_pedal cs) (mkCtrl 0 0 0)) + 1) (last_off ns + 1)).
  assert (n_off n <= last_off ns) by (apply qmax_list_ge; apply in_map; exact H).
  lra.
Qed.

Lemma ped_end_ge thr ns cs n : In n ns -> n_off n <= ped_end thr ns cs (n_off n).
Proof.
  intros H. unfold ped_end. destruct (state_before _ _ _); [|lra].
  apply first_up_ge. pose proof (closing_gt_off ns cs n H). lra.
Qed.

Lemma next_strike_ge ns i n t : next_strike ns i n = Some t -> n_off n <= t.
Proof.
  unfold next_strike. destruct (find _ _) as [e|] eqn:E; intros H; inversion H; subst.
  apply find_some in E as [_ E]. apply Qle_bool_iff in E. exact E.
Qed.

Lemma clip_ge x so st : x <= so -> (forall t, st = Some t -> x <= t) -> x <= clip so st.
Proof.
  intros H1 H2. destruct st as [t|]; simpl; auto. apply Q.min_glb; auto.
Qed.

Lemma sound_off1_ge thr ns cs i n : nth_error ns i = Some n -> n_off n <= sound_off1 thr ns cs i n.
Proof.
  intros H. unfold sound_off1. destruct (pedal_events cs); [lra|].
  apply clip_ge.
  - apply ped_end_ge. eapply nth_error_In; eauto.
  - intros t Ht. eapply next_strike_ge; eauto.
Qed.

Lemma sound_off_ge_release_lemma thr ns cs :
  Forall2 (fun n so => n_off n <= so) ns (sound_offs thr ns cs).
Proof.
  rewrite sound_offs_char. apply Forall2_map_indexed. intros i n H. simpl. apply sound_off1_ge; auto.
Qed.

(* ---- construction is total *)
Lemma forallb_combine_Forall2 {A B} (p : A * B -> bool) (P : A -> B -> Prop) l1 l2 :
  (forall a b, P a b -> p (a, b) = true) -> Forall2 P l1 l2 -> forallb p (combine l1 l2) = true.
Proof.
  intros Hp F. induction F; simpl; auto. rewrite Hp by assumption. simpl. assumption.
Qed.

Lemma construction_total_lemma thr ns cs :
  forallb valid_note ns = true -> construct thr ns cs = Some (sound_offs thr ns cs).
Proof.
  intros H. unfold construct. rewrite H.
  rewrite (forallb_combine_Forall2 _ (fun n so => n_off n <= so)); auto.
  - intros a b Hab. simpl. apply Qle_bool_iff. exact Hab.
  - apply sound_off_ge_release_lemma.
Qed.

(* ---- identity cases *)
Lemma no_pedal_identity_lemma thr ns cs :
  pedal_events cs = [] -> sound_offs thr ns cs = map n_off ns.
Proof.
  intros H. rewrite sound_offs_char. unfold sound_off1. rewrite H. apply (map_snd_indexed n_off).
Qed.

Lemma state_before_all_false R off :
  Forall (fun r : Q * bool => snd r = false) R -> state_before false R off = false.
Proof.
  intros H. induction H as [|[t s] R' Hs HF IH]; simpl; auto.
  simpl in Hs. subst s. destruct (Qltb t off); auto.
Qed.

Lemma clip_eq so st x : so == x -> (forall t, st = Some t -> x <= t) -> clip so st == x.
Proof.
  intros H1 H2. destruct st as [t|]; simpl; auto.
  rewrite Q.min_l; auto. rewrite H1. apply H2. reflexivity.
Qed.

Lemma thr127_identity_lemma thr ns cs :
  (forall c, In c cs -> (c_val c <= thr)%Z) ->
  Forall2 (fun n so => so == n_off n) ns (sound_offs thr ns cs).
Proof.
  intros Hv. rewrite sound_offs_char. apply Forall2_map_indexed. intros i n H. simpl.
  unfold sound_off1. destruct (pedal_events cs) as [|c0 r0] eqn:Ep; [reflexivity|].
  apply clip_eq.
  - unfold ped_end. rewrite state_before_all_false; [reflexivity|].
    rewrite Forall_map. apply Forall_forall. intros c Hc. simpl.
    unfold sorted_pedal in Hc. apply sort_by_In in Hc. unfold pedal_events in Hc.
    apply filter_In in Hc as [Hc _]. specialize (Hv c Hc). lia.
  - intros t Ht. eapply next_strike_ge; eauto.
Qed.

(* ---- raising the threshold never lengthens a note *)
Lemma state_before_mono thr thr' sp off : forall st st',
  (thr <= thr')%Z -> (st' = true -> st = true) ->
  state_before st' (map (pedal_row thr') sp) off = true ->
  state_before st (map (pedal_row thr) sp) off = true.
Proof.
  induction sp as [|c r IH]; intros st st' Ht Hs; simpl; auto.
  destruct (Qltb (c_time c) off); auto.
  apply IH; auto. intros H. lia.
Qed.

Lemma first_up_bounds R off T lo :
  Forall (fun r : Q * bool => lo <= fst r) R -> lo <= T -> lo <= first_up R off T.
Proof.
  intros H HT. induction H as [|[t s] R' Hs HF IH]; simpl; auto.
  destruct (Qle_bool off t && negb s); auto.
Qed.

Lemma first_up_mono thr thr' sp off T :
  (thr <= thr')%Z -> sorted_by_key c_time sp -> (forall c, In c sp -> c_time c <= T) ->
  first_up (map (pedal_row thr') sp) off T <= first_up (map (pedal_row thr) sp) off T.
Proof.
  intros Ht S HT. induction S as [|c r S IH HF]; simpl; [lra|].
  destruct (Qle_bool off (c_time c)) eqn:E; simpl.
  - destruct (c_val c >? thr')%Z eqn:E1; destruct (c_val c >? thr)%Z eqn:E2; simpl; try lra.
    + apply IH. intros c' Hc'. apply HT. right; auto.
    + lia.
    + apply first_up_bounds.
      * rewrite Forall_map. eapply Forall_impl; [|exact HF]. intros a Ha. exact Ha.
      * apply HT. left; auto.
  - apply IH. intros c' Hc'. apply HT. right; auto.
Qed.

Lemma sorted_last_max {A} (key : A -> Q) l d x : sorted_by_key key l -> In x l -> key x <= key (last l d).
Proof.
  intros S. revert x. induction S as [|y r S IH HF]; intros x Hx; [destruct Hx|].
  destruct r as [|z r'].
  - destruct Hx as [->|[]]. simpl. lra.
  - change (last (y :: z :: r') d) with (last (z :: r') d).
    destruct Hx as [->|Hx].
    + inversion HF; subst. unfold le_key in H1. specialize (IH z (or_introl eq_refl)). lra.
    + apply IH. exact Hx.
Qed.

Lemma closing_ge_pedal ns cs c : In c (sorted_pedal cs) -> c_time c <= closing ns cs.
Proof.
  intros H. unfold closing.
  pose proof (sorted_last_max c_time (sorted_pedal cs) (mkCtrl 0 0 0) c (sort_by_sorted _ _) H).
  pose proof (Q.le_max_l (c_time (last (sorted_pedal cs) (mkCtrl 0 0 0)) + 1) (last_off ns + 1)). lra.
Qed.

Lemma ped_end_mono thr thr' ns cs n :
  (thr <= thr')%Z -> In n ns -> ped_end thr' ns cs (n_off n) <= ped_end thr ns cs (n_off n).
Proof.
  intros Ht Hn. unfold ped_end.
  destruct (state_before false (map (pedal_row thr') (sorted_pedal cs)) (n_off n)) eqn:E'.
  - rewrite (state_before_mono thr thr' _ _ false false Ht (fun H => H) E').
    apply first_up_mono; auto.
    + apply sort_by_sorted.
    + intros c Hc. apply closing_ge_pedal. exact Hc.
  - destruct (state_before false (map (pedal_row thr) (sorted_pedal cs)) (n_off n)); [|lra].
    apply first_up_ge. pose proof (closing_gt_off ns cs n Hn). lra.
Qed.

Lemma clip_mono a b st : a <= b -> clip a st <= clip b st.
Proof. intros H. destruct st; simpl; auto. apply Q.min_le_compat_r. exact H. Qed.

Lemma Forall2_map2_indexed {B C} (P : B -> C -> Prop) (f : nat * note -> B) (g : nat * note -> C) ns :
  (forall i n, nth_error ns i = Some n -> P (f (i, n)) (g (i, n))) ->
  Forall2 P (map f (indexed ns)) (map g (indexed ns)).
Proof.
  intros H. apply Forall2_nth_error.
  - rewrite !map_length. reflexivity.
  - intros i a b Ha Hb. rewrite nth_error_map, nth_error_indexed in Ha, Hb.
    destruct (nth_error ns i) eqn:E; simpl in *; inversion Ha; inversion Hb; subst. apply H. exact E.
Qed.

Lemma threshold_monotone_lemma thr thr' ns cs :
  (thr <= thr')%Z ->
  Forall2 (fun so so' => so' <= so) (sound_offs thr ns cs) (sound_offs thr' ns cs).
Proof.
  intros Ht. rewrite !sound_offs_char. apply Forall2_map2_indexed. intros i n H. simpl.
  unfold sound_off1. destruct (pedal_events cs); [lra|].
  apply clip_mono. apply ped_end_mono; auto. eapply nth_error_In; eauto.
Qed.
