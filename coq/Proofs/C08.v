(* C08 proofs, part 1: position / duration / tick codecs *)
From PV Require Import Lib.Base Lib.Round Model.C12 Model.C08.
From Coq Require Import QArith Qround Qabs.
#[local] Open Scope Z_scope.

Lemma injZ_nz z : z <> 0 -> ~ (inject_Z z == 0)%Q.
Proof. intros H C. unfold Qeq in C. cbn [Qnum Qden inject_Z] in C. lia. Qed.

Lemma inject_Z_minus a b : (inject_Z (a - b) == inject_Z a - inject_Z b)%Q.
Proof. unfold Z.sub. rewrite inject_Z_plus, inject_Z_opp. reflexivity. Qed.

(* ---------------- in-bar position ---------------- *)

Lemma inbar_any_beat dpq den pos b :
  0 < dpq -> 0 < den ->
  (dec_inbar den (b + 1) (inject_Z (pos * den - b * (4 * dpq)) / inject_Z (4 * dpq * den))
   == inject_Z pos / inject_Z dpq)%Q.
Proof.
  intros Hd Hn. unfold dec_inbar.
  replace (b + 1 - 1) with b by lia.
  rewrite !inject_Z_minus, !inject_Z_mult.
  pose proof (injZ_nz dpq ltac:(lia)). pose proof (injZ_nz den ltac:(lia)).
  change (inject_Z 4) with 4%Q.
  field. split; assumption.
Qed.

Lemma inbar_roundtrip_lemma dpq den pos :
  0 < dpq -> 0 < den ->
  (dec_inbar den (enc_beat dpq den pos + 1) (enc_off dpq den pos) == inject_Z pos / inject_Z dpq)%Q.
Proof. intros. unfold enc_off. apply inbar_any_beat; assumption. Qed.

Lemma enc_range_lemma dpq den pos :
  0 < dpq -> 0 < den -> 0 <= pos ->
  0 <= enc_beat dpq den pos /\
  (0 <= enc_off dpq den pos)%Q /\ (enc_off dpq den pos < 1 / inject_Z den)%Q.
Proof.
  intros Hd Hn Hp. unfold enc_off, enc_beat.
  set (x := pos * den). set (w := 4 * dpq).
  assert (Hw : 0 < w) by (unfold w; lia).
  assert (Hx : 0 <= x) by (unfold x; nia).
  pose proof (Z.div_pos x w Hx Hw) as Hb.
  pose proof (Z.mod_pos_bound x w Hw) as Hm.
  pose proof (Z.div_mod x w ltac:(lia)) as Hdm.
  assert (E : x - x / w * w = x mod w) by lia.
  rewrite E.
  split; [exact Hb|].
  assert (Hwd : 0 < w * den) by nia.
  split.
  - unfold Qle, Qdiv, Qmult, Qinv, inject_Z. cbn [Qnum Qden].
    destruct (w * den) eqn:Ew; try lia. cbn [Qnum Qden]. nia.
  - unfold Qlt, Qdiv, Qmult, Qinv, inject_Z. cbn [Qnum Qden].
    destruct (w * den) eqn:Ew; try lia. destruct den eqn:Eden; try lia.
    cbn [Qnum Qden]. rewrite !Z.mul_1_r, !Z.mul_1_l.
    rewrite Pos2Z.inj_mul.
    assert (Z.pos p = w * Z.pos p0) by lia. nia.
Qed.

(* ---------------- measure lookup ---------------- *)

Lemma find_meas_in ms on cur m :
  find_meas ms on cur = Some m -> In m ms \/ cur = Some m.
Proof.
  revert cur; induction ms as [|a r IH]; intros cur H; simpl in H; [right; exact H|].
  destruct (m_start a <=? on).
  - apply IH in H as [H|H]; [left; right; exact H|]. injection H as <-. left; left; reflexivity.
  - right; exact H.
Qed.

Lemma NoDup_map_inj {A B} (f : A -> B) l x y :
  NoDup (map f l) -> In x l -> In y l -> f x = f y -> x = y.
Proof.
  induction l as [|a r IH]; intros ND Hx Hy E; [contradiction|].
  simpl in ND. inversion ND as [|? ? Hn ND']; subst.
  destruct Hx as [<-|Hx], Hy as [<-|Hy]; auto.
  - exfalso. apply Hn. rewrite E. apply in_map; assumption.
  - exfalso. apply Hn. rewrite <- E. apply in_map; assumption.
Qed.

(* every encoded line sits in a measure of the table and carries its barline *)
Definition line_ok (ms : list meas) (dpq origin : Z) (s : sn) : Prop :=
  exists m, In m ms /\ s_meas s = m_num m /\
            (s_q s - inbar s == inject_Z (m_start m - origin) / inject_Z dpq)%Q.

Lemma enc_sn_ok ms dpq origin on s :
  0 < dpq -> (forall m, In m ms -> 0 < m_den m) ->
  enc_sn ms dpq origin on = Some s -> line_ok ms dpq origin s.
Proof.
  intros Hd Hden H. unfold enc_sn in H.
  destruct (find_meas ms on None) as [m|] eqn:F; [|discriminate].
  injection H as <-.
  apply find_meas_in in F as [F|F]; [|discriminate].
  exists m. split; [exact F|]. split; [reflexivity|].
  unfold inbar. cbn [s_den s_beat s_off s_q].
  rewrite inbar_roundtrip_lemma by (auto; apply Hden; exact F).
  rewrite !inject_Z_minus.
  pose proof (injZ_nz dpq ltac:(lia)). field. assumption.
Qed.

Lemma enc_all_ok ms dpq origin ons :
  0 < dpq -> (forall m, In m ms -> 0 < m_den m) ->
  forall s, In s (enc_all ms dpq origin ons) -> line_ok ms dpq origin s.
Proof.
  intros Hd Hden. induction ons as [|on r IH]; intros s Hs; simpl in Hs; [contradiction|].
  destruct (enc_sn ms dpq origin on) as [s'|] eqn:E; [|apply IH; exact Hs].
  destruct Hs as [<-|Hs]; [eapply enc_sn_ok; eauto | apply IH; exact Hs].
Qed.

Lemma enc_all_in ms dpq origin ons on s :
  In on ons -> enc_sn ms dpq origin on = Some s -> In s (enc_all ms dpq origin ons).
Proof.
  induction ons as [|a r IH]; intros Hin E; [contradiction|]. simpl.
  destruct Hin as [->|Hin].
  - rewrite E. left; reflexivity.
  - destruct (enc_sn ms dpq origin a); [right|]; apply IH; assumption.
Qed.

Lemma bar_time_spec ms dpq origin l m :
  NoDup (map m_num ms) -> In m ms ->
  (forall s, In s l -> line_ok ms dpq origin s) ->
  (exists s, In s l /\ s_meas s = m_num m) ->
  exists b, bar_time l (m_num m) = Some b /\ (b == inject_Z (m_start m - origin) / inject_Z dpq)%Q.
Proof.
  intros ND Hm Hok [s0 [Hs0 E0]].
  induction l as [|s r IH]; [contradiction|]. simpl.
  destruct (s_meas s =? m_num m) eqn:E.
  - apply Z.eqb_eq in E. eexists; split; [reflexivity|].
    destruct (Hok s (or_introl eq_refl)) as [m' [Hm' [En Eq]]].
    assert (m' = m) by (eapply NoDup_map_inj; eauto; congruence). subst m'. exact Eq.
  - apply Z.eqb_neq in E. apply IH.
    + intros x Hx. apply Hok. right; exact Hx.
    + destruct Hs0 as [<-|Hs0]; [contradiction | exact Hs0].
Qed.

Lemma position_roundtrip_lemma ms dpq origin ons on :
  0 < dpq -> (forall m, In m ms -> 0 < m_den m) -> NoDup (map m_num ms) ->
  In on ons -> find_meas ms on None <> None ->
  exists s q, enc_sn ms dpq origin on = Some s /\
              decode_q (enc_all ms dpq origin ons) s = Some q /\
              (q == inject_Z (on - origin) / inject_Z dpq)%Q.
Proof.
  intros Hd Hden ND Hin Hf.
  destruct (find_meas ms on None) as [m|] eqn:F; [|contradiction].
  pose proof F as F'. apply find_meas_in in F' as [Hm|C]; [|discriminate].
  assert (E : enc_sn ms dpq origin on =
              Some (mkS (m_num m) (enc_beat dpq (m_den m) (on - m_start m) + 1)
                        (enc_off dpq (m_den m) (on - m_start m)) (m_den m)
                        (inject_Z (on - origin) / inject_Z dpq))).
  { unfold enc_sn. rewrite F. reflexivity. }
  destruct (bar_time_spec ms dpq origin (enc_all ms dpq origin ons) m ND Hm) as [b [Hb Eb]].
  - apply enc_all_ok; assumption.
  - eexists; split; [eapply enc_all_in; eauto | reflexivity].
  - eexists; eexists. split; [exact E|].
    unfold decode_q. cbn [s_meas]. rewrite Hb. split; [reflexivity|].
    rewrite Eb. unfold inbar. cbn [s_den s_beat s_off].
    rewrite inbar_roundtrip_lemma by (auto; apply Hden; exact Hm).
    rewrite !inject_Z_minus.
    pose proof (injZ_nz dpq ltac:(lia)). field. assumption.
Qed.

(* ---------------- grid arithmetic ---------------- *)

Lemma trunc_Z k : trunc (inject_Z k) = k.
Proof.
  unfold trunc. destruct (Qle_bool 0 (inject_Z k)); [apply Qfloor_Z | apply Qceiling_Z].
Qed.

Lemma trunc_comp a b : (a == b)%Q -> trunc a = trunc b.
Proof.
  intros E. unfold trunc.
  assert (Qle_bool 0 a = Qle_bool 0 b).
  { destruct (Qle_bool 0 a) eqn:A, (Qle_bool 0 b) eqn:B; auto.
    - apply Qle_bool_iff in A. rewrite E in A. apply Qle_bool_iff in A. congruence.
    - apply Qle_bool_iff in B. rewrite <- E in B. apply Qle_bool_iff in B. congruence. }
  rewrite H. destruct (Qle_bool 0 b); [apply Qfloor_comp | apply Qceiling_comp]; exact E.
Qed.

Lemma duration_roundtrip_lemma dpq d divs k :
  0 < dpq -> k * dpq = d * divs -> decode_dur divs (enc_dur dpq d) = k.
Proof.
  intros Hd E. unfold decode_dur, enc_dur.
  rewrite <- (trunc_Z k). apply trunc_comp.
  assert (Ek : (inject_Z k * inject_Z dpq == inject_Z d * inject_Z divs)%Q)
    by (rewrite <- !inject_Z_mult, E; reflexivity).
  rewrite inject_Z_mult. change (inject_Z 4) with 4%Q.
  pose proof (injZ_nz dpq ltac:(lia)) as N.
  apply (Qmult_inj_r _ _ (inject_Z dpq) N).
  rewrite Ek. field. exact N.
Qed.

(* the divisions chosen by the importer are sufficient: if the reduced duration n/D equals
   d/(4 dpq) and D divides the new divisions, the duration is on the new grid *)
Lemma divs_sufficient_lemma dpq d n D divs :
  0 < dpq -> 0 < D -> n * (4 * dpq) = d * D -> (D | divs) ->
  exists k, k * dpq = d * divs.
Proof.
  intros Hd HD E [m Hm]. exists (4 * m * n). subst divs.
  replace (4 * m * n * dpq) with (m * (n * (4 * dpq))) by ring. rewrite E. ring.
Qed.

Lemma onset_grid_lemma divs q k :
  0 < divs -> (q == inject_Z k / inject_Z divs)%Q -> round_half_even (inject_Z divs * q) = k.
Proof.
  intros Hd E. rewrite <- (round_half_even_Z k). apply round_half_even_comp.
  rewrite E. pose proof (injZ_nz divs ltac:(lia)). field. assumption.
Qed.

(* ---------------- ticks ---------------- *)

Lemma tick_roundtrip_c08 ppq mpq k :
  0 < ppq -> 0 < mpq -> sec_to_tick ppq mpq (tick_to_sec ppq mpq k) = k.
Proof.
  intros Hp Hm. unfold sec_to_tick, tick_to_sec.
  assert (E : (inject_Z (1000000 * ppq) * (inject_Z (mpq * k) / inject_Z (1000000 * ppq)) / inject_Z mpq == inject_Z k)%Q).
  { rewrite (inject_Z_mult mpq k).
    pose proof (injZ_nz (1000000 * ppq) ltac:(lia)). pose proof (injZ_nz mpq ltac:(lia)).
    field. split; assumption. }
  rewrite E. apply round_half_even_Z.
Qed.

Lemma tick_nearest_c08 ppq mpq t :
  (Qabs (inject_Z (1000000 * ppq) * t / inject_Z mpq - inject_Z (sec_to_tick ppq mpq t)) <= 1 # 2)%Q.
Proof. unfold sec_to_tick. apply round_half_even_near. Qed.
