(* C06 -- load (save p): the seconds of the loaded ticks; controls / programs / signatures / meta with
   tracks merged; the default program changes *)
From PV Require Import Lib.Base Lib.Round Model.C12 Model.C06 Proofs.C06_lib Proofs.C06 Proofs.C06_pair Proofs.C06_save Proofs.C06_merge.
From Coq Require Import QArith Qabs Sorted Permutation.
#[local] Open Scope Z_scope.

Definition is_eot (e : Z * msg) : bool := msg_eqb (snd e) EndOfTrack.
Definition strip_eot (l : list (Z * msg)) : list (Z * msg) := filter (fun e => negb (msg_eqb (snd e) EndOfTrack)) l.

Lemma sel_app f a b : sel f (a ++ b) = sel f a ++ sel f b.
Proof. unfold sel. apply filter_app. Qed.
Lemma sel_flat_map {A} f (g : A -> list (Z * msg)) l : sel f (flat_map g l) = flat_map (fun x => sel f (g x)) l.
Proof. induction l as [|x r IH]; [reflexivity|]. cbn [flat_map]. rewrite sel_app, IH. reflexivity. Qed.
Lemma sel_strip_eot f l : f EndOfTrack = false -> sel f (strip_eot l) = sel f l.
Proof.
  intros Hf. induction l as [|[t m] r IH]; [reflexivity|]. unfold strip_eot, sel in *. cbn [filter snd].
  destruct m; cbn [msg_eqb negb filter snd]; try (rewrite IH; reflexivity).
  rewrite Hf. exact IH.
Qed.
Lemma sel_perm f l l' : Permutation l l' -> Permutation (sel f l) (sel f l').
Proof. unfold sel. apply Permutation_filter'. Qed.

(* what a message class f that does not contain end_of_track selects from the merged track is what it
   selects from the tracks *)
Lemma sel_merge f ts : f EndOfTrack = false ->
  Permutation (sel f (undelta 0 (merge_tracks ts))) (flat_map (fun t => sel f (undelta 0 t)) ts).
Proof.
  intros Hf. unfold merge_tracks.
  change (filter (fun e : Z * msg => negb (msg_eqb (snd e) EndOfTrack))) with strip_eot.
  destruct (undelta_app (deltas 0 (sort_by_tick (flat_map (fun t => strip_eot (undelta 0 t)) ts))) [(0, EndOfTrack)] 0) as (t' & E).
  rewrite E, sel_app, undelta_deltas. cbn [undelta]. unfold sel at 2. cbn [filter snd]. rewrite Hf, app_nil_r.
  rewrite (sel_perm f _ _ (sort_by_tick_perm _)), sel_flat_map.
  rewrite (flat_map_ext _ (fun t => sel f (undelta 0 t))); [reflexivity|].
  intros t. apply sel_strip_eot. exact Hf.
Qed.

Lemma Permutation_flat_map_pw {A B} (F G : A -> list B) l :
  (forall x, Permutation (F x) (G x)) -> Permutation (flat_map F l) (flat_map G l).
Proof. intros H. induction l as [|x r IH]; [constructor|]. cbn [flat_map]. apply Permutation_app; auto. Qed.
Lemma flat_map_map' {A B C} (F : B -> list C) (G : A -> B) l : flat_map F (map G l) = flat_map (fun x => F (G x)) l.
Proof. induction l as [|x r IH]; [reflexivity|]. cbn [map flat_map]. rewrite IH. reflexivity. Qed.

Section Items.
  Variables (rule ppq mpq : Z).

  (* per file track, what a class without set_tempo selects is what it selects from the sorted bucket *)
  Lemma sel_save_tracks f ps : f (Tempo mpq) = false ->
    flat_map (fun t => sel f (undelta 0 t)) (save rule ppq mpq false ps)
    = flat_map (fun tr => sel f (track_msgs (emit_parts rule ppq mpq [] ps) tr)) (save_tracks rule ppq mpq ps).
  Proof.
    intros Hf. unfold save. fold (save_tracks rule ppq mpq ps). cbn [andb].
    destruct (save_tracks rule ppq mpq ps) as [|tr0 trs]; [reflexivity|].
    cbn [map flat_map undelta]. change (0 + 0) with 0. rewrite undelta_deltas.
    unfold sel at 1. cbn [filter snd]. rewrite Hf. fold (sel f (track_msgs (emit_parts rule ppq mpq [] ps) tr0)).
    f_equal. rewrite flat_map_map'. apply flat_map_ext. intros tr. rewrite undelta_deltas. reflexivity.
  Qed.

  Lemma tracks_cover ps :
    Permutation (flat_map (fun tr => track_abs tr (emit_parts rule ppq mpq [] ps)) (save_tracks rule ppq mpq ps))
                (map strip (emit_parts rule ppq mpq [] ps)).
  Proof.
    unfold track_abs. rewrite <- map_flat_map'. apply Permutation_map.
    apply (group_perm ev_track).
    - apply sorted_uniq_NoDup.
    - apply Forall_forall. intros e He. unfold save_tracks. apply sorted_uniq_In. apply in_map. exact He.
  Qed.

  Lemma sel_saved f ps : f (Tempo mpq) = false ->
    Permutation (flat_map (fun t => sel f (undelta 0 t)) (save rule ppq mpq false ps))
                (sel f (map strip (emit_parts rule ppq mpq [] ps))).
  Proof.
    intros Hf. rewrite sel_save_tracks by exact Hf.
    rewrite (Permutation_flat_map_pw _ (fun tr => sel f (track_abs tr (emit_parts rule ppq mpq [] ps)))).
    - rewrite <- sel_flat_map. apply sel_perm. apply tracks_cover.
    - intros tr. apply sel_perm. unfold track_msgs. apply sort_by_tick_perm.
  Qed.

  (* tracks merged on export or on import (once) and on both sides (twice): every message class the
     loader selects comes back complete, at the nearest ticks *)
  Theorem save_load_items_merged_lemma ps (f : msg -> bool) : f (Tempo mpq) = false -> f EndOfTrack = false ->
    Permutation (sel f (undelta 0 (merge_tracks (save rule ppq mpq false ps)))) (sel f (map strip (emit_parts rule ppq mpq [] ps))) /\
    Permutation (sel f (undelta 0 (merge_tracks [merge_tracks (save rule ppq mpq false ps)]))) (sel f (map strip (emit_parts rule ppq mpq [] ps))).
  Proof.
    intros Hf He.
    assert (P1 : Permutation (sel f (undelta 0 (merge_tracks (save rule ppq mpq false ps)))) (sel f (map strip (emit_parts rule ppq mpq [] ps)))).
    { rewrite sel_merge by exact He. apply sel_saved. exact Hf. }
    split; [exact P1|]. rewrite sel_merge by exact He. cbn [flat_map]. rewrite app_nil_r. exact P1.
  Qed.

  (* ---- the tempo map of the saved file *)
  Definition is_tempo (m : msg) : bool := match m with Tempo _ => true | _ => false end.
  Definition tempo_pair (e : Z * msg) : Z * Z := (fst e, match snd e with Tempo m => m | _ => 0 end).
  Lemma tempo_events_sel l : tempo_events l = map tempo_pair (sel is_tempo l).
  Proof.
    induction l as [|[t m] r IH]; [reflexivity|]. unfold sel in *. cbn [tempo_events filter snd].
    destruct m; cbn [is_tempo map]; rewrite IH; reflexivity.
  Qed.

  Definition item_msgs (p : ppart) : list msg :=
    map pi_msg (pp_metas p ++ pp_keys p ++ pp_times p ++ pp_ctrls p ++ pp_progs p).
  (* no item of the performance is a set_tempo message (a performance has no tempo) *)
  Definition no_tempo (ps : list ppart) : Prop := Forall (fun p => Forall (fun m => is_tempo m = false) (item_msgs p)) ps.

  Lemma emit_parts_no_tempo : forall ps sofar, no_tempo ps ->
    Forall (fun e : ev => is_tempo (snd e) = false) sofar ->
    Forall (fun e : ev => is_tempo (snd e) = false) (emit_parts rule ppq mpq sofar ps).
  Proof.
    induction ps as [|p r IH]; intros sofar H Hs; [exact Hs|].
    inversion H as [|? ? Hp Hr]; subst. cbn [emit_parts]. apply IH; [exact Hr|].
    rewrite !Forall_app. split; [split; [exact Hs|]|].
    - unfold item_msgs in Hp. rewrite !map_app, !Forall_app in Hp. destruct Hp as (H1 & H2 & H3 & H4 & H5).
      unfold emit_part_body. rewrite !Forall_app.
      assert (G : forall l, Forall (fun m => is_tempo m = false) (map pi_msg l) ->
                            Forall (fun e : ev => is_tempo (snd e) = false) (map (emit_item rule ppq mpq) l)).
      { intros l Hl. rewrite Forall_map in *. exact Hl. }
      repeat split; try (apply G; assumption).
      apply Forall_forall. intros e He. apply in_flat_map in He as (n & _ & [<-|[<-|[]]]); reflexivity.
    - unfold default_programs. destruct (pp_progs p); [|constructor].
      apply Forall_forall. intros e He. apply in_flat_map in He as (tr & _ & He).
      apply in_map_iff in He as (ch & <- & _). reflexivity.
  Qed.

  Lemma sel_none f (l : list (Z * msg)) : Forall (fun e => f (snd e) = false) l -> sel f l = [].
  Proof. induction 1 as [|e r H HF IH]; [reflexivity|]. unfold sel in *. cbn [filter]. rewrite H. exact IH. Qed.

  Definition TE (ts : list (list (Z * msg))) : list (Z * Z) := flat_map (fun t => tempo_events (undelta 0 t)) ts.

  Lemma TE_merge ts : Permutation (TE [merge_tracks ts]) (TE ts).
  Proof.
    unfold TE. cbn [flat_map]. rewrite app_nil_r, tempo_events_sel.
    rewrite (flat_map_ext _ (fun t => map tempo_pair (sel is_tempo (undelta 0 t)))) by (intros t; apply tempo_events_sel).
    rewrite <- map_flat_map'. apply Permutation_map. apply sel_merge. reflexivity.
  Qed.

  Lemma TE_save ps : no_tempo ps -> save_tracks rule ppq mpq ps <> [] -> TE (save rule ppq mpq false ps) = [(0, mpq)].
  Proof.
    intros Hn Hne. unfold TE, save. fold (save_tracks rule ppq mpq ps). cbn [andb].
    assert (G : forall tr, tempo_events (track_msgs (emit_parts rule ppq mpq [] ps) tr) = []).
    { intros tr. rewrite tempo_events_sel, sel_none; [reflexivity|].
      pose proof (emit_parts_no_tempo ps [] Hn (Forall_nil _)) as H.
      eapply Permutation_Forall; [symmetry; unfold track_msgs; apply sort_by_tick_perm|].
      rewrite Forall_map. apply Forall_forall. intros e He. apply filter_In in He as [He _].
      rewrite Forall_forall in H. apply (H e He). }
    destruct (save_tracks rule ppq mpq ps) as [|tr0 trs]; [congruence|].
    cbn [map flat_map undelta tempo_events]. change (0 + 0) with 0. rewrite undelta_deltas, G. cbn [app]. f_equal.
    rewrite flat_map_map'. clear Hne. induction trs as [|tr r IH]; [reflexivity|].
    cbn [flat_map]. rewrite undelta_deltas, G. exact IH.
  Qed.

  (* the tempo changes the loader collects from the saved file, merged or not on either side *)
  Lemma load_collected dmpq (ml : bool) tracks :
    snd (load dmpq ml tracks) = tempo_list ((0, dmpq) :: TE (if ml then [merge_tracks tracks] else tracks)).
  Proof.
    destruct ml; unfold load, TE; cbn [snd].
    - cbn [flat_map]. reflexivity.
    - rewrite flat_map_map'. reflexivity.
  Qed.

  Lemma perm_single {A} (a : A) l : Permutation l [a] -> l = [a].
  Proof. intros P. symmetry in P. apply Permutation_length_1_inv in P. exact P. Qed.

  Lemma saved_tempo (ms ml : bool) ps : no_tempo ps -> save_tracks rule ppq mpq ps <> [] ->
    TE (if ml then [merge_tracks (save rule ppq mpq ms ps)] else save rule ppq mpq ms ps) = [(0, mpq)].
  Proof.
    intros Hn Hne. pose proof (TE_save ps Hn Hne) as E0.
    assert (E1 : TE [merge_tracks (save rule ppq mpq false ps)] = [(0, mpq)]).
    { apply perm_single. rewrite TE_merge, E0. reflexivity. }
    assert (E2 : TE [merge_tracks [merge_tracks (save rule ppq mpq false ps)]] = [(0, mpq)]).
    { apply perm_single. rewrite TE_merge, E1. reflexivity. }
    destruct ms.
    - rewrite save_merge_shape_lemma. destruct (1 <? Z.of_nat (List.length (save rule ppq mpq false ps))); destruct ml; assumption.
    - destruct ml; assumption.
  Qed.

  Lemma adjust_two dmpq k : 0 <= k -> adjust_num (tempo_list [(0, dmpq); (0, mpq)]) k = mpq * k.
  Proof.
    intros Hk. unfold tempo_list, sort_by_tick, sort_le. cbn [fold_right insert_le fst]. cbn [Z.leb Z.compare drop_repeats].
    assert (E : (k <? 0) = false) by lia.
    destruct (mpq =? dmpq) eqn:D.
    - apply Z.eqb_eq in D. subst dmpq. unfold adjust_num. cbn [adjust_loop]. rewrite E. lia.
    - unfold adjust_num. cbn [adjust_loop]. rewrite E. lia.
  Qed.

  Theorem save_load_seconds_lemma dmpq (ms ml : bool) ps k : no_tempo ps -> save_tracks rule ppq mpq ps <> [] -> 0 <= k ->
    adjust_time ppq (snd (load dmpq ml (save rule ppq mpq ms ps))) k = tick_to_sec ppq mpq k.
  Proof.
    intros Hn Hne Hk. rewrite load_collected, saved_tempo by assumption.
    unfold adjust_time, tick_to_sec. rewrite adjust_two by exact Hk. reflexivity.
  Qed.

  (* a time t >= 0 comes back, in seconds, within half a tick of the exported file *)
  Theorem save_load_time_halftick_lemma dmpq (ms ml : bool) ps t : no_tempo ps -> save_tracks rule ppq mpq ps <> [] ->
    0 < ppq -> 0 < mpq -> 0 <= sec_to_tick_r rule ppq mpq t ->
    (Qabs (adjust_time ppq (snd (load dmpq ml (save rule ppq mpq ms ps))) (sec_to_tick_r rule ppq mpq t) - t)
     <= inject_Z mpq / inject_Z (2 * (1000000 * ppq)))%Q.
  Proof.
    intros Hn Hne Hp Hm Hk. rewrite save_load_seconds_lemma by assumption.
    apply sec_roundtrip_halftick_lemma; assumption.
  Qed.
End Items.

(* ---- the default program changes *)
Section Defaults.
  Variables (rule ppq mpq : Z).
  Definition part_pairs (p : ppart) : list (Z * Z) :=
    map (fun i => (pi_track i, msg_ch (pi_msg i))) (pp_ctrls p) ++ map (fun n => (pn_track n, pn_ch n)) (pp_notes p).
  Definition first_tick (sofar : list ev) : Z :=
    zmin_list (match sofar with e :: _ => ev_tick e | [] => 0 end) (map ev_tick sofar).

  Lemma zmin_list_le d l x : In x l -> zmin_list d l <= x.
  Proof.
    induction l as [|y r IH]; intros H; [destruct H|]. unfold zmin_list in *. cbn [fold_right].
    destruct H as [->|H]; [lia|]. specialize (IH H). lia.
  Qed.

  (* a part with program changes gets none; a part without gets program 0 exactly on the (track, channel)
     pairs of its notes and controls, at a tick not after anything written so far *)
  Theorem default_programs_spec_lemma sofar p :
    (pp_progs p <> [] -> default_programs sofar p = []) /\
    (pp_progs p = [] -> forall e, In e (default_programs sofar p) <->
        exists tr ch, e = (tr, first_tick sofar, PC ch 0) /\ In (tr, ch) (part_pairs p)) /\
    (forall e, In e sofar -> first_tick sofar <= ev_tick e).
  Proof.
    split; [|split].
    - unfold default_programs. destruct (pp_progs p); [congruence|reflexivity].
    - intros Hp e. unfold default_programs. rewrite Hp. fold (part_pairs p). fold (first_tick sofar).
      rewrite in_flat_map. split.
      + intros (tr & Htr & He). apply in_map_iff in He as (ch & <- & Hch).
        apply (proj1 (sorted_uniq_In _ _)) in Hch. apply in_map_iff in Hch as ([tr' ch'] & E & Hin). cbn [snd] in E. subst ch'.
        apply filter_In in Hin as [Hin Ht]. cbn [fst] in Ht. assert (tr' = tr) by lia. subst tr'.
        exists tr, ch. split; [reflexivity|exact Hin].
      + intros (tr & ch & -> & Hin). exists tr. split.
        * apply (proj2 (sorted_uniq_In _ _)). apply in_map_iff. exists (tr, ch). split; [reflexivity|exact Hin].
        * apply in_map_iff. exists ch. split; [reflexivity|]. apply (proj2 (sorted_uniq_In _ _)). apply in_map_iff.
          exists (tr, ch). split; [reflexivity|]. apply filter_In. split; [exact Hin|]. cbn [fst]. lia.
    - intros e He. unfold first_tick. apply zmin_list_le. apply in_map. exact He.
  Qed.
End Defaults.

(* non-vacuity: the two-part performance of save_load_notes_example has no tempo item and two tracks; saved
   at 500000 us per quarter and 480 ticks, loaded with another default tempo and both merges, tick 960 is at 1 s;
   its first part has no program change and gets program 0 on (track 0, channel 0) and (track 0, channel 1) *)
Lemma save_load_seconds_example_lemma :
  no_tempo ex_ps /\ save_tracks 0 480 500000 ex_ps <> [] /\
  (adjust_time 480 (snd (load 600000 true (save 0 480 500000 true ex_ps))) 960 == 1)%Q /\
  default_programs [(0, 7, Meta 1)] (hd (mkPP [] [] [] [] [] []) ex_ps) = [(0, 7, PC 0 0); (0, 7, PC 1 0)].
Proof.
  split; [|split; [|split]].
  - unfold no_tempo, ex_ps, item_msgs. cbn. repeat constructor.
  - vm_compute. discriminate.
  - vm_compute. reflexivity.
  - vm_compute. reflexivity.
Qed.
