(* C16 -- proofs about the model of Model/C16.v, for ALL octaves, alterations and
   semitone sizes (unbounded), by a finite check of the 7 x 7 step/number facts and lia. *)
From PV Require Import Lib.Base Model.C16.
#[local] Open Scope Z_scope.

(* ---------- finite facts about steps (7 steps x 7 interval numbers) ---------- *)
Definition up_fact (i n : Z) : bool :=
  let i' := (i + (n - 1)) mod 7 in
  let w := if i' - i <? 0 then 1 else 0 in
  (i' =? i + (n - 1) - 7 * w) &&
  ((base_pc i' - base_pc i) mod 12 =? base_pc i' - base_pc i + 12 * w) &&
  (0 <=? i') && (i' <=? 6).

Definition down_fact (i n : Z) : bool :=
  let i' := (i - (n - 1)) mod 7 in
  let w := if i' - i >? 0 then 1 else 0 in
  (i' =? i - (n - 1) + 7 * w) &&
  ((base_pc i - base_pc i') mod 12 =? base_pc i - base_pc i' + 12 * w) &&
  (0 <=? i') && (i' <=? 6).

Lemma facts_all :
  forallb (fun i => forallb (fun n => up_fact i n && down_fact i n) (zrange 1 7)) (zrange 0 7) = true.
Proof. vm_compute. reflexivity. Qed.

Lemma facts i n : 0 <= i <= 6 -> 1 <= n <= 7 -> up_fact i n = true /\ down_fact i n = true.
Proof.
  intros Hi Hn.
  assert (I : In i (zrange 0 7)) by (apply zrange_In; simpl; lia).
  assert (N : In n (zrange 1 7)) by (apply zrange_In; simpl; lia).
  pose proof (forallb_In _ _ facts_all i I) as H. cbv beta in H.
  pose proof (forallb_In _ _ H n N) as H2. cbv beta in H2.
  apply andb_true_iff in H2. exact H2.
Qed.

Lemma up_fact_prop i n : 0 <= i <= 6 -> 1 <= n <= 7 ->
  let i' := (i + (n - 1)) mod 7 in
  exists w, (w = 0 \/ w = 1) /\ (i' - i <? 0) = (w =? 1) /\
    i' = i + (n - 1) - 7 * w /\
    (base_pc i' - base_pc i) mod 12 = base_pc i' - base_pc i + 12 * w /\ 0 <= i' <= 6.
Proof.
  intros Hi Hn i'. destruct (facts i n Hi Hn) as [H _]. unfold up_fact in H. fold i' in H.
  repeat (apply andb_true_iff in H; destruct H as [H ?]).
  destruct (i' - i <? 0) eqn:E.
  - exists 1. repeat split; try lia.
  - exists 0. repeat split; try lia.
Qed.

Lemma down_fact_prop i n : 0 <= i <= 6 -> 1 <= n <= 7 ->
  let i' := (i - (n - 1)) mod 7 in
  exists w, (w = 0 \/ w = 1) /\ (i' - i >? 0) = (w =? 1) /\
    i' = i - (n - 1) + 7 * w /\
    (base_pc i - base_pc i') mod 12 = base_pc i - base_pc i' + 12 * w /\ 0 <= i' <= 6.
Proof.
  intros Hi Hn i'. destruct (facts i n Hi Hn) as [_ H]. unfold down_fact in H. fold i' in H.
  repeat (apply andb_true_iff in H; destruct H as [H ?]).
  destruct (i' - i >? 0) eqn:E.
  - exists 1. repeat split; try lia.
  - exists 0. repeat split; try lia.
Qed.

Lemma triple_eq (a b c a' b' c' : Z) : a = a' -> b = b' -> c = c' -> (a, b, c) = (a', b', c').
Proof. intros; subst; reflexivity. Qed.

(* ---------- model = diatonic specification, all a, o, sem ---------- *)
Lemma tr_note_spec_lemma p1 n sem up i a o :
  0 <= i <= 6 -> 1 <= n <= 7 -> (p1 = true -> n = 1 /\ sem = 0) ->
  tr_note p1 n sem up (i, a, o) = tr_spec n sem up (i, a, o).
Proof.
  intros Hi Hn Hp. unfold tr_note, tr_spec, diat.
  destruct p1.
  - destruct (Hp eq_refl) as [-> ->].
    assert (E1 : (7 * o + i) mod 7 = i) by lia.
    assert (E2 : (7 * o + i) / 7 = o) by lia.
    destruct up; replace (7 * o + i + (1 - 1)) with (7 * o + i) by lia;
      replace (7 * o + i - (1 - 1)) with (7 * o + i) by lia; rewrite E1, E2;
      unfold midi; cbv beta iota zeta; apply triple_eq; lia.
  - destruct up; unfold tr_step.
    + destruct (up_fact_prop i n Hi Hn) as [w [Hw [Hb [Hi' [Hm Hr]]]]]. cbv zeta in *.
      set (i' := (i + (n - 1)) mod 7) in *.
      assert (E1 : (7 * o + i + (n - 1)) mod 7 = i') by lia.
      assert (E2 : (7 * o + i + (n - 1)) / 7 = o + w) by lia.
      rewrite E1, E2, Hm, Hb. unfold midi. cbv beta iota zeta.
      generalize dependent (base_pc i'). generalize (base_pc i). intros b b' _.
      destruct Hw as [-> | ->]; cbn [Z.eqb Pos.eqb]; apply triple_eq; lia.
    + destruct (down_fact_prop i n Hi Hn) as [w [Hw [Hb [Hi' [Hm Hr]]]]]. cbv zeta in *.
      set (i' := (i - (n - 1)) mod 7) in *.
      assert (E1 : (7 * o + i - (n - 1)) mod 7 = i') by lia.
      assert (E2 : (7 * o + i - (n - 1)) / 7 = o - w) by lia.
      rewrite E1, E2, Hm, Hb. unfold midi. cbv beta iota zeta.
      generalize dependent (base_pc i'). generalize (base_pc i). intros b b' _.
      destruct Hw as [-> | ->]; cbn [Z.eqb Pos.eqb]; apply triple_eq; lia.
Qed.

(* consequences of the specification *)
Lemma tr_spec_midi n sem up x :
  midi (tr_spec n sem up x) = if up then midi x + sem else midi x - sem.
Proof.
  destruct x as [[i a] o]. unfold tr_spec.
  set (D := if up then diat i o + (n - 1) else diat i o - (n - 1)).
  set (m' := if up then midi (i, a, o) + sem else midi (i, a, o) - sem).
  unfold midi at 1. unfold midi at 1. lia.
Qed.

Lemma tr_spec_diat n sem up i a o :
  let '(i', a', o') := tr_spec n sem up (i, a, o) in
  0 <= i' <= 6 /\ diat i' o' = if up then diat i o + (n - 1) else diat i o - (n - 1).
Proof.
  unfold tr_spec.
  set (D := if up then diat i o + (n - 1) else diat i o - (n - 1)).
  unfold diat at 1. lia.
Qed.

Lemma midi_moves_lemma p1 n sem up i a o :
  0 <= i <= 6 -> 1 <= n <= 7 -> (p1 = true -> n = 1 /\ sem = 0) ->
  midi (tr_note p1 n sem up (i, a, o)) = if up then midi (i, a, o) + sem else midi (i, a, o) - sem.
Proof. intros. rewrite tr_note_spec_lemma by assumption. apply tr_spec_midi. Qed.

Lemma steps_move_lemma p1 n sem up i a o :
  0 <= i <= 6 -> 1 <= n <= 7 -> (p1 = true -> n = 1 /\ sem = 0) ->
  let '(i', a', o') := tr_note p1 n sem up (i, a, o) in
  0 <= i' <= 6 /\ diat i' o' = if up then diat i o + (n - 1) else diat i o - (n - 1).
Proof. intros. rewrite tr_note_spec_lemma by assumption. apply tr_spec_diat. Qed.

(* a pitch is determined by its step, diatonic index and MIDI pitch *)
Lemma pitch_determined i a o i' a' o' :
  0 <= i <= 6 -> 0 <= i' <= 6 -> diat i o = diat i' o' -> midi (i, a, o) = midi (i', a', o') ->
  (i, a, o) = (i', a', o').
Proof.
  unfold diat, midi. intros Hi Hi' Hd Hm.
  assert (i = i') by lia. assert (o = o') by lia. subst i' o'. apply triple_eq; lia.
Qed.

Lemma up_down_lemma p1 n sem up i a o :
  0 <= i <= 6 -> 1 <= n <= 7 -> (p1 = true -> n = 1 /\ sem = 0) ->
  tr_note p1 n sem (negb up) (tr_note p1 n sem up (i, a, o)) = (i, a, o).
Proof.
  intros Hi Hn Hp.
  pose proof (steps_move_lemma p1 n sem up i a o Hi Hn Hp) as S1.
  pose proof (midi_moves_lemma p1 n sem up i a o Hi Hn Hp) as M1.
  destruct (tr_note p1 n sem up (i, a, o)) as [[i1 a1] o1]. destruct S1 as [Hi1 D1].
  pose proof (steps_move_lemma p1 n sem (negb up) i1 a1 o1 Hi1 Hn Hp) as S2.
  pose proof (midi_moves_lemma p1 n sem (negb up) i1 a1 o1 Hi1 Hn Hp) as M2.
  destruct (tr_note p1 n sem (negb up) (i1, a1, o1)) as [[i2 a2] o2]. destruct S2 as [Hi2 D2].
  apply pitch_determined; try assumption; destruct up; cbn [negb] in *; lia.
Qed.

(* ---------- transpose_note (octave free) agrees ---------- *)
Lemma mod12_cancel c c' a sem :
  sem - ((c' + a) mod 12 - (c + a) mod 12) mod 12 + a = a + (sem - (c' - c) mod 12).
Proof. lia. Qed.

Lemma tn_note_agrees_lemma p1 n sem up i a i' a' :
  1 <= n -> (p1 = true -> n = 1 /\ sem = 0) ->
  tn_note n sem up i a = Some (i', a') ->
  up = true /\ 0 <= i <= 6 /\ -2 <= a <= 2 /\ -2 <= a' <= 2 /\
  forall o, exists o', tr_note p1 n sem true (i, a, o) = (i', a', o').
Proof.
  intros Hn1 Hp. unfold tn_note.
  destruct (up && (-3 <? a) && (a <? 3) && (n <? 8) && (0 <=? i) && (i <=? 6)) eqn:G; [|discriminate].
  repeat (apply andb_true_iff in G; destruct G as [G ?]).
  replace (i + n - 1) with (i + (n - 1)) by lia.
  unfold step2pc. rewrite mod12_cancel.
  set (j := (i + (n - 1)) mod 7).
  set (b := a + (sem - (base_pc j - base_pc i) mod 12)).
  destruct ((-3 <? b) && (b <? 3)) eqn:B; [|discriminate].
  intros E. injection E as <- <-.
  apply andb_true_iff in B as [B1 B2].
  assert (Hi : 0 <= i <= 6) by lia. assert (Hn : 1 <= n <= 7) by lia.
  repeat split; try lia; try (destruct up; [reflexivity|discriminate]).
  intros o.
  destruct p1.
  - destruct (Hp eq_refl) as [-> ->]. exists o. unfold tr_note.
    assert (J : j = i) by (unfold j; lia).
    unfold b. rewrite J. replace (base_pc i - base_pc i) with 0 by lia. cbn. apply triple_eq; lia.
  - unfold tr_note, tr_step. fold j. fold b.
    eexists. reflexivity.
Qed.

Lemma tn_note_defined_lemma n sem i a o :
  0 <= i <= 6 -> 1 <= n <= 7 -> -2 <= a <= 2 ->
  let '(i', a', o') := tr_note false n sem true (i, a, o) in
  -2 <= a' <= 2 -> tn_note n sem true i a = Some (i', a').
Proof.
  intros Hi Hn Ha. unfold tr_note, tr_step. cbv zeta.
  intros Ha'. unfold tn_note.
  replace (true && (-3 <? a) && (a <? 3) && (n <? 8) && (0 <=? i) && (i <=? 6)) with true by lia.
  replace (i + n - 1) with (i + (n - 1)) by lia.
  unfold step2pc. rewrite mod12_cancel.
  set (j := (i + (n - 1)) mod 7) in *.
  set (b := a + (sem - (base_pc j - base_pc i) mod 12)) in *.
  replace ((-3 <? b) && (b <? 3)) with true by lia.
  reflexivity.
Qed.

(* ---------- interval classes ---------- *)
Lemma interval_classes_39 : List.length interval_classes = 39%nat.
Proof. vm_compute. reflexivity. Qed.

Lemma interval_class_In n q sem : iv_semitones n q = Some sem -> In (n, q) interval_classes.
Proof.
  intros H. unfold interval_classes. apply filter_In. cbn [fst snd]. rewrite H. split; [|reflexivity].
  unfold iv_semitones in H.
  destruct ((1 <=? n) && (n <=? 7)) eqn:E; [|discriminate].
  apply in_prod; [apply zrange_In; simpl; lia|].
  unfold opt_bind, qual_offset in H.
  assert (0 <= q <= 6); [|apply zrange_In; simpl; lia].
  destruct (perfect_number n); destruct q as [|p|p]; try discriminate; try lia;
    do 3 (destruct p as [p|p|]; try discriminate; try lia).
Qed.

Lemma interval_class_bounds n q sem : iv_semitones n q = Some sem -> 1 <= n <= 7 /\ -3 <= sem <= 13.
Proof.
  intros H. pose proof (interval_class_In n q sem H) as I.
  assert (B : forallb (fun nq => match iv_semitones (fst nq) (snd nq) with
                                 | Some s => (1 <=? fst nq) && (fst nq <=? 7) && (-3 <=? s) && (s <=? 13)
                                 | None => false end) interval_classes = true) by (vm_compute; reflexivity).
  pose proof (forallb_In _ _ B (n, q) I) as B2. cbn [fst snd] in B2. rewrite H in B2. lia.
Qed.

Lemma is_p1_sem n q sem : iv_semitones n q = Some sem -> is_p1 n q = true -> n = 1 /\ sem = 0.
Proof.
  unfold is_p1. intros H E. apply andb_true_iff in E as [E1 E2].
  apply Z.eqb_eq in E1. apply Z.eqb_eq in E2. subst. vm_compute in H. injection H as <-. split; reflexivity.
Qed.

(* ---------- by interval class ---------- *)
Lemma tr_iv_total n q up x sem : iv_semitones n q = Some sem -> exists y, tr_iv n q up x = Some y.
Proof. intros H. unfold tr_iv. rewrite H. cbn. eexists. reflexivity. Qed.

Lemma tr_iv_spec_lemma n q up i a o sem :
  iv_semitones n q = Some sem -> 0 <= i <= 6 ->
  tr_iv n q up (i, a, o) = Some (tr_spec n sem up (i, a, o)).
Proof.
  intros H Hi. unfold tr_iv. rewrite H. cbn [opt_bind]. f_equal.
  apply tr_note_spec_lemma; [assumption | apply (interval_class_bounds n q sem H) | apply is_p1_sem; assumption].
Qed.

Lemma tr_iv_up_down_lemma n q up i a o y :
  0 <= i <= 6 -> tr_iv n q up (i, a, o) = Some y -> tr_iv n q (negb up) y = Some (i, a, o).
Proof.
  intros Hi. unfold tr_iv. destruct (iv_semitones n q) as [sem|] eqn:H; [|discriminate].
  cbn [opt_bind]. intros E. injection E as <-. f_equal.
  apply up_down_lemma; [assumption | apply (interval_class_bounds n q sem H) | apply is_p1_sem; assumption].
Qed.

Lemma tr_iv_step_range n q up i a o i' a' o' :
  0 <= i <= 6 -> tr_iv n q up (i, a, o) = Some (i', a', o') -> 0 <= i' <= 6.
Proof.
  intros Hi. unfold tr_iv. destruct (iv_semitones n q) as [sem|] eqn:H; [|discriminate].
  cbn [opt_bind]. intros E. injection E as E.
  pose proof (steps_move_lemma (is_p1 n q) n sem up i a o Hi (proj1 (interval_class_bounds n q sem H))
                (is_p1_sem n q sem H)) as S.
  rewrite E in S. apply S.
Qed.

(* ---------- the driver ---------- *)
Definition pitched_ok (e : elem) : Prop :=
  match snd e with Some (i, _, _) => 0 <= i <= 6 | None => True end.

(* relation between an element of the argument and the element of the result *)
Definition moved (n q : Z) (up : bool) (e e' : elem) : Prop :=
  fst e' = fst e /\
  match snd e with
  | None => snd e' = None
  | Some x => exists sem, iv_semitones n q = Some sem /\ snd e' = Some (tr_note (is_p1 n q) n sem up x)
  end.

Lemma transpose_elems_moved n q up l l' :
  transpose_elems n q up l = Some l' -> Forall2 (moved n q up) l l'.
Proof.
  revert l'. induction l as [|e r IH]; intros l' H; cbn in H.
  - injection H as <-. constructor.
  - unfold opt_bind in H.
    destruct (transpose_elem n q up e) as [e'|] eqn:E; [|discriminate].
    destruct (transpose_elems n q up r) as [r'|]; [|discriminate].
    injection H as <-. constructor; [|apply IH; reflexivity].
    unfold transpose_elem in E. destruct e as [f [x|]]; cbn [fst snd] in *.
    + unfold tr_iv, opt_bind in E. destruct (iv_semitones n q) as [sem|] eqn:S; [|discriminate].
      injection E as <-. split; [reflexivity|]. cbn [snd]. exists sem. split; [first [exact S | reflexivity] | reflexivity].
    + injection E as <-. split; reflexivity.
Qed.

Lemma transpose_elems_total n q up l sem :
  iv_semitones n q = Some sem -> exists l', transpose_elems n q up l = Some l'.
Proof.
  intros S. induction l as [|e r [r' IH]]; [eexists; reflexivity|].
  cbn. rewrite IH. unfold transpose_elem, tr_iv. rewrite S. destruct (snd e); cbn; eexists; reflexivity.
Qed.

Lemma transpose_elems_up_down n q up l l' :
  Forall pitched_ok l -> transpose_elems n q up l = Some l' ->
  transpose_elems n q (negb up) l' = Some l.
Proof.
  revert l'. induction l as [|e r IH]; intros l' HF H; cbn in H.
  - injection H as <-. reflexivity.
  - unfold opt_bind in H.
    destruct (transpose_elem n q up e) as [e'|] eqn:E; [|discriminate].
    destruct (transpose_elems n q up r) as [r'|] eqn:R; [|discriminate].
    injection H as <-. inversion HF as [|? ? He Hr]; subst.
    cbn. rewrite (IH r' Hr eq_refl).
    unfold transpose_elem in *. destruct e as [f [[[i a] o]|]]; cbn [fst snd] in *.
    + unfold opt_bind in E. destruct (tr_iv n q up (i, a, o)) as [y|] eqn:T; [|discriminate].
      injection E as <-. cbn [fst snd]. unfold pitched_ok in He. cbn in He.
      rewrite (tr_iv_up_down_lemma n q up i a o y He T). reflexivity.
    + injection E as <-. reflexivity.
Qed.

Lemma transpose_elems_length n q up l l' :
  transpose_elems n q up l = Some l' -> List.length l' = List.length l.
Proof. intros H. apply transpose_elems_moved in H. induction H; cbn; congruence. Qed.
