(* C17 -- proofs about the note reader of load_score_midi (Model.C17_MidiParse). *)
From PV Require Import Lib.Base Model.C17_Spelling Model.C17_Midi Model.C17_MidiParse Proofs.C17_lib.
#[local] Open Scope Z_scope.

(* ---- the dictionary *)
Lemma sn_get_del_same : forall k d, sn_get k (sn_del k d) = None.
Proof.
  induction d as [|[k' v] r IH]; cbn; [reflexivity|].
  destruct (k' =? k) eqn:E; [exact IH|]. cbn. rewrite E. exact IH.
Qed.

Lemma sn_get_del_other : forall k k' d, k' <> k -> sn_get k (sn_del k' d) = sn_get k d.
Proof.
  induction d as [|[k2 v] r IH]; cbn; intros Hne; [reflexivity|].
  destruct (k2 =? k') eqn:E1.
  - apply Z.eqb_eq in E1. subst k2. apply Z.eqb_neq in Hne. rewrite Hne. apply IH. apply Z.eqb_neq. assumption.
  - cbn. destruct (k2 =? k); [reflexivity|]. apply IH. assumption.
Qed.

Lemma sn_get_set_same : forall k v d, sn_get k (sn_set k v d) = Some v.
Proof. intros. unfold sn_set. cbn. rewrite Z.eqb_refl. reflexivity. Qed.

Lemma sn_get_set_other : forall k k' v d, k' <> k -> sn_get k (sn_set k' v d) = sn_get k d.
Proof.
  intros. unfold sn_set. cbn. destruct (k' =? k) eqn:E; zb; [congruence|].
  apply sn_get_del_other; assumption.
Qed.

(* ---- time *)
Lemma time_after_shift : forall ms t, time_after t ms = t + time_after 0 ms.
Proof.
  induction ms as [|m r IH]; intros t; cbn; [lia|].
  rewrite (IH (t + m_time m)), (IH (m_time m)). lia.
Qed.

Lemma time_after_app : forall a b t, time_after t (a ++ b) = time_after (time_after t a) b.
Proof. induction a as [|m r IH]; intros; cbn; [reflexivity|]. apply IH. Qed.

(* ---- the loop is a left-to-right pass: a track read in two pieces *)
Lemma parse_with_app : forall h a b t d,
  parse_with h t d (a ++ b) = parse_with h t d a ++ parse_with h (time_after t a) (dict_after h t d a) b.
Proof.
  induction a as [|m r IH]; intros b t d; cbn; [reflexivity|].
  destruct (is_start m); [apply IH|].
  destruct (is_end m); [|apply IH].
  destruct (sn_get (h m) d); [cbn; f_equal; apply IH|apply IH].
Qed.

(* messages on other keys do not touch the entry of key k *)
Lemma dict_after_other_keys : forall h k ms t d,
  (forall m, In m ms -> is_start m = true \/ is_end m = true -> h m <> k) ->
  sn_get k (dict_after h t d ms) = sn_get k d.
Proof.
  induction ms as [|m r IH]; intros t d Hm; cbn; [reflexivity|].
  assert (Hr : forall m0, In m0 r -> is_start m0 = true \/ is_end m0 = true -> h m0 <> k)
    by (intros; apply Hm; [right; assumption|assumption]).
  destruct (is_start m) eqn:Es.
  - rewrite IH by assumption. apply sn_get_set_other. apply Hm; [left; reflexivity|left; exact Es].
  - destruct (is_end m) eqn:Ee; [|apply IH; assumption].
    destruct (sn_get (h m) d) eqn:Eg; [|apply IH; assumption].
    rewrite IH by assumption. apply sn_get_del_other. apply Hm; [left; reflexivity|right; exact Ee].
Qed.

Lemma end_not_start : forall m, is_end m = true -> is_start m = false.
Proof.
  intros m. unfold is_start, is_end. intros H.
  destruct (m_kind m =? 1) eqn:E1; cbn in *; [|reflexivity].
  destruct (m_kind m =? 0) eqn:E0; zb; [lia|]. cbn in H. zb. rewrite H. reflexivity.
Qed.

(* a note written as note-on ... note-end, with no start or end on the same key in between, is read -- whatever else
   the track holds, whatever the dictionary held before: generic in the hash *)
Lemma written_note_is_read_h : forall h t d pre mon mid moff post,
  is_start mon = true -> is_end moff = true -> h moff = h mon ->
  (forall m, In m mid -> is_start m = true \/ is_end m = true -> h m <> h mon) ->
  In (m_chan moff, (time_after t (pre ++ [mon]), m_note moff, time_after 0 (mid ++ [moff])))
     (parse_with h t d (pre ++ mon :: mid ++ moff :: post)).
Proof.
  intros h t d pre mon mid moff post Hs He Hk Hmid.
  rewrite parse_with_app. apply in_or_app. right.
  rewrite time_after_app. cbn [time_after].
  set (t1 := time_after t pre). set (d1 := dict_after h t d pre).
  cbn [parse_with]. rewrite Hs.
  set (t0 := t1 + m_time mon). set (d2 := sn_set (h mon) t0 d1).
  rewrite parse_with_app. apply in_or_app. right.
  cbn [parse_with].
  rewrite (end_not_start moff He), He, Hk.
  rewrite (dict_after_other_keys h (h mon) mid t0 d2 Hmid).
  unfold d2. rewrite sn_get_set_same.
  left. f_equal. f_equal.
  rewrite time_after_app. cbn [time_after].
  rewrite (time_after_shift mid t0), (time_after_shift mid 0). lia.
Qed.

(* note_hash is injective on the MIDI note numbers *)
Lemma note_hash_injective : forall c p c' p', 0 <= p < 128 -> 0 <= p' < 128 ->
  note_hash c p = note_hash c' p' -> c = c' /\ p = p'.
Proof. unfold note_hash. intros. lia. Qed.

(* the code's reader, in terms of channels and note numbers *)
Lemma written_note_is_read : forall pre mon mid moff post,
  is_start mon = true -> is_end moff = true -> m_chan moff = m_chan mon -> m_note moff = m_note mon ->
  0 <= m_note mon < 128 ->
  (forall m, In m mid -> is_start m = true \/ is_end m = true ->
             0 <= m_note m < 128 /\ ~ (m_chan m = m_chan mon /\ m_note m = m_note mon)) ->
  In (m_chan mon, (time_after 0 (pre ++ [mon]), m_note mon, time_after 0 (mid ++ [moff])))
     (parse_track (pre ++ mon :: mid ++ moff :: post)).
Proof.
  intros pre mon mid moff post Hs He Hc Hn Hr Hmid.
  rewrite <- Hc, <- Hn. unfold parse_track, parse_from.
  apply written_note_is_read_h; try assumption.
  - unfold m_hash. rewrite Hc, Hn. reflexivity.
  - intros m Hin Hse Heq. destruct (Hmid m Hin Hse) as [Hrm Hneq]. apply Hneq.
    unfold m_hash in Heq. apply note_hash_injective in Heq; assumption.
Qed.

(* no more notes than note ends, for every hash *)
Lemma parse_length_le_ends : forall h ms t d,
  (List.length (parse_with h t d ms) <= List.length (filter is_end ms))%nat.
Proof.
  induction ms as [|m r IH]; intros t d; cbn; [lia|].
  destruct (is_start m) eqn:Es.
  - specialize (IH (t + m_time m) (sn_set (h m) (t + m_time m) d)).
    destruct (is_end m); cbn; lia.
  - destruct (is_end m) eqn:Ee.
    + destruct (sn_get (h m) d).
      * cbn. specialize (IH (t + m_time m) (sn_del (h m) d)). lia.
      * cbn. specialize (IH (t + m_time m) d). lia.
    + apply IH.
Qed.

(* ---- every note read was written: the note-end that emitted it, the note-on that started it (or the entry the
   dictionary held at the start), nothing on the same key in between *)
Lemma read_note_was_written_h : forall h ms t d x, In x (parse_with h t d ms) ->
  (exists pre moff post t0, ms = pre ++ moff :: post /\ is_end moff = true /\ sn_get (h moff) d = Some t0 /\
     (forall m, In m pre -> is_start m = true \/ is_end m = true -> h m <> h moff) /\
     x = (m_chan moff, (t0, m_note moff, time_after t (pre ++ [moff]) - t0))) \/
  (exists pre mon mid moff post, ms = pre ++ mon :: mid ++ moff :: post /\
     is_start mon = true /\ is_end moff = true /\ h moff = h mon /\
     (forall m, In m mid -> is_start m = true \/ is_end m = true -> h m <> h mon) /\
     x = (m_chan moff, (time_after t (pre ++ [mon]), m_note moff, time_after 0 (mid ++ [moff])))).
Proof.
  induction ms as [|m r IH]; intros t d x Hin; cbn in Hin; [destruct Hin|].
  destruct (is_start m) eqn:Es.
  - (* a note starts *)
    destruct (IH _ _ _ Hin) as [(pre & moff & post & t0 & -> & He & Hg & Hp & ->)|(pre & mon & mid & moff & post & -> & Hs & He & Hk & Hmid & ->)].
    + destruct (Z.eq_dec (h m) (h moff)) as [Heq|Hne].
      * right. exists [], m, pre, moff, post. cbn [app time_after].
        rewrite Heq, sn_get_set_same in Hg. injection Hg as <-.
        repeat split; try assumption; [congruence| |].
        -- intros m0 H0 H1. rewrite Heq. apply Hp; assumption.
        -- rewrite !time_after_app. cbn [time_after].
           rewrite (time_after_shift pre (t + m_time m)), (time_after_shift pre 0).
           apply f_equal2; [reflexivity|]. apply f_equal2; [apply f_equal2; [lia|reflexivity]|lia].
      * left. exists (m :: pre), moff, post, t0. rewrite sn_get_set_other in Hg by assumption.
        repeat split; try assumption.
        intros m0 [<-|H0] H1; [assumption|apply Hp; assumption].
    + right. exists (m :: pre), mon, mid, moff, post. repeat split; assumption.
  - destruct (is_end m) eqn:Ee.
    + destruct (sn_get (h m) d) as [t0|] eqn:Eg.
      * destruct Hin as [<-|Hin].
        -- left. exists [], m, r, t0. cbn [app time_after]. repeat split; try assumption. intros m0 [].
        -- destruct (IH _ _ _ Hin) as [(pre & moff & post & t1 & -> & He & Hg & Hp & ->)|(pre & mon & mid & moff & post & -> & Hs & He & Hk & Hmid & ->)].
           ++ left. exists (m :: pre), moff, post, t1.
              assert (Hne : h m <> h moff) by (intros Heq; rewrite Heq, sn_get_del_same in Hg; discriminate).
              rewrite sn_get_del_other in Hg by assumption.
              repeat split; try assumption.
              intros m0 [<-|H0] H1; [assumption|apply Hp; assumption].
           ++ right. exists (m :: pre), mon, mid, moff, post. repeat split; assumption.
      * destruct (IH _ _ _ Hin) as [(pre & moff & post & t1 & -> & He & Hg & Hp & ->)|(pre & mon & mid & moff & post & -> & Hs & He & Hk & Hmid & ->)].
        -- left. exists (m :: pre), moff, post, t1.
           assert (Hne : h m <> h moff) by (intros Heq; rewrite Heq in Eg; congruence).
           repeat split; try assumption.
           intros m0 [<-|H0] H1; [assumption|apply Hp; assumption].
        -- right. exists (m :: pre), mon, mid, moff, post. repeat split; assumption.
    + destruct (IH _ _ _ Hin) as [(pre & moff & post & t1 & -> & He & Hg & Hp & ->)|(pre & mon & mid & moff & post & -> & Hs & He & Hk & Hmid & ->)].
      * left. exists (m :: pre), moff, post, t1. repeat split; try assumption.
        intros m0 [<-|H0] H1; [destruct H1; congruence|apply Hp; assumption].
      * right. exists (m :: pre), mon, mid, moff, post. repeat split; assumption.
Qed.

Lemma read_note_was_written : forall ms x, In x (parse_track ms) ->
  exists pre mon mid moff post, ms = pre ++ mon :: mid ++ moff :: post /\
     is_start mon = true /\ is_end moff = true /\ m_hash moff = m_hash mon /\
     (forall m, In m mid -> is_start m = true \/ is_end m = true -> m_hash m <> m_hash mon) /\
     x = (m_chan moff, (time_after 0 (pre ++ [mon]), m_note moff, time_after 0 (mid ++ [moff]))).
Proof.
  intros ms x Hin. destruct (read_note_was_written_h m_hash ms 0 [] x Hin) as [(pre & moff & post & t0 & _ & _ & Hg & _)|H].
  - discriminate.
  - exact H.
Qed.

(* ---- non-vacuity and discrimination.  One track: a tempo-like message (delta 3), C4 on channel 0 starts at 3, C4 on
   channel 1 starts at 5, a control message (delta 2), an end for a key that never started (ignored), channel 0's C4
   ends at 9 (note_off), channel 1's at 12 (note_on velocity 0), a zero-length E4 at 12, a D4 that never ends (dropped) *)
Definition mp_track : list msg :=
  [(3, 2, 0, 0, 0); (0, 1, 0, 60, 64); (2, 1, 1, 60, 50); (2, 2, 0, 7, 100); (0, 0, 0, 61, 0);
   (2, 0, 0, 60, 0); (3, 1, 1, 60, 0); (0, 1, 0, 64, 1); (0, 0, 0, 64, 0); (1, 1, 0, 62, 64)].

Lemma mp_example :
  parse_track mp_track = [(0, (3, 60, 6)); (1, (5, 60, 7)); (0, (12, 64, 0))] /\
  (* the hypotheses of written_note_is_read hold for channel 0's C4 in this track *)
  (exists pre mon mid moff post, mp_track = pre ++ mon :: mid ++ moff :: post /\
     is_start mon = true /\ is_end moff = true /\ m_chan moff = m_chan mon /\ m_note moff = m_note mon /\
     mon = (0, 1, 0, 60, 64) /\ List.length mid = 3%nat /\
     forallb (fun m => negb (is_start m || is_end m) || negb ((m_chan m =? m_chan mon) && (m_note m =? m_note mon))) mid = true) /\
  parse_file [mp_track; [(0, 1, 0, 48, 9); (4, 0, 0, 48, 0)]]
    = [((0, 0), [(3, 60, 6); (12, 64, 0)]); ((0, 1), [(5, 60, 7)]); ((1, 0), [(0, 48, 4)])].
Proof.
  split; [vm_compute; reflexivity|]. split; [|vm_compute; reflexivity].
  exists [(3, 2, 0, 0, 0)], (0, 1, 0, 60, 64), [(2, 1, 1, 60, 50); (2, 2, 0, 7, 100); (0, 0, 0, 61, 0)], (2, 0, 0, 60, 0),
         [(3, 1, 1, 60, 0); (0, 1, 0, 64, 1); (0, 0, 0, 64, 0); (1, 1, 0, 62, 64)].
  vm_compute. repeat split; reflexivity.
Qed.

(* pairing by the pitch alone (the channel left out of the key) does NOT satisfy written_note_is_read's statement: in
   mp_track -- whose two C4 are on different channels, nothing in between on channel 0's key -- channel 0's C4
   (onset 3, duration 6) is not read; one note with a wrong onset comes out instead and channel 1's C4 is lost *)
Lemma pitch_only_pairing_refuted :
  ~ In (0, (3, 60, 6)) (parse_with hash_pitch_only 0 [] mp_track) /\
  parse_with hash_pitch_only 0 [] mp_track = [(0, (5, 60, 4)); (0, (12, 64, 0))] /\
  In (0, (3, 60, 6)) (parse_track mp_track) /\ In (1, (5, 60, 7)) (parse_track mp_track).
Proof.
  assert (E : parse_with hash_pitch_only 0 [] mp_track = [(0, (5, 60, 4)); (0, (12, 64, 0))]) by (vm_compute; reflexivity).
  split; [rewrite E; intros [H|[H|[]]]; discriminate|]. split; [exact E|].
  split; vm_compute; auto.
Qed.
