(* C05 -- proofs about the dispatch on the input type (Model/C05_Disp.v). *)
From PV Require Import Lib.Base Model.C05 Model.C05_Ext Model.C05_Disp.
From Coq Require Import Lia.
#[local] Open Scope Z_scope.

(* ---------- dispatch on the container ---------- *)

Fixpoint itree_induction (P : itree -> Prop) (HL : forall ns mp d, P (ILeaf ns mp d))
         (HG : forall cs, Forall P cs -> P (IGroup cs)) (t : itree) : P t :=
  match t with
  | ILeaf ns mp d => HL ns mp d
  | IGroup cs => HG cs ((fix go (l : list itree) : Forall P l :=
                           match l with
                           | [] => Forall_nil P
                           | x :: r => Forall_cons x (itree_induction P HL HG x) (go r)
                           end) cs)
  end.

Lemma opt_all_app {A} (l1 l2 : list (option A)) :
  opt_all (l1 ++ l2) = match opt_all l1, opt_all l2 with Some a, Some b => Some (a ++ b) | _, _ => None end.
Proof.
  induction l1 as [|[x|] r IH]; simpl.
  - destruct (opt_all l2); reflexivity.
  - rewrite IH. destruct (opt_all r), (opt_all l2); reflexivity.
  - reflexivity.
Qed.

Lemma flat_leaves_build t :
  opt_all (map build_tree (flat_leaves t)) = option_map (fun p => map PLeaf (leaves p)) (build_tree t).
Proof.
  induction t as [ns mp d | cs IH] using itree_induction.
  - simpl. destruct (note_array_n ns mp d); reflexivity.
  - simpl. induction IH as [|c r Hc _ IHr]; simpl; [reflexivity|].
    rewrite map_app, opt_all_app, Hc. 
    destruct (build_tree c) as [p|]; simpl; [|reflexivity].
    rewrite IHr. destruct (opt_all (map build_tree r)) as [ps|]; simpl; [|reflexivity].
    rewrite map_app. reflexivity.
Qed.

Lemma leaves_of_leaves ls : flat_map leaves (map PLeaf ls) = ls.
Proof. induction ls as [|x r IH]; simpl; [reflexivity | rewrite IH; reflexivity]. Qed.

(* a Score holds the parts of its groups as one flat list: its array is built from the same part arrays,
   in the same order, as the array of the nested list *)
Lemma dispatch_flattening_lemma ms t :
  build_tree (IGroup (dispatch_members CScore ms)) = Some t ->
  exists t', build_tree (IGroup ms) = Some t' /\ leaves t = leaves t'.
Proof.
  unfold dispatch_members. intros H. simpl in H.
  pose proof (flat_leaves_build (IGroup ms)) as F. simpl in F. rewrite F in H.
  destruct (opt_all (map build_tree ms)) as [ps|] eqn:E; simpl in *; [|discriminate].
  injection H as <-. exists (PGroup ps). split; [rewrite E; reflexivity|]. simpl. apply leaves_of_leaves.
Qed.

Lemma dispatch_spec_lemma uniq :
  (forall rows, ensure_notearray_m uniq (InArray rows) = Some rows) /\
  (forall ns mp d, ensure_notearray_m uniq (InPart ns mp d) = note_array_n ns mp d) /\
  (forall ms, ensure_notearray_m uniq (InMany CList ms) = ensure_notearray_m uniq (InMany CGroup ms) /\
              ensure_notearray_m uniq (InMany CList ms) = option_map (tree_array uniq) (build_tree (IGroup ms))) /\
  (forall ms t, build_tree (IGroup (dispatch_members CScore ms)) = Some t ->
                ensure_notearray_m uniq (InMany CScore ms) = Some (tree_array uniq t) /\
                exists t', build_tree (IGroup ms) = Some t' /\ leaves t = leaves t').
Proof.
  repeat split; try reflexivity.
  - unfold ensure_notearray_m. rewrite H. reflexivity.
  - apply dispatch_flattening_lemma. exact H.
Qed.

(* a Score of [ part ; group [ part ; part ] ] sees three parts in a row *)
Example ex_dispatch :
  List.length (dispatch_members CScore [ILeaf [] (maps_of [] [] []) 4; IGroup [ILeaf [] (maps_of [] [] []) 6; IGroup [ILeaf [] (maps_of [] [] []) 10]]]) = 3%nat /\
  List.length (dispatch_members CList [ILeaf [] (maps_of [] [] []) 4; IGroup [ILeaf [] (maps_of [] [] []) 6; IGroup [ILeaf [] (maps_of [] [] []) 10]]]) = 2%nat.
Proof. split; reflexivity. Qed.
