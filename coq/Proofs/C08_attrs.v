(* C08 -- proofs about the attribute list of a score note line (Model/C08_attrs.v) *)
From PV Require Import Lib.Base Model.C08_attrs Gen.C08_Vocab.
From Coq Require Import Ascii String DecimalString DecimalPos DecimalZ.
#[local] Open Scope string_scope.
#[local] Open Scope Z_scope.

(* ------------------------------------------------------------------ *)
(* decimal text of an integer                                           *)

Lemma dec_parse z : py_int (dec z) = Some z.
Proof.
  unfold py_int, dec.
  rewrite NilZero.isi.
  - simpl. now rewrite DecimalZ.of_to.
  - destruct z; simpl; try discriminate.
    intros [= H]. now apply (Unsigned.to_uint_nonnil p).
  - destruct z; simpl; try discriminate.
    intros [= H]. now apply (Unsigned.to_uint_nonnil p).
Qed.

Lemma uint_head_digit d : d <> Decimal.Nil -> re_num (NilEmpty.string_of_uint d) = true.
Proof. destruct d; intros H; try reflexivity. now elim H. Qed.

Lemma dec_head_digit z : 0 <= z -> re_num (dec z) = true.
Proof.
  intros Hz. unfold dec. destruct z as [|p|p]; try lia.
  - reflexivity.
  - simpl. unfold NilZero.string_of_uint.
    pose proof (Unsigned.to_uint_nonnil p) as Hn.
    destruct (Pos.to_uint p) eqn:E; try (now elim Hn); reflexivity.
Qed.

(* ------------------------------------------------------------------ *)
(* list helpers                                                         *)

Lemma has_app x a b : has x (a ++ b) = has x a || has x b.
Proof. unfold has. apply existsb_app. Qed.

Lemma find_app {A} (p : A -> bool) a b :
  find p (a ++ b) = match find p a with Some x => Some x | None => find p b end.
Proof. induction a as [|x a IH]; simpl; [reflexivity|]. destruct (p x); [reflexivity|apply IH]. Qed.

Lemma find_none_existsb {A} (p : A -> bool) l : existsb p l = false -> find p l = None.
Proof. induction l as [|x l IH]; simpl; [reflexivity|]. destruct (p x); simpl; [discriminate|apply IH]. Qed.

Lemma existsb_false_forall {A} (p : A -> bool) l :
  (forall x, In x l -> p x = false) -> existsb p l = false.
Proof.
  induction l as [|x l IH]; simpl; intros H; [reflexivity|].
  rewrite (H x (or_introl eq_refl)). simpl. apply IH. intros y Hy. apply H. now right.
Qed.

Lemma has_false x l : (forall t, In t l -> String.eqb x t = false) -> has x l = false.
Proof. apply existsb_false_forall. Qed.

(* ------------------------------------------------------------------ *)
(* tokens the voice / staff / tie tests do not see                      *)

Definition quiet (t : string) : bool :=
  negb (String.eqb "s" t) && negb (starts "staff" t) && negb (re_vnum t) && negb (re_num t) &&
  negb (String.eqb "leftOutTied" t).

Lemma neutral_quiet t : neutral t = true -> quiet t = true.
Proof.
  unfold neutral, quiet. intros H.
  repeat (apply andb_prop in H; destruct H as [H ?]).
  repeat (apply andb_true_intro; split); assumption.
Qed.

Lemma neutral_facts t : neutral t = true ->
  String.eqb "grace" t = false /\ String.eqb "stac" t = false.
Proof.
  unfold neutral. intros H.
  repeat (apply andb_prop in H; destruct H as [H ?]).
  split; apply negb_true_iff; assumption.
Qed.

Lemma inert_facts t : inert t = true ->
  neutral t = true /\ String.eqb "staccato" t = false /\ String.eqb "accent" t = false.
Proof.
  unfold inert. intros H.
  apply andb_prop in H. destruct H as [H H2].
  apply andb_prop in H. destruct H as [H H1].
  repeat split; try assumption; apply negb_true_iff; assumption.
Qed.

Lemma quiet_list R : forallb quiet R = true ->
  has "s" R = false /\ find (starts "staff") R = None /\ find re_vnum R = None /\
  find re_num R = None /\ has "leftOutTied" R = false.
Proof.
  intros H. pose proof (forallb_In _ _ H) as HR.
  assert (Q : forall t, In t R ->
     String.eqb "s" t = false /\ starts "staff" t = false /\ re_vnum t = false /\ re_num t = false /\
     String.eqb "leftOutTied" t = false).
  { intros t Ht. specialize (HR t Ht). unfold quiet in HR.
    repeat (apply andb_prop in HR; destruct HR as [HR ?]).
    repeat split; apply negb_true_iff; assumption. }
  repeat split.
  - apply has_false. intros t Ht. apply (Q t Ht).
  - apply find_none_existsb, existsb_false_forall. intros t Ht. apply (Q t Ht).
  - apply find_none_existsb, existsb_false_forall. intros t Ht. apply (Q t Ht).
  - apply find_none_existsb, existsb_false_forall. intros t Ht. apply (Q t Ht).
  - apply has_false. intros t Ht. apply (Q t Ht).
Qed.

Lemma forallb_app {A} (p : A -> bool) a b : forallb p (a ++ b) = forallb p a && forallb p b.
Proof. induction a as [|x a IH]; simpl; [reflexivity|]. rewrite IH. now rewrite andb_assoc. Qed.

Lemma forallb_impl {A} (p q : A -> bool) l :
  (forall x, p x = true -> q x = true) -> forallb p l = true -> forallb q l = true.
Proof.
  intros H. induction l as [|x l IH]; simpl; [reflexivity|].
  intros E. apply andb_prop in E. destruct E as [E1 E2]. now rewrite (H x E1), (IH E2).
Qed.

(* the marks the exporter adds after the articulations and ornaments *)
Definition marks (a : sattr) : list string :=
  flag (a_ferm a) "fermata" ++ map ftok (a_fing a) ++
  flag (a_grace a) "grace" ++ flag (a_diff a) "diff_score_version" ++ flag (a_overlap a) "voice_overlap".

Lemma fing_quiet l : forallb quiet (map ftok l) = true.
Proof. induction l as [|k l IH]; [reflexivity|]. cbn [map forallb]. rewrite IH. reflexivity. Qed.

Lemma fing_has x l :
  (forall r, String.eqb x ("fingering" ++ r)%string = false) ->
  has x (map ftok l) = false.
Proof.
  intros H. apply has_false. intros t Ht. apply in_map_iff in Ht. destruct Ht as [k [<- _]]. apply H.
Qed.

Lemma marks_quiet a : forallb quiet (marks a) = true.
Proof.
  unfold marks. rewrite !forallb_app, fing_quiet.
  destruct (a_ferm a), (a_grace a), (a_diff a), (a_overlap a); reflexivity.
Qed.

Lemma marks_has a :
  has "staccato" (marks a) = false /\ has "stac" (marks a) = false /\ has "accent" (marks a) = false /\
  has "grace" (marks a) = a_grace a.
Proof.
  unfold marks. rewrite !has_app.
  rewrite !fing_has by (intros r; reflexivity).
  destruct (a_ferm a), (a_grace a), (a_diff a), (a_overlap a); repeat split; reflexivity.
Qed.

Lemma exp_attrs_split a :
  exp_attrs a = (optl vtok (a_voice a) ++ optl stok (a_staff a) ++
                 (a_arts a ++ a_orns a ++ marks a))%list.
Proof. unfold exp_attrs, marks. reflexivity. Qed.


Lemma attrs_roundtrip_lemma a dn :
  (forall v, a_voice a = Some v -> 0 <= v) ->
  forallb neutral (a_arts a) = true -> forallb inert (a_orns a) = true ->
  imp_attrs (exp_attrs a) dn =
    mkLA (Some (a_voice a)) (a_staff a) (has "staccato" (a_arts a)) (has "accent" (a_arts a))
         (a_grace a || (dn =? 0)) false.
Proof.
  intros Hv HA HO.
  rewrite exp_attrs_split.
  set (R := (a_arts a ++ a_orns a ++ marks a)%list).
  assert (HOn : forallb neutral (a_orns a) = true).
  { revert HO. apply forallb_impl. intros t Ht. apply (inert_facts t Ht). }
  assert (QR : forallb quiet R = true).
  { unfold R. rewrite !forallb_app, marks_quiet.
    rewrite (forallb_impl _ _ _ neutral_quiet HA), (forallb_impl _ _ _ neutral_quiet HOn). reflexivity. }
  destruct (quiet_list R QR) as (Rs & Rstaff & Rvn & Rn & Rtied).
  destruct (marks_has a) as (M1 & M2 & M3 & M4).
  pose proof (forallb_In _ _ HA) as HAi. pose proof (forallb_In _ _ HO) as HOi.
  assert (Rstacc : has "staccato" R = has "staccato" (a_arts a)).
  { unfold R. rewrite !has_app, M1.
    rewrite (has_false "staccato" (a_orns a)) by (intros t Ht; apply (inert_facts t (HOi t Ht))).
    now rewrite !orb_false_r. }
  assert (Rstac : has "stac" R = false).
  { unfold R. rewrite !has_app, M2.
    rewrite (has_false "stac" (a_arts a)) by (intros t Ht; apply (neutral_facts t (HAi t Ht))).
    rewrite (has_false "stac" (a_orns a)); [reflexivity|].
    intros t Ht. destruct (inert_facts t (HOi t Ht)) as [Hn _]. apply (neutral_facts t Hn). }
  assert (Racc : has "accent" R = has "accent" (a_arts a)).
  { unfold R. rewrite !has_app, M3.
    rewrite (has_false "accent" (a_orns a)) by (intros t Ht; apply (inert_facts t (HOi t Ht))).
    now rewrite !orb_false_r. }
  assert (Rgrace : has "grace" R = a_grace a).
  { unfold R. rewrite !has_app, M4.
    rewrite (has_false "grace" (a_arts a)) by (intros t Ht; apply (neutral_facts t (HAi t Ht))).
    rewrite (has_false "grace" (a_orns a)); [reflexivity|].
    intros t Ht. destruct (inert_facts t (HOi t Ht)) as [Hn _]. apply (neutral_facts t Hn). }
  clearbody R.
  unfold imp_attrs, imp_voice, imp_staff, imp_stac, imp_acc, imp_grace, imp_tied.
  assert (Tv : forall v, String.eqb "s" (vtok v) = false /\ starts "staff" (vtok v) = false /\
                        starts "v" (vtok v) = true /\ drop 1 (vtok v) = dec v /\
                        String.eqb "staccato" (vtok v) = false /\ String.eqb "stac" (vtok v) = false /\
                        String.eqb "accent" (vtok v) = false /\ String.eqb "grace" (vtok v) = false /\
                        String.eqb "leftOutTied" (vtok v) = false /\ re_vnum (vtok v) = re_num (dec v))
    by (intros; repeat split; reflexivity).
  assert (Ts : forall s, String.eqb "s" (stok s) = false /\ starts "staff" (stok s) = true /\
                        starts "v" (stok s) = false /\ drop 5 (stok s) = dec s /\
                        String.eqb "staccato" (stok s) = false /\ String.eqb "stac" (stok s) = false /\
                        String.eqb "accent" (stok s) = false /\ String.eqb "grace" (stok s) = false /\
                        String.eqb "leftOutTied" (stok s) = false /\ re_vnum (stok s) = false /\
                        re_num (stok s) = false)
    by (intros; repeat split; reflexivity).
  destruct (a_voice a) as [v|] eqn:Ev, (a_staff a) as [s|] eqn:Es; cbn [optl app].
  - destruct (Tv v) as (V1 & V2 & V3 & V4 & V5 & V6 & V7 & V8 & V9 & V10).
    destruct (Ts s) as (S1 & S2 & S3 & S4 & S5 & S6 & S7 & S8 & S9 & S10 & S11).
    pose proof (dec_head_digit v (Hv v eq_refl)) as Hd.
    cbn [has existsb find].
    rewrite V1, V2, V3, V5, V6, V7, V8, V9, V10, Hd, V4, S1, S2, S4, S5, S6, S7, S8, S9.
    cbn [orb]. rewrite !dec_parse.
    fold (has "s" R) (has "staccato" R) (has "stac" R) (has "accent" R) (has "grace" R) (has "leftOutTied" R).
    rewrite Rs, Rtied, Rstacc, Rstac, Racc, Rgrace. now rewrite orb_false_r.
  - destruct (Tv v) as (V1 & V2 & V3 & V4 & V5 & V6 & V7 & V8 & V9 & V10).
    pose proof (dec_head_digit v (Hv v eq_refl)) as Hd.
    cbn [has existsb find].
    rewrite V1, V2, V3, V5, V6, V7, V8, V9, V10, Hd, V4.
    cbn [orb]. rewrite !dec_parse.
    fold (has "s" R) (has "staccato" R) (has "stac" R) (has "accent" R) (has "grace" R) (has "leftOutTied" R).
    rewrite Rs, Rtied, Rstacc, Rstac, Racc, Rgrace, Rstaff. now rewrite orb_false_r.
  - destruct (Ts s) as (S1 & S2 & S3 & S4 & S5 & S6 & S7 & S8 & S9 & S10 & S11).
    cbn [has existsb find].
    rewrite S1, S2, S3, S4, S5, S6, S7, S8, S9, S10, S11.
    cbn [orb]. rewrite !dec_parse.
    fold (has "s" R) (has "staccato" R) (has "stac" R) (has "accent" R) (has "grace" R) (has "leftOutTied" R).
    rewrite Rs, Rtied, Rstacc, Rstac, Racc, Rgrace, Rvn, Rn.
    rewrite orb_false_r. now destruct (existsb (starts "v") R).
  - fold (has "s" R) (has "staccato" R) (has "stac" R) (has "accent" R) (has "grace" R) (has "leftOutTied" R).
    rewrite Rs, Rtied, Rstacc, Rstac, Racc, Rgrace, Rvn, Rn, Rstaff.
    rewrite orb_false_r. now destruct (existsb (starts "v") R).
Qed.

(* ------------------------------------------------------------------ *)
(* the vocabulary of the tree under test (Gen/C08_Vocab.v), complete finite domain *)

Lemma vocab_neutral : forallb neutral art_vocab = true /\ forallb inert orn_vocab = true.
Proof. split; vm_compute; reflexivity. Qed.

(* of all names of the vocabulary, exactly "staccato" reads back as staccato and exactly "accent" as accent *)
Lemma vocab_supported_lemma :
  forallb (fun t => Bool.eqb (imp_stac [t]) (String.eqb t "staccato") &&
                    Bool.eqb (imp_acc [t]) (String.eqb t "accent")) (art_vocab ++ orn_vocab)%list = true.
Proof. vm_compute. reflexivity. Qed.

Lemma forallb_incl {A} (p : A -> bool) l v : incl l v -> forallb p v = true -> forallb p l = true.
Proof.
  intros Hi Hv. apply forallb_forall. intros x Hx. apply (forallb_In _ _ Hv). now apply Hi.
Qed.

Lemma attrs_roundtrip_vocab_lemma a dn :
  (forall v, a_voice a = Some v -> 0 <= v) ->
  incl (a_arts a) art_vocab -> incl (a_orns a) orn_vocab ->
  imp_attrs (exp_attrs a) dn =
    mkLA (Some (a_voice a)) (a_staff a) (has "staccato" (a_arts a)) (has "accent" (a_arts a))
         (a_grace a || (dn =? 0)) false.
Proof.
  intros Hv Ha Ho. destruct vocab_neutral as [V1 V2].
  apply attrs_roundtrip_lemma; [assumption| |].
  - exact (forallb_incl _ _ _ Ha V1).
  - exact (forallb_incl _ _ _ Ho V2).
Qed.

(* ------------------------------------------------------------------ *)
(* notes written without a staff / voice                                *)

Lemma fill_staff_given_lemma p s : s <> 0 -> fill_staff p (Some s) = s.
Proof. intros H. unfold fill_staff. destruct (s =? 0) eqn:E; [lia|reflexivity]. Qed.

Lemma fill_voice_given_lemma all v : fill_voice all (Some v) = v.
Proof. reflexivity. Qed.

Lemma zmax_list_ge l : forall acc, acc <= zmax_list l acc /\ (forall x, In x l -> x <= zmax_list l acc).
Proof.
  induction l as [|y l IH]; intros acc; simpl.
  - split; [lia|intros x []].
  - destruct (IH (Z.max y acc)) as [H1 H2]. split; [lia|].
    intros x [->|Hx]; [lia|now apply H2].
Qed.

Lemma in_somes all x : In (Some x) all -> In x (somes all).
Proof.
  unfold somes. intros H. apply in_flat_map. exists (Some x). split; [assumption|now left].
Qed.

(* the voice given to the notes without one is larger than every voice that was read *)
Lemma fill_voice_fresh_lemma all x : In (Some x) all -> x < fill_voice all None.
Proof.
  intros H. apply in_somes in H. unfold fill_voice.
  destruct (somes all) as [|y r]; [destruct H|].
  destruct (zmax_list_ge r y) as [H1 H2].
  destruct H as [->|H]; [lia|]. specialize (H2 x H). lia.
Qed.

Lemma fill_voice_none_lemma all : (forall o, In o all -> o = None) -> fill_voice all None = 1.
Proof.
  intros H. unfold fill_voice. destruct (somes all) as [|y r] eqn:E; [reflexivity|].
  assert (Hy : In y (somes all)) by (rewrite E; now left).
  unfold somes in Hy. apply in_flat_map in Hy. destruct Hy as [o [Ho Hy]].
  rewrite (H o Ho) in Hy. destruct Hy.
Qed.
