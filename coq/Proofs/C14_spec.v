(* C14 -- the model's sound_off is the specified sounding end *)
From PV Require Import Lib.Base Model.C14 Model.C14_Spec Proofs.C14_lib Proofs.C14_pedal Proofs.C14_so.
From Coq Require Import QArith Qminmax Lqa Sorted Permutation.
#[local] Open Scope Q_scope.

(* ---- pedal state before a moment *)
Lemma state_before_char thr sp off : forall st,
  sorted_by_key c_time sp ->
  let b := state_before st (map (pedal_row thr) sp) off in
  (b = st /\ forall c, In c sp -> off <= c_time c) \/
  (exists c, In c sp /\ c_time c < off /\ (c_val c >? thr)%Z = b /\
             forall c', In c' sp -> c_time c' < off -> c_time c' <= c_time c).
Proof.
  intros st S. revert st. induction S as [|c0 r S IH HF]; intros st; simpl.
  - left. split; auto. intros c [].
  - destruct (Qltb (c_time c0) off) eqn:E.
    + apply Qltb_true in E.
      destruct (IH (c_val c0 >? thr)%Z) as [[Hb Hall]|(c & Hc & Hlt & Hv & Hmax)].
      * right. exists c0. split; [left; auto|]. split; auto. split; [symmetry; exact Hb|].
        intros c' [<-|Hc'] Hlt; [lra|]. specialize (Hall c' Hc'). lra.
      * right. exists c. split; [right; auto|]. split; auto. split; auto.
        intros c' [<-|Hc'] Hlt'; [|auto].
        rewrite Forall_forall in HF. apply (HF c Hc).
    + apply Qltb_false in E. left. split; auto.
      intros c [<-|Hc]; auto. rewrite Forall_forall in HF. specialize (HF c Hc). unfold le_key in HF. lra.
Qed.

Lemma state_before_down thr cs off :
  state_before false (map (pedal_row thr) (sorted_pedal cs)) off = true -> pedal_down_before thr cs off.
Proof.
  intros H.
  destruct (state_before_char thr (sorted_pedal cs) off false (sort_by_sorted _ _)) as [[Hb _]|(c & Hc & Hlt & Hv & Hmax)].
  - simpl in Hb. congruence.
  - simpl in Hv. rewrite H in Hv. exists c. unfold sorted_pedal in *.
    split; [apply sort_by_In in Hc; exact Hc|]. split; auto. split; [lia|].
    intros c' Hc' Hlt'. apply Hmax; auto. apply sort_by_In. exact Hc'.
Qed.

Lemma state_before_up thr cs off :
  distinct_pedal_times cs ->
  state_before false (map (pedal_row thr) (sorted_pedal cs)) off = false -> ~ pedal_down_before thr cs off.
Proof.
  intros D H (c & Hc & Hlt & Hv & Hmax).
  destruct (state_before_char thr (sorted_pedal cs) off false (sort_by_sorted _ _)) as [[_ Hall]|(c1 & Hc1 & Hlt1 & Hv1 & Hmax1)].
  - assert (Hc' : In c (sorted_pedal cs)) by (apply sort_by_In; exact Hc).
    specialize (Hall c Hc'). lra.
  - simpl in Hv1. rewrite H in Hv1.
    assert (Hc1' : In c1 (pedal_events cs)) by (apply sort_by_In in Hc1; exact Hc1).
    assert (Hc' : In c (sorted_pedal cs)) by (apply sort_by_In; exact Hc).
    pose proof (Hmax c1 Hc1' Hlt1). pose proof (Hmax1 c Hc' Hlt).
    assert (E : c_time c == c_time c1) by lra.
    destruct (ForallOrdPairs_In D c c1 Hc Hc1') as [->|[N|N]].
    + lia.
    + apply N. exact E.
    + apply N. symmetry. exact E.
Qed.

(* ---- first release from a moment on *)
Lemma first_up_char thr sp off T :
  let r := first_up (map (pedal_row thr) sp) off T in
  r = T \/ exists c, In c sp /\ r = c_time c /\ off <= c_time c /\ (c_val c <= thr)%Z.
Proof.
  induction sp as [|c0 r0 IH]; simpl; auto.
  destruct (Qle_bool off (c_time c0)) eqn:E; simpl.
  - destruct (c_val c0 >? thr)%Z eqn:Ev; simpl.
    + destruct IH as [IH|(c & Hc & Hr & H1 & H2)]; auto. right. exists c. auto.
    + right. exists c0. split; auto. split; auto. split; [apply Qle_bool_iff; exact E|lia].
  - destruct IH as [IH|(c & Hc & Hr & H1 & H2)]; auto. right. exists c. auto.
Qed.

Lemma first_up_least thr sp off T c :
  sorted_by_key c_time sp -> In c sp -> off <= c_time c -> (c_val c <= thr)%Z ->
  first_up (map (pedal_row thr) sp) off T <= c_time c.
Proof.
  intros S. induction S as [|c0 r S IH HF]; intros Hin Hoff Hv; [destruct Hin|]. simpl.
  destruct (Qle_bool off (c_time c0) && negb (c_val c0 >? thr)%Z) eqn:E.
  - destruct Hin as [<-|Hin]; [lra|]. rewrite Forall_forall in HF. apply (HF c Hin).
  - destruct Hin as [<-|Hin]; [|apply IH; auto].
    apply andb_false_iff in E as [E|E].
    + apply Qleb_false in E. lra.
    + apply negb_false_iff in E. lia.
Qed.

Lemma first_up_le_T thr sp off T :
  (forall c, In c sp -> c_time c <= T) -> first_up (map (pedal_row thr) sp) off T <= T.
Proof.
  intros H. destruct (first_up_char thr sp off T) as [E|(c & Hc & E & _)]; simpl in E; rewrite E; [lra|auto].
Qed.

(* ---- the closing moment *)
Lemma qmax_list_in d l : qmax_list d l == d \/ exists x, In x l /\ qmax_list d l == x.
Proof.
  induction l as [|y r IH]; simpl; [left; reflexivity|].
  destruct (Q.max_dec y (qmax_list d r)) as [E|E].
  - right. exists y. auto.
  - destruct IH as [IH|(x & Hx & IH)].
    + left. rewrite E. exact IH.
    + right. exists x. split; auto. rewrite E. exact IH.
Qed.

Lemma last_In {A} (l : list A) d : l <> [] -> In (last l d) l.
Proof.
  induction l as [|x r IH]; [congruence|]. intros _. destruct r as [|y r'].
  - left; reflexivity.
  - right. apply IH. congruence.
Qed.

Lemma closing_is_closing_moment ns cs n0 :
  In n0 ns -> pedal_events cs <> [] -> closing_moment ns cs (closing ns cs).
Proof.
  intros Hn Hp. unfold closing_moment, closing.
  set (cl := last (sorted_pedal cs) (mkCtrl 0 0 0)).
  assert (Hne : sorted_pedal cs <> []) by (intros C; apply sorted_pedal_nil in C; congruence).
  assert (Hcl : In cl (pedal_events cs)).
  { apply (sort_by_In c_time). apply last_In. exact Hne. }
  split; [|split].
  - intros c Hc.
    assert (Hc' : In c (sorted_pedal cs)) by (apply sort_by_In; exact Hc).
    pose proof (sorted_last_max c_time (sorted_pedal cs) (mkCtrl 0 0 0) c (sort_by_sorted _ _) Hc').
    fold cl in H. pose proof (Q.le_max_l (c_time cl + 1) (last_off ns + 1)). lra.
  - intros n Hin.
    assert (n_off n <= last_off ns) by (apply qmax_list_ge; apply in_map; exact Hin).
    pose proof (Q.le_max_r (c_time cl + 1) (last_off ns + 1)). lra.
  - destruct (Q.max_dec (c_time cl + 1) (last_off ns + 1)) as [E|E].
    + left. exists cl. split; auto.
    + right. unfold last_off in *.
      destruct (qmax_list_in (hd 0 (map n_off ns)) (map n_off ns)) as [H|(x & Hx & H)].
      * destruct ns as [|n1 r]; [destruct Hn|]. exists n1. split; [left; auto|].
        rewrite E. simpl in *. rewrite H. reflexivity.
      * apply in_map_iff in Hx as (n & <- & Hin). exists n. split; auto. rewrite E, H. reflexivity.
Qed.

Lemma closing_moment_ge ns cs t : pedal_events cs <> [] -> ns <> [] ->
  closing_moment ns cs t -> closing ns cs <= t.
Proof.
  intros Hp Hns (H1 & H2 & _). unfold closing.
  assert (Hne : sorted_pedal cs <> []) by (intros C; apply sorted_pedal_nil in C; congruence).
  apply Q.max_lub.
  - apply H1. apply (sort_by_In c_time). apply last_In. exact Hne.
  - unfold last_off. destruct (qmax_list_in (hd 0 (map n_off ns)) (map n_off ns)) as [H|(x & Hx & H)].
    + destruct ns as [|n1 r]; [congruence|]. simpl in *. rewrite H. apply H2. left; auto.
    + apply in_map_iff in Hx as (n & <- & Hin). rewrite H. apply H2. exact Hin.
Qed.

(* ---- re-strikes *)
Lemma after_incl i g e : In e (after i g) -> In e g.
Proof.
  induction g as [|[j n] r IH]; simpl; auto. destruct (Nat.eqb i j); auto.
Qed.

Lemma after_notin i g : NoDup (map fst g) -> ~ In i (map fst (after i g)).
Proof.
  induction g as [|[j n] r IH]; simpl; auto. intros ND. inversion ND; subst.
  destruct (Nat.eqb i j) eqn:E; auto. apply Nat.eqb_eq in E. subst. assumption.
Qed.

Lemma after_split i n g : In (i, n) g -> NoDup (map fst g) ->
  exists g1, g = g1 ++ (i, n) :: after i g.
Proof.
  induction g as [|[j m] r IH]; intros Hin ND; [destruct Hin|]. simpl in *. inversion ND; subst.
  destruct (Nat.eqb i j) eqn:E.
  - apply Nat.eqb_eq in E. subst j. destruct Hin as [Hin|Hin].
    + inversion Hin; subst. exists []. reflexivity.
    + exfalso. apply H1. apply (in_map fst) in Hin. exact Hin.
  - apply Nat.eqb_neq in E. destruct Hin as [Hin|Hin]; [inversion Hin; congruence|].
    destruct (IH Hin H2) as [g1 Hg]. exists ((j, m) :: g1). simpl. rewrite <- Hg. reflexivity.
Qed.

Lemma map_fst_combine {A B} (l1 : list A) : forall (l2 : list B),
  List.length l1 = List.length l2 -> map fst (combine l1 l2) = l1.
Proof.
  induction l1 as [|x r IH]; intros [|y s] H; simpl in *; try discriminate; auto.
  f_equal. apply IH. lia.
Qed.

Lemma indexed_NoDup ns : NoDup (map fst (indexed ns)).
Proof.
  unfold indexed. rewrite map_fst_combine by (rewrite seq_length; reflexivity). apply seq_NoDup.
Qed.

Lemma NoDup_map_fst_filter {A B} (p : A * B -> bool) l : NoDup (map fst l) -> NoDup (map fst (filter p l)).
Proof.
  induction l as [|x r IH]; simpl; auto. intros ND. inversion ND; subst.
  destruct (p x); simpl; auto. constructor; auto.
  intros C. apply H1. apply in_map_iff in C as (y & Hy & Hin). apply filter_In in Hin as [Hin _].
  rewrite <- Hy. apply in_map. exact Hin.
Qed.

Definition on_key (e : nat * note) : Q := n_on (snd e).

Lemma pitch_group_NoDup ns p : NoDup (map fst (pitch_group ns p)).
Proof.
  unfold pitch_group.
  eapply Permutation_NoDup.
  - apply Permutation_map. symmetry. apply sort_by_perm.
  - apply NoDup_map_fst_filter. apply indexed_NoDup.
Qed.

Lemma pitch_group_In ns p j m :
  In (j, m) (pitch_group ns p) <-> nth_error ns j = Some m /\ n_pitch m = p.
Proof.
  unfold pitch_group. rewrite sort_by_In, filter_In, In_indexed. simpl. rewrite Z.eqb_eq. reflexivity.
Qed.

Lemma pitch_group_sorted ns p : sorted_by_key on_key (pitch_group ns p).
Proof. unfold pitch_group. apply (sort_by_sorted on_key). Qed.

(* a strike found by the model is a strike of another note of the pitch at or after the release *)
Lemma next_strike_sound ns i n t :
  next_strike ns i n = Some t ->
  exists j m, j <> i /\ nth_error ns j = Some m /\ n_pitch m = n_pitch n /\ n_on m = t /\ n_off n <= t.
Proof.
  unfold next_strike. destruct (find _ _) as [[j m]|] eqn:E; intros H; inversion H; subst. clear H.
  apply find_some in E as [Hin Hle]. simpl in *.
  exists j, m. split.
  - intros ->. apply (after_notin i (pitch_group ns (n_pitch n)) (pitch_group_NoDup _ _)).
    apply (in_map fst) in Hin. exact Hin.
  - apply after_incl in Hin. apply pitch_group_In in Hin as [H1 H2].
    repeat split; auto. apply Qle_bool_iff. exact Hle.
Qed.

Lemma sorted_app_le {A} (key : A -> Q) g1 x g2 y :
  sorted_by_key key (g1 ++ x :: g2) -> In y g1 -> key y <= key x.
Proof.
  induction g1 as [|z r IH]; intros S Hin; [destruct Hin|].
  simpl in S. inversion S; subst. destruct Hin as [->|Hin].
  - rewrite Forall_forall in H2. apply H2. apply in_or_app. right. left. reflexivity.
  - apply IH; auto.
Qed.

Lemma sorted_app_r {A} (key : A -> Q) g1 g2 : sorted_by_key key (g1 ++ g2) -> sorted_by_key key g2.
Proof.
  induction g1 as [|z r IH]; simpl; auto. intros S. inversion S; subst. auto.
Qed.

(* every later strike at or after the release is at or after the one the model finds *)
Lemma next_strike_complete ns i n j m :
  nth_error ns i = Some n -> n_on n <= n_off n ->
  (n_on n == n_off n -> ~ n_on m == n_on n) ->
  j <> i -> nth_error ns j = Some m -> n_pitch m = n_pitch n -> n_off n <= n_on m ->
  exists t, next_strike ns i n = Some t /\ t <= n_on m.
Proof.
  intros Hi Hv Htie Hji Hj Hp Hle.
  set (g := pitch_group ns (n_pitch n)).
  assert (Gi : In (i, n) g) by (apply pitch_group_In; auto).
  assert (Gj : In (j, m) g) by (apply pitch_group_In; auto).
  destruct (after_split i n g Gi (pitch_group_NoDup _ _)) as [g1 Hg].
  pose proof (pitch_group_sorted ns (n_pitch n)) as S. fold g in S.
  assert (Gj' : In (j, m) (after i g)).
  { rewrite Hg in Gj. apply in_app_or in Gj as [Gj|[Gj|Gj]]; auto.
    - exfalso. rewrite Hg in S.
      pose proof (sorted_app_le on_key g1 (i, n) (after i g) (j, m) S Gj) as L. unfold on_key in L. simpl in L.
      apply Htie; lra.
    - inversion Gj; congruence. }
  assert (S2 : sorted_by_key on_key (after i g)).
  { rewrite Hg in S. apply sorted_app_r in S. inversion S; auto. }
  destruct (find_sorted_least on_key (fun e => Qle_bool (n_off n) (n_on (snd e))) (after i g) (j, m) S2 Gj')
    as (e' & Hf & Hk).
  { simpl. apply Qle_bool_iff. exact Hle. }
  unfold next_strike. fold g. rewrite Hf. exists (n_on (snd e')). split; auto.
Qed.

(* ---- the theorem *)
Lemma clip_cases so st : (clip so st == so) \/ (exists t, st = Some t /\ clip so st == t).
Proof.
  destruct st as [t|]; simpl; [|left; reflexivity].
  destruct (Q.min_dec so t); [left|right; exists t]; auto.
Qed.

Lemma clip_le_l so st : clip so st <= so.
Proof. destruct st; simpl; [apply Q.le_min_l|lra]. Qed.

Lemma clip_le_r so t : clip so (Some t) <= t.
Proof. simpl. apply Q.le_min_r. Qed.

Lemma sound_off_is_spec_lemma thr ns cs :
  distinct_pedal_times cs -> no_zero_length_tie ns -> released_after_onset ns ->
  forall i n, nth_error ns i = Some n ->
  exists s, nth_error (sound_offs thr ns cs) i = Some s /\ sounding_end thr ns cs i n s.
Proof.
  intros D Z V i n Hi.
  exists (sound_off1 thr ns cs i n). split; [apply sound_offs_nth; exact Hi|].
  assert (Hin : In n ns) by (eapply nth_error_In; eauto).
  unfold sound_off1.
  destruct (pedal_events cs) as [|c0 r0] eqn:Ep.
  { split; [reflexivity|]. intros (c & Hc & _). rewrite Ep in Hc. destruct Hc. }
  assert (Hp : pedal_events cs <> []) by congruence.
  unfold ped_end.
  destruct (state_before false (map (pedal_row thr) (sorted_pedal cs)) (n_off n)) eqn:Es.
  - (* pedal down at the release *)
    split; [intros N; exfalso; apply N; apply state_before_down; exact Es|]. intros _.
    set (T := closing ns cs).
    set (fu := first_up (map (pedal_row thr) (sorted_pedal cs)) (n_off n) T).
    assert (HT : forall c, In c (sorted_pedal cs) -> c_time c <= T) by (intros c Hc; apply closing_ge_pedal; exact Hc).
    assert (Hfu : end_candidate thr ns cs i n fu).
    { split.
      - apply first_up_ge. pose proof (closing_gt_off ns cs n Hin). fold T in H. lra.
      - destruct (first_up_char thr (sorted_pedal cs) (n_off n) T) as [E|(c & Hc & E & H1 & H2)]; fold fu in E.
        + right; left. rewrite E. eapply closing_is_closing_moment; eauto.
        + left. exists c. split; [apply sort_by_In in Hc; exact Hc|]. rewrite E. split; [reflexivity|exact H2]. }
    split.
    + destruct (clip_cases fu (next_strike ns i n)) as [E|(t & Ht & E)].
      * destruct Hfu as [H1 H2]. split; [rewrite E; exact H1|].
        destruct H2 as [(c & Hc & Hct & Hcv)|[H2|(j & m & H2)]].
        -- left. exists c. split; auto. split; auto. rewrite E. exact Hct.
        -- right; left. destruct H2 as (A & B & C). split; [|split].
           ++ intros c Hc. rewrite E. auto.
           ++ intros n' Hn'. rewrite E. auto.
           ++ destruct C as [(c & Hc & C)|(n' & Hn' & C)]; [left; exists c|right; exists n']; split; auto; rewrite E; exact C.
        -- right; right. exists j, m. destruct H2 as (A & B & C & DD). repeat split; auto. rewrite E. exact DD.
      * destruct (next_strike_sound ns i n t Ht) as (j & m & A & B & C & DD & EE).
        split; [rewrite E; exact EE|]. right; right. exists j, m. repeat split; auto. rewrite E, DD. reflexivity.
    + intros t [Hoff [(c & Hc & Hct & Hcv)|[Hcl|(j & m & Hji & Hj & Hpm & Hon)]]].
      * assert (fu <= c_time c).
        { apply first_up_least; auto. apply sort_by_sorted. apply sort_by_In; exact Hc. lra. }
        pose proof (clip_le_l fu (next_strike ns i n)). lra.
      * assert (T <= t).
        { apply closing_moment_ge; auto. intros C. rewrite C in Hin. destruct Hin. }
        assert (fu <= T) by (apply first_up_le_T; exact HT).
        pose proof (clip_le_l fu (next_strike ns i n)). lra.
      * destruct (next_strike_complete ns i n j m Hi (V n Hin)) as (t' & Ht' & Hle); auto.
        -- intros Hz. apply (Z i n j m); auto.
        -- lra.
        -- rewrite Ht'. pose proof (clip_le_r fu t'). lra.
  - (* pedal up at the release *)
    split.
    + intros _. apply clip_eq; [reflexivity|]. intros t Ht. eapply next_strike_ge; eauto.
    + intros Dn. exfalso. revert Dn. apply state_before_up; auto.
Qed.
