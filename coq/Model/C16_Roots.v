(* C16 -- the step/alteration arithmetic used for chord roots and local keys.
   Executable definitions only (proofs: Proofs/C16_roots.v).

   Hand model of partitura/score.py:
     Interval.change_quality                  -> change_quality   (the two quality ladders, index + num)
     process_local_key                        -> plk              (identity shortcut, degree table, change_quality,
                                                                   transpose_note, return_step_alter)
     RomanNumeral.find_root_note              -> find_root        (two stages; Roman2Interval table first, KeyError ->
                                                                   process_local_key)
     RomanNumeral.find_bass_note              -> find_bass
     Roman2Interval_Maj / Roman2Interval_Min  -> r2i_maj / r2i_min   (module-level tables of SHARED Interval objects)
     LOCAL_KEY_TRASPOSITIONS_DCML             -> lk_maj / lk_min     (tuples; a fresh Interval is built per call)
   as a STATE MACHINE over the module-level tables: every call is a step `tables -> tables * observation`, so that
   "an earlier call changed what a later call returns" is expressible (step_shared is such a variant: it keeps Interval
   objects per local-key degree at module level and lets change_quality work on the table entry).

   Encodings (harness/props/c16.py: roots stream): steps C=0..B=6; qualities dd=0 d=1 m=2 M=3 P=4 A=5 AA=6 (Model/C16.v);
   a key or note NAME is (step index, alteration, step letter written in lower case?);
   a DEGREE text (e.g. "bVII", "viio", "Ger7") is handed over as the facts the code reads from it:
     d_sym   index of the text in the key list of Roman2Interval_* (syms below), None if it is not a key
     d_num   1..7 = the Roman numeral that is left after removing '#', 'b' and non-letters, lower-cased; None otherwise
     d_acc   count('#') - count('b')
     d_lower the text without '#' / 'b' .islower()          (mode of the local key)
     d_lower_all   the whole text .islower()                 (table choice in find_root_note / find_bass_note)
   The string handling itself (count / replace / islower / the regular expressions of RomanNumeral) is NOT modelled: the
   direct oracle of the harness compares strings. *)
From PV Require Import Lib.Base Model.C16.
#[local] Open Scope Z_scope.

(* ---------- Interval.change_quality ---------- *)
Definition perfect8 (n : Z) : bool := (n =? 1) || (n =? 4) || (n =? 5) || (n =? 8).
Definition ladder_c : list Z := [0; 1; 4; 5; 6].        (* dd d P A AA *)
Definition ladder_d : list Z := [0; 1; 2; 3; 5; 6].     (* dd d m M A AA *)
Definition ladder (n : Z) : list Z := if perfect8 n then ladder_c else ladder_d.

Fixpoint zindex (x : Z) (l : list Z) (i : Z) : option Z :=
  match l with [] => None | y :: r => if x =? y then Some i else zindex x r (i + 1) end.

Definition znth (l : list Z) (i : Z) : option Z := if i <? 0 then None else nth_error l (Z.to_nat i).

(* None = ValueError (quality not on the ladder of the number, or changed beyond the ladder) *)
Definition change_quality (n q k : Z) : option Z :=
  if k =? 0 then Some q else ci <- zindex q (ladder n) 0 ;; znth (ladder n) (ci + k).

(* ---------- intervals as values, transpose_note with an interval ---------- *)
Definition ival := (Z * Z)%type.          (* number, quality *)

Definition tn_iv (iv : ival) (i a : Z) : option (Z * Z) :=
  sem <- iv_semitones (fst iv) (snd iv) ;; tn_note (fst iv) sem true i a.

(* ---------- module-level tables ---------- *)
Record tables := mk_tabs {
  t_maj : list (Z * ival);      (* Roman2Interval_Maj by symbol index *)
  t_min : list (Z * ival);      (* Roman2Interval_Min *)
  t_lkmaj : list (Z * ival);    (* LOCAL_KEY_TRASPOSITIONS_DCML["major"] by degree number *)
  t_lkmin : list (Z * ival) }.

(* index of a degree text in the key list:
   0 I  1 II  2 III  3 III+  4 IV  5 V  6 VI  7 VII  8 i  9 ii  10 iii  11 iv  12 v  13 vi  14 vii
   15 viio  16 N  17 iio  18 Ger7  19 Fr7  20 It *)
Definition r2i_maj : list (Z * ival) :=
  [(0, (1, 4)); (1, (2, 3)); (2, (3, 3)); (3, (3, 3)); (4, (4, 4)); (5, (5, 4)); (6, (6, 3)); (7, (7, 3));
   (8, (1, 4)); (9, (2, 3)); (10, (3, 2)); (11, (4, 4)); (12, (5, 4)); (13, (6, 3)); (14, (7, 3));
   (15, (7, 3)); (16, (2, 2)); (17, (2, 3)); (18, (4, 5)); (19, (4, 5)); (20, (4, 5))].
Definition r2i_min : list (Z * ival) :=
  [(0, (1, 4)); (1, (2, 3)); (2, (3, 2)); (3, (3, 2)); (4, (4, 4)); (5, (5, 4)); (6, (6, 2)); (7, (7, 2));
   (8, (1, 4)); (9, (2, 3)); (10, (3, 2)); (11, (4, 4)); (12, (5, 4)); (13, (6, 3)); (14, (7, 3));
   (15, (7, 3)); (16, (2, 2)); (17, (2, 3)); (18, (4, 5)); (19, (4, 5)); (20, (4, 5))].
Definition lk_maj : list (Z * ival) :=
  [(1, (1, 4)); (2, (2, 3)); (3, (3, 3)); (4, (4, 4)); (5, (5, 4)); (6, (6, 3)); (7, (7, 3))].
Definition lk_min : list (Z * ival) :=
  [(1, (1, 4)); (2, (2, 3)); (3, (3, 2)); (4, (4, 4)); (5, (5, 4)); (6, (6, 2)); (7, (7, 2))].

Definition init_tables : tables := mk_tabs r2i_maj r2i_min lk_maj lk_min.

Definition r2i_of (t : tables) (minor : bool) := if minor then t_min t else t_maj t.
Definition lk_of (t : tables) (minor : bool) := if minor then t_lkmin t else t_lkmaj t.

(* ---------- arguments and results ---------- *)
Record deg := mk_deg { d_sym : option Z; d_num : option Z; d_acc : Z; d_lower : bool; d_lower_all : bool }.

Definition key := (Z * Z * bool)%type.     (* step index, alteration, minor (= written in lower case) *)
Definition name := (Z * Z * bool)%type.    (* step index, alteration, step letter in lower case *)

Inductive res :=
| RName (n : name)        (* a key / note name *)
| RPair (i a : Z)         (* return_step_alter=True *)
| RErr.                   (* any exception *)

Definition is_one (n : option Z) : bool := match n with Some 1 => true | _ => false end.

(* process_local_key(loc_k, glob_k, return_step_alter) after the interval of the degree has been fetched *)
Definition plk_with (iv : ival) (q' : Z) (d : deg) (k : key) (rsa : bool) : res :=
  let '(ki, ka, kmin) := k in
  match tn_iv (fst iv, q') ki ka with
  | None => RErr
  | Some (i', a') => if rsa then RPair i' a' else RName (i', a', d_lower d)
  end.

Definition plk_identity (d : deg) (k : key) (rsa : bool) : bool :=
  let '(_, _, kmin) := k in Bool.eqb (d_lower d) kmin && is_one (d_num d) && (d_acc d =? 0) && negb rsa.

(* the code: a FRESH Interval(num, qual) from the tuple table, change_quality on it *)
Definition plk (t : tables) (d : deg) (k : key) (rsa : bool) : res :=
  if plk_identity d k rsa then RName k else
  match d_num d with
  | None => RErr                                  (* KeyError *)
  | Some n =>
      match zlookup n (lk_of t (snd k)) with
      | None => RErr
      | Some iv =>
          match change_quality (fst iv) (snd iv) (d_acc d) with
          | None => RErr                          (* ValueError *)
          | Some q' => plk_with iv q' d k rsa
          end
      end
  end.

(* ---------- RomanNumeral.find_root_note / find_bass_note ---------- *)
Definition sym_iv (t : tables) (minor : bool) (d : deg) : option ival :=
  s <- d_sym d ;; zlookup s (r2i_of t minor).

(* stage 1: the tonic of the secondary degree in the local key *)
Definition stage1 (t : tables) (k : key) (d2 : deg) : option (Z * Z) :=
  match sym_iv t (snd k) d2 with
  | Some iv => tn_iv iv (fst (fst k)) (snd (fst k))
  | None => match plk t d2 k true with RPair i a => Some (i, a) | _ => None end
  end.

(* stage 2: the primary degree in the key of stage 1, whose mode is the case of the secondary degree *)
Definition find_root (t : tables) (k : key) (d1 d2 : deg) : option name :=
  sa <- stage1 t k d2 ;;
  match sym_iv t (d_lower_all d2) d1 with
  | Some iv => r <- tn_iv iv (fst sa) (snd sa) ;; Some (fst r, snd r, false)
  | None => match plk t d1 (fst sa, snd sa, d_lower_all d2) false with RName nm => Some nm | _ => None end
  end.

Definition find_bass (root : name) (inv : Z) (prim_lower_all : bool) : option name :=
  let '(ri, ra, rl) := root in
  if inv =? 1 then r <- tn_iv (3, if prim_lower_all then 2 else 3) ri ra ;; Some (fst r, snd r, false)
  else if inv =? 2 then r <- tn_iv (5, 4) ri ra ;; Some (fst r, snd r, false)
  else if inv =? 3 then r <- tn_iv (7, 2) ri ra ;; Some (fst r, snd r, false)
  else if (-3 <? ra) && (ra <? 3) then Some root else None.

(* ---------- the machine ---------- *)
Inductive rop :=
| OPlk (d : deg) (k : key) (rsa : bool)          (* process_local_key *)
| ORn (k : key) (d1 d2 : deg) (inv : Z)          (* RomanNumeral(...): find_root_note, then find_bass_note *)
| OTn (i a n q : Z)                              (* transpose_note(step, alter, Interval(n, q)) *)
| OTs (minor : bool) (sym i a : Z).              (* transpose_note(step, alter, Roman2Interval_*[sym]) *)

Inductive robs :=
| BRes (r : res)
| BRoot (root bass : option name)
| BTn (r : option (Z * Z)).

Definition rn_obs (t : tables) (k : key) (d1 d2 : deg) (inv : Z) : robs :=
  let root := find_root t k d1 d2 in
  BRoot root (match root with Some r => find_bass r inv (d_lower_all d1) | None => None end).

(* the code: no call writes to a module-level table *)
Definition step_code (o : rop) (t : tables) : tables * robs :=
  match o with
  | OPlk d k rsa => (t, BRes (plk t d k rsa))
  | ORn k d1 d2 inv => (t, rn_obs t k d1 d2 inv)
  | OTn i a n q => (t, BTn (tn_iv (n, q) i a))
  | OTs minor sym i a => (t, BTn (iv <- zlookup sym (r2i_of t minor) ;; tn_iv iv i a))
  end.

Fixpoint zupdate {A} (k : Z) (v : A) (l : list (Z * A)) : list (Z * A) :=
  match l with [] => [] | (k', v') :: r => if k =? k' then (k, v) :: r else (k', v') :: zupdate k v r end.

Definition set_lk (t : tables) (minor : bool) (n : Z) (iv : ival) : tables :=
  if minor then mk_tabs (t_maj t) (t_min t) (t_lkmaj t) (zupdate n iv (t_lkmin t))
  else mk_tabs (t_maj t) (t_min t) (zupdate n iv (t_lkmaj t)) (t_lkmin t).

(* a variant that is NOT the code: one Interval object per local-key degree is kept at module level and
   process_local_key calls change_quality on the table entry itself (which assigns to the object) *)
Definition plk_shared (t : tables) (d : deg) (k : key) (rsa : bool) : tables * res :=
  if plk_identity d k rsa then (t, RName k) else
  match d_num d with
  | None => (t, RErr)
  | Some n =>
      match zlookup n (lk_of t (snd k)) with
      | None => (t, RErr)
      | Some iv =>
          match change_quality (fst iv) (snd iv) (d_acc d) with
          | None => (t, RErr)
          | Some q' => (set_lk t (snd k) n (fst iv, q'), plk_with iv q' d k rsa)
          end
      end
  end.

Definition step_shared (o : rop) (t : tables) : tables * robs :=
  match o with
  | OPlk d k rsa => let (t', r) := plk_shared t d k rsa in (t', BRes r)
  | _ => step_code o t
  end.

Fixpoint run (step : rop -> tables -> tables * robs) (ops : list rop) (t : tables) : list robs * tables :=
  match ops with
  | [] => ([], t)
  | o :: r => let (t', b) := step o t in let (bs, t'') := run step r t' in (b :: bs, t'')
  end.

(* what a call returns in a fresh interpreter: a function of its own arguments *)
Definition obs_fresh (o : rop) : robs := snd (step_code o init_tables).

(* ---------- the diatonic reading of a degree ---------- *)
(* size in semitones of scale degree n of the major / natural minor scale *)
Definition scale_size (minor : bool) (n : Z) : Z :=
  base_pc (n - 1) - (if minor && ((n =? 3) || (n =? 6) || (n =? 7)) then 1 else 0).

(* the interval (number, semitones) a degree denotes in a key of the given mode: the catalogue entry when the text
   is one, the scale degree raised / lowered by its accidentals otherwise *)
Definition deg_size (minor : bool) (d : deg) : option (Z * Z) :=
  match sym_iv init_tables minor d with
  | Some iv => sem <- iv_semitones (fst iv) (snd iv) ;; Some (fst iv, sem)
  | None => n <- d_num d ;; Some (n, scale_size minor n + d_acc d)
  end.

(* ---------- boolean checkers ---------- *)
Definition name_eqb (x y : name) : bool :=
  let '(i, a, l) := x in let '(i', a', l') := y in Z.eqb i i' && Z.eqb a a' && Bool.eqb l l'.

Definition oname_eqb (x y : option name) : bool :=
  match x, y with Some a, Some b => name_eqb a b | None, None => true | _, _ => false end.

Definition res_eqb (x y : res) : bool :=
  match x, y with
  | RName a, RName b => name_eqb a b
  | RPair i a, RPair i' a' => Z.eqb i i' && Z.eqb a a'
  | RErr, RErr => true
  | _, _ => false
  end.

Definition robs_eqb (x y : robs) : bool :=
  match x, y with
  | BRes a, BRes b => res_eqb a b
  | BRoot r b, BRoot r' b' => oname_eqb r r' && oname_eqb b b'
  | BTn a, BTn b => ozz_eqb a b
  | _, _ => false
  end.

(* one observed history: the calls with the observation the implementation gave, in order, in ONE interpreter.
   Replayed through the code machine from the initial tables. *)
Definition roots_case := list (rop * robs).

Definition roots_hist_ok (c : roots_case) : bool :=
  list_eqb robs_eqb (fst (run step_code (map fst c) init_tables)) (map snd c).

(* T2 rows of process_local_key: (degree number, lower case?, accidentals, key step, key alteration, minor key?,
   return_step_alter) -> result *)
Definition plk_row := (Z * bool * Z * Z * Z * bool * bool * res)%type.

Definition deg_of (n : Z) (lower : bool) (acc : Z) : deg := mk_deg None (Some n) acc lower lower.

Definition plk_row_ok (r : plk_row) : bool :=
  let '(n, lower, acc, ki, ka, kmin, rsa, out) := r in
  res_eqb out (plk init_tables (deg_of n lower acc) (ki, ka, kmin) rsa).

Definition dom_plk : list (Z * bool * Z * Z * Z * bool * bool) :=
  flat_map (fun n => flat_map (fun lower => flat_map (fun acc => flat_map (fun ki => flat_map (fun ka =>
    flat_map (fun kmin => map (fun rsa => (n, lower, acc, ki, ka, kmin, rsa)) [false; true]) [false; true])
    (zrange (-2) 5)) (zrange 0 7)) (zrange (-2) 5)) [false; true]) (zrange 1 7).

Definition plkkey_eqb (x y : Z * bool * Z * Z * Z * bool * bool) : bool :=
  let '(n, l, c, i, a, m, r) := x in let '(n', l', c', i', a', m', r') := y in
  Z.eqb n n' && Bool.eqb l l' && Z.eqb c c' && Z.eqb i i' && Z.eqb a a' && Bool.eqb m m' && Bool.eqb r r'.

Definition plktab_ok (t : list plk_row) : bool :=
  list_eqb plkkey_eqb (map (fun r => let '(n, l, c, i, a, m, rs, _) := r in (n, l, c, i, a, m, rs)) t) dom_plk &&
  forallb plk_row_ok t.

Definition ival_eqb (x y : ival) : bool := zz_eqb x y.
Definition tabrow_eqb (x y : Z * ival) : bool := Z.eqb (fst x) (fst y) && ival_eqb (snd x) (snd y).
Definition tables_eqb (a b : list (Z * ival)) : bool := list_eqb tabrow_eqb a b.
