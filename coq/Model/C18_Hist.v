(* C18 -- the matched-note table as a caller drives it over time (state carried between calls).

   The objects a caller holds live across calls: a score object (identity h_oid, note table h_sna), a performance
   (h_pna) and an alignment list (h_al).  Between calls they are edited in place (a note lengthened, moved,
   respelled, renamed, removed, added; the time signature / divisions replaced = new beat columns for every row),
   replaced by another object with the same content, or left alone.  Definitions only (proofs: Proofs/C18_hist.v).

   hrun       the code as it is: every call of to_matched_score / encode_performance / get_matched_notes builds the
              score-side note table from the objects it is handed (compute_note_array / ensure_notearray), so an
              observation is a function of the state at the time of the call;
   hrun_memo  a variant keeping the score-side note table per score object and never invalidating it (the defect
              class of seeded change g): refuted in Proofs/C18_hist.v. *)
From Coq Require Import ZArith QArith List Bool.
From PV Require Import Lib.Base Model.C18.
Import ListNotations.

Record hstate := mk_h { h_oid : Z; h_sna : list srow; h_pna : list prow; h_al : list al_entry }.

Inductive sedit :=
| EDur (i : Z) (d : Q)                  (* part.remove(n); part.add(n, start, end') *)
| EMove (i : Z) (on : Q) (dv : Z)       (* ... with another start *)
| EPitch (i : Z) (p : Z)                (* n.step / n.alter / n.octave *)
| ERename (i j : Z)                     (* n.id = ... *)
| EDel (i : Z)                          (* part.remove(n) *)
| EAdd (r : srow)                       (* part.add(Note(...), start, end) *)
| ETable (t : list srow).               (* time signature / quarter duration replaced: the columns of every row *)

Definition upd (i : Z) (f : srow -> srow) (t : list srow) : list srow :=
  map (fun r => if Z.eqb (s_id r) i then f r else r) t.
Definition apply_sedit (e : sedit) (t : list srow) : list srow :=
  match e with
  | EDur i d => upd i (fun r => (s_id r, s_on r, d, s_div r, s_pitch r)) t
  | EMove i on dv => upd i (fun r => (s_id r, on, s_dur r, dv, s_pitch r)) t
  | EPitch i p => upd i (fun r => (s_id r, s_on r, s_dur r, s_div r, p)) t
  | ERename i j => upd i (fun r => (j, s_on r, s_dur r, s_div r, s_pitch r)) t
  | EDel i => filter (fun r => negb (Z.eqb (s_id r) i)) t
  | EAdd r => t ++ [r]
  | ETable t' => t'
  end.

Inductive hop :=
| HScore (e : sedit)                    (* the score object edited in place: the same object *)
| HReplace (oid : Z)                    (* another score object with the same content takes its place *)
| HPerf (pna : list prow)               (* the performance as it is after an edit *)
| HAlign (al : list al_entry)           (* the alignment list as it is after an edit *)
| HCall.                                (* one round of calls *)

Definition hstep (s : hstate) (o : hop) : hstate :=
  match o with
  | HScore e => mk_h (h_oid s) (apply_sedit e (h_sna s)) (h_pna s) (h_al s)
  | HReplace oid => mk_h oid (h_sna s) (h_pna s) (h_al s)
  | HPerf pna => mk_h (h_oid s) (h_sna s) pna (h_al s)
  | HAlign al => mk_h (h_oid s) (h_sna s) (h_pna s) al
  | HCall => s
  end.

(* what a round of calls shows: the rows of the matched score (pairs in its order) and the matched-note table *)
Definition hobs := (list (nat * nat) * list (nat * nat))%type.
Definition observe_with (t : list srow) (s : hstate) : hobs :=
  (matched_sorted t (h_pna s) (h_al s), matched_idx (map s_id t) (map p_id (h_pna s)) (h_al s)).
Definition observe (s : hstate) : hobs := observe_with (h_sna s) s.

Fixpoint hrun (s : hstate) (ops : list hop) : list hobs :=
  match ops with
  | [] => []
  | o :: r => match o with HCall => observe s :: hrun s r | _ => hrun (hstep s o) r end
  end.
(* the state at each call *)
Fixpoint call_states (s : hstate) (ops : list hop) : list hstate :=
  match ops with
  | [] => []
  | o :: r => match o with HCall => s :: call_states s r | _ => call_states (hstep s o) r end
  end.

Fixpoint lookup_tab (k : Z) (c : list (Z * list srow)) : option (list srow) :=
  match c with [] => None | (k', t) :: r => if Z.eqb k k' then Some t else lookup_tab k r end.
Fixpoint hrun_memo (c : list (Z * list srow)) (s : hstate) (ops : list hop) : list hobs :=
  match ops with
  | [] => []
  | o :: r =>
    match o with
    | HCall => let t := match lookup_tab (h_oid s) c with Some t => t | None => h_sna s end in
               observe_with t s :: hrun_memo ((h_oid s, t) :: c) s r
    | _ => hrun_memo c (hstep s o) r
    end
  end.
Definition edits_score (o : hop) : bool := match o with HScore _ => true | _ => false end.

(* ---------- correspondence: the implementation's observations along a generated history ----------
   per round: the snote_ids lists returned (to_matched_score, encode_performance) and the matched-note table as
   (score id, performance id) pairs; the state is the model's own (initial tables + the edits) *)
Definition ids_of_pairs (s : hstate) (M : list (nat * nat)) : list (nat * nat) :=
  map (fun m => (Z.to_nat (s_id (nth (fst m) (h_sna s) sdefault)), Z.to_nat (p_id (nth (snd m) (h_pna s) pdefault_row)))) M.
Definition obs_ok (s : hstate) (o : list (list Z) * list (Z * Z)) : bool :=
  forallb (sids_ok (h_sna s) (h_pna s) (h_al s)) (fst o)
  && perm_pairs (map (fun m => (Z.to_nat (fst m), Z.to_nat (snd m))) (snd o)) (ids_of_pairs s (snd (observe s))).
Fixpoint all2 {A B} (f : A -> B -> bool) (a : list A) (b : list B) : bool :=
  match a, b with
  | [], [] => true
  | x :: a', y :: b' => f x y && all2 f a' b'
  | _, _ => false
  end.
Definition hist_case := (hstate * list hop * list (list (list Z) * list (Z * Z)))%type.
Definition hist_check (c : hist_case) : bool :=
  match c with (s, ops, obs) => all2 obs_ok (call_states s ops) obs end.
(* the same histories through the memoising variant (used by the harness to show the generated histories tell the
   two machines apart) *)
Definition hist_memo_differs (c : hist_case) : bool :=
  match c with (s, ops, _) =>
    negb (list_eqb (fun a b => list_eqb pair_eqb (fst a) (fst b) && list_eqb pair_eqb (snd a) (snd b))
                   (hrun_memo [] s ops) (hrun s ops)) end.
