(* C09 -- the consumption of jump destinations (Path.list_of_destinations_from_last_segment) seen
   from one segment: the list `used` of destinations already taken from it, as
   Path.make_copy_with_jump_to appends them, and the destination(s) offered next.
   Definitions only.  `dests` / `last_dest_index` are those of Model/C09.v (the ones the path
   correspondence evaluates); here: the shape of `used` after k departures, the one-segment
   instance of `dests` the unit correspondence evaluates on real Path objects, the departure
   machine (one segment left again and again) and the clamped variant (seed j). *)
From PV Require Import Lib.Base Model.C09.
From Coq Require Import ZArith List Bool.
Import ListNotations.
#[local] Open Scope Z_scope.

(* `used` after q full rounds through the destination list and r+1 further departures *)
Definition laps (to : list Z) (q : nat) : list Z := concat (repeat to q).
Definition cyc_used (to : list Z) (q r : nat) : list Z := laps to q ++ firstn (S r) to.

(* a Path standing on segment 0 (= "A") whose destination list is `to`, with `used` taken before *)
Definition one_seg_state (to used : list Z) (norep allrep : bool) : pstate :=
  mkP [0] (match used with [] => [] | _ => [(0, used)] end) false norep allrep [mkSeg 0 0 1 to [] 0].
Definition dests_of (to used : list Z) (norep allrep : bool) : option (list Z) :=
  dests (one_seg_state to used norep allrep).

(* the departure machine: the segment is left k times, each time along the first destination offered
   (maximal policy: the only one), `used` growing as make_copy_with_jump_to appends *)
Fixpoint depart (k : nat) (to used : list Z) (norep allrep : bool) : option (list Z) :=
  match k with
  | O => Some used
  | S k' =>
      match dests_of to used norep allrep with
      | Some (d :: _) => depart k' to (used ++ [d]) norep allrep
      | _ => None
      end
  end.

(* the destinations taken from segment s along a path: the successors of its occurrences *)
Fixpoint nexts (s : Z) (p : list Z) : list Z :=
  match p with
  | [] => []
  | a :: r => match r with
              | [] => []
              | b :: _ => if a =? s then b :: nexts s r else nexts s r
              end
  end.
(* ... of a finished path: the last segment is left for END *)
Definition succs (s : Z) (p : list Z) : list Z := nexts s (p ++ [END]).

(* no segment is a leap start (no D.C., D.S., To Coda that could be taken): repeats and endings,
   nested or not; the first segment may be a leap END as _make_segments always marks it *)
Definition leap_free (g : list seg) : bool := forallb (fun s => negb (s_type s =? TLEAP_START)) g.

(* seed j: next index clamped to the last destination instead of wrapping to the first *)
Definition dests_clamped (to used : list Z) : option (list Z) :=
  match used with
  | [] => match to with [] => None | x :: _ => Some [x] end
  | _ => match last_dest_index to used with
         | None => None
         | Some ldi => option_map (fun x => [x]) (znth to (Z.min (ldi + 1) (Z.of_nat (length to) - 1)))
         end
  end.
(* seed d: the index is the number of jumps taken so far (not the place of the last one) *)
Definition dests_by_count (to used : list Z) : option (list Z) :=
  match to with
  | [] => None
  | _ => option_map (fun x => [x]) (nth_error to (length used mod length to)%nat)
  end.

(* ---- unit correspondence: one real Path object per case ---- *)
Record dcase := mkD {
  d_to : list Z; d_used : list Z; d_norep : bool; d_allrep : bool;
  d_seen : option (list Z);            (* the property's value; None = IndexError *)
  d_run : option (list Z) }.           (* used_segment_jumps["A"] after d_steps real departures from [] *)
Definition mkDC (to used : list Z) (nr ar : bool) (seen : option (list Z)) (steps : nat)
  (run : option (list Z)) : dcase * nat := (mkD to used nr ar seen run, steps).

(* 0 = agree; 1 = the destinations offered differ; 2 = the run of departures differs *)
Definition check_dcase (cs : dcase * nat) : Z :=
  let c := fst cs in
  if negb (opt_eqb zlist_eqb (dests_of (d_to c) (d_used c) (d_norep c) (d_allrep c)) (d_seen c)) then 1
  else if negb (opt_eqb zlist_eqb (depart (snd cs) (d_to c) [] (d_norep c) (d_allrep c)) (d_run c)) then 2
  else 0.
