(* C17 -- how load_score_midi READS the notes of a file (partitura/io/importmidi.py: load_score_midi, the loop over
   mid.tracks / messages): the running time t_raw = sum of the delta times of ALL messages (relevant or not), the
   dictionary sounding_notes keyed by note_hash(channel, note) = channel * 128 + note holding the onset of the note that
   sounds on that key, a note started by note_on with velocity > 0 (an entry under the same key is OVERWRITTEN), ended by
   note_off or note_on with velocity 0 (ignored with a warning when the key is not sounding; otherwise (onset, note,
   t - onset) is appended to notes[channel] and the key deleted; notes still sounding at the end of the track are
   dropped), notes = defaultdict(list) per channel, notes_by_track_ch[(track_nr, channel)], the keys sorted.  The
   result feeds Model.C17_Midi.import_notes.  quantization_unit = None (the default).  Definitions only. *)
From PV Require Import Lib.Base Model.C17_Spelling Model.C17_Midi.
#[local] Open Scope Z_scope.

(* a message as mido hands it over: (delta time, kind, channel, note, velocity);
   kind 0 = note_off, 1 = note_on, anything else = another message (meta / control: only its delta time counts) *)
Definition msg := (Z * Z * Z * Z * Z)%type.
Definition m_time (m : msg) : Z := fst (fst (fst (fst m))).
Definition m_kind (m : msg) : Z := snd (fst (fst (fst m))).
Definition m_chan (m : msg) : Z := snd (fst (fst m)).
Definition m_note (m : msg) : Z := snd (fst m).
Definition m_vel (m : msg) : Z := snd m.

Definition note_hash (channel pitch : Z) : Z := channel * 128 + pitch.
Definition m_hash (m : msg) : Z := note_hash (m_chan m) (m_note m).

Definition is_start (m : msg) : bool := (m_kind m =? 1) && (0 <? m_vel m).
Definition is_end (m : msg) : bool := (m_kind m =? 0) || ((m_kind m =? 1) && (m_vel m =? 0)).

(* the dict sounding_notes: key -> onset (only looked up, set and deleted: the order of the entries is not observable) *)
Fixpoint sn_get (k : Z) (d : list (Z * Z)) : option Z :=
  match d with [] => None | (k', v) :: r => if k' =? k then Some v else sn_get k r end.
Fixpoint sn_del (k : Z) (d : list (Z * Z)) : list (Z * Z) :=
  match d with [] => [] | (k', v) :: r => if k' =? k then sn_del k r else (k', v) :: sn_del k r end.
Definition sn_set (k v : Z) (d : list (Z * Z)) : list (Z * Z) := (k, v) :: sn_del k d.

(* the loop over one track, parametric in the hash (the code's is m_hash): running time t, dict d;
   result: (channel, (onset, note, duration)) in the order in which the notes END *)
Fixpoint parse_with (hash : msg -> Z) (t : Z) (d : list (Z * Z)) (ms : list msg) : list (Z * row) :=
  match ms with
  | [] => []
  | m :: rest =>
      let t' := t + m_time m in
      if is_start m then parse_with hash t' (sn_set (hash m) t' d) rest
      else if is_end m then
        match sn_get (hash m) d with
        | None => parse_with hash t' d rest                                   (* "ignoring MIDI message" *)
        | Some t0 => (m_chan m, (t0, m_note m, t' - t0)) :: parse_with hash t' (sn_del (hash m) d) rest
        end
      else parse_with hash t' d rest
  end.
Definition parse_from := parse_with m_hash.
Definition parse_track (ms : list msg) : list (Z * row) := parse_from 0 [] ms.

(* time and dict after a prefix of the track *)
Fixpoint time_after (t : Z) (ms : list msg) : Z :=
  match ms with [] => t | m :: rest => time_after (t + m_time m) rest end.
Fixpoint dict_after (hash : msg -> Z) (t : Z) (d : list (Z * Z)) (ms : list msg) : list (Z * Z) :=
  match ms with
  | [] => d
  | m :: rest =>
      let t' := t + m_time m in
      if is_start m then dict_after hash t' (sn_set (hash m) t' d) rest
      else if is_end m then
        match sn_get (hash m) d with
        | None => dict_after hash t' d rest
        | Some _ => dict_after hash t' (sn_del (hash m) d) rest
        end
      else dict_after hash t' d rest
  end.

(* the variant that pairs note-on and note-off by the pitch only (NOT the code) *)
Definition hash_pitch_only (m : msg) : Z := m_note m.

(* notes = defaultdict(list): notes[channel].append(...) in insertion order of the channels *)
Fixpoint dd_append (ch : Z) (r : row) (d : list (Z * list row)) : list (Z * list row) :=
  match d with
  | [] => [(ch, [r])]
  | (c, l) :: rest => if c =? ch then (c, l ++ [r]) :: rest else (c, l) :: dd_append ch r rest
  end.
Definition notes_by_channel (em : list (Z * row)) : list (Z * list row) :=
  fold_left (fun d x => dd_append (fst x) (snd x) d) em [].

(* notes_by_track_ch over all tracks (enumerate), then sorted(keys) *)
Fixpoint groups_from (tr : Z) (tracks : list (list msg)) : list mgroup :=
  match tracks with
  | [] => []
  | ms :: rest => map (fun cl => ((tr, fst cl), snd cl)) (notes_by_channel (parse_track ms)) ++ groups_from (tr + 1) rest
  end.
Definition trch_ltb (a b : trch) : bool := (fst a <? fst b) || ((fst a =? fst b) && (snd a <? snd b)).
Fixpoint g_insert (g : mgroup) (l : list mgroup) : list mgroup :=
  match l with
  | [] => [g]
  | h :: r => if trch_ltb (fst h) (fst g) then h :: g_insert g r else g :: l
  end.
Definition parse_file (tracks : list (list msg)) : list mgroup :=
  fold_right g_insert [] (groups_from 0 tracks).

(* ---- checkers used by the correspondence. *)

(* (the tracks' messages, the rows of the note array the importer hands to estimate_spelling -- onset, pitch, duration of
   every note it read --, compared as multisets) *)
Fixpoint r_insert (r : row) (l : list row) : list row :=
  match l with [] => [r] | h :: t => if row_leb r h then r :: l else h :: r_insert r t end.
Definition r_sort (l : list row) : list row := fold_right r_insert [] l.
Definition midi_notes_check (c : list (list msg) * list row) : bool :=
  let '(tracks, obs) := c in
  list_eqb row_eqb (r_sort (flat_map (fun g => snd g) (parse_file tracks))) (r_sort obs).

(* (mode, the tracks' messages, pitches of the imported score by onset rank, the observed note array if it could be
   observed): the importer model (Model.C17_Midi) run on the PARSED file, and the notes read *)
Definition midi_parse_check (c : Z * list (list msg) * list (list Z) * option (list row)) : bool :=
  let '(mode, tracks, obs, orows) := c in
  midi_check (mode, parse_file tracks, obs) &&
  match orows with None => true | Some rows => midi_notes_check (tracks, rows) end.
