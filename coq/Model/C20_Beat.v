(* C20 -- executable model, sixth part: the beat mode of a Part and an exporter that must only read it
   (partitura/score.py: Part.use_musical_beat, Part.use_notated_beat, Part.set_musical_beat_per_ts,
   TimeSignature.__init__; partitura/io/exportmidi.py: save_score_midi, anacrusis_behavior="time_sig_change").
   Definitions and boolean checkers only (proofs: Proofs/C20_Beat.v).

   "Switching beat mode" is a documented in-place operation: it flips Part._use_musical_beat and REWRITES
   TimeSignature.musical_beats of every time signature of the part.  An exporter that needs notated beats for a moment
   and "restores" the mode afterwards (use_notated_beat(); ...; use_musical_beat() -- the seeded slip j) does not
   restore the state: use_notated_beat resets every musical_beats to its default and use_musical_beat() without a table
   leaves them there, so a user-supplied table is lost. *)
From PV Require Import Lib.Base Model.C20 Model.C20_Mut.
From Coq Require Import ZArith List Bool.
Import ListNotations.
#[local] Open Scope Z_scope.

Record tsig : Type := mk_ts { ts_beats : Z; ts_type : Z; ts_mb : Z }.     (* beats, beat_type, musical_beats *)

(* (Part._use_musical_beat, the time signatures of the part in timeline order) *)
Definition bstate := (bool * list tsig)%type.

(* mbeats_per_ts: the dict {"6/8": 3, ...} as an association list on (beats, beat_type); keys of a dict are distinct,
   the first match is the entry *)
Definition mbtable := list (Z * Z * Z).

Fixpoint tbl_get (tbl : mbtable) (b t : Z) : option Z :=
  match tbl with
  | [] => None
  | (b', t', m) :: r => if (b =? b') && (t =? t') then Some m else tbl_get r b t
  end.

(* MUSICAL_BEATS = {6: 2, 9: 3, 12: 4}; otherwise the number of beats *)
Definition default_mb (b : Z) : Z := if b =? 6 then 2 else if b =? 9 then 3 else if b =? 12 then 4 else b.

(* TimeSignature(beats, beat_type) *)
Definition new_ts (b t : Z) : tsig := mk_ts b t (default_mb b).

(* set_musical_beat_per_ts(tbl): every time signature gets the table's value, or its default *)
Definition set_mb (tbl : mbtable) (tss : list tsig) : list tsig :=
  map (fun ts => mk_ts (ts_beats ts) (ts_type ts)
                       (match tbl_get tbl (ts_beats ts) (ts_type ts) with Some m => m | None => default_mb (ts_beats ts) end)) tss.

(* use_musical_beat(tbl): only when notated beats are in use (otherwise a warning, nothing happens); the table is applied
   only when it is not {} -- use_musical_beat() leaves musical_beats as they are *)
Definition use_musical (tbl : mbtable) (st : bstate) : bstate :=
  if fst st then st
  else (true, match tbl with [] => snd st | _ => set_mb tbl (snd st) end).

(* use_notated_beat(): only when musical beats are in use; resets every musical_beats to its default *)
Definition use_notated (st : bstate) : bstate :=
  if fst st then (false, set_mb [] (snd st)) else st.

Inductive export_mode : Type :=
| ReadOnly          (* the code: save_score_midi reads the maps of the part as they are *)
| ToggleAndBack.    (* the slip: if part._use_musical_beat: part.use_notated_beat(); ...; part.use_musical_beat() *)

Definition export_effect (m : export_mode) (st : bstate) : bstate :=
  match m with
  | ReadOnly => st
  | ToggleAndBack => if fst st then use_musical [] (use_notated st) else st
  end.

(* histories: the in-place operations and the read-only exporter, in any order *)
Inductive bop : Type :=
| BMusical (tbl : mbtable)      (* part.use_musical_beat(tbl) *)
| BNotated                      (* part.use_notated_beat() *)
| BSetTable (tbl : mbtable)     (* part.set_musical_beat_per_ts(tbl) *)
| BExport.                      (* save_score_midi(part, None, anacrusis_behavior="time_sig_change") *)

Definition bstep (m : export_mode) (st : bstate) (o : bop) : bstate :=
  match o with
  | BMusical tbl => use_musical tbl st
  | BNotated => use_notated st
  | BSetTable tbl => (fst st, set_mb tbl (snd st))
  | BExport => export_effect m st
  end.

(* the states after each operation *)
Fixpoint brun (m : export_mode) (st : bstate) (h : list bop) : list bstate :=
  match h with [] => [] | o :: r => bstep m st o :: brun m (bstep m st o) r end.

Definition bfinal (m : export_mode) (st : bstate) (h : list bop) : bstate := fold_left (bstep m) h st.

Definition is_export (o : bop) : bool := match o with BExport => true | _ => false end.

(* every time signature carries its default number of musical beats *)
Definition all_default (tss : list tsig) : Prop := Forall (fun ts => ts_mb ts = default_mb (ts_beats ts)) tss.

(* ---- correspondence checker ---- *)
Definition ts_eqb (a b : tsig) : bool := (ts_beats a =? ts_beats b) && (ts_type a =? ts_type b) && (ts_mb a =? ts_mb b).
Definition bstate_eqb (a b : bstate) : bool := Bool.eqb (fst a) (fst b) && list_eqb ts_eqb (snd a) (snd b).

(* (state of the real part at the start, history, the states observed after each operation) *)
Definition beat_ok (c : bstate * list bop * list bstate) : bool :=
  let '(st, h, obs) := c in list_eqb bstate_eqb (brun ReadOnly st h) obs.
