(* C02_Query -- the FORM of a query and of its answer, and the two branches around the interpolation that depend on it.

   "The function can take scalar values or lists/arrays of values" (docstrings of Part.beat_map etc.).  What the code
   does with the form of the argument, from the property access to the returned array:

   1. Part._time_interpolator:   if len(self._points) < 2: return lambda x: np.zeros(np.shape(x))
      (a part with fewer than two time points: the answer is a zero per queried position, a 0-d zero for a scalar);
      otherwise interp1d(x, y) / interp1d(y, x) of utils.generic on the points of Model/C02.v;
   2. utils.generic.interp1d:    len(x) > 1  -> scipy's interp1d object: x_new = asarray(q); the positions are
      ravelled, evaluated one by one, and the result is reshaped to the shape of the query;
      a single sample -> result = broadcast_to(y, (len(atleast_1d(q)),)); if ndim(q) == 0: result = array(result[0]);
      no sample -> scipy / broadcast_to raise (None below);
   3. Part.quarter_duration_map: the change table, a single entry doubled, through the same wrapper with
      kind="previous", fill_value=(y[0], y[-1]).

   A query is a scalar (Python / numpy number, 0-d array) or a sequence (list, tuple, 1-d array, possibly empty, in any
   order, with repetitions).  Definitions only; proofs in Proofs/C02_query.v. *)
From PV Require Import Lib.Base Model.C02 Model.C02_Hist Model.C02_Api Model.C02_Req.
From Coq Require Import QArith Qround.
#[local] Open Scope Z_scope.

Inductive query := QScalar (x : Q) | QVec (xs : list Q).
Inductive answer := AScalar (v : option Q) | AVec (vs : list (option Q)).     (* None = nan *)

Definition atleast_1d (q : query) : list Q := match q with QScalar x => [x] | QVec xs => xs end.
Definition ndim0 (q : query) : bool := match q with QScalar _ => true | QVec _ => false end.

(* np.zeros(np.shape(x)) *)
Definition zeros_shape (q : query) : answer :=
  match q with
  | QScalar _ => AScalar (Some 0%Q)
  | QVec xs => AVec (repeat (Some 0%Q) (List.length xs))
  end.

(* y_new.reshape(x_new.shape) of a flat result *)
Definition reshape_like (q : query) (flat : list (option Q)) : answer :=
  if ndim0 q then AScalar (hd None flat) else AVec flat.

(* scipy.interpolate.interp1d.__call__ with the per-position evaluation f *)
Definition sc_call (f : Q -> option Q) (q : query) : answer := reshape_like q (map f (atleast_1d q)).

(* utils.generic.interp1d(x, y, ...)(q): n = len(x), y1 = the single sample value when n = 1,
   f = scipy's evaluation of one position when n > 1 *)
Definition wrap_call (n : nat) (y1 : option Q) (f : Q -> option Q) (q : query) : option answer :=
  match n with
  | O => None
  | S O => let result := repeat y1 (List.length (atleast_1d q)) in
           Some (if ndim0 q then AScalar (hd None result) else AVec result)
  | _ => Some (sc_call f q)
  end.

(* len(self._points): a time point exists exactly where a present object starts or ends *)
Definition n_points (st : astate) : nat := List.length (zsort_dedup (a_times st)).

(* the points the closure of a time map holds (Model/C02_Req.v: make) handed to the wrapper *)
Definition time_call (w : which) (st : astate) (q : query) : option answer :=
  if (n_points st <? 2)%nat then Some (zeros_shape q)
  else let pts := m_pts (make w st) in
       wrap_call (List.length pts) (option_map snd (hd_error pts)) (interp pts) q.

(* Part.quarter_duration_map(q) *)
Definition qd_call (tbl : list (Z * Z)) (q : query) : option answer :=
  let tbl2 := match tbl with [e] => [e; e] | _ => tbl end in
  match tbl2 with
  | [] => None
  | (_, y0) :: _ =>
      wrap_call (List.length tbl2) (Some (inject_Z y0))
                (fun t => Some (inject_Z (sc_previous tbl2 y0 (snd (last tbl2 (0, 1))) t))) q
  end.

(* part.<map w>(q) on the part in state st *)
Definition map_call (w : which) (st : astate) (q : query) : option answer :=
  match w with
  | WQd => qd_call (p_qs (apart_of st)) q
  | _ => time_call w st q
  end.

(* ---------------------------------------------------------------- what the answer must be *)
(* one value per queried position, in the order and the form of the query *)
Definition pointwise (f : Q -> option Q) (q : query) : answer :=
  match q with
  | QScalar x => AScalar (f x)
  | QVec xs => AVec (map f xs)
  end.

(* the value the property speaks of at one position: the map of the current state when the part has a timeline of
   at least two points, 0 on a part with a single time point (or none); quarter_duration_map = divisions in force *)
Definition value_at (w : which) (st : astate) (x : Q) : option Q :=
  match w with
  | WQd => ask WQd st x
  | _ => if (n_points st <? 2)%nat then Some 0%Q else ask w st x
  end.

(* ---------------------------------------------------------------- variants (the way such code goes wrong) *)
(* the single-point branch as `np.zeros(len(x))`: a scalar query raises *)
Definition zeros_len (q : query) : option answer :=
  match q with QScalar _ => None | QVec xs => Some (AVec (repeat (Some 0%Q) (List.length xs))) end.
(* the single-point branch counting positions (`np.arange(len(x))`-like) *)
Definition arange_shape (q : query) : answer :=
  match q with
  | QScalar _ => AScalar (Some 0%Q)
  | QVec xs => AVec (map (fun i => Some (inject_Z (Z.of_nat i))) (seq 0 (List.length xs)))
  end.
(* the test `len(self._points) < 2` written `<= 2` *)
Definition time_call_le2 (w : which) (st : astate) (q : query) : option answer :=
  if (n_points st <=? 2)%nat then Some (zeros_shape q)
  else let pts := m_pts (make w st) in
       wrap_call (List.length pts) (option_map snd (hd_error pts)) (interp pts) q.

(* ---------------------------------------------------------------- correspondence *)
(* one case: initial divisions, the history of edits, the implementation's len(part._points), and per request
   (map, query, observed answer) *)
Definition c02_qcase : Type := (Z * list redit * Z * list (which * query * answer))%type.

Definition aclose (impl : answer) (model : option answer) : bool :=
  match impl, model with
  | AScalar a, Some (AScalar b) => oclose a b
  | AVec a, Some (AVec b) => Nat.eqb (List.length a) (List.length b) &&
                             forallb (fun ab => oclose (fst ab) (snd ab)) (combine a b)
  | _, _ => false
  end.

Definition check_qcase (c : c02_qcase) : bool :=
  let '(q0, edits, npts, reqs) := c in
  let st := fold_left estep edits (ainit q0) in
  (npts =? Z.of_nat (n_points st)) &&
  forallb (fun r => let '(w, q, a) := r in
                    aclose a (map_call w st q) && aclose a (Some (pointwise (value_at w st) q))) reqs.
