(* C03 -- state carried between calls of save_musicxml (history model; executable, no proofs here).

   partitura/io/exportmusicxml.py save_musicxml creates
        state = {"note_id_counter": {}, "range_counter": {}}
   INSIDE every call, threads it through all parts of the score (one call: a note id written for the k-th time gets
   the suffix _k; slur / tuplet numbers come from the counter of Model/C03_Rng.v, one number space per label) and
   drops it at the end.  It iterates Score.parts (Score.__iter__); Score.__setitem__ (score[i] = part) writes
   Score.parts only and leaves Score.part_structure alone; an in-place edit of a part is seen through both lists
   because they hold the same object.

   A process state `proc` holds everything a later call COULD look at: the two views of the score, the counters the
   previous call left behind, the previous result.  step is the code as written; the three variants
   (step_leaky, step_memo, step_structure) are the defects of the class "state carried between calls". *)
From PV Require Import Lib.Base Model.C03_Rng.
#[local] Open Scope Z_scope.

(* note_id_counter: counter[id] = counter.get(id, 0) + 1; the k-th writing of an id is (id, k) *)
Definition idcount := list (Z * Z).

Definition bump (i : Z) (c : idcount) : Z * idcount :=
  match zlookup i c with
  | Some n => (n + 1, (i, n + 1) :: cremove i c)
  | None => (1, (i, 1) :: c)
  end.

Fixpoint write_ids (ids : list Z) (c : idcount) : list (Z * Z) * idcount :=
  match ids with
  | [] => ([], c)
  | i :: r => let (n, c1) := bump i c in
              let (l, c2) := write_ids r c1 in ((i, n) :: l, c2)
  end.

(* export_notes (Model/C03_Rng.v) together with the counter it leaves behind *)
Fixpoint export_notes_st (ns : list rnote) (c : counter) : list (list (Z * bool)) * counter :=
  match ns with
  | [] => ([], c)
  | rn :: r => let (w, c1) := export_note rn c in
               let (l, c2) := export_notes_st r c1 in (w :: l, c2)
  end.

(* one part as the counters see it: note ids in document order, the notes with their slurs, with their tuplets *)
Record hpart := mkHP { hp_ids : list Z; hp_slurs : list rnote; hp_tuplets : list rnote }.
Definition hscore := list hpart.

(* what one call writes for one part: (id, k) per note, slur numbers per note, tuplet numbers per note *)
Definition pobs := (list (Z * Z) * list (list (Z * bool)) * list (list (Z * bool)))%type.

Definition cstate := (idcount * counter * counter)%type.
Definition c0 : cstate := ([], [], []).

Definition save_part (p : hpart) (st : cstate) : pobs * cstate :=
  match st with (ic, sc, tc) =>
    let (wi, ic') := write_ids (hp_ids p) ic in
    let (ws, sc') := export_notes_st (hp_slurs p) sc in
    let (wt, tc') := export_notes_st (hp_tuplets p) tc in
    ((wi, ws, wt), (ic', sc', tc'))
  end.

Fixpoint save_parts (ps : hscore) (st : cstate) : list pobs * cstate :=
  match ps with
  | [] => ([], st)
  | p :: r => let (o, st1) := save_part p st in
              let (l, st2) := save_parts r st1 in (o :: l, st2)
  end.

(* save_musicxml(score): a function of Score.parts alone *)
Definition save (s : hscore) : list pobs := fst (save_parts s c0).

Fixpoint set_nth {A} (i : nat) (x : A) (l : list A) : list A :=
  match l, i with
  | [], _ => []
  | _ :: r, O => x :: r
  | y :: r, S j => y :: set_nth j x r
  end.

Record proc := mkP { p_parts : hscore;                 (* Score.parts *)
                     p_structure : hscore;             (* the parts reachable from Score.part_structure *)
                     p_left : cstate;                  (* the dicts the previous call filled *)
                     p_memo : option (list pobs) }.    (* the previous result *)

Inductive hop :=
| HSave                            (* save_musicxml(score) *)
| HSetPart (i : nat) (p : hpart)   (* score[i] = part *)
| HEdit (i : nat) (p : hpart).     (* part i edited in place / through the Part API: it now reads p *)

Definition edit (o : hop) (pr : proc) : proc :=
  match o with
  | HSave => pr
  | HSetPart i p => mkP (set_nth i p (p_parts pr)) (p_structure pr) (p_left pr) (p_memo pr)
  | HEdit i p => mkP (set_nth i p (p_parts pr)) (set_nth i p (p_structure pr)) (p_left pr) (p_memo pr)
  end.

(* the code: fresh counters, Score.parts *)
Definition step (o : hop) (pr : proc) : proc * option (list pobs) :=
  match o with
  | HSave => let (out, st) := save_parts (p_parts pr) c0 in
             (mkP (p_parts pr) (p_structure pr) st (Some out), Some out)
  | _ => (edit o pr, None)
  end.

(* variant: the counters live at module level *)
Definition step_leaky (o : hop) (pr : proc) : proc * option (list pobs) :=
  match o with
  | HSave => let (out, st) := save_parts (p_parts pr) (p_left pr) in
             (mkP (p_parts pr) (p_structure pr) st (Some out), Some out)
  | _ => (edit o pr, None)
  end.

(* variant: the result is memoised on the score object and never invalidated *)
Definition step_memo (o : hop) (pr : proc) : proc * option (list pobs) :=
  match o with
  | HSave => match p_memo pr with
             | Some out => (pr, Some out)
             | None => let (out, st) := save_parts (p_parts pr) c0 in
                       (mkP (p_parts pr) (p_structure pr) st (Some out), Some out)
             end
  | _ => (edit o pr, None)
  end.

(* variant: the parts are taken from Score.part_structure *)
Definition step_structure (o : hop) (pr : proc) : proc * option (list pobs) :=
  match o with
  | HSave => let (out, st) := save_parts (p_structure pr) c0 in
             (mkP (p_parts pr) (p_structure pr) st (Some out), Some out)
  | _ => (edit o pr, None)
  end.

Fixpoint run_with (stp : hop -> proc -> proc * option (list pobs)) (h : list hop) (pr : proc) : list (list pobs) :=
  match h with
  | [] => []
  | o :: r => let (pr', out) := stp o pr in
              match out with
              | Some x => x :: run_with stp r pr'
              | None => run_with stp r pr'
              end
  end.

Definition run := run_with step.

(* the current Score.parts at every save_musicxml call of a history *)
Fixpoint parts_at (h : list hop) (s : hscore) : list hscore :=
  match h with
  | [] => []
  | HSave :: r => s :: parts_at r s
  | HSetPart i p :: r => parts_at r (set_nth i p s)
  | HEdit i p :: r => parts_at r (set_nth i p s)
  end.

(* Score.parts after a history *)
Fixpoint cur_parts (h : list hop) (s : hscore) : hscore :=
  match h with
  | [] => s
  | HSave :: r => cur_parts r s
  | HSetPart i p :: r => cur_parts r (set_nth i p s)
  | HEdit i p :: r => cur_parts r (set_nth i p s)
  end.

(* ---------------------------------------------------------------- correspondence *)

Definition zz_eqb (a b : Z * Z) : bool := (fst a =? fst b) && (snd a =? snd b).
Definition pobs_eqb (a b : pobs) : bool :=
  match a, b with
  | (ai, asl, atu), (bi, bsl, btu) =>
      list_eqb zz_eqb ai bi && list_eqb (list_eqb ev_eqb) asl bsl && list_eqb (list_eqb ev_eqb) atu btu
  end.

(* one track of a generated history: the score at the first call, the edits and calls, what every call wrote
   (ids with their repetition suffix, slur and tuplet numbers at every note of every part) *)
Definition check_hist (c : hscore * list hop * list (list pobs)) : bool :=
  match c with (s, h, written) =>
    list_eqb (list_eqb pobs_eqb) (run h (mkP s s c0 None)) written
  end.
