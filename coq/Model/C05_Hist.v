(* C05 -- state carried between calls (definitions and boolean checkers only).
     partitura/score.py: Score.__init__ (parts = flat list of the Part objects, part_structure = what was handed over),
                         Score.__setitem__ (writes self.parts[i] ONLY: "TODO: How to update the score structure as well?"),
                         Score.note_array (reads self.parts), unfold_part_maximal / unfold_part_minimal on a Score
                         (deep copy whose .parts is replaced by the unfolded parts; part_structure keeps the folded ones),
                         PartGroup.note_array (reads self.children), ensure_notearray, note_array_from_part_list.
   Parts are OBJECTS: the two views of a Score (parts / part_structure), a list and a PartGroup hold REFERENCES, an
   edit of a part in place (Part.add, Part.remove, tie links) is seen through every reference.  The note array of a
   container is a function of what the container holds NOW: no result is kept between calls. *)
From PV Require Import Lib.Base Model.C05 Model.C05_Ext Model.C05_Disp.
#[local] Open Scope Z_scope.

(* references to part objects; the structure view keeps the nesting *)
Inductive rtree := RLeaf (o : Z) | RGroup (children : list rtree).

Fixpoint rleaves (t : rtree) : list Z :=
  match t with
  | RLeaf o => [o]
  | RGroup cs => flat_map rleaves cs
  end.

Record sstate := mkS {
  s_store : list (Z * itree);   (* what every part object holds now (ILeaf notes maps divisions); latest entry first *)
  s_parts : list Z;             (* Score.parts *)
  s_struct : list rtree         (* Score.part_structure / the list / PartGroup.children *)
}.

Definition empty_leaf : itree := ILeaf [] (maps_of [] [] []) 1.

Definition content (st : list (Z * itree)) (o : Z) : itree :=
  match zlookup o st with Some t => t | None => empty_leaf end.

Fixpoint resolve (st : list (Z * itree)) (t : rtree) : itree :=
  match t with
  | RLeaf o => content st o
  | RGroup cs => IGroup (map (resolve st) cs)
  end.

Fixpoint set_nth {A} (i : nat) (x : A) (l : list A) : list A :=
  match l, i with
  | [], _ => []
  | _ :: r, O => x :: r
  | y :: r, S k => y :: set_nth k x r
  end.

(* Score(partlist) *)
Definition init_score (st : list (Z * itree)) (members : list rtree) : sstate :=
  mkS st (flat_map rleaves members) members.

Inductive op :=
| OPut (o : Z) (t : itree)       (* a part object is created, or edited in place *)
| OSetPart (i : nat) (o : Z)     (* score[i] = part *)
| OSetMember (i : nat) (o : Z)   (* members[i] = part  (the list / PartGroup.children) *)
| OAppend (o : Z)                (* members.append(part) *)
| OUnfold (news : list Z).       (* score = unfold_part_*(score): .parts := the unfolded parts (objects put before) *)

Definition step (s : sstate) (x : op) : sstate :=
  match x with
  | OPut o t => mkS ((o, t) :: s_store s) (s_parts s) (s_struct s)
  | OSetPart i o => mkS (s_store s) (set_nth i o (s_parts s)) (s_struct s)
  | OSetMember i o => mkS (s_store s) (s_parts s) (set_nth i (RLeaf o) (s_struct s))
  | OAppend o => mkS (s_store s) (s_parts s) (s_struct s ++ [RLeaf o])
  | OUnfold news => mkS (s_store s) news (s_struct s)
  end.

Definition run (s : sstate) (ops : list op) : sstate := fold_left step ops s.

(* what is asked for its note array *)
Inductive view_kind :=
| VScore                     (* Score.note_array(), ensure_notearray(score) *)
| VParts (c : container)     (* a list / a PartGroup made of the score's current parts *)
| VMembers (c : container).  (* the list / the PartGroup that is kept between the calls *)

Definition members_of (s : sstate) (v : view_kind) : container * list itree :=
  match v with
  | VScore => (CScore, map (content (s_store s)) (s_parts s))
  | VParts c => (c, map (content (s_store s)) (s_parts s))
  | VMembers c => (c, map (resolve (s_store s)) (s_struct s))
  end.

Definition read (uniq : bool) (s : sstate) (v : view_kind) : option (list row) :=
  ensure_notearray_m uniq (InMany (fst (members_of s v)) (snd (members_of s v))).

(* ---- the two ways to get it wrong (refuted in Proofs/C05_hist.v) *)

(* Score.note_array reading part_structure instead of parts *)
Definition read_struct (uniq : bool) (s : sstate) : option (list row) :=
  ensure_notearray_m uniq (InMany CScore (map (resolve (s_store s)) (s_struct s))).

(* a result kept on the object and served again *)
Definition read_memo (uniq : bool) (cache : option (option (list row))) (s : sstate) (v : view_kind)
  : option (list row) * option (option (list row)) :=
  match cache with
  | Some r => (r, cache)
  | None => (read uniq s v, Some (read uniq s v))
  end.

(* ---- "last write wins", stated on the history read from its END (independent of [run]) *)

Fixpoint content_rev (st0 : list (Z * itree)) (rops : list op) (o : Z) : itree :=
  match rops with
  | [] => content st0 o
  | OPut o' t :: r => if Z.eqb o o' then t else content_rev st0 r o
  | _ :: r => content_rev st0 r o
  end.

Fixpoint part_at_rev (p0 : list Z) (rops : list op) (i : nat) : option Z :=
  match rops with
  | [] => nth_error p0 i
  | OSetPart j o :: r =>
      if Nat.eqb i j then match part_at_rev p0 r i with Some _ => Some o | None => None end
      else part_at_rev p0 r i
  | OUnfold news :: _ => nth_error news i
  | _ :: r => part_at_rev p0 r i
  end.

(* ---- correspondence: a session of operations and readings; every reading is compared with the array of the
        state at that moment *)

Inductive hstep :=
| HOp (x : op)
| HRead (v : view_kind) (uniq : bool) (o : opts) (impl : list obs).

Fixpoint session_ok (s : sstate) (l : list hstep) : bool :=
  match l with
  | [] => true
  | HOp x :: r => session_ok (step s x) r
  | HRead v uniq o impl :: r =>
      match read uniq s v with
      | Some rows => same_table (map (view o) rows) impl
      | None => false
      end && session_ok s r
  end.

Definition session_case_ok (st : list (Z * itree)) (members : list rtree) (l : list hstep) : bool :=
  session_ok (init_score st members) l.
