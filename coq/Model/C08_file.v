(* C08 -- the file as a whole: header (info lines) built by the exporter, the importer's lookup of
   the clock in it, and the performance read from a file with THAT clock; a chain of legs.
   Executable definitions only; proofs are in Proofs/C08_file.v.

   exporter  partitura/io/exportmatch.py : matchfile_from_alignment (header_lines dict,
             header_order, defaults mpq=500000 ppq=480, "-" for an option not given), save_match
   importer  partitura/io/matchfile_base.py : MatchFile.info (list.index: FIRST info line with
             the attribute, None when there is none),
             partitura/io/importmatch.py : performed_part_from_match (mpq/ppq from the header,
             seconds of notes and pedals from them, first_note_at_zero) *)
From PV Require Import Lib.Base Model.C12 Model.C08.
From Coq Require Import Ascii String QArith.
#[local] Open Scope string_scope.
#[local] Open Scope Z_scope.

(* value of an info line: an integer (clock) or text (everything else, the version as text) *)
Inductive hval := HInt (z : Z) | HStr (s : string).
Definition hval_eqb (a b : hval) : bool :=
  match a, b with
  | HInt x, HInt y => x =? y
  | HStr x, HStr y => String.eqb x y
  | _, _ => false
  end.
Definition info_line := (string * hval)%type.      (* Attribute, Value *)

(* the optional texts of save_match *)
Record opts := mkO { o_performer : option string; o_piece : option string; o_composer : option string;
                     o_score_fn : option string; o_perf_fn : option string }.
(* "-" if x is None else x *)
Definition dash (o : option string) : string := match o with None => "-" | Some s => s end.
(* ppq / mpq: None = the argument was left out of the call *)
Definition arg_ppq (o : option Z) : Z := match o with None => 480 | Some z => z end.
Definition arg_mpq (o : option Z) : Z := match o with None => 500000 | Some z => z end.

(* header_lines: a dict key -> info line, in insertion order *)
Definition header_dict (ver : string) (o : opts) (ppq mpq : Z) : list (string * info_line) :=
  [ ("version", ("matchFileVersion", HStr ver));
    ("performer", ("performer", HStr (dash (o_performer o))));
    ("piece", ("piece", HStr (dash (o_piece o))));
    ("composer", ("composer", HStr (dash (o_composer o))));
    ("score_filename", ("scoreFileName", HStr (dash (o_score_fn o))));
    ("performance_filename", ("midiFileName", HStr (dash (o_perf_fn o))));
    ("clock_units", ("midiClockUnits", HInt ppq));
    ("clock_rate", ("midiClockRate", HInt mpq)) ].

Definition header_order : list string :=
  [ "version"; "piece"; "score_filename"; "performance_filename"; "composer"; "performer";
    "clock_units"; "clock_rate"; "key_signatures"; "time_signatures"; "tempo_indication" ].

Fixpoint slookup {A} (k : string) (l : list (string * A)) : option A :=
  match l with
  | [] => None
  | (k', v) :: r => if String.eqb k k' then Some v else slookup k r
  end.

(* for h in header_order: if h in header_lines: append(header_lines[h]) *)
Definition assemble (order : list string) (d : list (string * info_line)) : list info_line :=
  flat_map (fun h => match slookup h d with Some l => [l] | None => [] end) order.

Definition header_of (ver : string) (o : opts) (ppq mpq : option Z) : list info_line :=
  assemble header_order (header_dict ver o (arg_ppq ppq) (arg_mpq mpq)).

(* MatchFile.info(attribute): [i.Attribute for i in _info].index(attribute) -> first; None if absent *)
Definition info (attr : string) (l : list info_line) : option hval := slookup attr l.

(* the clock performed_part_from_match works with; None = the loader cannot go on
   (midi_ticks_to_seconds of None raises) *)
Definition clock_of (l : list info_line) : option (Z * Z) :=
  match info "midiClockUnits" l, info "midiClockRate" l with
  | Some (HInt p), Some (HInt m) => Some (p, m)
  | _, _ => None
  end.

(* the parts of a match file the performance is made from *)
Record mfile := mkMF { mf_info : list info_line; mf_notes : list fnote; mf_peds : list ped }.

Definition save_file (ver : string) (o : opts) (ppq mpq : option Z)
           (notes : list pnote) (cs : list ctrl) : mfile :=
  let P := arg_ppq ppq in let M := arg_mpq mpq in
  mkMF (header_of ver o ppq mpq) (map (exp_note P M) notes) (ped_lines P M cs).

(* first_note_at_zero: offset = min of the onsets in seconds, offset_tick = min of the onset ticks;
   only when both are > 0 every note is shifted (pedals are not) *)
Fixpoint qmin_list (d : Q) (l : list Q) : Q :=
  match l with [] => d | x :: r => let m := qmin_list x r in if Qle_bool d m then d else m end.
Fixpoint zmin_list (d : Z) (l : list Z) : Z :=
  match l with [] => d | x :: r => Z.min d (zmin_list x r) end.
Definition stored_on (p : pnote) : Z := match p_stored p with Some (a, _) => a | None => 0 end.
Definition shift_note (dq : Q) (dk : Z) (p : pnote) : pnote :=
  mkP (p_pitch p) (p_vel p) (p_on p - dq) (p_off p - dq)
      (match p_stored p with Some (a, b) => Some (a - dk, b - dk) | None => None end).
Definition first_at_zero (flag : bool) (l : list pnote) : list pnote :=
  match flag, l with
  | true, x :: r =>
      let dq := qmin_list (p_on x) (map p_on r) in
      let dk := zmin_list (stored_on x) (map stored_on r) in
      if Qle_bool dq 0 || (dk <=? 0) then l else map (shift_note dq dk) l
  | _, _ => l
  end.

(* performed_part_from_match: clock from the header, notes and pedals with it *)
Definition load_perf (zero : bool) (f : mfile) : option (Z * Z * list pnote * list ctrl) :=
  match clock_of (mf_info f) with
  | None => None
  | Some (p, m) => Some (p, m, first_at_zero zero (map (imp_note p m) (mf_notes f)),
                          ped_load p m (ped_read (mf_peds f)))
  end.

(* one leg at the level of the file, and a chain of legs (save with clock c, load, save with the
   next clock ...) *)
Definition file_leg (ver : string) (o : opts) (c : option Z * option Z)
           (st : list pnote * list ctrl) : option (Z * Z * list pnote * list ctrl) :=
  load_perf false (save_file ver o (fst c) (snd c) (fst st) (snd st)).

Fixpoint legs (ver : string) (o : opts) (cl : list (option Z * option Z))
         (st : list pnote * list ctrl) : option (list pnote * list ctrl) :=
  match cl with
  | [] => Some st
  | c :: r => match file_leg ver o c st with
              | Some (_, _, ns, cs) => legs ver o r (ns, cs)
              | None => None
              end
  end.

Definition clock_half (c : option Z * option Z) : Q := half_tick (arg_ppq (fst c)) (arg_mpq (snd c)).
Fixpoint drift (cl : list (option Z * option Z)) : Q :=
  match cl with [] => 0 | c :: r => clock_half c + drift r end.

(* ---- variants the theorems tell apart (not the code) ---- *)
(* the header written from the clock ATTRIBUTES of the performed part instead of the arguments *)
Definition save_file_part_clock (ver : string) (o : opts) (ppq mpq : option Z) (own : Z * Z)
           (notes : list pnote) (cs : list ctrl) : mfile :=
  let P := arg_ppq ppq in let M := arg_mpq mpq in
  mkMF (assemble header_order (header_dict ver o (fst own) (snd own)))
       (map (exp_note P M) notes) (ped_lines P M cs).
(* a key of header_order that is not a key of the dict: the line is silently left out *)
Definition header_order_typo : list string :=
  [ "version"; "piece"; "score_filename"; "performance_filename"; "composer"; "performer";
    "clock_unit"; "clock_rate" ].

(* ---- checkers ---- *)
Definition hopt_eqb (a b : option hval) : bool :=
  match a, b with
  | Some x, Some y => hval_eqb x y
  | None, None => true
  | _, _ => false
  end.
Definition header_attrs : list string :=
  [ "matchFileVersion"; "piece"; "scoreFileName"; "midiFileName"; "composer"; "performer";
    "midiClockUnits"; "midiClockRate" ].

Definition clock_attrs : list string := [ "midiClockUnits"; "midiClockRate" ].

(* informational (the property names the clock, not the texts of the header): all eight lines *)
Definition chk_header_texts (c : string * (option string * option string * option string * option string * option string)
                           * (option Z * option Z) * list info_line * (Z * Z)
                           * list (Z * Z * Z * Z) * list (Z * Z * Q * Q)) : bool :=
  let '(ver, (a, b, c', d, e), (ppq, mpq), file, _, _, _) := c in
  let model := header_of ver (mkO a b c' d e) ppq mpq in
  (Nat.eqb (List.length model) (List.length file)) &&
  forallb (fun at_ => hopt_eqb (info at_ model) (info at_ file)) header_attrs.

(* (version, options, ppq/mpq given or left out, info lines of the written file, clock of the loaded
   performance, played notes of the file (at most a few), the same notes loaded: ticks, seconds) *)
Definition chk_header (c : string * (option string * option string * option string * option string * option string)
                           * (option Z * option Z) * list info_line * (Z * Z)
                           * list (Z * Z * Z * Z) * list (Z * Z * Q * Q)) : bool :=
  let '(ver, (a, b, c', d, e), (ppq, mpq), file, (lp, lm), fns, got) := c in
  let o := mkO a b c' d e in
  let model := header_of ver o ppq mpq in
  forallb (fun at_ => hopt_eqb (info at_ model) (info at_ file)) clock_attrs &&
  match load_perf false (mkMF file (map (fun t => let '(pi, ve, on, off) := t in mkF pi ve on off) fns) []) with
  | Some (p, m, ns, _) =>
      (p =? lp) && (m =? lm) && (p =? arg_ppq ppq) && (m =? arg_mpq mpq) &&
      forall2b (fun (n : pnote) (g : Z * Z * Q * Q) =>
                  let '(kon, koff, son, soff) := g in
                  match p_stored n with Some (x, y) => (x =? kon) && (y =? koff) | None => false end &&
                  q_near son (p_on n) && q_near soff (p_off n)) ns got
  | None => false
  end.

(* a file not written by this exporter (fixtures of all versions): (info lines, clock loaded or None
   when the loader raised, played notes, the same loaded, first_note_at_zero) *)
Definition chk_file_clock (c : list info_line * option (Z * Z) * list (Z * Z * Z * Z) * list (Z * Z * Q * Q) * bool) : bool :=
  let '(file, loaded, fns, got, zero) := c in
  match load_perf zero (mkMF file (map (fun t => let '(pi, ve, on, off) := t in mkF pi ve on off) fns) []), loaded with
  | Some (p, m, ns, _), Some (lp, lm) =>
      (p =? lp) && (m =? lm) &&
      forall2b (fun (n : pnote) (g : Z * Z * Q * Q) =>
                  let '(kon, koff, son, soff) := g in
                  match p_stored n with Some (x, y) => (x =? kon) && (y =? koff) | None => false end &&
                  q_near son (p_on n) && q_near soff (p_off n)) ns got
  | None, None => true
  | _, _ => false
  end.
