(* C03 -- tie links: what the exporter writes at a note and how the importer pairs it (round j extension).

   Executable model (no proofs here) of
     partitura/io/exportmusicxml.py  make_note_el:   <tie type="stop"/> iff note.tie_prev is not None,
                                                     <tie type="start"/> iff note.tie_next is not None   -> export_tie
     partitura/io/importmusicxml.py  _handle_note:   tie_key = ("tie", getattr(note, "midi_pitch", "rest"));
                                                     the SET of the types of the <tie> children;
                                                     "stop": tie_prev = ongoing.get(tie_key); if found: link both
                                                             directions and DELETE the key (a stop that finds nothing
                                                             is dropped silently);
                                                     then "start": ongoing[tie_key] = note (OVERWRITING whatever
                                                             waited there)                                -> tie_step
   `ongoing` lives for the whole part (it is not cleared at a barline), so the list below is the list of ALL <note>
   elements of one written part in document order.

   A note is an integer (its index in document order); the key is the MIDI pitch, -1 for a rest ("rest"). The voice
   is the voice the note was WRITTEN in (after the exporter's voice re-assignment); the code does not look at it --
   it is here so that the variant that does (key per voice) is expressible. *)
From PV Require Import Lib.Base.
#[local] Open Scope Z_scope.

Record tnote := mkT { t_id : Z; t_key : Z; t_voice : Z; t_prev : option Z; t_next : option Z }.
Record wtie := mkW { w_id : Z; w_key : Z; w_voice : Z; w_stop : bool; w_start : bool }.

Definition is_some {A} (o : option A) : bool := match o with Some _ => true | None => false end.

(* ---------------------------------------------------------------- exporter *)
Definition export_tie (n : tnote) : wtie :=
  mkW (t_id n) (t_key n) (t_voice n) (is_some (t_prev n)) (is_some (t_next n)).
Definition export_ties (l : list tnote) : list wtie := map export_tie l.

(* ---------------------------------------------------------------- importer *)
Record tst := mkS { ongoing : Z -> option Z; links : list (Z * Z) }.    (* links: (tie_prev, note), oldest first *)
Definition tupd (f : Z -> option Z) (k : Z) (v : option Z) : Z -> option Z := fun j => if j =? k then v else f j.
Definition tst0 : tst := mkS (fun _ => None) [].

Definition stop_step (kf : wtie -> Z) (w : wtie) (s : tst) : tst :=
  if w_stop w then
    match ongoing s (kf w) with
    | Some p => mkS (tupd (ongoing s) (kf w) None) (links s ++ [(p, w_id w)])
    | None => s
    end
  else s.
Definition start_step (kf : wtie -> Z) (w : wtie) (s : tst) : tst :=
  if w_start w then mkS (tupd (ongoing s) (kf w) (Some (w_id w))) (links s) else s.

(* the code: stop first, then start, both under the key of the note's pitch *)
Definition tie_step_with (kf : wtie -> Z) (w : wtie) (s : tst) : tst := start_step kf w (stop_step kf w s).
Definition import_ties_with (kf : wtie -> Z) (ws : list wtie) (s : tst) : tst :=
  fold_left (fun s w => tie_step_with kf w s) ws s.
Definition tie_step : wtie -> tst -> tst := tie_step_with w_key.
Definition import_ties : list wtie -> tst -> tst := import_ties_with w_key.

(* natural slips (refuted in Proofs/C03_Tie.v): the key also holds the voice (seed b_tie_key_per_voice); the start is
   handled before the stop (the slip of seed j for tuplets) *)
Definition key_voice (w : wtie) : Z := w_key w * 1000 + w_voice w.
Definition import_ties_start_first (ws : list wtie) (s : tst) : tst :=
  fold_left (fun s w => stop_step w_key w (start_step w_key w s)) ws s.

(* ---------------------------------------------------------------- SPEC: the links of the score itself *)
Definition prev_links (l : list tnote) : list (Z * Z) :=
  flat_map (fun n => match t_prev n with Some p => [(p, t_id n)] | None => [] end) l.
Definition next_links (l : list tnote) : list (Z * Z) :=
  flat_map (fun n => match t_next n with Some m => [(t_id n, m)] | None => [] end) l.

(* a note that takes part in a tie *)
Definition marked (n : tnote) : bool := is_some (t_prev n) || is_some (t_next n).
Fixpoint first_marked (k : Z) (l : list tnote) : option tnote :=
  match l with
  | [] => None
  | n :: r => if (t_key n =? k) && marked n then Some n else first_marked k r
  end.
(* the most recent tied note of pitch k in the prefix a *)
Definition last_marked (k : Z) (a : list tnote) : option tnote := first_marked k (List.rev a).

(* "concurrently tied notes of one part have distinct pitches", on the document order and on the score alone: the most
   recent tied note of the same pitch before a note with a tie_prev IS that tie_prev, and it points onwards *)
Definition ties_by_pitch (l : list tnote) : Prop :=
  forall a n b p, l = a ++ n :: b -> t_prev n = Some p ->
    exists n0, last_marked (t_key n) a = Some n0 /\ t_id n0 = p /\ t_next n0 <> None.

(* the links are symmetric: n.tie_next = m iff m.tie_prev = n *)
Definition ties_symmetric (l : list tnote) : Prop := forall x, In x (next_links l) <-> In x (prev_links l).

(* what `ongoing[("tie", k)]` holds after the prefix a, said without running the reader *)
Definition open_tie (a : list tnote) (k : Z) : option Z :=
  match last_marked k a with
  | Some n0 => if is_some (t_next n0) then Some (t_id n0) else None
  | None => None
  end.

(* ---------------------------------------------------------------- boolean checkers *)
Fixpoint tbp_go (arev : list tnote) (l : list tnote) : bool :=
  match l with
  | [] => true
  | n :: r =>
      (match t_prev n with
       | None => true
       | Some p => match first_marked (t_key n) arev with
                   | Some n0 => (t_id n0 =? p) && is_some (t_next n0)
                   | None => false
                   end
       end) && tbp_go (n :: arev) r
  end.
Definition ties_by_pitch_b (l : list tnote) : bool := tbp_go [] l.

Definition pr_eqb (a b : Z * Z) : bool := (fst a =? fst b) && (snd a =? snd b).
Definition pr_mem (x : Z * Z) (l : list (Z * Z)) : bool := existsb (pr_eqb x) l.
Definition ties_symmetric_b (l : list tnote) : bool :=
  forallb (fun x => pr_mem x (prev_links l)) (next_links l) && forallb (fun x => pr_mem x (next_links l)) (prev_links l).

Definition pr_le (a b : Z * Z) : bool :=
  if fst a <? fst b then true else if fst b <? fst a then false else snd a <=? snd b.
Fixpoint pr_ins (x : Z * Z) (l : list (Z * Z)) : list (Z * Z) :=
  match l with [] => [x] | y :: r => if pr_le x y then x :: l else y :: pr_ins x r end.
Definition pr_sort (l : list (Z * Z)) : list (Z * Z) := fold_right pr_ins [] l.

Definition wtie_eqb (a b : wtie) : bool :=
  (w_id a =? w_id b) && (w_key a =? w_key b) && (w_voice a =? w_voice b) &&
  Bool.eqb (w_stop a) (w_stop b) && Bool.eqb (w_start a) (w_start b).

(* one written part: the score's notes in the document order of the file with the score's tie_prev / tie_next; what
   was written at every <note> (pitch key from <pitch>/<unpitched>/<rest>, voice, <tie> types); the (tie_prev, note)
   links and the (note, tie_next) links of the LOADED part.  The exporter model writes what the code wrote, the
   importer model links what the code linked (both directions name the same pairs). *)
Definition check_ties (c : list tnote * list wtie * list (Z * Z) * list (Z * Z)) : bool :=
  match c with (l, written, loaded_prev, loaded_next) =>
    list_eqb wtie_eqb (export_ties l) written &&
    (let got := pr_sort (links (import_ties written tst0)) in
     list_eqb pr_eqb got (pr_sort loaded_prev) && list_eqb pr_eqb got (pr_sort loaded_next))
  end.

(* the hypotheses of tie_links_roundtrip / tie_links_both_directions hold on the score's part (counted) *)
Definition ties_hyp_b (c : list tnote * list wtie * list (Z * Z) * list (Z * Z)) : bool :=
  match c with (l, _, _, _) => ties_by_pitch_b l && ties_symmetric_b l end.
