(* C03: the text of a <words> direction through one PROCESS (partitura/directions.py parse_direction as called by
   importmusicxml._handle_direction; exportmusicxml.do_directions writes raw_text or text).
   A text is the list of its code points.  What is inside: the raw text every direction parsed from a text states
   (create_directions: string[start:end] of the sub-tree of the direction: one direction per comma-separated piece, outer
   blanks not part of it), the process state between two parses (the code keeps NONE: DEFAULT_PARSER is a constant), and
   two variants that do keep something (a memo keyed by the case-folded text, a memo keyed by the blank-normalised
   text) so that the statements are not vacuous.  What is NOT inside: the grammar (which class / normalised text a piece
   gets; compared by the fingerprint, O2). *)
From Coq Require Import ZArith List Bool.
From PV Require Import Lib.Base.
Import ListNotations.
Open Scope Z_scope.

Definition text := list Z.

Definition blank (c : Z) : bool := (c =? 32) || (c =? 9).
Definition comma : Z := 44.

Fixpoint lstrip (t : text) : text :=
  match t with
  | c :: r => if blank c then lstrip r else t
  | [] => []
  end.
Definition strip (t : text) : text := rev (lstrip (rev (lstrip t))).

(* split at commas: the piece being read is accumulated in reverse *)
Fixpoint split_go (acc : text) (t : text) : list text :=
  match t with
  | [] => [rev acc]
  | c :: r => if c =? comma then rev acc :: split_go [] r else split_go (c :: acc) r
  end.
Definition pieces (t : text) : list text := map strip (split_go [] t).

(* importer: the raw texts of the directions made from one <words> element *)
Definition words_load (t : text) : list text := pieces t.
(* exporter: the <words> element of a direction *)
Definition words_save (raw : text) : text := raw.

Definition fold_c (c : Z) : Z := if (65 <=? c) && (c <=? 90) then c + 32 else c.
Definition casefold (t : text) : text := map fold_c t.
Fixpoint squeeze_go (prev : bool) (t : text) : text :=      (* runs of blanks -> one blank *)
  match t with
  | c :: r => if blank c then (if prev then squeeze_go true r else 32 :: squeeze_go true r) else c :: squeeze_go false r
  | [] => []
  end.
Definition squeeze (t : text) : text := squeeze_go false t.

Fixpoint text_eqb (a b : text) : bool :=
  match a, b with
  | [], [] => true
  | x :: a', y :: b' => (x =? y) && text_eqb a' b'
  | _, _ => false
  end.

(* process state: what parses so far left behind, as (key, result) *)
Definition memo := list (text * list text).
Fixpoint lookup (k : text) (m : memo) : option (list text) :=
  match m with
  | [] => None
  | (k', v) :: r => if text_eqb k k' then Some v else lookup k r
  end.

(* the code: nothing is kept *)
Definition step (m : memo) (t : text) : memo * list text := (m, words_load t).
(* variants that keep the first result under a normalised key *)
Definition step_keyed (key : text -> text) (m : memo) (t : text) : memo * list text :=
  match lookup (key t) m with
  | Some v => (m, v)
  | None => ((key t, words_load t) :: m, words_load t)
  end.

Fixpoint run_with (st : memo -> text -> memo * list text) (m : memo) (h : list text) : list (list text) :=
  match h with
  | [] => []
  | t :: r => let '(m', v) := st m t in v :: run_with st m' r
  end.
Definition run := run_with step.

(* a text a direction can state and get back: no comma, no outer blank *)
Definition clean (t : text) : Prop :=
  ~ In comma t /\ (forall c r, t = c :: r -> blank c = false) /\ (forall c r, rev t = c :: r -> blank c = false).
Definition clean_b (t : text) : bool :=
  negb (existsb (fun c => c =? comma) t) &&
  match t with c :: _ => negb (blank c) | [] => true end &&
  match rev t with c :: _ => negb (blank c) | [] => true end.

(* correspondence: the <words> texts of the files loaded one after the other in one process, in document order per file,
   and per file the raw texts of the loaded directions (as a multiset) *)
Fixpoint count_t (x : text) (l : list text) : nat :=
  match l with [] => O | y :: r => (if text_eqb x y then 1 else 0) + count_t x r end.
Definition perm_b (a b : list text) : bool :=
  Nat.eqb (List.length a) (List.length b) && forallb (fun x => Nat.eqb (count_t x a) (count_t x b)) a.
Definition check_texts (c : list (list text * list text)) : bool :=
  let files := map fst c in
  let outs := run [] (List.concat files) in
  (* cut the outputs per file *)
  (fix go (fs : list (list text * list text)) (o : list (list text)) : bool :=
     match fs with
     | [] => true
     | (f, obs) :: r => perm_b (List.concat (firstn (List.length f) o)) obs && go r (skipn (List.length f) o)
     end) c outs.
