(* C01 -- index-level model of the timeline code of partitura/score.py: the arithmetic on array indices
   the code really does, the rich comparison it relies on, and the cached quarter-duration map.
   Definitions only; Proofs/C01_idx.v proves that on a well-formed part every definition below computes
   what its list-level counterpart of Model/C01.v computes (so every theorem about `step` holds for
   `step_idx`), and the correspondence evaluates BOTH on the same histories.

   * utils/generic.py ComparableMixin: the six rich comparisons go through `_compare(other, method)` on
     `_cmpkey()`; TimePoint._cmpkey is the time.  `TimePoint(np.inf)` (set_quarter_duration, no later
     change) has the key +infinity = None.
   * np.searchsorted(points, tp) (side='left') on an object array is a binary search that only asks
     `points[mid] < tp` (npy_binsearch: min/max/mid, `mid = min + ((max - min) >> 1)`).
   * np.insert / np.delete / points[i] / points[a:b] / `for tp in points[a:b]: tp.quarter = q`
     are firstn/skipn/nth_error/upd_nth/upd_range.
   * Part._quarter_map is a CACHED interpolator, rebuilt only at the end of set_quarter_duration;
     get_or_add_point reads the cache, not the tables.  The state of the index-level model therefore is
     (part, cache) where cache is the table the interpolator was built from. *)
From PV Require Import Lib.Base Gen.C01_ClassTree Model.C01.

(* ---------------------------------------------------------------- ComparableMixin *)
Inductive cmpop := CLt | CLe | CEq | CGe | CGt | CNe.
Definition key := option Z.       (* None = +inf *)

Definition cmp_method (m : cmpop) (s o : key) : bool :=
  match s, o with
  | Some a, Some b =>
      match m with
      | CLt => a <? b | CLe => a <=? b | CEq => a =? b
      | CGe => b <=? a | CGt => b <? a | CNe => negb (a =? b)
      end
  | Some _, None => match m with CLt | CLe | CNe => true | _ => false end
  | None, Some _ => match m with CGt | CGe | CNe => true | _ => false end
  | None, None => match m with CLe | CEq | CGe => true | _ => false end
  end.

(* TimePoint._cmpkey *)
Definition cmpkey (q : point) : key := Some (pt q).
(* ComparableMixin._compare(self, other, method) where other is a TimePoint with key k *)
Definition tp_compare (m : cmpop) (a : point) (k : key) : bool := cmp_method m (cmpkey a) k.

(* ---------------------------------------------------------------- numpy on object arrays *)
(* npy_binsearch, side = left: the only question asked is `arr[mid] < key` (= below (arr[mid])) *)
Fixpoint bsearch {A} (fuel : nat) (below : A -> bool) (l : list A) (lo hi : nat) : nat :=
  match fuel with
  | O => lo
  | S f =>
      if (lo <? hi)%nat then
        let mid := (lo + Nat.div2 (hi - lo))%nat in
        match nth_error l mid with
        | Some x => if below x then bsearch f below l (S mid) hi else bsearch f below l lo mid
        | None => lo
        end
      else lo
  end.
Definition searchsorted {A} (l : list A) (below : A -> bool) : nat :=
  bsearch (S (List.length l)) below l 0 (List.length l).

(* np.searchsorted(self._points, TimePoint(k)) *)
Definition idx_of (ps : list point) (k : key) : nat := searchsorted ps (fun x => tp_compare CLt x k).

Definition np_insert {A} (i : nat) (x : A) (l : list A) : list A := firstn i l ++ x :: skipn i l.
Definition np_delete {A} (i : nat) (l : list A) : list A := firstn i l ++ skipn (S i) l.
Fixpoint upd_nth {A} (i : nat) (f : A -> A) (l : list A) : list A :=
  match l with
  | [] => []
  | a :: r => match i with O => f a :: r | S j => a :: upd_nth j f r end
  end.
(* for x in l[si:ei]: x := f x *)
Fixpoint upd_range {A} (si ei : nat) (f : A -> A) (l : list A) : list A :=
  match l with
  | [] => []
  | a :: r =>
      match si with
      | S s => a :: upd_range s (Nat.pred ei) f r
      | O => match ei with O => l | S e => f a :: upd_range O e f r end
      end
  end.
(* l[si:ei] *)
Definition pyslice {A} (si ei : nat) (l : list A) : list A := firstn (ei - si) (skipn si l).

(* points[j].next = points[j+1]; points[j+1].prev = points[j] *)
Definition link_pair (j : nat) (ps : list point) : list point :=
  match nth_error ps j, nth_error ps (S j) with
  | Some a, Some b => upd_nth (S j) (set_prev (Some (pt a))) (upd_nth j (set_next (Some (pt b))) ps)
  | _, _ => ps
  end.

(* ---------------------------------------------------------------- Part._add_point *)
Definition add_point_idx (tp : point) (ps : list point) : list point :=
  let i := idx_of ps (cmpkey tp) in
  if (i =? List.length ps)%nat
     || negb (match nth_error ps i with Some q => pt q =? pt tp | None => false end) then
    let ps1 := np_insert i tp ps in
    let ps2 := if (0 <? i)%nat then link_pair (i - 1) ps1 else ps1 in
    if (i <? List.length ps2 - 1)%nat then link_pair i ps2 else ps2
  else ps.

(* ---------------------------------------------------------------- Part._remove_point; None = IndexError *)
Definition remove_point_idx (t : Z) (ps : list point) : option (list point) :=
  let i := idx_of ps (Some t) in
  match nth_error ps i with
  | None => None
  | Some q =>
      if tp_compare CEq q (Some t) then
        let ps1 := np_delete i ps in
        let prev_tp := if (0 <? i)%nat then nth_error ps1 (i - 1) else None in
        let next_tp := if (i <? List.length ps1)%nat then nth_error ps1 i else None in
        let ps2 := match prev_tp with
                   | Some _ => upd_nth (i - 1) (set_next (option_map pt next_tp)) ps1
                   | None => ps1
                   end in
        Some (match next_tp with
              | Some _ => upd_nth i (set_prev (option_map pt prev_tp)) ps2
              | None => ps2
              end)
      else Some ps
  end.

(* ---------------------------------------------------------------- Part.get_point *)
Definition get_point_idx (t : Z) (ps : list point) : option point :=
  let i := idx_of ps (Some t) in
  if (i <? List.length ps)%nat then
    match nth_error ps i with Some q => if pt q =? t then Some q else None | None => None end
  else None.

Definition cleanup_point_idx (t : Z) (ps : list point) : option (list point) :=
  match find_pt t ps with
  | Some q => if is_empty q then remove_point_idx t ps else Some ps
  | None => Some ps
  end.

(* ---------------------------------------------------------------- the quarter-duration tables *)
(* i = np.searchsorted(times, t); replace / insert / nothing.  -> (table, changed, i) *)
Definition set_q_tab_idx (t q : Z) (tab : list (Z * Z)) : list (Z * Z) * bool * nat :=
  let i := searchsorted tab (fun e => fst e <? t) in
  (* elif i == 0 or quarters[i - 1] != quarter: insert *)
  let ins := if (i =? 0)%nat || negb (match nth_error tab (i - 1) with Some e => snd e =? q | None => false end)
             then (np_insert i (t, q) tab, true, i) else (tab, false, i) in
  match nth_error tab i with            (* i < len(times) *)
  | Some e =>
      if fst e =? t then
        if snd e =? q then (tab, false, i) else (upd_nth i (fun _ => (t, q)) tab, true, i)
      else ins
  | None => ins
  end.

Definition istate := (part * list (Z * Z))%type.

(* Part.set_quarter_duration *)
Definition set_quarter_duration_idx (st : istate) (t q : Z) : istate :=
  let '(p, cache) := st in
  let '(tab', changed, i) := set_q_tab_idx t q (qtab p) in
  if changed then
    (* t_next = np.inf if i + 1 == len(times) else times[i + 1] *)
    let tn : key := match nth_error tab' (S i) with Some e => Some (fst e) | None => None end in
    let si := idx_of (points p) (Some t) in
    let ei := idx_of (points p) tn in
    (mkPart (upd_range si ei (set_quarter q) (points p)) tab' (ostart p) (oend p), tab')   (* _quarter_map rebuilt *)
  else st.

(* ---------------------------------------------------------------- operations *)
(* Part.get_or_add_point: a new point takes int(self._quarter_map(t)) -- the CACHED map *)
Definition get_or_add_point_idx (st : istate) (t : Z) : istate :=
  let '(p, cache) := st in
  match get_point_idx t (points p) with
  | Some _ => st
  | None => (mkPart (add_point_idx (fresh_point t (qd_at cache t)) (points p)) (qtab p) (ostart p) (oend p), cache)
  end.

Definition add_side_idx (s : side) (st : istate) (o : obj) (t : Z) : istate :=
  let '(p1, cache) := get_or_add_point_idx st t in
  (set_oref s (fset (oref s p1) o (Some t))
     (upd_at t (fun q => set_preg s (oset_add o (preg s q)) q) (points p1)) p1, cache).

Definition add_opt_idx (s : side) (r : istate * out) (o : obj) (t : option Z) : istate * out :=
  match r with
  | (st, OutOk) =>
      match t with
      | None => (st, OutOk)
      | Some t => if t <? 0 then (st, OutInvalidTime) else (add_side_idx s st o t, OutOk)
      end
  | _ => r
  end.

Definition add_idx (st : istate) (o : obj) (s e : option Z) : istate * out :=
  if neg_opt s || neg_opt e then (st, OutInvalidTime)
  else add_opt_idx SEnd (add_opt_idx SStart (st, OutOk) o s) o e.

Definition remove_side_idx (s : side) (st : istate) (o : obj) : istate * out :=
  let '(p, cache) := st in
  match oref s p o with
  | None => (st, OutOk)
  | Some t =>
      let ps1 := upd_at t (fun q => set_preg s (oset_remove o (preg s q)) q) (points p) in
      match cleanup_point_idx t ps1 with
      | None => ((set_oref s (oref s p) ps1 p, cache), OutIndexError)
      | Some ps2 => ((set_oref s (fset (oref s p) o None) ps2 p, cache), OutOk)
      end
  end.

Definition remove_idx (st : istate) (o : obj) (w : which) : istate * out :=
  match w with
  | WStart => remove_side_idx SStart st o
  | WEnd => remove_side_idx SEnd st o
  | WBoth => match remove_side_idx SStart st o with
             | (st1, OutOk) => remove_side_idx SEnd st1 o
             | r => r
             end
  end.

Definition step_idx (st : istate) (o : op) : istate * out :=
  match o with
  | OAdd ob s e => add_idx st ob s e
  | ORemove ob w => remove_idx st ob w
  | OSetQ t q => (set_quarter_duration_idx st t q, OutOk)
  | OGetOrAdd t => if t <? 0 then (st, OutInvalidTime) else (get_or_add_point_idx st t, OutOk)
  | OTpRemove ob s => ((tp_remove s (fst st) ob, snd st), OutOk)      (* no index arithmetic in TimePoint.remove_* *)
  end.

Fixpoint run_idx (st : istate) (ops : list op) : istate :=
  match ops with [] => st | o :: r => run_idx (fst (step_idx st o)) r end.

Definition init_idx (q0 : Z) : istate := (init q0, [(0, q0)]).

(* ---------------------------------------------------------------- queries *)
(* Part.iter_all: self._points[start_idx:end_idx] *)
Definition iter_all_idx (p : part) (c : option Z) (a b : option Z) (sub : bool) (mode : side) : list (Z * obj) :=
  let si := match a with Some t => idx_of (points p) (Some t) | None => O end in
  let ei := match b with Some t => idx_of (points p) (Some t) | None => List.length (points p) end in
  flat_map (tagged mode c sub) (pyslice si ei (points p)).

(* self._points[0] / self._points[-1] if len(self._points) > 0 else None *)
Definition first_point_idx (p : part) : option Z :=
  if (0 <? List.length (points p))%nat then option_map pt (nth_error (points p) 0) else None.
Definition last_point_idx (p : part) : option Z :=
  if (0 <? List.length (points p))%nat then option_map pt (nth_error (points p) (List.length (points p) - 1)) else None.

(* all six operators on TimePoint(a), TimePoint(b), in the order < <= == >= > != *)
Definition all_cmp (a b : Z) : list bool :=
  map (fun m => tp_compare m (fresh_point a 0) (cmpkey (fresh_point b 0))) [CLt; CLe; CEq; CGe; CGt; CNe].

Definition bools_eqb := list_eqb Bool.eqb.

Definition query_ok_idx (st : istate) (q : query) (r : qres) : bool :=
  let p := fst st in
  match q, r with
  | QIterAll c a b sub mode, RObjs l =>
      let m := iter_all_idx p c a b sub mode in times_eqb m l && tobjs_eqb (sort_tobjs m) l
  | QFirstLast, RTimes a b => zopt_eqb (first_point_idx p) a && zopt_eqb (last_point_idx p) b
  | QGetPoint t, RTimes a _ => zopt_eqb (option_map pt (get_point_idx t (points p))) a
  | QSearch t, RIdx i => Z.of_nat (idx_of (points p) (Some t)) =? i
  | QCmp a b, RBools l => bools_eqb (all_cmp a b) l
  | QCachedMap s, RVal v => qd_at (snd st) s =? v
  | QIterNext _ _ _ _, RObjs _ | QIterPrev _ _ _ _, RObjs _ | QQuarterDurations _ _, RQd _ => true
  | _, _ => false
  end.

Definition obs_ok_idx (objs : list obj) (st : istate) (o : out) (ob : obs) : bool :=
  let p := fst st in
  (out_code o =? ob_out ob) && points_eqb (points p) (ob_points ob) && zz_eqb (qtab p) (ob_qtab ob)
  && refs_eqb p objs (ob_refs ob)
  && forallb (fun qr => query_ok_idx st (fst qr) (snd qr)) (ob_queries ob).

Fixpoint first_diff_idx (objs : list obj) (st : istate) (i : Z) (h : list (op * obs)) : option Z :=
  match h with
  | [] => None
  | (o, ob) :: r =>
      let '(st', out) := step_idx st o in
      if obs_ok_idx objs st' out ob then first_diff_idx objs st' (i + 1) r else Some i
  end.

Definition history_ok_idx (c : Z * list obj * list (op * obs)) : bool :=
  match c with (q0, objs, h) => match first_diff_idx objs (init_idx q0) 0 h with None => true | Some _ => false end end.

Fixpoint run_out_idx (st : istate) (ops : list op) (o : out) : istate * out :=
  match ops with [] => (st, o) | x :: r => let '(st', o') := step_idx st x in run_out_idx st' r o' end.
Definition final_ok_idx (c : Z * list obj * list op * obs) : bool :=
  match c with (q0, objs, ops, ob) => let '(st, o) := run_out_idx (init_idx q0) ops OutOk in obs_ok_idx objs st o ob end.
