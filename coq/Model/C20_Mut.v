(* C20 -- executable model, second part: the container as a MUTABLE object and its construction.
   Definitions and boolean checkers only (proofs: Proofs/C20_Mut.v).

   partitura/score.py
     iter_parts(partlist)        a Part or PartGroup that is not inside a list is wrapped in a list;
                                 every element: Part -> yield it, PartGroup -> recurse on .children
                                 (depth first)                                   -> iter_tree, iter_parts_arg
     Score.__init__(partlist)    self.parts = list(iter_parts(partlist));
                                 self.part_structure = [partlist] (Part / PartGroup) | list(partlist)
                                 (Iterable) | ValueError                          -> score_init
     Score.__setitem__(i, part)  self.parts[i] = part   (the structure is NOT updated: "TODO" in the
                                 source)                                          -> MSet, py_set
     Score.__iter__/__len__/__getitem__   read self.parts                          -> mstep FromParts
   partitura/performance.py: Performance has the same four methods over self.performedparts (no
   groups: every tree is a leaf).

   `mstep src` is parameterised by the list an iterator walks: FromParts is the code; FromStructure
   (iteration re-derives the parts from part_structure while len / indexing / item assignment use
   self.parts) is the slip that was seeded -- it agrees with the code on every freshly constructed
   container until the first item assignment, and is refuted afterwards (Proofs/C20_Mut.v). *)
From PV Require Import Lib.Base Model.C20.
From Coq Require Import ZArith List Bool.
Import ListNotations.
#[local] Open Scope Z_scope.

(* ------------------------------------------------------------------------------------ *)
(* construction *)

Inductive ptree (A : Type) : Type :=
| PLeaf (x : A)                          (* a Part / PerformedPart *)
| PGroup (children : list (ptree A)).    (* a PartGroup *)
Arguments PLeaf {A} x. Arguments PGroup {A} children.

(* iter_parts over one element of a part list *)
Fixpoint iter_tree {A} (t : ptree A) : list A :=
  match t with
  | PLeaf x => [x]
  | PGroup cs => flat_map iter_tree cs
  end.

(* what the constructor is given *)
Inductive partlist_arg (A : Type) : Type :=
| ArgPart (x : A)                        (* Score(part) *)
| ArgGroup (children : list (ptree A))   (* Score(partgroup) *)
| ArgList (ts : list (ptree A))          (* Score([...]) / Score((...)) *)
| ArgOther.                              (* anything else: the constructor raises *)
Arguments ArgPart {A} x. Arguments ArgGroup {A} children. Arguments ArgList {A} ts. Arguments ArgOther {A}.

(* iter_parts(partlist): `if not isinstance(partlist, (list, tuple, set)): _partlist = [partlist]` *)
Definition iter_parts_arg {A} (a : partlist_arg A) : option (list A) :=
  match a with
  | ArgPart x => Some (flat_map iter_tree [PLeaf x])
  | ArgGroup cs => Some (flat_map iter_tree [PGroup cs])
  | ArgList ts => Some (flat_map iter_tree ts)
  | ArgOther => None
  end.

Record mcont (A : Type) : Type := mk_mcont {
  m_parts : list A;                      (* Score.parts / Performance.performedparts *)
  m_struct : list (ptree A)              (* Score.part_structure *)
}.
Arguments mk_mcont {A} m_parts m_struct. Arguments m_parts {A} m. Arguments m_struct {A} m.

Definition score_init {A} (a : partlist_arg A) : option (mcont A) :=
  match iter_parts_arg a with
  | None => None
  | Some ps =>
      match a with
      | ArgPart x => Some (mk_mcont ps [PLeaf x])
      | ArgGroup cs => Some (mk_mcont ps [PGroup cs])
      | ArgList ts => Some (mk_mcont ps ts)
      | ArgOther => None
      end
  end.

(* ------------------------------------------------------------------------------------ *)
(* item assignment and the protocol on the mutable container *)

Fixpoint lset {A} (l : list A) (n : nat) (x : A) : list A :=
  match l, n with
  | [], _ => []
  | _ :: r, O => x :: r
  | y :: r, S n' => y :: lset r n' x
  end.

(* Python's index normalisation for a sequence of length n *)
Definition py_norm (n i : Z) : option nat :=
  if (0 <=? i) && (i <? n) then Some (Z.to_nat i)
  else if (- n <=? i) && (i <? 0) then Some (Z.to_nat (n + i))
  else None.

(* l[i] = x *)
Definition py_set {A} (l : list A) (i : Z) (x : A) : option (list A) :=
  match py_norm (Z.of_nat (length l)) i with
  | Some j => Some (lset l j x)
  | None => None
  end.

Inductive mop (A : Type) : Type :=
| MO (o : op)                            (* iter / next / len / index: Model.C20.op *)
| MSet (i : Z) (x : A).                  (* c[i] = x *)
Arguments MO {A} o. Arguments MSet {A} i x.

Inductive mres (A : Type) : Type :=
| MR (r : res A)
| MSetDone
| MSetIndexError.
Arguments MR {A} r. Arguments MSetDone {A}. Arguments MSetIndexError {A}.

Inductive iter_source : Type :=
| FromParts          (* __iter__ returns iter(self.parts): the code *)
| FromStructure.     (* __iter__ walks iter_parts(self.part_structure): the seeded slip *)

Definition iter_list {A} (src : iter_source) (c : mcont A) : list A :=
  match src with
  | FromParts => m_parts c
  | FromStructure => flat_map iter_tree (m_struct c)
  end.

Definition mstate (A : Type) : Type := (mcont A * cursors)%type.

(* a Python list iterator looks at the CURRENT content of the list on every next() *)
Definition mstep {A} (src : iter_source) (st : mstate A) (o : mop A) : mstate A * mres A :=
  let '(c, cs) := st in
  match o with
  | MO (Next k) =>
      match cur_get k cs with
      | None => (st, MR RNoIter)
      | Some p =>
          match nth_error (iter_list src c) p with
          | Some x => ((c, cur_set k (S p) cs), MR (RYield x))
          | None => (st, MR RStop)
          end
      end
  | MO o' => let '(cs', r) := fresh_step (m_parts c) cs o' in ((c, cs'), MR r)
  | MSet i x =>
      match py_set (m_parts c) i x with
      | Some l => ((mk_mcont l (m_struct c), cs), MSetDone)
      | None => (st, MSetIndexError)
      end
  end.

Fixpoint mrun {A} (src : iter_source) (st : mstate A) (h : list (mop A)) : list (mres A) :=
  match h with
  | [] => []
  | o :: h' => let '(st', r) := mstep src st o in r :: mrun src st' h'
  end.

Fixpoint mfinal {A} (src : iter_source) (st : mstate A) (h : list (mop A)) : mstate A :=
  match h with
  | [] => st
  | o :: h' => mfinal src (fst (mstep src st o)) h'
  end.

(* the part list after the item assignments of a history (failed assignments change nothing) *)
Fixpoint apply_sets {A} (l : list A) (h : list (mop A)) : list A :=
  match h with
  | [] => l
  | MSet i x :: h' => apply_sets (match py_set l i x with Some l' => l' | None => l end) h'
  | MO _ :: h' => apply_sets l h'
  end.

(* the results that belong to the operations on handle k *)
Fixpoint mpick {A} (k : nat) (h : list op) (rs : list (mres A)) : list (mres A) :=
  match h, rs with
  | o :: h', r :: rs' => if on k o then r :: mpick k h' rs' else mpick k h' rs'
  | _, _ => []
  end.

Definition unMR {A} (r : mres A) : res A := match r with MR r' => r' | _ => RNoIter end.

(* ------------------------------------------------------------------------------------ *)
(* correspondence checker *)

Definition mres_eqb (a b : mres Z) : bool :=
  match a, b with
  | MR x, MR y => res_eqb x y
  | MSetDone, MSetDone | MSetIndexError, MSetIndexError => true
  | _, _ => false
  end.

Definition is_next_res (r : mres Z) : bool :=
  match r with MR (RYield _) | MR RStop => true | _ => false end.

(* What is compared.  The property speaks about len, indexing and iteration being consistent; it
   says nothing about an iterator that was created BEFORE an item assignment and is advanced after
   it (the code shows the new item -- a list iterator is a live view -- a snapshot would be as
   good).  Such STALE next() results are only required to be a yield or StopIteration.  `gen` counts
   the successful assignments so far, `born` maps a handle to the count at its iter(). *)
Fixpoint mcheck (st : mstate Z) (gen : nat) (born : cursors) (h : list (mop Z)) (obs : list (mres Z)) : bool :=
  match h, obs with
  | [], [] => true
  | o :: h', r :: obs' =>
      let '(st', rm) := mstep FromParts st o in
      let stale := match o with
                   | MO (Next k) => match cur_get k born with Some g => negb (Nat.eqb g gen) | None => false end
                   | _ => false
                   end in
      let gen' := match rm with MSetDone => S gen | _ => gen end in
      let born' := match o with MO (Iter k) => cur_set k gen born | _ => born end in
      (if stale then is_next_res r else mres_eqb rm r) && mcheck st' gen' born' h' obs'
  | _, _ => false
  end.

(* (constructor argument, history, results observed on the real container); a constructor that
   raises is observed as an empty result list for the empty history *)
Definition mhist_ok (c : partlist_arg Z * list (mop Z) * list (mres Z)) : bool :=
  let '(a, h, obs) := c in
  match score_init a with
  | Some c0 => mcheck (c0, []) 0 [] h obs
  | None => match obs with [] => true | _ => false end
  end.

(* observed at construction: (argument, parts in index order, leaves of part_structure in
   depth-first order as the harness walks it) *)
Definition init_ok (c : partlist_arg Z * list Z * list Z) : bool :=
  let '(a, parts, leaves) := c in
  match score_init a with
  | Some c0 => list_eqb Z.eqb (m_parts c0) parts && list_eqb Z.eqb (flat_map iter_tree (m_struct c0)) leaves
  | None => false
  end.
