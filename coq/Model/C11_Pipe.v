(* C11 -- fourth model file: the OPERATIONS chained.  What one operation leaves behind is what the
   next one reads: the measures `add_measures` made are the bar lines `tie_notes` splits at, the
   chains `tie_notes` made are the chains `sanitize_part` inspects, a second `add_measures` reads
   the measures of the first as "existing".  State = (measures in time order, tie chains); the
   steps are the definitions of Model/C11.v and Model/C11_Norm.v (the ones the per-operation
   correspondences evaluate), applied to the state the previous step returned.
   Definitions only (proofs: Proofs/C11_pipe.v). *)
From PV Require Import Lib.Base Lib.Round Gen.C11_Tables Model.C11 Model.C11_Spec Model.C11_Norm.
From Coq Require Import QArith.
#[local] Open Scope Z_scope.

(* score.add_measures / tie_notes / sanitize_part(tie_tolerance) / find_tuplets / fill_rests *)
Inductive pop := PAdd | PTie | PSan (tol : Z) | PTup | PRests.

Definition pstate := (list (Z * Z) * list chain)%type.

(* the part's constants: divisions value and signatures (for add_measures: one divisions value),
   first and last time point, divisions map (for tie_notes) *)
Record penv := mk_penv { pe_div : Z; pe_tsigs : list (Z * Z * Z); pe_first : Z; pe_last : Z; pe_dm : divmap }.

(* one operation on the state the previous one left; `san` = the tie part of sanitize_part.
   add_measures: the measures present are its "existing" ones, the result replaces them (None =
   the model's fuel ran out: excluded under `pre` by add_measures_total).  tie_notes: the bar lines
   are the starts of the measures present NOW.  find_tuplets only sets symbolic durations of untyped
   notes, fill_rests only adds rests: neither is a Note of a chain. *)
Definition pstep_with (san : Z -> list chain -> list chain) (E : penv) (op : pop) (st : pstate) : option pstate :=
  let '(ms, cs) := st in
  match op with
  | PAdd => match add_measures (pe_div E) (pe_tsigs E) (pe_first E) (pe_last E) ms with
            | Some r => Some (spans r, cs)
            | None => None
            end
  | PTie => Some (ms, map (tie_chain_dm (map fst ms) (pe_dm E)) cs)
  | PSan tol => Some (ms, san tol cs)
  | PTup | PRests => Some st
  end.

Fixpoint prun_with (san : Z -> list chain -> list chain) (E : penv) (ops : list pop) (st : pstate) : option pstate :=
  match ops with
  | [] => Some st
  | o :: r => match pstep_with san E o st with
              | Some st' => prun_with san E r st'
              | None => None
              end
  end.

Definition pstep := pstep_with sanitize_chains.
Definition prun := prun_with sanitize_chains.

(* NOT the code: sanitize_part comparing with `>=` (a chain whose extent equals its summed duration
   is taken apart at tie_tolerance 0) -- used only to show that the statements discriminate *)
Definition sanitize_chain_ge (tol : Z) (c : chain) : list chain :=
  let '(p, v, st, ps) := c in
  match ps with
  | [] | [_] => [c]
  | _ => if Z.abs ((end_of ps - onset_of ps) - total_dur ps) <? tol then [c] else map (fun q => (p, v, st, [q])) ps
  end.
Definition sanitize_chains_ge (tol : Z) (cs : list chain) : list chain := flat_map (sanitize_chain_ge tol) cs.

(* predicates of the statements *)
Definition tol_ok (o : pop) : Prop := match o with PSan t => 0 <= t | _ => True end.
Definition not_tie (o : pop) : Prop := match o with PTie => False | _ => True end.
Definition quiet (o : pop) : Prop := match o with PTie | PAdd => False | PSan t => 0 <= t | _ => True end.
Definition all_contiguous (cs : list chain) : Prop := Forall (fun c => contiguous (snd c)) cs.
Definition pieces_inside (a b : Z) (cs : list chain) : Prop :=
  Forall (fun c => Forall (fun p => a <= fst p /\ fst p < snd p /\ snd p <= b) (snd c)) cs.
Definition pieces_in_measures (ms : list (Z * Z)) (cs : list chain) : Prop :=
  Forall (fun c => Forall (fun q => within_one ms q /\ fst q < snd q) (snd c)) cs.

Definition within_oneb (ms : list (Z * Z)) (q : Z * Z) : bool :=
  existsb (fun m => (fst m <=? fst q) && (snd q <=? snd m)) ms.
Definition pieces_in_measuresb (ms : list (Z * Z)) (cs : list chain) : bool :=
  forallb (fun c : chain => forallb (within_oneb ms) (snd c)) cs.

(* ---------------------------------------------------------------------- *)
(* correspondence: constants, measures and chains before, the operations that ran, and what the
   part holds afterwards: measures (start, end), the chain of every head of the beginning, the
   number of heads at the end.  The note-array rows (sounding) of the observed chains are compared
   with those of the beginning as well. *)
Definition chain_eqb (a b : chain) : bool :=
  let '(p, v, s, ps) := a in let '(p', v', s', ps') := b in
  (p =? p') && (v =? v') && (s =? s') && list_eqb pair_eqb ps ps'.
Definition sounding_eqb (a b : Z * Z * Z * Z * Z) : bool :=
  let '(p, v, s, o, d) := a in let '(p', v', s', o', d') := b in
  (p =? p') && (v =? v') && (s =? s') && (o =? o') && (d =? d').

Definition chk_pipe (c : Z * list (Z * Z * Z) * Z * Z * divmap * list (Z * Z) * list chain * list pop
                         * list (Z * Z) * list chain * Z) : bool :=
  let '(div, tsigs, first, last, dm, ms0, cs0, ops, oms, ocs, nheads) := c in
  match prun (mk_penv div tsigs first last dm) ops (ms0, cs0) with
  | None => false
  | Some (ms, cs) => list_eqb pair_eqb ms oms && list_eqb chain_eqb cs ocs
                     && (Z.of_nat (List.length cs) =? nheads)
                     && list_eqb sounding_eqb (map sounding cs0) (map sounding ocs)
  end.
