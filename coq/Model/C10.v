(* C10 -- executable model of the signature / clef / measure maps of partitura/score.py:
   Part.time_signature_map, key_signature_map, clef_map, measure_map, measure_number_map,
   metrical_position_map (scipy interp1d kind="previous" with the back-fill to the first
   point, the defaults, the anacrusis correction of the first measure).
   Definitions only; proofs in Proofs/C10.v.  The lookup and the time maps come from Model/C02.v. *)
From PV Require Import Lib.Base Lib.Round Model.C02.
From Coq Require Import QArith.
#[local] Open Scope Z_scope.

(* a table whose first element starts after the first point is extended back to that point *)
Definition backfill {A} (first : Z) (tbl : list (Z * A)) : list (Z * A) :=
  match tbl with
  | (t0, v0) :: _ => if first <? t0 then (first, v0) :: tbl else tbl
  | [] => []
  end.

(* previous-value lookup with back-fill; dflt when the table is empty *)
Definition lookup_bf {A} (first : Z) (tbl : list (Z * A)) (dflt : A) (t : Z) : A :=
  match tbl with
  | [] => dflt
  | (_, v0) :: _ => prev_lookup (backfill first tbl) t v0
  end.

Record cpart := mk_cpart {
  c_part : part;                            (* first/last point, quarter durations, time signatures, first measure *)
  c_musical : bool;                         (* _use_musical_beat *)
  c_kss : list (Z * (Z * Z));               (* start, (fifths, key_mode_to_int mode) *)
  c_nstaves : Z;                            (* number_of_staves *)
  c_clefs : list (Z * (Z * Z * Z * Z));     (* start, (staff, clef_sign_to_int sign, line, octave_change or 0) *)
  c_meas : list (Z * (Z * Z * option Z))    (* start, (start, end, number); None = the measure has no usable number *)
}.

Definition c_first (cp : cpart) : Z := p_first (c_part cp).

Definition ts_tbl (cp : cpart) : list (Z * (Z * Z * Z)) :=
  map (fun ts => (ts_t ts, (ts_beats ts, ts_type ts, ts_mus ts))) (p_tss (c_part cp)).

(* time_signature_map: (beats, beat_type, musical_beats); 4/4 when there is none *)
Definition ts_map (cp : cpart) (t : Z) : Z * Z * Z := lookup_bf (c_first cp) (ts_tbl cp) (4, 4, 4) t.

(* key_signature_map: (fifths, mode); C major when there is none *)
Definition ks_map (cp : cpart) (t : Z) : Z * Z := lookup_bf (c_first cp) (c_kss cp) (0, 1) t.

(* clef_map: one row (staff, sign, line, octave_change) per staff 1..number_of_staves;
   a staff without clef gets the "none" clef (code 6) *)
Definition staff_tbl (cp : cpart) (s : Z) : list (Z * (Z * Z * Z * Z)) :=
  filter (fun row => let '(_, (st, _, _, _)) := row in st =? s) (c_clefs cp).

Definition clef_staff (cp : cpart) (s t : Z) : Z * Z * Z * Z :=
  lookup_bf (c_first cp) (staff_tbl cp s) (s, 6, 0, 0) t.

Definition clef_map (cp : cpart) (t : Z) : list (Z * Z * Z * Z) :=
  map (fun s => clef_staff cp s t) (zrange 1 (Z.to_nat (c_nstaves cp))).

(* ---- measures: anacrusis correction of the first measure *)
Definition bmode (cp : cpart) : tmode := if c_musical cp then Musical else Beat.

(* beats * divs_per_beat, both taken at the start s0 of the first measure;
   None = nan (one beat after s0 lies outside the range of the beat map) *)
Definition full_bar (cp : cpart) (s0 : Z) : option Q :=
  match tmap (bmode cp) (c_part cp) (inject_Z s0) with
  | Some b0 =>
      match tinv (bmode cp) (c_part cp) (1 + b0) with
      | Some x =>
          let '(b, _, mus) := ts_map cp s0 in
          Some (inject_Z (if c_musical cp then mus else b) * (x - inject_Z s0))%Q
      | None => None
      end
  | None => None
  end.

Definition Qltb (a b : Q) : bool := negb (Qle_bool b a).

(* measure_number_map: an un-numbered measure (number None) takes the number AS WRITTEN of the measure before it in
   the list -- for the first measure that is the last one (Python index -1); two un-numbered measures in a row
   leave the second without number (the implementation raises) *)
Fixpoint fill_nums (prev : option Z) (l : list (option Z)) : list (option Z) :=
  match l with
  | [] => []
  | x :: r => (match x with Some n => Some n | None => prev end) :: fill_nums x r
  end.
Definition eff_nums (l : list (option Z)) : list (option Z) := fill_nums (last l None) l.

(* length of the bar the first measure is taken to end, when that measure is shorter than
   beats * divisions-per-beat (np.round = round half to even); None = no correction *)
Definition pickup_len (cp : cpart) : option Z :=
  match c_meas cp with
  | [] => None
  | (s0, (_, e0, _)) :: _ =>
      match full_bar cp s0 with
      | Some fb => if Qltb (inject_Z (e0 - s0)) fb then Some (round_half_even fb) else None
      | None => None
      end
  end.

Definition meas_tbl (cp : cpart) : list (Z * (Z * Z * option Z)) :=
  match c_meas cp, pickup_len cp with
  | (s0, (_, e0, n0)) :: r, Some len => (e0 - len, (e0 - len, e0, n0)) :: r
  | _, _ => c_meas cp
  end.

Definition meas_row_of (mt : list (Z * (Z * Z * option Z))) (t : Z) : option (Z * Z * option Z) :=
  match mt with
  | [] => None
  | (_, v0) :: _ => Some (prev_lookup mt t v0)
  end.
Definition meas_row (cp : cpart) (t : Z) : option (Z * Z * option Z) := meas_row_of (meas_tbl cp) t.

Definition measure_map (cp : cpart) (t : Z) : option (Z * Z) :=
  option_map (fun r => let '(s, e, _) := r in (s, e)) (meas_row cp t).
(* None: no measure at all, or the measure in force has no number *)
Definition measure_number_map (cp : cpart) (t : Z) : option Z :=
  match meas_row cp t with Some (_, _, n) => n | None => None end.

(* barlines = starts of all measures + end of the last one; bar i = [b_i, b_{i+1}) *)
Fixpoint last_end (tbl : list (Z * (Z * Z * option Z))) (d : Z) : Z :=
  match tbl with
  | [] => d
  | (_, (_, e, _)) :: r => last_end r e
  end.

Definition barlines (cp : cpart) : list Z := map fst (meas_tbl cp) ++ [last_end (meas_tbl cp) 0].

Fixpoint bar_tbl (bl : list Z) : list (Z * (Z * Z)) :=
  match bl with
  | b0 :: r => match r with b1 :: _ => (b0, (b0, b1 - b0)) :: bar_tbl r | [] => [] end
  | [] => []
  end.

(* metrical_position_map: (t - start of the bar, length of the bar); (0, 0) with fewer than two measures *)
Definition metpos_of (mt : list (Z * (Z * Z * option Z))) (bt : list (Z * (Z * Z))) (t : Z) : Z * Z :=
  match mt, bt with
  | _ :: _ :: _, (_, v0) :: _ => let '(b, d) := prev_lookup bt t v0 in (t - b, d)
  | _, _ => (0, 0)
  end.
Definition metpos (cp : cpart) (t : Z) : Z * Z := metpos_of (meas_tbl cp) (bar_tbl (barlines cp)) t.

(* ---- the optional note-array columns derived from the maps (utils/music.py: note_array_from_note_list,
   rest_array_from_rest_list): (ts_beats, ts_beat_type, ts_mus_beats), (ks_fifths, ks_mode),
   (is_downbeat, rel_onset_div, tot_measure_div) at the onset t *)
Definition na_ts (cp : cpart) (t : Z) : Z * Z * Z := ts_map cp t.
Definition na_ks (cp : cpart) (t : Z) : Z * Z := ks_map cp t.
Definition na_metrical (cp : cpart) (t : Z) : Z * Z * Z :=
  let '(pos, len) := metpos cp t in ((if pos =? 0 then 1 else 0), pos, len).

(* ---- well-formed measure lists (hypotheses of the theorems; the generator builds such lists) *)
(* keyed by their start, non-empty, none starting before the previous one ends *)
Fixpoint meas_wf (l : list (Z * (Z * Z * option Z))) : Prop :=
  match l with
  | [] => True
  | (k, (s, e, _)) :: r =>
      k = s /\ s < e /\ match r with [] => True | (k', _) :: _ => e <= k' end /\ meas_wf r
  end.
(* each measure starts where the previous one ends *)
Fixpoint meas_contig (l : list (Z * (Z * Z * option Z))) : Prop :=
  match l with
  | [] => True
  | (_, (_, e, _)) :: r => match r with [] => True | (k', _) :: _ => e = k' end /\ meas_contig r
  end.

(* ---- mode and clef-sign codes (key_mode_to_int, clef_sign_to_int): spelling numbers used by the harness
   modes: 0 "major", 1 "minor", 2 None, 3 "none", 4 1, 5 -1 *)
Definition mode_code (sp : Z) : Z := match sp with 1 | 5 => -1 | _ => 1 end.
(* signs: 0 "G", 1 "F", 2 "C", 3 "percussion", 4 "TAB", 5 "jianpu", 6 "none" -- the code is the number *)
Definition clef_signs : list string := ["G"; "F"; "C"; "percussion"; "TAB"; "jianpu"; "none"]%string.

(* ---------------------------------------------------------------- checker *)
Definition z3_eqb (a b : Z * Z * Z) : bool :=
  let '(a1, a2, a3) := a in let '(b1, b2, b3) := b in (a1 =? b1) && (a2 =? b2) && (a3 =? b3).
Definition z2_eqb (a b : Z * Z) : bool :=
  let '(a1, a2) := a in let '(b1, b2) := b in (a1 =? b1) && (a2 =? b2).
Definition z4_eqb (a b : Z * Z * Z * Z) : bool :=
  let '(a1, a2, a3, a4) := a in let '(b1, b2, b3, b4) := b in (a1 =? b1) && (a2 =? b2) && (a3 =? b3) && (a4 =? b4).

Definition zo_eqb (a b : option Z) : bool := zopt_eqb a b.

(* a case: first, last, quarter durations, time signatures (t, beats, type), beat operations, key signatures
   (t, fifths, mode spelling), number of staves, clefs (t, staff, sign, line, octave change),
   measures (start, end, number as written or None),
   observations per position: (t, time sig, key sig, clef rows, inside a measure -> (start, end, number, position, bar length)),
   note/rest-array rows: (onset, ts columns, ks columns, onset inside a measure -> metrical columns) *)
Definition c10_case : Type :=
  (Z * Z * list (Z * Z) * list (Z * Z * Z) * list beat_op * list (Z * Z * Z) * Z *
   list (Z * Z * Z * Z * Z) * list (Z * Z * option Z) *
   list (Z * (Z * Z * Z) * (Z * Z) * list (Z * Z * Z * Z) * option (Z * Z * Z * Z * Z)) *
   list (Z * (Z * Z * Z) * (Z * Z) * option (Z * Z * Z)))%type.

Definition build10 (c : c10_case) : cpart :=
  let '(first, last, qs, tss, ops, kss, nst, clefs, meas, _, _) := c in
  let '(flag, tss') := beat_run tss ops in
  let m1 := match meas with
            | (s0, e0, _) :: _ => if s0 =? first then Some (s0, e0) else None
            | [] => None
            end in
  mk_cpart (mk_part first last qs tss' m1) flag
    (map (fun x => let '(t, f, sp) := x in (t, (f, mode_code sp))) kss) nst
    (map (fun x => let '(t, st, sg, ln, oc) := x in (t, (st, sg, ln, oc))) clefs)
    (map (fun xn => let '(s, e, _) := fst xn in (s, (s, e, snd xn)))
         (combine meas (eff_nums (map (fun x => let '(_, _, n) := x in n) meas)))).

Definition check10 (c : c10_case) : bool :=
  let cp := build10 c in
  let '(_, _, _, _, _, _, _, _, _, obs, rows) := c in
  let mt := meas_tbl cp in
  let bt := bar_tbl (map fst mt ++ [last_end mt 0]) in
  forallb (fun o =>
    let '(t, ts, ks, cl, ms) := o in
    z3_eqb ts (ts_map cp t) && z2_eqb ks (ks_map cp t) && list_eqb z4_eqb cl (clef_map cp t) &&
    match ms with
    | None => true
    | Some (s, e, n, pos, len) =>
        match meas_row_of mt t with
        | None => false
        | Some (s', e', n') => (s =? s') && (e =? e') && zo_eqb (Some n) n' && z2_eqb (pos, len) (metpos_of mt bt t)
        end
    end) obs &&
  forallb (fun o =>
    let '(t, ts, ks, mp) := o in
    z3_eqb ts (na_ts cp t) && z2_eqb ks (na_ks cp t) &&
    match mp with
    | None => true
    | Some m =>
        let '(pos, len) := metpos_of mt bt t in z3_eqb m ((if pos =? 0 then 1 else 0), pos, len)
    end) rows.
