(* C05 -- the note array is a faithful table of the score.
   Executable Gallina model of
     partitura/score.py      : Part.notes_tied, GenericNote.duration_tied
     partitura/utils/music.py: note_array_from_note_list / rest_array_from_rest_list (row
                               construction, voice rule, two-pass sort), note_array_from_part
                               (selection of the optional columns), note_array_from_part_list
                               (lcm of the divisions, per-part multipliers, P{i:02d}_ prefix)
     partitura/musicanalysis/note_array_to_score.py:
                               create_divs_from_beats, create_beats_from_divs
   Definitions and boolean checkers only; proofs are in Proofs/C05*.v.
   The time / signature maps (C02, C10) are parameters of the row construction: a row copies what
   the maps say at the onset. *)
From PV Require Import Lib.Base.
From Coq Require Import QArith Qabs.
#[local] Open Scope Z_scope.

(* ------------------------------------------------------------------ notes *)

Record note := mkNote {
  n_oid : Z;                 (* object identity (Python object); tie links refer to it *)
  n_id : string;             (* note.id *)
  n_start : Z;               (* note.start.t *)
  n_end : Z;                 (* note.end.t   *)
  n_tie_prev : option Z;     (* oid of note.tie_prev *)
  n_tie_next : option Z;     (* oid of note.tie_next *)
  n_step : string;
  n_alter : option Z;
  n_octave : Z;
  n_voice : option Z;
  n_staff : option Z;
  n_grace : option string;   (* Some grace_type for GraceNote objects *)
  n_rest : bool              (* a Rest: pitch 0, dummy spelling *)
}.

Definition n_dur (n : note) : Z := n_end n - n_start n.

Fixpoint find_oid (k : Z) (ns : list note) : option note :=
  match ns with
  | [] => None
  | n :: r => if Z.eqb (n_oid n) k then Some n else find_oid k r
  end.

(* Part.notes_tied: notes without a predecessor in a tie chain *)
Definition is_head (n : note) : bool :=
  match n_tie_prev n with None => true | Some _ => false end.
Definition notes_tied (ns : list note) : list note := filter is_head ns.

(* GenericNote.duration_tied: own duration plus that of the tied successor, recursively.
   [None]: out of fuel (cyclic chain: Python recursion error) or a link that leaves the part. *)
Fixpoint duration_tied (ns : list note) (fuel : nat) (n : note) : option Z :=
  match fuel with
  | O => None
  | S f =>
    match n_tie_next n with
    | None => Some (n_dur n)
    | Some k =>
      match find_oid k ns with
      | None => None
      | Some m => match duration_tied ns f m with
                  | None => None
                  | Some d => Some (n_dur n + d)
                  end
      end
    end
  end.

(* the tie chain itself, as a list (used by the theorems, and by the checker of the row count) *)
Fixpoint chain (ns : list note) (fuel : nat) (n : note) : option (list note) :=
  match fuel with
  | O => None
  | S f =>
    match n_tie_next n with
    | None => Some [n]
    | Some k =>
      match find_oid k ns with
      | None => None
      | Some m => match chain ns f m with
                  | None => None
                  | Some l => Some (n :: l)
                  end
      end
    end
  end.

(* ------------------------------------------------------------------ pitch *)

Definition base_pc (s : string) : Z :=
  match slookup s [("C", 0); ("D", 2); ("E", 4); ("F", 5); ("G", 7); ("A", 9); ("B", 11);
                   ("c", 0); ("d", 2); ("e", 4); ("f", 5); ("g", 7); ("a", 9); ("b", 11)]%string with
  | Some v => v
  | None => 0
  end.

Definition oz (o : option Z) (d : Z) : Z := match o with Some v => v | None => d end.

(* Note.midi_pitch *)
Definition midi_pitch (n : note) : Z :=
  if n_rest n then 0 else (n_octave n + 1) * 12 + base_pc (n_step n) + oz (n_alter n) 0.

(* ------------------------------------------------------------------ rows *)

Record maps := mkMaps {
  m_quarter : Z -> Q;          (* part.quarter_map *)
  m_beat : Z -> Q;             (* part.beat_map *)
  m_ks : Z -> Z * Z;           (* part.key_signature_map: fifths, mode *)
  m_ts : Z -> Z * Z * Z;       (* part.time_signature_map: beats, beat_type, musical_beats *)
  m_mp : Z -> Z * Z            (* part.metrical_position_map: rel_onset_div, tot_measure_div *)
}.

Record row := mkRow {
  r_onset : Z; r_dur : Z; r_pitch : Z; r_voice : Z; r_id : string;
  r_onq : Q; r_durq : Q; r_onb : Q; r_durb : Q;
  r_step : string; r_alter : Z; r_octave : Z;
  r_is_grace : bool; r_grace_type : string;
  r_ks : Z * Z; r_ts : Z * Z * Z;
  r_mp : Z * Z * Z;            (* is_downbeat, rel_onset_div, tot_measure_div *)
  r_staff : Z;
  r_divs : Z
}.

Definition set_voice (r : row) (v : Z) : row :=
  mkRow (r_onset r) (r_dur r) (r_pitch r) v (r_id r) (r_onq r) (r_durq r) (r_onb r) (r_durb r)
        (r_step r) (r_alter r) (r_octave r) (r_is_grace r) (r_grace_type r) (r_ks r) (r_ts r)
        (r_mp r) (r_staff r) (r_divs r).

(* the loop body of note_array_from_note_list / rest_array_from_rest_list for one note,
   given its tied duration *)
Definition raw_row (mp : maps) (divs : Z) (n : note) (d : Z) : row :=
  let t := n_start n in
  let '(rel, tot) := m_mp mp t in
  mkRow t d (midi_pitch n) (oz (n_voice n) (-1)) (n_id n)
        (m_quarter mp t) (m_quarter mp (t + d) - m_quarter mp t)
        (m_beat mp t) (m_beat mp (t + d) - m_beat mp t)
        (if n_rest n then "0"%string else n_step n)
        (if n_rest n then 0 else oz (n_alter n) 0)
        (if n_rest n then 0 else n_octave n)
        (match n_grace n with Some _ => true | None => false end)
        (match n_grace n with Some g => g | None => ""%string end)
        (m_ks mp t) (m_ts mp t)
        ((if Z.eqb rel 0 then 1 else 0), rel, tot)
        (match n_staff n with Some s => s | None => 0 end)   (* "note.staff if note.staff else 0" *)
        divs.

Fixpoint raw_rows (ns : list note) (mp : maps) (divs : Z) (heads : list note) : option (list row) :=
  match heads with
  | [] => Some []
  | h :: r =>
    match duration_tied ns (List.length ns) h, raw_rows ns mp divs r with
    | Some d, Some rows => Some (raw_row mp divs h d :: rows)
    | _, _ => None
    end
  end.

(* "Sanitize voice information": rows without voice (-1) get max+1 *)
Definition max_voice (rows : list row) : Z :=
  match rows with
  | [] => 0
  | r :: rest => fold_left (fun m x => Z.max m (r_voice x)) rest (r_voice r)
  end.

Definition sanitize_voices (rows : list row) : list row :=
  let mv := max_voice rows in
  map (fun r => if Z.eqb (r_voice r) (-1) then set_voice r (mv + 1) else r) rows.

(* two-pass sort: by pitch, then stable by onset.  Both passes are modelled as stable insertion
   sorts; Proofs/C05 shows the result is ordered by (onset, pitch) for ANY first pass that returns
   a pitch-sorted permutation (numpy's default argsort is not stable). *)
Fixpoint insert_by (key : row -> Z) (x : row) (l : list row) : list row :=
  match l with
  | [] => [x]
  | y :: r => if key x <=? key y then x :: l else y :: insert_by key x r
  end.

Fixpoint isort_by (key : row -> Z) (l : list row) : list row :=
  match l with
  | [] => []
  | x :: r => insert_by key x (isort_by key r)
  end.

Definition sort_rows (rows : list row) : list row := isort_by r_onset (isort_by r_pitch rows).

(* note_array_from_part / rest_array_from_part on the objects selected by [sel]
   (notes: chain heads among the notes; rests: every rest) *)
Definition array_of (ns : list note) (mp : maps) (divs : Z) (sel : list note) : option (list row) :=
  match raw_rows ns mp divs sel with
  | Some rows => Some (sort_rows (sanitize_voices rows))
  | None => None
  end.

Definition note_array (ns : list note) (mp : maps) (divs : Z) : option (list row) :=
  array_of ns mp divs (notes_tied (filter (fun n => negb (n_rest n)) ns)).

Definition rest_array (ns : list note) (mp : maps) (divs : Z) : option (list row) :=
  array_of ns mp divs (filter n_rest ns).

(* ------------------------------------------------------------------ score level *)

Fixpoint lcm_list (l : list Z) : Z :=
  match l with [] => 1 | x :: r => Z.lcm x (lcm_list r) end.

Definition digit (d : Z) : string :=
  match d with 0 => "0" | 1 => "1" | 2 => "2" | 3 => "3" | 4 => "4" | 5 => "5"
             | 6 => "6" | 7 => "7" | 8 => "8" | _ => "9" end%string.

(* "P{0:02d}_".format(i) for 0 <= i < 100 *)
Definition part_prefix (i : Z) : string :=
  ("P" ++ digit (i / 10) ++ digit (i mod 10) ++ "_")%string.

Definition set_id (r : row) (s : string) : row :=
  mkRow (r_onset r) (r_dur r) (r_pitch r) (r_voice r) s (r_onq r) (r_durq r) (r_onb r) (r_durb r)
        (r_step r) (r_alter r) (r_octave r) (r_is_grace r) (r_grace_type r) (r_ks r) (r_ts r)
        (r_mp r) (r_staff r) (r_divs r).

Definition rescale (k : Z) (r : row) : row :=
  mkRow (r_onset r * k) (r_dur r * k) (r_pitch r) (r_voice r) (r_id r) (r_onq r) (r_durq r)
        (r_onb r) (r_durb r) (r_step r) (r_alter r) (r_octave r) (r_is_grace r) (r_grace_type r)
        (r_ks r) (r_ts r) (r_mp r) (r_staff r) (r_divs r * k).

(* divisions of a part array = the divs_pq of its first row; parts without rows do not count *)
Definition part_divs (rows : list row) : list Z :=
  match rows with [] => [] | r :: _ => [r_divs r] end.

Definition score_lcm (parts : list (list row)) : Z := lcm_list (flat_map part_divs parts).

Definition prep_part (uniq : bool) (L : Z) (i : Z) (rows : list row) : list row :=
  match rows with
  | [] => []
  | r0 :: _ =>
    let k := L / r_divs r0 in
    map (fun r => rescale k (if uniq then set_id r (part_prefix i ++ r_id r)%string else r)) rows
  end.

Fixpoint prep_parts (uniq : bool) (L : Z) (i : Z) (parts : list (list row)) : list (list row) :=
  match parts with
  | [] => []
  | p :: rest => prep_part uniq L i p :: prep_parts uniq L (i + 1) rest
  end.

(* note_array_from_part_list on the per-part arrays; ids are prefixed only when asked for AND the
   list has more than one part *)
Definition score_array (uniq : bool) (parts : list (list row)) : list row :=
  let u := uniq && (1 <? Z.of_nat (List.length parts)) in
  sort_rows (List.concat (prep_parts u (score_lcm parts) 0 parts)).

(* ------------------------------------------------------------------ inverse direction *)

Definition qden (q : Q) : Z := Zpos (Qden q).

(* create_divs_from_beats: the fractions are limit_denominator(256) of the float columns (done by
   the harness); divisions = lcm of ALL denominators, onsets included *)
Definition divs_from_beats (onsets durs : list Q) : Z := lcm_list (map qden durs ++ map qden onsets).

(* int(divs * numerator / denominator): truncation *)
Definition to_div (divs : Z) (q : Q) : Z := Z.quot (divs * Qnum q) (qden q).

Definition shift_nonneg (l : list Z) : list Z :=
  match l with
  | [] => []
  | x :: r => let mn := fold_left Z.min r x in if mn <? 0 then map (fun v => v - mn) l else l
  end.

Definition divs_columns (onsets durs : list Q) : Z * list Z * list Z :=
  let d := divs_from_beats onsets durs in
  (d, shift_nonneg (map (to_div d) onsets), map (to_div d) durs).

(* create_beats_from_divs *)
Definition beat_of_div (divs : Z) (t : Z) : Q := inject_Z t / inject_Z divs.

(* ------------------------------------------------------------------ checkers (correspondence) *)

Definition sopt_eqb' (a b : option string) : bool :=
  match a, b with
  | Some x, Some y => String.eqb x y
  | None, None => true
  | _, _ => false
  end.

(* visible columns of a row under the include_* options; absent columns are None *)
Record opts := mkOpts {
  o_spelling : bool; o_ks : bool; o_ts : bool; o_mp : bool; o_grace : bool; o_staff : bool; o_divs : bool
}.

(* observed row: onset, dur, pitch, voice, id, then optional groups *)
Definition obs := (Z * Z * Z * Z * string *
                   option (string * Z * Z) * option (bool * string) * option (Z * Z) *
                   option (Z * Z * Z) * option (Z * Z * Z) * option Z * option Z)%type.

Definition view (o : opts) (r : row) : obs :=
  (r_onset r, r_dur r, r_pitch r, r_voice r, r_id r,
   (if o_spelling o then Some (r_step r, r_alter r, r_octave r) else None),
   (if o_grace o then Some (r_is_grace r, r_grace_type r) else None),
   (if o_ks o then Some (r_ks r) else None),
   (if o_ts o then Some (r_ts r) else None),
   (if o_mp o then Some (r_mp r) else None),
   (if o_staff o then Some (r_staff r) else None),
   (if o_divs o then Some (r_divs r) else None)).

Definition z2_eqb (a b : Z * Z) := Z.eqb (fst a) (fst b) && Z.eqb (snd a) (snd b).
Definition z3_eqb (a b : Z * Z * Z) := z2_eqb (fst a) (fst b) && Z.eqb (snd a) (snd b).
Definition opt_eqb {A} (e : A -> A -> bool) (a b : option A) : bool :=
  match a, b with Some x, Some y => e x y | None, None => true | _, _ => false end.

Definition obs_eqb (a b : obs) : bool :=
  match a, b with
  | (o1, d1, p1, v1, i1, s1, g1, k1, t1, m1, f1, q1), (o2, d2, p2, v2, i2, s2, g2, k2, t2, m2, f2, q2) =>
    Z.eqb o1 o2 && Z.eqb d1 d2 && Z.eqb p1 p2 && Z.eqb v1 v2 && String.eqb i1 i2 &&
    opt_eqb (fun x y => String.eqb (fst (fst x)) (fst (fst y)) && Z.eqb (snd (fst x)) (snd (fst y)) && Z.eqb (snd x) (snd y)) s1 s2 &&
    opt_eqb (fun x y => Bool.eqb (fst x) (fst y) && String.eqb (snd x) (snd y)) g1 g2 &&
    opt_eqb z2_eqb k1 k2 && opt_eqb z3_eqb t1 t2 && opt_eqb z3_eqb m1 m2 &&
    opt_eqb Z.eqb f1 f2 && opt_eqb Z.eqb q1 q2
  end.

(* multiset equality of observed rows (quadratic; arrays are small) *)
Fixpoint remove_first (x : obs) (l : list obs) : option (list obs) :=
  match l with
  | [] => None
  | y :: r => if obs_eqb x y then Some r
              else match remove_first x r with Some r' => Some (y :: r') | None => None end
  end.

Fixpoint multiset_eqb (a b : list obs) : bool :=
  match a with
  | [] => match b with [] => true | _ => false end
  | x :: r => match remove_first x b with Some b' => multiset_eqb r b' | None => false end
  end.

Definition obs_onset (x : obs) : Z := match x with (o, _, _, _, _, _, _, _, _, _, _, _) => o end.
Definition obs_pitch (x : obs) : Z := match x with (_, _, p, _, _, _, _, _, _, _, _, _) => p end.

(* same sequence of (onset, pitch) keys and the same multiset of rows: equality of the two tables
   up to the order of rows that share onset and pitch *)
Definition same_table (model impl : list obs) : bool :=
  list_eqb (fun x y => Z.eqb (obs_onset x) (obs_onset y) && Z.eqb (obs_pitch x) (obs_pitch y)) model impl
  && multiset_eqb model impl.

(* maps given as association lists (tabulated by the harness from the part's own maps) *)
Definition amap {A} (l : list (Z * A)) (d : A) (t : Z) : A :=
  match zlookup t l with Some v => v | None => d end.

Definition maps_of (ks : list (Z * (Z * Z))) (ts : list (Z * (Z * Z * Z))) (mp : list (Z * (Z * Z))) : maps :=
  mkMaps (fun _ => 0%Q) (fun _ => 0%Q) (amap ks (0, 0)) (amap ts (0, 0, 0)) (amap mp (0, 0)).

Definition maps_of_q (qm bm : list (Z * Q)) (ks : list (Z * (Z * Z))) (ts : list (Z * (Z * Z * Z)))
           (mp : list (Z * (Z * Z))) : maps :=
  mkMaps (amap qm 0%Q) (amap bm 0%Q) (amap ks (0, 0)) (amap ts (0, 0, 0)) (amap mp (0, 0)).

(* float32 columns: the observed value (an exact dyadic rational) is within 2^-21 relative
   (+ 2^-40 absolute) of the model's rational *)
Definition q_close (model observed : Q) : bool :=
  Qle_bool (Qabs (observed - model)) (Qabs model * (1 # 2097152) + (1 # 1099511627776)).

(* part-level case: notes, maps, divisions, options, rest?; observed rows *)
Definition part_case_ok (ns : list note) (mp : maps) (divs : Z) (o : opts) (rests : bool)
           (impl : list obs) : bool :=
  match (if rests then rest_array ns mp divs else note_array ns mp divs) with
  | Some rows => same_table (map (view o) rows) impl
  | None => false
  end.

(* time columns of a part-level case: observed (onset_quarter, duration_quarter, onset_beat,
   duration_beat) per row, in the implementation's row order, keyed by (onset_div, duration_div) *)
Definition time_cols_ok (ns : list note) (mp : maps) (divs : Z) (rests : bool)
           (impl : list (Z * Z * (Q * Q * Q * Q))) : bool :=
  match (if rests then rest_array ns mp divs else note_array ns mp divs) with
  | Some rows =>
    forallb (fun x =>
      match x with
      | (on, du, (oq, dq, ob, db)) =>
        existsb (fun r => Z.eqb (r_onset r) on && Z.eqb (r_dur r) du &&
                          q_close (r_onq r) oq && q_close (r_durq r) dq &&
                          q_close (r_onb r) ob && q_close (r_durb r) db) rows
      end) impl
  | None => false
  end.

(* score-level case: per part (notes, maps, divs); observed rows *)
Fixpoint part_arrays (parts : list (list note * maps * Z)) : option (list (list row)) :=
  match parts with
  | [] => Some []
  | (ns, mp, d) :: rest =>
    match note_array ns mp d, part_arrays rest with
    | Some a, Some l => Some (a :: l)
    | _, _ => None
    end
  end.

Definition score_case_ok (parts : list (list note * maps * Z)) (uniq : bool) (o : opts)
           (impl : list obs) : bool :=
  match part_arrays parts with
  | Some arrs => same_table (map (view o) (score_array uniq arrs)) impl
  | None => false
  end.

(* inverse case: fractions of the beat columns; observed divs and div columns *)
Definition inverse_case_ok (onsets durs : list Q) (impl : Z * list Z * list Z) : bool :=
  match divs_columns onsets durs, impl with
  | (d, o, du), (d', o', du') => Z.eqb d d' && list_eqb Z.eqb o o' && list_eqb Z.eqb du du'
  end.
