(* C08 -- glue around the modelled cores: performed-note ids, and whether the exporter can build the
   performance-time -> score-time map it orders insertions with.
   Executable definitions only; proofs are in Proofs/C08_glue.v.

   ids       partitura/io/exportmatch.py : matchfile_from_alignment (MatchNote id),
             partitura/io/matchfile_utils.py : format_pnote_id (importer: performed part, alignment)
   time map  partitura/musicanalysis/performance_codec.py : get_matched_notes,
             get_time_maps_from_alignment (remove_ornaments=True) *)
From PV Require Import Lib.Base Model.C08 Model.C08_attrs.
From Coq Require Import Ascii String.
#[local] Open Scope string_scope.
#[local] Open Scope Z_scope.

(* f"n{id}" if not str(id).startswith("n") else str(id) -- the same rule at both ends *)
Definition fmt_pid (s : string) : string := if starts "n" s then s else "n" ++ s.

(* one leg of a performed-note id: written by the exporter, read by the importer *)
Definition pid_leg (s : string) : string := fmt_pid (fmt_pid s).

(* get_matched_notes: a pair of indices for every match entry whose ids are found in the score and
   in the performance; get_time_maps_from_alignment keeps the score onsets at which a matched note
   HAS A DURATION (grace notes have none) -- the map exists iff one is left.
   [snotes]: score note id -> has a duration; [pids]: ids of the performed notes *)
Definition matched_durs (snotes : list (Z * bool)) (pids : list Z) (al : list entry) : list bool :=
  flat_map (fun e => match e with
                     | EMatch s p => if zmem p pids
                                     then match zlookup s snotes with Some d => [d] | None => [] end
                                     else []
                     | _ => []
                     end) al.
Definition save_defined (snotes : list (Z * bool)) (pids : list Z) (al : list entry) : bool :=
  existsb (fun d : bool => d) (matched_durs snotes pids al).

(* checkers *)
(* (id given to save_match as text, id in the file, id loaded) *)
Definition chk_pid (c : string * string * string) : bool :=
  let '(given, file, loaded) := c in
  String.eqb (fmt_pid given) file && String.eqb (pid_leg given) loaded.

(* (score notes with their has-a-duration flag, performed ids, alignment as lines, save_match succeeded) *)
Definition chk_defined (c : list (Z * bool) * list Z * list (Z * option Z * option Z) * bool) : bool :=
  let '(snotes, pids, al, ok) := c in
  Bool.eqb (save_defined snotes pids (alignment_of (map mk_line al))) ok.
