(* C10 -- HISTORIES of the COMPOSITE map objects: clef_map (the collator over one interpolator per staff) and
   metrical_position_map (int_interp1d over PPoly + the bar-duration interpolator, or the zero interpolator).
   `part.clef_map` / `part.metrical_position_map` are properties: every access builds a NEW closure that CAPTURES what was
   computed from the part at that moment -- clef_map: the list `interpolators`, one sample table per staff
   1..number_of_staves (so the number of staves is captured too); metrical_position_map: the barlines looked up through
   measure_map at the written measure starts (or nothing: fewer than two measures -> the zero interpolator).  A call
   computes a NEW output array (np.array([...], dtype=int) / np.column_stack / .astype(int)).  The caller may keep map
   objects and returned arrays, overwrite the arrays in place, edit the part, request the map again.
     OEdit p      the part is edited through the public API; its state is p from now on
     OGet         m_i = part.<map>            (a new map object capturing `build p`)
     OQuery i q   r_k = m_i(q)                (a returned array, numbered in the order returned)
     OWrite k v   r_k[...] = v                (the caller overwrites the k-th returned array in place)
   Returned arrays live in output BUFFERS (o_bufs); array k is buffer (nth k o_arrs).  Two switches for the ways such code
   goes wrong (both `false` for the code as it is):
     memo   what the access captures is cached on the part at the first access and reused by later accesses
            (seed e: the number of staves memoised);
     share  the map object keeps one output buffer per result shape and hands it out again: a call whose result has the
            shape of an array this object returned earlier overwrites THAT array and returns it.
   Observations: what the calls returned (orun) AND what the arrays the caller holds contain at the end (oheld of oend).
   Definitions only; proofs in Proofs/C10_Obj.v. *)
From PV Require Import Lib.Base Lib.Round Model.C02 Model.C10 Model.C10_Impl Model.C10_Hist.
#[local] Open Scope Z_scope.

Section Obj.
Context {P T R V : Type}.
Variable build : P -> T.                  (* what the property access computes from the part and the closure captures *)
Variable ans : T -> query -> R.           (* one call of the closure *)
Variable wr : V -> R -> R.                (* r[...] = v by the caller *)
Variable same_shape : R -> R -> bool.

Inductive oop :=
| OEdit (p : P)
| OGet
| OQuery (i : nat) (q : query)
| OWrite (k : nat) (v : V).

Record ostate := mk_ostate {
  o_part : P;                              (* current state of the part *)
  o_memo : option T;                       (* captured state cached on the part (memo variant only) *)
  o_objs : list T;                         (* what each map object captured *)
  o_bufs : list (nat * R);                 (* output buffers: the map object that made it, its contents *)
  o_arrs : list nat                        (* returned array k is buffer (nth k o_arrs) *)
}.

Definition oinit (p : P) : ostate := mk_ostate p None [] [] [].

(* share variant: the first buffer made by object i whose contents have the shape of r *)
Fixpoint find_buf (i : nat) (r : R) (bufs : list (nat * R)) (n : nat) : option nat :=
  match bufs with
  | [] => None
  | (j, b) :: rest => if (j =? i)%nat && same_shape b r then Some n else find_buf i r rest (S n)
  end.

Definition ostep (memo share : bool) (s : ostate) (o : oop) : ostate * option R :=
  match o with
  | OEdit p => (mk_ostate p (o_memo s) (o_objs s) (o_bufs s) (o_arrs s), None)
  | OGet =>
      let t := match (if memo then o_memo s else None) with Some t => t | None => build (o_part s) end in
      (mk_ostate (o_part s) (if memo then Some t else None) (o_objs s ++ [t]) (o_bufs s) (o_arrs s), None)
  | OQuery i q =>
      match nth_error (o_objs s) i with
      | None => (s, None)
      | Some t =>
          let r := ans t q in
          match (if share then find_buf i r (o_bufs s) 0 else None) with
          | Some b =>
              (mk_ostate (o_part s) (o_memo s) (o_objs s) (upd b (fun x => (fst x, r)) (o_bufs s)) (o_arrs s ++ [b]), Some r)
          | None =>
              (mk_ostate (o_part s) (o_memo s) (o_objs s) (o_bufs s ++ [(i, r)]) (o_arrs s ++ [List.length (o_bufs s)]), Some r)
          end
      end
  | OWrite k v =>
      match nth_error (o_arrs s) k with
      | None => (s, None)
      | Some b =>
          (mk_ostate (o_part s) (o_memo s) (o_objs s) (upd b (fun x => (fst x, wr v (snd x))) (o_bufs s)) (o_arrs s), None)
      end
  end.

(* what the calls of a history returned, in order; the state after it *)
Fixpoint orun (memo share : bool) (s : ostate) (ops : list oop) : list R :=
  match ops with
  | [] => []
  | o :: r => let '(s', ob) := ostep memo share s o in
              match ob with Some x => x :: orun memo share s' r | None => orun memo share s' r end
  end.
Fixpoint oend (memo share : bool) (s : ostate) (ops : list oop) : ostate :=
  match ops with [] => s | o :: r => oend memo share (fst (ostep memo share s o)) r end.
(* the contents of the arrays the caller holds *)
Definition oheld (s : ostate) : list (option R) :=
  map (fun b => option_map snd (nth_error (o_bufs s) b)) (o_arrs s).

(* what the history MUST show.  Calls: a call through map object i = the closure built from the part as it was when
   object i was requested; nothing else matters (p = current part, gets = the part at each OGet) *)
Fixpoint ospec_obs (p : P) (gets : list P) (ops : list oop) : list R :=
  match ops with
  | [] => []
  | OEdit p' :: r => ospec_obs p' gets r
  | OGet :: r => ospec_obs p (gets ++ [p]) r
  | OQuery i q :: r =>
      match nth_error gets i with
      | Some pi => ans (build pi) q :: ospec_obs p gets r
      | None => ospec_obs p gets r
      end
  | OWrite _ _ :: r => ospec_obs p gets r
  end.
(* Held arrays: independent values -- array k holds what call k returned with the caller's own writes INTO k applied,
   whatever was called, written elsewhere or edited afterwards *)
Fixpoint ospec_held (p : P) (gets : list P) (arrs : list R) (ops : list oop) : list R :=
  match ops with
  | [] => arrs
  | OEdit p' :: r => ospec_held p' gets arrs r
  | OGet :: r => ospec_held p (gets ++ [p]) arrs r
  | OQuery i q :: r =>
      match nth_error gets i with
      | Some pi => ospec_held p gets (arrs ++ [ans (build pi) q]) r
      | None => ospec_held p gets arrs r
      end
  | OWrite k v :: r => ospec_held p gets (upd k (wr v) arrs) r
  end.

Fixpoint ocur (p : P) (ops : list oop) : P :=
  match ops with [] => p | OEdit p' :: r => ocur p' r | _ :: r => ocur p r end.
Fixpoint ogets (ops : list oop) : nat :=
  match ops with [] => O | OGet :: r => S (ogets r) | _ :: r => ogets r end.
Definition no_writes (ops : list oop) : bool :=
  forallb (fun o => match o with OWrite _ _ => false | _ => true end) ops.

End Obj.

Arguments oop : clear implicits.
Arguments ostate : clear implicits.

(* the four simple maps are objects of the same machine (build = the sample table, ans = the interp1d wrapper, wr = fill):
   a history of Model/C10_Hist.v read as a history of the object machine *)
Definition hop_oop {P A} (o : hop P A) : oop P A :=
  match o with HEdit p => OEdit p | HGet => OGet | HQuery i q => OQuery i q | HWrite k v => OWrite k v end.

(* ---------------------------------------------------------------- the two composite map objects *)
Definition z4 : Type := (Z * Z * Z * Z)%type.
Definition res_shape {A} (r : res A) : option nat := match r with RScalar _ => None | RVec l => Some (List.length l) end.
Definition res_same_shape {A} (a b : res A) : bool :=
  match res_shape a, res_shape b with
  | None, None => true
  | Some n, Some m => (n =? m)%nat
  | _, _ => false
  end.

(* clef_map: `interpolators` = one sample table per staff 1..number_of_staves; collator(time) = np.array([interpolator(time)
   for interpolator in interpolators], dtype=int) *)
Definition clef_build (cp : cpart) : list (list (Z * z4)) :=
  map (clef_rows cp) (zrange 1 (Z.to_nat (c_nstaves cp))).
Definition clef_ans (tbls : list (list (Z * z4))) (q : query) : list (res (option z4)) :=
  map (fun rows => wrap_prev rows q) tbls.
Definition clef_wr (v : Z) (r : list (res (option z4))) : list (res (option z4)) := map (fill (v, v, v, v)) r.
Definition clef_shape (a b : list (res (option z4))) : bool := list_eqb res_same_shape a b.

(* metrical_position_map: fewer than two measures -> the zero interpolator (nothing captured); otherwise the barlines
   ms + me[-1:] looked up at access time; int_interp1d dispatches on isinstance(input, Iterable) *)
Definition mp_build (cp : cpart) : option (list Z) :=
  let written := map fst (c_meas cp) in
  if (List.length written <? 2)%nat then None else Some (mp_barlines (meas_tbl cp) written).
Definition mp_ans (o : option (list Z)) (q : query) : res (option (Z * Z)) :=
  match o with
  | None => match q with QScalar _ => RScalar (Some (0, 0)) | QVec l => RVec (map (fun _ => Some (0, 0)) l) end
  | Some bl =>
      match q, wrap_prev (mp_dur_tbl bl) q with
      | QVec l, RVec ds => RVec (map2 (mp_pair bl) l ds)
      | QScalar t, RScalar d => RScalar (mp_pair bl t d)
      | QVec _, RScalar _ => RVec []
      | QScalar _, RVec _ => RScalar None
      end
  end.
Definition mp_wr (v : Z) (r : res (option (Z * Z))) : res (option (Z * Z)) := fill (v, v) r.

(* ---------------------------------------------------------------- correspondence: the history the harness ran *)
(* compact form (the same for every observed part): get; the calls; the writes (k, v); the same calls again through the
   same object; get; the same calls through the new object.  Observed: the results of the second and third round
   (None = not compared), and for each array of the FIRST round what it holds at the very end: Some v = every cell is v
   (the harness prints the caller's own value when the array still holds it everywhere, another number otherwise) *)
Definition c10_ohist (O : Type) : Type :=
  (list query * list (nat * Z) * list (option O) * list (option O) * list (option Z))%type.

Definition obj_ok {P T R O : Type} (build : P -> T) (ans : T -> query -> R) (wr : Z -> R -> R) (shape : R -> R -> bool)
    (oeqb : O -> R -> bool) (filled : Z -> R -> bool) (p : P) (h : c10_ohist O) : bool :=
  let '(calls, writes, again, fresh, held) := h in
  let ops := OGet :: map (OQuery 0%nat) calls ++ map (fun kv => OWrite (fst kv) (snd kv)) writes ++
             map (OQuery 0%nat) calls ++ OGet :: map (OQuery 1%nat) calls in
  let model := orun build ans wr shape false false (oinit p) ops in
  let mheld := oheld (oend build ans wr shape false false (oinit p) ops) in
  let obs := map (fun _ => None) calls ++ again ++ fresh in
  same_len obs model &&
  forallb (fun om => match fst om with Some o => oeqb o (snd om) | None => true end) (combine obs model) &&
  (List.length held <=? List.length mheld)%nat &&
  forallb (fun hm => match fst hm with
                     | None => true
                     | Some v => match snd hm with Some r => filled v r | None => false end
                     end) (combine held mheld).

Definition res_all {A} (f : A -> bool) (r : res (option A)) : bool :=
  match r with
  | RScalar (Some a) => f a
  | RScalar None => false
  | RVec l => forallb (fun x => match x with Some a => f a | None => false end) l
  end.

Definition c10_ocase : Type :=
  (c10_hcase * c10_ohist (list (res (option z4))) * c10_ohist (res (option (Z * Z))))%type.

Definition check10o (oc : c10_ocase) : bool :=
  let '(hc, hclef, hmp) := oc in
  let '(ic, _) := hc in
  let '(c, _, _) := ic in
  let cp := build10 c in
  check10h hc &&
  obj_ok clef_build clef_ans clef_wr clef_shape
    (fun o m => list_eqb (res_obs_eqb z4_eqb) o m) (fun v r => forallb (res_all (z4_eqb (v, v, v, v))) r) cp hclef &&
  obj_ok mp_build mp_ans mp_wr res_same_shape
    (res_obs_eqb z2_eqb) (fun v r => res_all (z2_eqb (v, v)) r) cp hmp.
