(* C19 -- attribute-level decoding of ONE MEI element (round j): where the loader takes a note's written value, dots,
   tuplet ratio, tick duration, spelling, staff and grace type from.

   Executable definitions only (proofs: Proofs/C19_attr.v).  Follows partitura/io/importmei.py:
     MeiParser._get_symbolic_duration   MEI_DURS_TO_SYMBOLIC[el.attrib["dur"]], int(@dots) when present, the <tuplet>
                                        ANCESTORS of the element (iterancestors: any depth, whatever lies between):
                                        none -> no ratio, one -> (int(@num), int(@numbase)), more -> raises
     MeiParser._intsymdur_from_symbolic SYMBOLIC_TO_INT_DURS[type], dots default 0, modifier (normal, actual)
     MeiParser._duration_info           @grace -> 0, else int(@dur.ppq) when present, else
                                        (divs*4*normal)/(intsymdur*actual) * (2 - 0.5**dots), asserted integral
     MeiParser._note_el_to_accid_int    @accid, else @accid.ges, else the FIRST <accid> child: its @accid, else its
                                        @accid.ges (absent: SIGN_TO_ALTER[None] raises), else no alteration (None)
     MeiParser._pitch_info              @pname, int(@oct), the above
     MeiParser._handle_note / _handle_chord   staff = note@staff, else chord@staff, else the enclosing <staff>
                                        (Model.C19.imp_staff); grace type from @grace; a chord member takes duration
                                        and written value from the <chord> element
   The three tables are reflected from the live module at every run (Gen/C19_tables.v).
   None = the loader raises (KeyError, ValueError of int(), the nested-tuplet exception, the assertion). *)
From PV Require Import Lib.Base Model.C19 Model.C19_kern Model.C19_disp Model.C19_mei Gen.C19_tables.
From Coq Require Import QArith Qround Ascii.
#[local] Open Scope Z_scope.

(* an XML element as far as the decoding looks at it: tag and attributes *)
Record node := Nd { n_tag : string; n_attrs : list (string * string) }.
Definition attr (k : string) (n : node) : option string := slookup k (n_attrs n).

(* the element, its children in document order, its ancestors from the parent outwards *)
Record elem := El { el_self : node; el_children : list node; el_anc : list node }.

(* int(text) on the decimal digit strings the supported files hold; anything else raises *)
Definition py_int (s : string) : option Z := digits_value s.

(* ---------------------------------------------------------------- written value *)

(* symbolic_duration dict: type, dots (key present?), (actual_notes, normal_notes) (keys present?) *)
Record symdur := SD { sd_type : string; sd_dots : option Z; sd_tuplet : option (Z * Z) }.

Definition is_tuplet (n : node) : bool := String.eqb (n_tag n) "tuplet".

Definition dots_attr (n : node) : option (option Z) :=
  match attr "dots" n with None => Some None | Some s => option_map Some (py_int s) end.

Definition tuplet_ratio (t : node) : option (Z * Z) :=
  a <- attr "num" t ;; a' <- py_int a ;; b <- attr "numbase" t ;; b' <- py_int b ;; Some (a', b').

(* what the lookup of the enclosing tuplets returns for a list of <tuplet> elements *)
Definition ratio_of (tuplets : list node) : option (option (Z * Z)) :=
  match tuplets with
  | [] => Some None
  | [t] => option_map Some (tuplet_ratio t)
  | _ => None
  end.

Definition get_symbolic_duration (e : elem) : option symdur :=
  d <- attr "dur" (el_self e) ;;
  ty <- slookup d mei_durs_to_symbolic ;;
  dots <- dots_attr (el_self e) ;;
  tup <- ratio_of (filter is_tuplet (el_anc e)) ;;
  Some (SD ty dots tup).

(* the variant of seeded change b: the tuplet is looked for on the direct parent only *)
Definition get_symbolic_duration_parent_only (e : elem) : option symdur :=
  d <- attr "dur" (el_self e) ;;
  ty <- slookup d mei_durs_to_symbolic ;;
  dots <- dots_attr (el_self e) ;;
  tup <- ratio_of (filter is_tuplet (firstn 1 (el_anc e))) ;;
  Some (SD ty dots tup).

Definition sd_dots0 (sd : symdur) : nat := match sd_dots sd with Some d => Z.to_nat d | None => O end.
Definition sd_actual (sd : symdur) : Z := match sd_tuplet sd with Some (a, _) => a | None => 1 end.
Definition sd_normal (sd : symdur) : Z := match sd_tuplet sd with Some (_, b) => b | None => 1 end.

(* _duration_info without the id *)
Definition formula_ticks (divs : Z) (sd : symdur) : option Z :=
  v <- slookup (sd_type sd) symbolic_to_int_durs ;;
  let den := (v * inject_Z (sd_actual sd))%Q in
  if Qeq_bool den 0 then None      (* ZeroDivisionError *)
  else q_int ((inject_Z (divs * 4 * sd_normal sd) / den) * (2 - qpow (1 # 2) (sd_dots0 sd)))%Q.

Definition duration_info (divs : Z) (e : elem) : option (Z * symdur) :=
  sd <- get_symbolic_duration e ;;
  match attr "grace" (el_self e) with
  | Some _ => Some (0, sd)
  | None =>
      match attr "dur.ppq" (el_self e) with
      | Some p => t <- py_int p ;; Some (t, sd)
      | None => t <- formula_ticks divs sd ;; Some (t, sd)
      end
  end.

(* ---------------------------------------------------------------- spelling *)

(* SIGN_TO_ALTER[s]: None = KeyError; Some None = the entry that holds None *)
Definition sign_alter (s : string) : option (option Z) := slookup s sign_to_alter.

Definition is_accid (n : node) : bool := String.eqb (n_tag n) "accid".

Definition accid_int (e : elem) : option (option Z) :=
  match attr "accid" (el_self e) with
  | Some s => sign_alter s
  | None =>
      match attr "accid.ges" (el_self e) with
      | Some s => sign_alter s
      | None =>
          match find is_accid (el_children e) with
          | Some c =>
              match attr "accid" c with
              | Some s => sign_alter s
              | None => match attr "accid.ges" c with Some s => sign_alter s | None => None end
              end
          | None => Some None
          end
      end
  end.

(* the slip of dropping the inner test: the child's @accid only *)
Definition accid_int_child_written_only (e : elem) : option (option Z) :=
  match attr "accid" (el_self e) with
  | Some s => sign_alter s
  | None =>
      match attr "accid.ges" (el_self e) with
      | Some s => sign_alter s
      | None =>
          match find is_accid (el_children e) with
          | Some c => match attr "accid" c with Some s => sign_alter s | None => None end
          | None => Some None
          end
      end
  end.

(* every place the accidental of a note is written at (specification side of the theorems) *)
Definition opt_list {A} (o : option A) : list A := match o with Some a => [a] | None => [] end.
Definition accid_sources (e : elem) : list string :=
  opt_list (attr "accid" (el_self e)) ++ opt_list (attr "accid.ges" (el_self e)) ++
  match find is_accid (el_children e) with
  | Some c => opt_list (attr "accid" c) ++ opt_list (attr "accid.ges" c)
  | None => []
  end.

Definition pitch_info (e : elem) : option (string * Z * option Z) :=
  step <- attr "pname" (el_self e) ;;
  o <- attr "oct" (el_self e) ;;
  oct <- py_int o ;;
  a <- accid_int e ;;
  Some (step, oct, a).

(* ---------------------------------------------------------------- one note as it is added to the part *)

Definition staff_attr (n : node) : option (option Z) :=
  match attr "staff" n with None => Some None | Some s => option_map Some (py_int s) end.

Definition grace_type (n : node) : option string :=
  match attr "grace" n with
  | None => None
  | Some g => Some (if String.eqb g "unacc" then "acciaccatura" else if String.eqb g "acc" then "appoggiatura" else "grace")%string
  end.

Record decoded := Dec {
  d_step : string; d_oct : Z; d_alter : option Z; d_ticks : Z; d_sym : symdur; d_staff : Z; d_grace : option string }.

(* _handle_note (chord = None) / one member of _handle_chord (chord = the <chord> element; note = the member) *)
Definition handle_note (divs enclosing : Z) (chord : option elem) (note : elem) : option decoded :=
  p <- pitch_info note ;;
  let '(step, oct, alter) := p in
  ds <- duration_info divs (match chord with Some c => c | None => note end) ;;
  ns <- staff_attr (el_self note) ;;
  cs <- match chord with Some c => staff_attr (el_self c) | None => Some None end ;;
  Some (Dec step oct alter (fst ds) (snd ds) (imp_staff ns cs enclosing)
            (match chord with Some _ => None | None => grace_type (el_self note) end)).

(* ---------------------------------------------------------------- checker of the correspondence stream *)

Definition sopt_eqb (a b : option string) : bool :=
  match a, b with Some x, Some y => String.eqb x y | None, None => true | _, _ => false end.
Definition zpair_opt_eqb (a b : option (Z * Z)) : bool :=
  match a, b with Some (x, y), Some (u, v) => (x =? u) && (y =? v) | None, None => true | _, _ => false end.
Definition symdur_eqb (a b : symdur) : bool :=
  String.eqb (sd_type a) (sd_type b) && zopt_eqb (sd_dots a) (sd_dots b) && zpair_opt_eqb (sd_tuplet a) (sd_tuplet b).
Definition decoded_eqb (a b : decoded) : bool :=
  String.eqb (lower (d_step a)) (lower (d_step b)) && (d_oct a =? d_oct b) && zopt_eqb (d_alter a) (d_alter b) &&
  (d_ticks a =? d_ticks b) && symdur_eqb (d_sym a) (d_sym b) && (d_staff a =? d_staff b).
(* the grace TYPE is decoded (d_grace) but not compared: the property names "grace notes without duration" only *)

(* one probed note: divisions of the part, n of the enclosing <staff>, the <chord> it is a member of, the note, and
   what load_mei gave the note with its id (None: the loader raised) *)
Definition check_attr (c : Z * Z * option elem * elem * option decoded) : bool :=
  let '(divs, enclosing, chord, note, obs) := c in
  match handle_note divs enclosing chord note, obs with
  | Some m, Some o => decoded_eqb m o
  | None, None => true
  | _, _ => false
  end.

(* ---------------------------------------------------------------- the values the MEI guidelines give @dur and the basic
   written / gestural accidentals, with what they denote (statement side of the table theorems): @dur as the
   reciprocal of the value in whole notes; alteration in semitones *)
Definition mei_dur_spec : list (string * Q) :=
  [("long", 1 # 4); ("breve", 1 # 2); ("1", 1); ("2", 2); ("4", 4); ("8", 8); ("16", 16); ("32", 32); ("64", 64);
   ("128", 128); ("256", 256)]%string%Q.
Definition mei_accid_spec : list (string * Z) :=
  [("s", 1); ("f", -1); ("ss", 2); ("x", 2); ("ff", -2); ("n", 0); ("ns", 1); ("nf", -1)]%string.

(* ---------------------------------------------------------------- glue: the XML element as the abstract element of the
   traversal model (Model.C19_mei.mel), so that the refinement theorem of the traversal (mei_load_refines) speaks about
   what the ATTRIBUTES of the file denote.  Defined for elements with a whole-number value (1 = whole ... 256) and a
   positive tuplet count; <mRest> carries no @dur and is handled by the traversal model itself. *)
Definition tag_kind (t : string) : option Z :=
  if String.eqb t "note" then Some 0 else if String.eqb t "chord" then Some 1
  else if String.eqb t "rest" then Some 2 else if String.eqb t "space" then Some 4 else None.

Definition ppq_attr (n : node) : option (option Z) :=
  match attr "dur.ppq" n with None => Some None | Some p => option_map Some (py_int p) end.

Definition mel_of (e : elem) : option mel :=
  k <- tag_kind (n_tag (el_self e)) ;;
  sd <- get_symbolic_duration e ;;
  q <- slookup (sd_type sd) symbolic_to_int_durs ;;
  v <- q_int q ;;
  ppq <- ppq_attr (el_self e) ;;
  if (0 <? v) && (0 <? sd_actual sd) then
    Some (Mel (Ev k v (sd_dots0 sd) (sd_actual sd) (sd_normal sd)
                  (match attr "grace" (el_self e) with Some _ => true | None => false end) false []) ppq)
  else None.

Fixpoint mels_of (es : list elem) : option (list mel) :=
  match es with
  | [] => Some []
  | e :: r => m <- mel_of e ;; ms <- mels_of r ;; Some (m :: ms)
  end.

(* _handle_layer_in_staff_in_measure over the elements with @dur of a layer, flattened in document order (each with
   its own ancestor chain), durations by _duration_info on the attributes; a <space> only moves the position *)
Definition is_space (e : elem) : bool := String.eqb (n_tag (el_self e)) "space".
Fixpoint layer_run_attr (divs pos : Z) (es : list elem) : option (list (Z * Z) * Z) :=
  match es with
  | [] => Some ([], pos)
  | e :: r =>
      ds <- duration_info divs e ;;
      res <- layer_run_attr divs (pos + fst ds) r ;;
      Some ((if is_space e then [] else [(pos, pos + fst ds)]) ++ fst res, snd res)
  end.

(* one probed layer: divisions, its elements with @dur in document order, the (start, end) load_mei gave every note /
   chord of it (a space has no row) -- by the attribute-level run and, where every value is a whole number, by the
   traversal model on the abstract elements as well *)
Definition zpair_eqb (a b : Z * Z) : bool := (fst a =? fst b) && (snd a =? snd b).
Definition check_attr_layer (c : Z * list elem * list (Z * Z)) : bool :=
  let '(divs, es, rows) := c in
  match layer_run_attr divs 0 es with
  | Some (r, _) => list_eqb zpair_eqb r rows
  | None => false
  end &&
  match mels_of es with
  | Some ms => match layer_run divs 0 0 ms with Some (r, _) => list_eqb zpair_eqb r rows | None => false end
  | None => true
  end.
