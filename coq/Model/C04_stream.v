(* C04 -- second model file (executable definitions and boolean checkers only):
   (1) tied chains: Part.notes_tied / GenericNote.duration_tied (partitura/score.py);
   (2) the message SEQUENCE of every track written by save_score_midi (partitura/io/exportmidi.py):
       ticks ascending; per tick the tempo / signatures, then the note offs, then the zero-length
       notes as adjacent on/off pairs, then the note ons; delta times;
   (3) the time / key signatures every imported part receives (load_score_midi:
       tracks without notes are global, the "sanitize" rule, make_track_to_part_mapping,
       create_part's default 4/4).
   Proofs are in Proofs/C04_stream.v. *)
From PV Require Import Lib.Base Lib.Round Model.C04.
From Coq Require Import QArith.
#[local] Open Scope Z_scope.

(* ------------------------------------------------------------------ (1) tied chains *)
(* one Note object of part.iter_all(Note, include_subclasses=True), in that order:
   start, duration, midi pitch, voice, "tie_prev is not None", index of tie_next in the same list *)
Definition piece := (Z * Z * Z * Z * bool * option Z)%type.
Definition pc_start (p : piece) : Z := let '(s, _, _, _, _, _) := p in s.
Definition pc_dur (p : piece) : Z := let '(_, d, _, _, _, _) := p in d.
Definition pc_has_prev (p : piece) : bool := let '(_, _, _, _, h, _) := p in h.
Definition pc_next (p : piece) : option Z := let '(_, _, _, _, _, n) := p in n.

Definition piece_at (pcs : list piece) (i : Z) : option piece :=
  if i <? 0 then None else nth_error pcs (Z.to_nat i).

(* duration_tied: self.duration if tie_next is None else self.duration + self.tie_next.duration_tied
   (Python recursion; the fuel runs out only on a cyclic chain) *)
Fixpoint dur_tied (fuel : nat) (pcs : list piece) (i : Z) : option Z :=
  match fuel with
  | O => None
  | S f =>
      match piece_at pcs i with
      | None => None
      | Some pc =>
          match pc_next pc with
          | None => Some (pc_dur pc)
          | Some j => match dur_tied f pcs j with Some r => Some (pc_dur pc + r) | None => None end
          end
      end
  end.

(* notes_tied = [n for n in notes if n.tie_prev is None], each with (start, duration_tied, pitch, voice):
   the four values the exporter reads *)
Fixpoint tied_from (all : list piece) (i : Z) (l : list piece) : option (list (Z * Z * Z * Z)) :=
  match l with
  | [] => Some []
  | (s, d, p, v, hp, nx) :: r =>
      match tied_from all (i + 1) r with
      | None => None
      | Some rest =>
          if hp then Some rest
          else match dur_tied (List.length all) all i with
               | Some dt => Some ((s, dt, p, v) :: rest)
               | None => None
               end
      end
  end.
Definition tied_notes (pcs : list piece) : option (list (Z * Z * Z * Z)) := tied_from pcs 0 pcs.

Definition n4_eqb (a b : Z * Z * Z * Z) : bool :=
  let '(a1, a2, a3, a4) := a in let '(b1, b2, b3, b4) := b in
  (a1 =? b1) && (a2 =? b2) && (a3 =? b3) && (a4 =? b4).

(* correspondence: the model's merge of the raw pieces = what the exporter reads through
   part.notes_tied / note.duration_tied *)
Definition check_tied (pcs : list piece) (obs : list (Z * Z * Z * Z)) : bool :=
  match tied_notes pcs with Some l => list_eqb n4_eqb l obs | None => false end.

(* ------------------------------------------------------------------ (2) the sequence of a track *)
(* a sounding note of a track in ticks: (channel, on tick, pitch, off tick - on tick) = Model.C04.note *)
Definition n_on (n : note) : Z := let '(_, s, _, _) := n in s.
Definition n_off (n : note) : Z := let '(_, s, _, d) := n in s + d.
(* `if t_off > t_on:` ordinary note, else zero-length (grace) note *)
Definition n_long (n : note) : bool := let '(_, _, _, d) := n in 0 <? d.
Definition msg_on (vel : Z) (n : note) : msg := let '(ch, s, p, _) := n in (s, 1, ch, p, vel).
Definition msg_off (n : note) : msg := let '(ch, s, p, d) := n in (s + d, 0, ch, p, 0).
(* the note_off of a zero-length note stays with its note_on (grace_notes[key][t_on]) *)
Definition msg_goff (n : note) : msg := let '(ch, s, p, _) := n in (s, 0, ch, p, 0).

Definition offs_at (N : list note) (t : Z) : list msg :=
  map msg_off (filter (fun n => n_long n && (n_off n =? t)) N).
Definition graces_at (vel : Z) (N : list note) (t : Z) : list msg :=
  flat_map (fun n => [msg_on vel n; msg_goff n]) (filter (fun n => negb (n_long n) && (n_on n =? t)) N).
Definition ons_at (vel : Z) (N : list note) (t : Z) : list msg :=
  map (msg_on vel) (filter (fun n => n_long n && (n_on n =? t)) N).

(* events[tr][t]: tempo, signatures (prepended), note offs, zero-length notes, note ons *)
Definition at_tick (vel : Z) (metas : list msg) (N : list note) (t : Z) : list msg :=
  filter (fun m => m_time m =? t) metas ++ offs_at N t ++ graces_at vel N t ++ ons_at vel N t.

(* sorted(events_by_time.keys()): ascending, each tick once *)
Fixpoint uinsert (x : Z) (l : list Z) : list Z :=
  match l with
  | [] => [x]
  | y :: r => if x <? y then x :: l else if x =? y then l else y :: uinsert x r
  end.
Definition usort (l : list Z) : list Z := fold_right uinsert [] l.

Definition note_ticks (N : list note) : list Z :=
  flat_map (fun n => if n_long n then [n_on n; n_off n] else [n_on n]) N.

Definition stream (vel : Z) (metas : list msg) (N : list note) : list msg :=
  flat_map (at_tick vel metas N) (usort (map m_time metas ++ note_ticks N)).

(* delta = t - t_prev for the first message of a tick, 0 for the others *)
Fixpoint to_delta (prev : Z) (ms : list msg) : list msg :=
  match ms with [] => [] | m :: r => set_time (m_time m - prev) m :: to_delta (m_time m) r end.

(* the notes of track i, in ticks, with their channels *)
Definition part_track_notes (mode ppq : Z) (f : Q) (keys : list key) (p : part) : list (Z * note) :=
  map (fun n => let '(s, d, pitch, v) := n in
                let '(tr, ch) := track_channel mode keys (p_group p, p_id p, v) in
                let t_on := tick ppq f p s in
                (tr, (ch, t_on, pitch, tick ppq f p (s + d) - t_on))) (p_notes p).

Definition track_notes (mode an ppq : Z) (ps : list part) (i : Z) : list note :=
  let f := ftp an ps in
  let keys := all_keys ps in
  map snd (filter (fun e => fst e =? i) (flat_map (part_track_notes mode ppq f keys) ps)).

Definition track_metas (mode vel an ppq : Z) (ps : list part) (i : Z) : list msg :=
  filter (fun m => 2 <=? m_kind m) (track_of i (model_events mode vel an ppq ps)).

Definition model_stream (mode vel an ppq : Z) (ps : list part) (i : Z) : list msg :=
  stream vel (track_metas mode vel an ppq ps i) (track_notes mode an ppq ps i).

Definition msgs_eqb := list_eqb msg_eqb.

(* all (channel, pitch) keys of a message list *)
Definition hashes (ms : list msg) : list Z := dedup Z.eqb (map mhash (filter is_note_msg ms)).

(* correspondence for the sequence: per track (a) the model's sequence is a rearrangement of the
   observed messages, (b) the tick sequences agree, (c) for every (channel, pitch) key the
   sub-stream the importer's sounding-note table sees is the model's.  Under time_sig_change
   (an = 1) the time signatures are left to the harness' oracle and taken out first. *)
Definition check_stream (mode vel an mn : Z) (ps : list part) (obs_tracks : list (list msg)) : bool :=
  match model_ppq (all_qdurs ps) mn with
  | None => false
  | Some ppq =>
      (fix go (i : Z) (trs : list (list msg)) : bool :=
         match trs with
         | [] => true
         | tr :: r =>
             let obs_abs := absolute tr in
             let obs_cmp := if an =? 1 then filter (fun m => negb (is_tsig m)) obs_abs else obs_abs in
             let S := model_stream mode vel an ppq ps i in
             mset_eqb S obs_cmp
             && ((an =? 1) || zlist_eqb (map m_time S) (map m_time obs_abs))
             && forallb (fun h => msgs_eqb (proj h S) (proj h obs_abs)) (hashes (S ++ obs_abs))
             && go (i + 1) r
         end) 0 obs_tracks
  end.

(* ------------------------------------------------------------------ (3) signatures of the imported parts *)
Definition sig := (Z * Z * Z)%type.   (* tick, numerator / key code, denominator / 0 *)
Definition sig_eqb (a b : sig) : bool :=
  let '(a1, a2, a3) := a in let '(b1, b2, b3) := b in (a1 =? b1) && (a2 =? b2) && (a3 =? b3).
Definition psig_eqb (a b : Z * sig) : bool := (fst a =? fst b) && sig_eqb (snd a) (snd b).

(* time_sigs / key_sigs of one track, with the running time of the message loop *)
Definition track_sigs (kind : Z) (tr : list msg) : list sig :=
  map (fun m => let '(t, _, a, b, _) := m in (t, a, b)) (filter (fun m => m_kind m =? kind) (absolute tr)).

Fixpoint indexed {A} (i : Z) (l : list A) : list (Z * A) :=
  match l with [] => [] | x :: r => (i, x) :: indexed (i + 1) r end.

Definition gpv_part (mode : Z) (tcs : list (Z * Z)) (k : Z * Z) : Z :=
  let '(_, prt, _) := import_gpv mode tcs k in prt.

(* make_track_to_part_mapping: the parts holding notes of track tr *)
Definition parts_of_track (mode : Z) (tcs : list (Z * Z)) (tr : Z) : list Z :=
  dedup Z.eqb (map (gpv_part mode tcs) (filter (fun k => fst k =? tr) tcs)).

(* kind 2: time signatures (with the sanitize rule and create_part's default), kind 3: key signatures.
   Result: (part number, signature), as a list standing for the per-part sets. *)
Definition import_sigs (mode kind : Z) (trs : list (list msg)) : list (Z * sig) :=
  let ns := import_tracks 0 trs in
  let tcs := zzsort (dedup zz_eqb (map tc_of ns)) in
  let parts := dedup Z.eqb (map (gpv_part mode tcs) tcs) in
  let itrs := indexed 0 trs in
  let has_notes (it : Z * list msg) := existsb (fun k => fst k =? fst it) tcs in
  let withn := filter has_notes itrs in
  let glob0 := flat_map (fun it => track_sigs kind (snd it)) (filter (fun it => negb (has_notes it)) itrs) in
  let counts := map (fun it => Z.of_nat (List.length (track_sigs kind (snd it)))) withn in
  let sanitize := (kind =? 2)
                  && match glob0 with [] => true | _ => false end
                  && match counts with
                     | [] => false
                     | c :: cs => (fold_right Z.min c cs =? 0) && negb (fold_right Z.max c cs =? 0)
                     end in
  let glob := if sanitize then flat_map (fun it => track_sigs kind (snd it)) withn else glob0 in
  let per_track :=
    if sanitize then []
    else flat_map (fun it => flat_map (fun prt => map (fun s => (prt, s)) (track_sigs kind (snd it)))
                                      (parts_of_track mode tcs (fst it))) withn in
  let found := per_track ++ flat_map (fun prt => map (fun s => (prt, s)) glob) parts in
  if kind =? 2
  then found ++ map (fun prt => (prt, (0, 4, 4))) (filter (fun prt => negb (existsb (fun x => fst x =? prt) found)) parts)
  else found.

Fixpoint psig_subset (a b : list (Z * sig)) : bool :=
  match a with [] => true | x :: r => existsb (psig_eqb x) b && psig_subset r b end.

(* correspondence: the (part, signature) pairs of the imported score = the model's run on the
   observed file messages, as sets *)
Definition check_import_sigs (mode : Z) (trs : list (list msg)) (obs_ts obs_ks : list (Z * sig)) : bool :=
  let mts := import_sigs mode 2 trs in
  let mks := import_sigs mode 3 trs in
  psig_subset mts obs_ts && psig_subset obs_ts mts && psig_subset mks obs_ks && psig_subset obs_ks mks.

(* ------------------------------------------------------------------ load_performance_midi *)
(* the same message loop (running tick, sounding-note table keyed by note_hash) per track; observed:
   (track, channel, note_on_tick, midi_pitch, note_off_tick - note_on_tick) of every performed note *)
Definition check_perf (trs : list (list msg)) (obs : list msg) : bool :=
  mset_eqb (map (fun x : Z * note => let '(i, (ch, s, p, d)) := x in (i, ch, s, p, d)) (import_tracks 0 trs)) obs.
