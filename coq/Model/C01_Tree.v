(* C01 -- boolean checkers over the reflected TimedObject class tree (Gen/C01_ClassTree.v).
   Definitions only.  Proofs/C01_tree.v proves them `= true` by vm_compute over the complete finite
   tree and lifts them to all class ids; when that no longer builds the harness evaluates the `bad_*`
   lists below to say WHICH statement fails and for WHICH classes.

   ct_subs    : c |-> c.__subclasses__()            (direct subclasses, Python order)
   ct_anc     : c |-> c.__mro__[1:] inside the tree (strict ancestors)
   ct_itersub : c |-> list(iter_subclasses(c))      (what partitura's function REALLY returned; a
                                                     class outside the tree is printed as -1) *)
From PV Require Import Lib.Base Gen.C01_ClassTree Model.C01.

Definition anc_of (d : Z) : list Z := match zlookup d ct_anc with Some l => l | None => [] end.
(* issubclass(d, c) and d is not c, read off d.__mro__ *)
Definition strict_desc_b (d c : Z) : bool := negb (d =? c) && zmem c (anc_of d).

Definition classes : list Z := zrange 0 ct_n_nat.

Fixpoint nodup_b (l : list Z) : bool :=
  match l with [] => true | x :: r => negb (zmem x r) && nodup_b r end.

(* what the real iter_subclasses returned for class c *)
Definition impl_itersub (c : Z) : list Z := match zlookup c ct_itersub with Some l => l | None => [] end.

Fixpoint count_z (x : Z) (l : list Z) : nat :=
  match l with [] => O | y :: r => if x =? y then S (count_z x r) else count_z x r end.

(* the model's iter_subclasses returns, for class c, the classes partitura's iter_subclasses returned, each as
   often (the ORDER of the enumeration is not part of the property: results are compared per time point as
   multisets, so a reordering refactoring of iter_subclasses is harmless) *)
Definition same_counts_b (l1 l2 : list Z) : bool :=
  forallb (fun d => Nat.eqb (count_z d l1) (count_z d l2)) (l1 ++ l2).
Definition itersub_b (c : Z) : bool :=
  match zlookup c ct_itersub with Some l => same_counts_b l (iter_subclasses c) | None => false end.

(* l lists exactly the strict descendants of c, each once *)
Definition closed_list_b (l : list Z) (c : Z) : bool :=
  nodup_b l && forallb (fun d => zmem d classes) l
  && forallb (fun d => Bool.eqb (zmem d l) (strict_desc_b d c)) classes.

Definition keys_b : bool :=
  list_eqb Z.eqb (map fst ct_subs) classes && list_eqb Z.eqb (map fst ct_anc) classes
  && list_eqb Z.eqb (map fst ct_itersub) classes.

Definition cls_named (s : string) : option Z :=
  option_map fst (find (fun e => String.eqb (snd e) s) ct_names).

(* classes with two or more direct superclasses inside the tree (reached by more than one path) *)
Definition n_parents (d : Z) : nat := List.length (filter (fun e => zmem d (snd e)) ct_subs).
Definition multi_parent : list Z := filter (fun d => Nat.leb 2 (n_parents d)) classes.

(* every class c, every multiply-inherited strict descendant d of c: d occurs exactly once in l c *)
Definition diamonds_once_b (l : Z -> list Z) : bool :=
  forallb (fun c => forallb (fun d => negb (strict_desc_b d c) || Nat.eqb (count_z d (l c)) 1) multi_parent) classes.

(* ---- diagnosis (evaluated by the harness when Proofs/C01_tree.v no longer builds) *)
Definition bad_itersub : list Z := filter (fun c => negb (itersub_b c)) classes.
Definition bad_closed_model : list Z := filter (fun c => negb (closed_list_b (iter_subclasses c) c)) classes.
Definition bad_closed_impl : list Z := filter (fun c => negb (closed_list_b (impl_itersub c) c)) classes.
(* (c, d): the real iter_subclasses(c) yields d twice or more *)
Definition impl_repeats : list (Z * Z) :=
  flat_map (fun c => map (pair c) (filter (fun d => Nat.leb 2 (count_z d (impl_itersub c))) classes)) classes.
Definition tree_diagnosis :=
  (keys_b, bad_itersub, bad_closed_model, bad_closed_impl, impl_repeats,
   (diamonds_once_b iter_subclasses, diamonds_once_b impl_itersub, Nat.leb 1 (List.length multi_parent))).
