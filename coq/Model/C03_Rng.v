(* C03 -- slur / tuplet numbers: the exporter's counter and the importer's pairing.

   Executable model (no proofs here) of
     partitura/io/exportmusicxml.py  range_number_from_counter   -> toggle (smallest number no OPEN range of the
                                                                   label uses; the second call for a range releases it)
                                     range_numbers_at_note        -> numbers_at (ranges that are not open get their number
                                                                   BEFORE the open ones release theirs; sorted by number)
                                     make_note_el (slur/tuplet part: stops, then starts)      -> export_note
     partitura/io/importmusicxml.py  handle_slurs / handle_tuplets -> import_note (the elements of a note sorted by
                                                                   type, stops first, then by number; per number a
                                                                   start-key and a stop-key in `ongoing`; a stop met
                                                                   before its start waits under the stop-key; for slurs a
                                                                   pairing that would run backwards in time is "rogue")
   and the SPEC: the same reader keyed by the IDENTITY of the range instead of its number (spec_note).

   A range (slur, tuplet) is an integer; a note reference is (index in document order, onset time). *)
From PV Require Import Lib.Base.
#[local] Open Scope Z_scope.

Definition nref := (Z * Z)%type.

(* ---------------------------------------------------------------- exporter *)

Definition counter := list (Z * Z).            (* open range -> its number *)

Definition zmem (a : Z) (l : list Z) : bool := existsb (Z.eqb a) l.

(* number = 1; while number in used: number += 1 *)
Fixpoint free_from (fuel : nat) (n : Z) (used : list Z) : Z :=
  match fuel with
  | O => n
  | S f => if zmem n used then free_from f (n + 1) used else n
  end.
Definition smallest_free (used : list Z) : Z := free_from (List.length used) 1 used.

Fixpoint cremove (r : Z) (c : counter) : counter :=
  match c with
  | [] => []
  | (r', n) :: t => if r =? r' then t else (r', n) :: cremove r t
  end.

(* range_number_from_counter *)
Definition toggle (r : Z) (c : counter) : Z * counter :=
  match zlookup r c with
  | Some n => (n, cremove r c)
  | None => let n := smallest_free (map snd c) in (n, (r, n) :: c)
  end.

Definition is_open (c : counter) (r : Z) : bool :=
  match zlookup r c with Some _ => true | None => false end.

(* (number, range) for each range, in the order of the calls *)
Fixpoint toggle_all (rs : list Z) (c : counter) : list (Z * Z) * counter :=
  match rs with
  | [] => ([], c)
  | r :: t => let (n, c1) := toggle r c in
              let (l, c2) := toggle_all t c1 in ((n, r) :: l, c2)
  end.

Fixpoint ins_num {A} (x : Z * A) (l : list (Z * A)) : list (Z * A) :=
  match l with
  | [] => [x]
  | y :: r => if fst x <=? fst y then x :: l else y :: ins_num x r
  end.
Definition sort_num {A} (l : list (Z * A)) : list (Z * A) := fold_right ins_num [] l.

(* the ranges in the order in which range_numbers_at_note calls range_number_from_counter *)
Definition call_order (rs : list Z) (c : counter) : list Z :=
  filter (fun r => negb (is_open c r)) rs ++ filter (is_open c) rs.

(* range_numbers_at_note (ranges of one note are distinct objects; the stable sort by number is taken over the
   order of the calls: within one note all numbers differ -- numbers_at_distinct -- so the order of `ranges` the
   code sorts over gives the same list) *)
Definition numbers_at (rs : list Z) (c : counter) : list (Z * Z) * counter :=
  let (l, c') := toggle_all (call_order rs c) c in (sort_num l, c').

Record rnote := mkRN { rn_ref : nref; rn_stops : list Z; rn_starts : list Z }.

(* the <slur>/<tuplet> elements of one note as written: (number, is a start), stops first *)
Definition written_events (sp st : list (Z * Z)) : list (Z * bool) :=
  map (fun p => (fst p, false)) sp ++ map (fun p => (fst p, true)) st.

Definition export_note (rn : rnote) (c : counter) : list (Z * bool) * counter :=
  let (sp, c1) := numbers_at (rn_stops rn) c in
  let (st, c2) := numbers_at (rn_starts rn) c1 in
  (written_events sp st, c2).

Fixpoint export_notes (ns : list rnote) (c : counter) : list (list (Z * bool)) :=
  match ns with
  | [] => []
  | rn :: r => let (w, c') := export_note rn c in w :: export_notes r c'
  end.

(* ---------------------------------------------------------------- importer *)

(* `ongoing`: per key the note of a start waiting for its stop and the note of a stop waiting for its start;
   fin: the finished pairs (start note index, end note index); a start (stop) that is overwritten while waiting
   stays in the part without its other end: (index, -1) / (-1, index) *)
Record ost := mkO { o_start : Z -> option nref; o_stop : Z -> option nref; fin : list (Z * Z) }.

Definition upd (f : Z -> option nref) (k : Z) (v : option nref) : Z -> option nref :=
  fun k' => if k' =? k then v else f k'.

Definition dangling_start (a : option nref) : list (Z * Z) :=
  match a with Some (zi, _) => [(zi, -1)] | None => [] end.
Definition dangling_stop (b : option nref) : list (Z * Z) :=
  match b with Some (yi, _) => [(-1, yi)] | None => [] end.

(* what one <slur>/<tuplet> element does to the two entries of its key: new entries and the pairs it settles *)
Definition kstep (rogue : bool) (x : nref) (is_start : bool) (a b : option nref)
  : option nref * option nref * list (Z * Z) :=
  if is_start then
    match b with                                   (* ongoing.pop(stop_key) *)
    | Some (yi, yt) =>
        if rogue && (yt <? snd x) then (Some x, None, dangling_start a)   (* the stop is dropped *)
        else (a, None, [(fst x, yi)])
    | None => (Some x, None, dangling_start a)
    end
  else
    match a with                                   (* ongoing.pop(start_key) *)
    | Some (zi, zt) =>
        if rogue && (zt >? snd x) then (None, Some x, dangling_stop b)    (* the start is dropped *)
        else (None, b, [(zi, fst x)])
    | None => (None, Some x, dangling_stop b)
    end.

Definition ostep (rogue : bool) (x : nref) (e : Z * bool) (s : ost) : ost :=
  match kstep rogue x (snd e) (o_start s (fst e)) (o_stop s (fst e)) with
  | (a', b', out) => mkO (upd (o_start s) (fst e) a') (upd (o_stop s) (fst e) b') (out ++ fin s)
  end.

Definition orun (rogue : bool) (x : nref) (evs : list (Z * bool)) (s : ost) : ost :=
  fold_left (fun s e => ostep rogue x e s) evs s.

(* slurs.sort(key=type, reverse=True): 'stop' before 'start', stable *)
Fixpoint ins_type (x : Z * bool) (l : list (Z * bool)) : list (Z * bool) :=
  match l with
  | [] => [x]
  | y :: r => if implb (snd x) (snd y) then x :: l else y :: ins_type x r
  end.
Definition sort_type (l : list (Z * bool)) : list (Z * bool) := fold_right ins_type [] l.

Definition import_note (rogue : bool) (x : nref) (evs : list (Z * bool)) (s : ost) : ost :=
  orun rogue x (sort_num (sort_type evs)) s.

Definition ost0 : ost := mkO (fun _ => None) (fun _ => None) [].

(* save then load, note by note in document order *)
Fixpoint roundtrip (rogue : bool) (ns : list rnote) (c : counter) (s : ost) : ost :=
  match ns with
  | [] => s
  | rn :: r => let (w, c') := export_note rn c in
               roundtrip rogue r c' (import_note rogue (rn_ref rn) w s)
  end.

(* load alone, from the events as they stand in a file *)
Fixpoint import_notes (rogue : bool) (ws : list (nref * list (Z * bool))) (s : ost) : ost :=
  match ws with
  | [] => s
  | (x, w) :: r => import_notes rogue r (import_note rogue x w s)
  end.

(* ---------------------------------------------------------------- SPEC: pairing by identity *)

Definition range_events (rn : rnote) : list (Z * bool) :=
  map (fun r => (r, false)) (rn_stops rn) ++ map (fun r => (r, true)) (rn_starts rn).

Fixpoint spec_run (rogue : bool) (ns : list rnote) (s : ost) : ost :=
  match ns with
  | [] => s
  | rn :: r => spec_run rogue r (orun rogue (rn_ref rn) (range_events rn) s)
  end.

(* a range event is in order when it is the first event of its range, or the range waits for exactly this
   kind of event and (slurs only: the importer's rogue test) does not run backwards in time *)
Definition ok_event (rogue : bool) (s : ost) (x : nref) (e : Z * bool) : Prop :=
  match o_start s (fst e), o_stop s (fst e) with
  | None, None => True
  | Some (_, zt), None => snd e = false /\ (rogue = true -> zt <= snd x)
  | None, Some (_, yt) => snd e = true /\ (rogue = true -> snd x <= yt)
  | Some _, Some _ => False
  end.

Definition ok_note (rogue : bool) (s : ost) (rn : rnote) : Prop :=
  NoDup (rn_stops rn) /\ NoDup (rn_starts rn) /\
  Forall (fun r => ok_event rogue s (rn_ref rn) (r, false)) (rn_stops rn) /\
  Forall (fun r => ok_event rogue (orun rogue (rn_ref rn) (map (fun r => (r, false)) (rn_stops rn)) s)
                            (rn_ref rn) (r, true)) (rn_starts rn).

Fixpoint ok_notes (rogue : bool) (ns : list rnote) (s : ost) : Prop :=
  match ns with
  | [] => True
  | rn :: r => ok_note rogue s rn /\ ok_notes rogue r (orun rogue (rn_ref rn) (range_events rn) s)
  end.

(* ---------------------------------------------------------------- wedges and dashes *)

(* do_directions numbers the wedge (dashes) stops and starts of a measure segment in the order of time, stops
   before starts at one time, with the same counter function; they are written in that order.
   _handle_direction reads them in document order: a start puts the direction under ongoing[(label, number)]
   (overwriting, the overwritten one keeps no end), a stop ends the direction found there and deletes the key; a
   stop without a start is ignored ("Did not find a wedge start element").  One event = (position, range, is-start). *)
Definition wevent := (Z * Z * bool)%type.

Definition wstep (x : Z) (e : Z * bool) (s : ost) : ost :=
  let k := fst e in
  if snd e then mkO (upd (o_start s) k (Some (x, x))) (o_stop s) (dangling_start (o_start s k) ++ fin s)
  else match o_start s k with
       | Some (a, _) => mkO (upd (o_start s) k None) (o_stop s) ((a, x) :: fin s)
       | None => s
       end.

(* save then load: number the event, read the number *)
Fixpoint wroundtrip (evs : list wevent) (c : counter) (s : ost) : ost :=
  match evs with
  | [] => s
  | (x, r, kind) :: t => let (k, c') := toggle r c in wroundtrip t c' (wstep x (k, kind) s)
  end.

Fixpoint wexport (evs : list wevent) (c : counter) : list (Z * bool) :=
  match evs with
  | [] => []
  | (x, r, kind) :: t => let (k, c') := toggle r c in (k, kind) :: wexport t c'
  end.

Fixpoint wimport (ws : list (Z * (Z * bool))) (s : ost) : ost :=
  match ws with
  | [] => s
  | (x, e) :: t => wimport t (wstep x e s)
  end.

(* SPEC: the same reader keyed by the identity of the range *)
Fixpoint wspec (evs : list wevent) (s : ost) : ost :=
  match evs with
  | [] => s
  | (x, r, kind) :: t => wspec t (wstep x (r, kind) s)
  end.

(* every range is started while it is not open and stopped while it is open *)
Fixpoint ok_wevents (evs : list wevent) (s : ost) : Prop :=
  match evs with
  | [] => True
  | (x, r, kind) :: t =>
      (if kind then o_start s r = None else o_start s r <> None) /\ ok_wevents t (wstep x (r, kind) s)
  end.

Fixpoint ok_wevents_b (evs : list wevent) (s : ost) : bool :=
  match evs with
  | [] => true
  | (x, r, kind) :: t =>
      (match o_start s r with None => kind | Some _ => negb kind end) && ok_wevents_b t (wstep x (r, kind) s)
  end.

(* ---------------------------------------------------------------- boolean checkers *)

Definition ok_event_b (rogue : bool) (s : ost) (x : nref) (e : Z * bool) : bool :=
  match o_start s (fst e), o_stop s (fst e) with
  | None, None => true
  | Some (_, zt), None => negb (snd e) && (negb rogue || (zt <=? snd x))
  | None, Some (_, yt) => snd e && (negb rogue || (snd x <=? yt))
  | Some _, Some _ => false
  end.

Fixpoint nodup_b (l : list Z) : bool :=
  match l with [] => true | x :: r => negb (zmem x r) && nodup_b r end.

Definition ok_note_b (rogue : bool) (s : ost) (rn : rnote) : bool :=
  nodup_b (rn_stops rn) && nodup_b (rn_starts rn) &&
  forallb (fun r => ok_event_b rogue s (rn_ref rn) (r, false)) (rn_stops rn) &&
  forallb (fun r => ok_event_b rogue (orun rogue (rn_ref rn) (map (fun r => (r, false)) (rn_stops rn)) s)
                               (rn_ref rn) (r, true)) (rn_starts rn).

Fixpoint ok_notes_b (rogue : bool) (ns : list rnote) (s : ost) : bool :=
  match ns with
  | [] => true
  | rn :: r => ok_note_b rogue s rn && ok_notes_b rogue r (orun rogue (rn_ref rn) (range_events rn) s)
  end.

Definition ev_eqb (a b : Z * bool) : bool := (fst a =? fst b) && Bool.eqb (snd a) (snd b).
Definition pair_eqb (a b : Z * Z) : bool := (fst a =? fst b) && (snd a =? snd b).

Definition pair_le (a b : Z * Z) : bool :=
  if fst a <? fst b then true else if fst b <? fst a then false else snd a <=? snd b.
Fixpoint ins_pair (x : Z * Z) (l : list (Z * Z)) : list (Z * Z) :=
  match l with [] => [x] | y :: r => if pair_le x y then x :: l else y :: ins_pair x r end.
Definition sort_pairs (l : list (Z * Z)) : list (Z * Z) := fold_right ins_pair [] l.

(* one written part and one kind of range (slurs: rogue = true, tuplets: rogue = false):
   notes in document order with the ranges that stop / start at them in the score's list order; the
   (number, is-start) elements written at each note; the pairs (start note, end note) of the loaded part.
   The exporter model writes the numbers the code wrote; the importer model pairs them as the code did. *)
Definition check_ranges (c : bool * list rnote * list (list (Z * bool)) * list (Z * Z)) : bool :=
  match c with (rogue, ns, written, loaded) =>
    list_eqb (list_eqb ev_eqb) (export_notes ns []) written &&
    list_eqb pair_eqb
      (sort_pairs (fin (import_notes rogue (combine (map rn_ref ns) written) ost0)))
      (sort_pairs loaded)
  end.

(* one written part and one label (wedge / dashes): the stop and start events of the score in the order of time
   (stops first at one time) with their positions, the (number, is-start) attributes in document order, the
   (start position, end position) of the directions of the loaded part *)
Definition check_wedges (c : list wevent * list (Z * bool) * list (Z * Z)) : bool :=
  match c with (evs, written, loaded) =>
    list_eqb ev_eqb (wexport evs []) written &&
    list_eqb pair_eqb
      (sort_pairs (fin (wimport (combine (map (fun e => fst (fst e)) evs) written) ost0)))
      (sort_pairs loaded)
  end.
