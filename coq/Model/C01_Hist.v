(* C01 -- state carried between calls, as a state machine.
   The only memo the code keeps is the interpolator `Part._quarter_map` (built from the two quarter tables, read by
   get_or_add_point for the quarter of a new point).  A history is a list of EVENTS: the operations of Model/C01.v
   interleaved, anywhere, with questions whose answers depend on that memo or on the tables:
     EAskNew t   int(part._quarter_map(t))      -- the CACHED map: what a point created now at t would carry
     EAskMap t   part.quarter_duration_map(t)   -- the map built from the tables at the moment of the call
   `observe stp st evs` is the list of answers of the index-level machine (state = (part, cache), Model/C01_Idx.v)
   run with the step function `stp`; `expected p evs` computes every answer from the part AS IT IS at that moment.
   `step_memo` is a memoising variant (the map is rebuilt when a change is INSERTED, not when an existing entry is
   REPLACED): the theorem about `step_idx` is refuted for it (Props/C01.v: history_answers_memo_refuted).
   No proofs in this file. *)
From Coq Require Import ZArith List Bool.
From PV Require Import Lib.Base Model.C01 Model.C01_Idx.
Import ListNotations.
Open Scope Z_scope.

Inductive event :=
| EOp (o : op)
| EAskNew (t : Z)
| EAskMap (t : Z).

Fixpoint observe (stp : istate -> op -> istate * out) (st : istate) (evs : list event) : list Z :=
  match evs with
  | [] => []
  | EOp o :: r => observe stp (fst (stp st o)) r
  | EAskNew t :: r => qd_at (snd st) t :: observe stp st r
  | EAskMap t :: r => qd_at (qtab (fst st)) t :: observe stp st r
  end.

(* every answer computed from the current part only (list-level model) *)
Fixpoint expected (p : part) (evs : list event) : list Z :=
  match evs with
  | [] => []
  | EOp o :: r => expected (fst (step p o)) r
  | EAskNew t :: r => qd_at (qtab p) t :: expected p r
  | EAskMap t :: r => qd_at (qtab p) t :: expected p r
  end.

Fixpoint ops_of (evs : list event) : list op :=
  match evs with
  | [] => []
  | EOp o :: r => o :: ops_of r
  | _ :: r => ops_of r
  end.

(* the memoising variant *)
Definition set_quarter_duration_memo (st : istate) (t q : Z) : istate :=
  let st' := set_quarter_duration_idx st t q in
  if Nat.eqb (List.length (qtab (fst st'))) (List.length (qtab (fst st))) then (fst st', snd st) else st'.

Definition step_memo (st : istate) (o : op) : istate * out :=
  match o with
  | OSetQ t q => (set_quarter_duration_memo st t q, OutOk)
  | _ => step_idx st o
  end.

Definition ex_events : list event :=
  [EOp (OSetQ 4 2); EAskNew 5; EAskMap 5; EOp (OSetQ 4 3); EAskNew 5; EAskMap 5; EAskNew 3].

(* correspondence: (q0, events, the answers the real Part gave) *)
Fixpoint zlist_eqb (a b : list Z) : bool :=
  match a, b with
  | [], [] => true
  | x :: a', y :: b' => (x =? y) && zlist_eqb a' b'
  | _, _ => false
  end.

Definition events_ok (c : Z * list event * list Z) : bool :=
  let '(q0, evs, ans) := c in
  zlist_eqb (observe step_idx (init_idx q0) evs) ans && zlist_eqb (expected (init q0) evs) ans.
