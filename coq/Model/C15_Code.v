(* C15, round j extension -- the tables and mappings of partitura/score.py: merge_parts AS THE CODE BUILDS
   THEM (Model/C15.v uses the closed forms: an unsorted set, `rank`, offsets carried along the loop):

     unique_voices / unique_staves   np.unique(...)            -> [np_unique]: the SORTED array without
                                                                  duplicates, one per part, built before the loop
     maximum_voices / maximum_staves max(unique, default=1)    -> [zmax_list 1] of that array
     time_multiplier_per_part        [int(lcm / d) ...]        -> [t_mult], indexed by p_ind
     sum(maximum_voices[:p_ind])     recomputed per element    -> [zsum (firstn p_ind ...)]
     n_previous_staves               0 if p_ind == 0 else sum([len(u) for u in unique_staves[:p_ind]])
     staff_mapping                   dict(zip(unique_staves[p_ind], n_previous_staves + np.arange(1, n_staves + 1)))
     voice_mapping                   dict(zip(unique_voices[p_ind], n_previous_staves * 4 + np.arange(1, n_voices + 1)))
     e.voice = voice_mapping[e.voice]; e.staff = staff_mapping[e.staff if e.staff is not None else 1]
                                                               -> [dict_get]: None = KeyError

   A Python dict built from pairs keeps the LAST value given for a key, zip stops at the shorter sequence;
   both are modelled ([dict_get], [combine]) so that the slips this construction can have are expressible:
   a key array that is not deduplicated or not sorted, an arange that is one short or starts at 0, a table
   indexed by something else than p_ind (see the variants at the end; they are NOT the code).
   Definitions only; proofs in Proofs/C15_code.v. *)
From PV Require Import Lib.Base Model.C05 Model.C15.
From Coq Require Import QArith.
#[local] Open Scope Z_scope.

(* ------------------------------------------------------------------ np.unique *)

Fixpoint ins_u (x : Z) (s : list Z) : list Z :=
  match s with
  | [] => [x]
  | y :: r => if x <? y then x :: s else if x =? y then s else y :: ins_u x r
  end.

Definition np_unique (l : list Z) : list Z := fold_right ins_u [] l.

(* ------------------------------------------------------------------ dict(zip(keys, values)) *)

Definition pydict := list (Z * Z).          (* the pairs in the order they were given *)

(* d[k]: the value of the LAST pair with that key; None = KeyError *)
Fixpoint dict_get (d : pydict) (k : Z) : option Z :=
  match d with
  | [] => None
  | (k', v) :: r =>
    match dict_get r k with
    | Some x => Some x
    | None => if k' =? k then Some v else None
    end
  end.

(* base + np.arange(1, n + 1) *)
Definition arange1 (base : Z) (n : nat) : list Z := map (fun i => base + Z.of_nat i) (seq 1 n).

Definition dict_zip (keys vals : list Z) : pydict := combine keys vals.

(* ------------------------------------------------------------------ the tables built before the loop *)

Record tables := mkTables {
  t_lcm : Z;                       (* lcm *)
  t_mult : list Z;                 (* time_multiplier_per_part *)
  t_uv : list (list Z);            (* unique_voices *)
  t_us : list (list Z);            (* unique_staves *)
  t_maxv : list Z;                 (* maximum_voices *)
  t_maxs : list Z                  (* maximum_staves *)
}.

Definition tables_of (ps : list part) : tables :=
  let L := merge_lcm ps in
  let uv := map (fun p : part => np_unique (voices_of (fst p))) ps in
  let us := map (fun p : part => np_unique (staves_of (fst p))) ps in
  mkTables L (map (fun p : part => L / snd p) ps) uv us (map (zmax_list 1) uv) (map (zmax_list 1) us).

Definition zlen (l : list Z) : Z := Z.of_nat (List.length l).

(* n_previous_staves *)
Definition n_prev_staves (T : tables) (p_ind : nat) : Z :=
  if Nat.eqb p_ind 0 then 0 else zsum (map zlen (firstn p_ind (t_us T))).

Definition staff_mapping (T : tables) (p_ind : nat) : pydict :=
  let u := nth p_ind (t_us T) [] in
  dict_zip u (arange1 (n_prev_staves T p_ind) (List.length u)).

Definition voice_mapping (T : tables) (p_ind : nat) : pydict :=
  let u := nth p_ind (t_uv T) [] in
  dict_zip u (arange1 (n_prev_staves T p_ind * 4) (List.length u)).

(* ------------------------------------------------------------------ the element loop, as written *)

(* the three branches of the loop body for one kept element (times already multiplied) *)
Definition renumber_code (m : mode) (T : tables) (p_ind : nat) (vm sm : pydict) (e : elem) : option elem :=
  match m with
  | MVoice =>
    if is_generic (e_kind e)
    then match e_voice e with
         | Some v => Some (set_voice e (Some (v + zsum (firstn p_ind (t_maxv T)))))
         | None => None                                   (* None + int: TypeError *)
         end
    else Some e
  | MStaff =>
    if is_staffed (e_kind e)
    then Some (set_staff e (Some (staff1 e + zsum (firstn p_ind (t_maxs T)))))
    else Some e
  | MAuto =>
    let e1 := if is_generic (e_kind e)
              then match e_voice e with
                   | Some v => match dict_get vm v with
                               | Some v' => Some (set_voice e (Some v'))
                               | None => None              (* KeyError *)
                               end
                   | None => None                          (* voice_mapping[None]: KeyError *)
                   end
              else Some e in
    match e1 with
    | None => None
    | Some e2 =>
      if is_staffed (e_kind e)
      then match dict_get sm (staff1 e) with
           | Some s' => Some (set_staff e2 (Some s'))
           | None => None                                  (* KeyError *)
           end
      else Some e2
    end
  end.

Fixpoint xform_elems_code (m : mode) (T : tables) (p_ind : nat) (vm sm : pydict) (es : list elem)
  : option (list elem) :=
  match es with
  | [] => Some []
  | e :: r =>
    if keep m (Nat.eqb p_ind 0) e
    then match renumber_code m T p_ind vm sm (rescale_elem (nth p_ind (t_mult T) 0) e),
               xform_elems_code m T p_ind vm sm r with
         | Some e', Some r' => Some (e' :: r')
         | _, _ => None
         end
    else xform_elems_code m T p_ind vm sm r
  end.

(* for p_ind, p in enumerate(parts): (the two mappings are built in "auto" mode only; the other modes
   never read them) *)
Fixpoint loop_code (m : mode) (T : tables) (p_ind : nat) (ps : list part) : option (list (nat * elem)) :=
  match ps with
  | [] => Some []
  | p :: rest =>
    match xform_elems_code m T p_ind (voice_mapping T p_ind) (staff_mapping T p_ind) (fst p),
          loop_code m T (S p_ind) rest with
    | Some a, Some b => Some (map (pair p_ind) a ++ b)
    | _, _ => None
    end
  end.

Definition merge_parts_code (m : mode) (ts : list tree) : result :=
  match flat_map flatten ts with
  | [] => RRaise
  | [p] => RSingle p
  | ps =>
    let T := tables_of ps in
    match loop_code m T 0 ps with
    | Some out => RMerged (t_lcm T) out
    | None => RRaise
    end
  end.

(* ------------------------------------------------------------------ checker (correspondence) *)

(* the code-level model against what the harness observed (same observation as Model.C15.case_ok),
   and the mappings themselves against the pairs (old number, new number) read off the observed elements
   of every input in "auto" mode: [vpairs] / [spairs] = per input, the list of (voice before, voice after)
   / (staff-or-1 before, staff after) of its renumbered elements *)
Definition pairs_ok (d : pydict) (obs : list (Z * Z)) : bool :=
  forallb (fun kv : Z * Z => match dict_get d (fst kv) with Some v => Z.eqb v (snd kv) | None => false end) obs.

Fixpoint maps_ok_from (T : tables) (i : nat) (vpairs spairs : list (list (Z * Z))) : bool :=
  match vpairs, spairs with
  | [], [] => true
  | vp :: vr, sp :: sr =>
    pairs_ok (voice_mapping T i) vp && pairs_ok (staff_mapping T i) sp && maps_ok_from T (S i) vr sr
  | _, _ => false
  end.

Definition code_case_ok (m : mode) (a : arg) (obs : observed) (vpairs spairs : list (list (Z * Z))) : bool :=
  let ts := arg_trees a in
  match merge_parts_code m ts, obs with
  | RSingle p, OSingle idx p' =>
    Nat.eqb idx 0 && part_eqb p p' && Nat.eqb (List.length (flat_map flatten ts)) 1
  | RMerged L out, OMerged L' out' =>
    Z.eqb L L' && list_eqb tagged_eqb (sort_oid out) (sort_oid out') &&
    match m with
    | MAuto => Nat.eqb (List.length vpairs) (List.length (flat_map flatten ts)) &&
               maps_ok_from (tables_of (flat_map flatten ts)) 0 vpairs spairs
    | _ => true
    end
  | RRaise, ORaise => true
  | _, _ => false
  end.

(* ------------------------------------------------------------------ variants that are NOT the code *)

(* keys sorted but not deduplicated (sorted(...) instead of np.unique): later pairs replace earlier ones *)
Fixpoint ins_s (x : Z) (s : list Z) : list Z :=
  match s with
  | [] => [x]
  | y :: r => if x <=? y then x :: s else y :: ins_s x r
  end.
Definition sorted_dups (l : list Z) : list Z := fold_right ins_s [] l.

(* keys in the order of first appearance (a set kept in insertion order) *)
Definition first_seen (l : list Z) : list Z := rev (nodup Z.eq_dec (rev l)).

(* the mapping of one part built from an arbitrary key array *)
Definition mapping_from (keys : list Z) (base : Z) : pydict :=
  dict_zip keys (arange1 base (List.length keys)).

(* np.arange(1, n) -- one short: zip drops the last key *)
Definition mapping_short (keys : list Z) (base : Z) : pydict :=
  dict_zip keys (arange1 base (List.length keys - 1)).
