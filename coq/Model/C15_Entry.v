(* C15, round j extension -- the head of partitura/score.py: merge_parts, in the order the code runs it:

     if reassign not in ["staff", "voice", "auto"]: raise ValueError          (1)
     parts = parts.parts if Score else list(iter_parts(parts))                (2)
     if len(parts) == 1: return parts[0]                                      (3)
     if not all(len(p._quarter_durations) == 1 for p in parts): raise Exception("... multiple divisions ...")   (4)
     ... the merge of Model/C15.v on (elements, the one quarter duration)     (5)

   A part is seen here with the whole array of its quarter durations (one entry per change of the
   divisions), the mode is the string given.  What the real code rejects is rejected, in the same
   order: the string is checked before anything else (also for one part, which is otherwise returned
   as it is whatever its quarter durations), the divisions only when two or more parts are merged.
   Definitions only; proofs in Proofs/C15_entry.v. *)
From PV Require Import Lib.Base Model.C05 Model.C15.
From Coq Require Import QArith String.
#[local] Open Scope Z_scope.

Definition xpart := (list elem * list Z)%type.       (* elements, part._quarter_durations *)

Inductive xtree := XPart (p : xpart) | XGroup (children : list xtree).

Fixpoint xflatten (t : xtree) : list xpart :=
  match t with
  | XPart p => [p]
  | XGroup l => flat_map xflatten l
  end.

Definition mode_of_string (s : string) : option mode :=
  if String.eqb s "voice" then Some MVoice
  else if String.eqb s "staff" then Some MStaff
  else if String.eqb s "auto" then Some MAuto
  else None.

Definition one_division (p : xpart) : bool := Nat.eqb (List.length (snd p)) 1.

(* durs[0] of a part that passed check (4) *)
Definition the_part (p : xpart) : part := (fst p, hd 0 (snd p)).

Inductive xresult :=
| XValueError                 (* (1) *)
| XSingle (p : xpart)         (* (3): the one part, returned as it is *)
| XDivisionsError             (* (4) *)
| XMerge (r : result).        (* (5): what Model.C15.merge_parts gives (a merged part, or it raises) *)

Definition merge_parts_entry (reassign : string) (ts : list xtree) : xresult :=
  match mode_of_string reassign with
  | None => XValueError
  | Some m =>
    match flat_map xflatten ts with
    | [p] => XSingle p
    | ps =>
      if forallb one_division ps
      then XMerge (merge_parts m (map TPart (map the_part ps)))
      else XDivisionsError
    end
  end.

(* ------------------------------------------------------------------ checker (correspondence) *)

Inductive xobserved :=
| EValueError
| EDivisionsError
| ESingle (idx : nat)                        (* position (flattened) of the part that was returned *)
| EMerged (L : Z) (out : list (nat * elem))
| EOtherRaise.

Definition entry_case_ok (reassign : string) (ts : list xtree) (obs : xobserved) : bool :=
  match merge_parts_entry reassign ts, obs with
  | XValueError, EValueError => true
  | XDivisionsError, EDivisionsError => true
  | XSingle _, ESingle idx => Nat.eqb idx 0 && Nat.eqb (List.length (flat_map xflatten ts)) 1
  | XMerge (RMerged L out), EMerged L' out' =>
    Z.eqb L L' && list_eqb tagged_eqb (sort_oid out) (sort_oid out')
  | XMerge RRaise, EOtherRaise => true
  | _, _ => false
  end.

(* ------------------------------------------------------------------ variants that are NOT the code *)

(* the one-part shortcut taken before the string is looked at *)
Definition entry_identity_first (reassign : string) (ts : list xtree) : xresult :=
  match flat_map xflatten ts with
  | [p] => XSingle p
  | ps =>
    match mode_of_string reassign with
    | None => XValueError
    | Some m =>
      if forallb one_division ps
      then XMerge (merge_parts m (map TPart (map the_part ps)))
      else XDivisionsError
    end
  end.

(* no check of the divisions: the first quarter duration of every part is used *)
Definition entry_no_divisions_check (reassign : string) (ts : list xtree) : xresult :=
  match mode_of_string reassign with
  | None => XValueError
  | Some m =>
    match flat_map xflatten ts with
    | [p] => XSingle p
    | ps => XMerge (merge_parts m (map TPart (map the_part ps)))
    end
  end.
