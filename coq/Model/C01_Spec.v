(* C01 -- the invariant, the valid operations and the abstract specification (definitions only). *)
From PV Require Import Lib.Base Gen.C01_ClassTree Model.C01.
From Coq Require Import Sorting.Sorted.

(* all (time, object) registrations of one side, in timeline order *)
Definition regs (s : side) (ps : list point) : list (Z * obj) :=
  flat_map (fun q => map (pair (pt q)) (preg s q)) ps.

(* ps is linked: its first point has prev = a, each point's next/prev is the time of its neighbour,
   the last point has next = b *)
Fixpoint chain (a : option Z) (ps : list point) (b : option Z) : Prop :=
  match ps with
  | [] => True
  | p :: r => pprev p = a /\ pnext p = hdt r b /\ chain (Some (pt p)) r b
  end.

Fixpoint tab_incr (lo : Z) (tab : list (Z * Z)) : Prop :=
  match tab with [] => True | e :: r => lo < fst e /\ tab_incr (fst e) r end.

Definition qtab_ok (tab : list (Z * Z)) : Prop :=
  tab_incr (-1) tab /\ exists q0 r, tab = (0, q0) :: r.

Definition nonempty_point (q : point) : Prop := pstart q <> [] \/ pend q <> [].

(* O1 without "no empty point" (a bare get_or_add_point may leave an empty point) *)
Record InvW (p : part) : Prop := mkInvW {
  iw_nonneg : Forall (fun q => 0 <= pt q) (points p);                      (* times >= 0 *)
  iw_sorted : StronglySorted Z.lt (map pt (points p));                     (* strictly increasing *)
  iw_links : chain None (points p) None;                                   (* prev/next = true neighbours, None at the ends *)
  iw_reg : forall s o t, oref s p o = Some t <-> In (t, o) (regs s (points p));
                                                                           (* o.start/o.end is the very point that lists o *)
  iw_nodup : Forall (fun q => NoDup (pstart q) /\ NoDup (pend q)) (points p);
  iw_quarter : Forall (fun q => pq q = qd_at (qtab p) (pt q)) (points p);  (* quarter = duration in force *)
  iw_qtab : qtab_ok (qtab p) }.

(* the full invariant O1 *)
Definition Inv (p : part) : Prop := InvW p /\ Forall nonempty_point (points p).

(* valid arguments: non-negative times; a side of an object is registered at most once *)
Definition valid_op (p : part) (o : op) : Prop :=
  match o with
  | OAdd ob s e =>
      (forall t, s = Some t -> 0 <= t /\ ostart p ob = None) /\
      (forall t, e = Some t -> 0 <= t /\ oend p ob = None)
  | ORemove _ _ => True
  | OSetQ t _ => 0 <= t
  | OGetOrAdd t => 0 <= t
  | OTpRemove _ _ => True
  end.

(* operations that cannot leave an empty point: everything except get_or_add_point at a new time and
   TimePoint.remove_*_object of a registered side (no clean-up there) *)
Definition strict_op (p : part) (o : op) : Prop :=
  match o with
  | OGetOrAdd t => get_point t (points p) <> None
  | OTpRemove ob s => oref s p ob = None
  | _ => True
  end.

(* arguments the implementation rejects (InvalidTimePointException): a negative time *)
Definition rejected (o : op) : Prop :=
  match o with
  | OAdd _ s e => neg_opt s || neg_opt e = true
  | OGetOrAdd t => t < 0
  | _ => False
  end.

(* histories in which calls with rejected arguments are interleaved with the valid operations *)
Fixpoint mixed_run (p : part) (ops : list op) : Prop :=
  match ops with [] => True | o :: r => (valid_op p o \/ rejected o) /\ mixed_run (fst (step p o)) r end.

Fixpoint valid_run (p : part) (ops : list op) : Prop :=
  match ops with [] => True | o :: r => valid_op p o /\ valid_run (fst (step p o)) r end.
Fixpoint strict_run (p : part) (ops : list op) : Prop :=
  match ops with [] => True | o :: r => strict_op p o /\ strict_run (fst (step p o)) r end.

(* ---------------------------------------------------------------- abstract specification *)
(* a part is: which object starts / ends where, and the quarter duration in force at each time *)
Record apart := mkApart { a_start : obj -> option Z; a_end : obj -> option Z; a_qd : Z -> Z; a_changes : list Z }.

Definition abs (p : part) : apart :=
  mkApart (ostart p) (oend p) (qd_at (qtab p)) (map fst (qtab p)).

Definition next_after (t : Z) (changes : list Z) : option Z := find (fun x => t <? x) changes.

Definition upd_opt (f : obj -> option Z) (o : obj) (v : option Z) : obj -> option Z :=
  match v with Some t => fset f o (Some t) | None => f end.

Definition spec_start (a : apart) (o : op) : obj -> option Z :=
  match o with
  | OAdd ob s _ => upd_opt (a_start a) ob s
  | ORemove ob (WStart | WBoth) => fset (a_start a) ob None
  | OTpRemove ob SStart => fset (a_start a) ob None
  | _ => a_start a
  end.
Definition spec_end (a : apart) (o : op) : obj -> option Z :=
  match o with
  | OAdd ob _ e => upd_opt (a_end a) ob e
  | ORemove ob (WEnd | WBoth) => fset (a_end a) ob None
  | OTpRemove ob SEnd => fset (a_end a) ob None
  | _ => a_end a
  end.
(* O3: q is in force from t up to the next later change, nothing else changes *)
Definition spec_qd (a : apart) (o : op) : Z -> Z :=
  match o with
  | OSetQ t q => fun s => if in_span t (next_after t (a_changes a)) s then q else a_qd a s
  | _ => a_qd a
  end.

(* query specification: the registered objects of the right class in the half-open interval *)
Definition cls_match (c : option Z) (sub : bool) (o : obj) : Prop :=
  match c with
  | None => True
  | Some c => ocls o = c \/ (sub = true /\ In (ocls o) (iter_subclasses c))
  end.
Definition in_range (a b : option Z) (t : Z) : Prop :=
  (forall x, a = Some x -> x <= t) /\ (forall y, b = Some y -> t < y).
