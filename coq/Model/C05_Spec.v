(* C05 -- specification-side definitions (predicates used in the theorem statements).
   Definitions only; no proofs. *)
From PV Require Import Lib.Base Model.C05.
From Coq Require Import QArith Sorting.Sorted Permutation.
#[local] Open Scope Z_scope.

(* the tie chain starting at a note, as a relation (no fuel) *)
Inductive tie_chain (ns : list note) : note -> list note -> Prop :=
| tc_last n : n_tie_next n = None -> tie_chain ns n [n]
| tc_step n k m l : n_tie_next n = Some k -> find_oid k ns = Some m -> tie_chain ns m l ->
                    tie_chain ns n (n :: l).

(* m is reached from h by following tie_next links inside the part *)
Inductive reach (ns : list note) : note -> note -> Prop :=
| reach_refl n : reach ns n n
| reach_step h n m : reach ns h n -> n_tie_next n = Some (n_oid m) -> In m ns -> reach ns h m.

Definition sum_dur (l : list note) : Z := fold_right (fun n a => n_dur n + a) 0 l.

(* well-formed tie links: object identities are unique, tie_next / tie_prev are mutually inverse
   links between notes of the part, and the links are acyclic (some rank increases along them --
   in a score the tied successor starts where the note ends) *)
Record wf_ties (ns : list note) : Prop := mk_wf {
  wf_oids : NoDup (map n_oid ns);
  wf_next : forall n k, In n ns -> n_tie_next n = Some k ->
            exists m, In m ns /\ n_oid m = k /\ n_tie_prev m = Some (n_oid n);
  wf_prev : forall m k, In m ns -> n_tie_prev m = Some k ->
            exists n, In n ns /\ n_oid n = k /\ n_tie_next n = Some (n_oid m);
  wf_acyclic : exists rank : note -> nat, forall n m, In n ns -> In m ns ->
            n_tie_next n = Some (n_oid m) -> (rank n < rank m)%nat
}.

(* order of the rows: onset, then pitch *)
Definition lexle (a b : row) : Prop :=
  r_onset a < r_onset b \/ (r_onset a = r_onset b /\ r_pitch a <= r_pitch b).
Definition pitchle (a b : row) : Prop := r_pitch a <= r_pitch b.

(* identifying content of a row / of the chain head it must come from *)
Definition r_core (r : row) : string * Z * Z * Z := (r_id r, r_onset r, r_dur r, r_pitch r).
Definition head_core (ns : list note) (h : note) : string * Z * Z * Z :=
  (n_id h, n_start h, oz (duration_tied ns (List.length ns) h) 0, midi_pitch h).

Definition sounding (ns : list note) : list note := filter (fun n => negb (n_rest n)) ns.

(* what a row must say given the note it stands for (every column except the voice) *)
Definition row_matches (mp : maps) (divs : Z) (h : note) (d : Z) (r : row) : Prop :=
  r_id r = n_id h /\ r_onset r = n_start h /\ r_dur r = d /\ r_pitch r = midi_pitch h /\
  r_onq r = m_quarter mp (n_start h) /\
  r_durq r = (m_quarter mp (n_start h + d) - m_quarter mp (n_start h))%Q /\
  r_onb r = m_beat mp (n_start h) /\
  r_durb r = (m_beat mp (n_start h + d) - m_beat mp (n_start h))%Q /\
  r_ks r = m_ks mp (n_start h) /\ r_ts r = m_ts mp (n_start h) /\
  r_mp r = ((if Z.eqb (fst (m_mp mp (n_start h))) 0 then 1 else 0), fst (m_mp mp (n_start h)), snd (m_mp mp (n_start h))) /\
  r_staff r = oz (n_staff h) 0 /\
  r_is_grace r = (match n_grace h with Some _ => true | None => false end) /\
  r_grace_type r = (match n_grace h with Some g => g | None => ""%string end) /\
  (n_rest h = false -> r_step r = n_step h /\ r_alter r = oz (n_alter h) 0 /\ r_octave r = n_octave h) /\
  r_divs r = divs.
