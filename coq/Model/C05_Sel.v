(* C05 -- selection of the maps for the optional columns (round j).
   Executable model of the ENTRY functions of a part, written the way the code works:
     partitura/utils/music.py: note_array_from_part / rest_array_from_part
        -- every include_* option decides on its own whether a map of the part (or the divisions) is HANDED
           to the row construction or None is; include_divs_per_quarter raises the declared exception
           "Note array from parts with multiple divisions is not supported" unless the part has exactly one
           entry in _quarter_durations;
     note_array_from_note_list / rest_array_from_rest_list
        -- the tuple of a note is put together piece by piece ("if key_signature_map is not None: ..."),
           the voice column is sanitised and the table sorted (pitch, then stable by onset) on the
           tuples THAT WERE BUILT, i.e. on tables that lack the columns not asked for.
   The model of Model/C05.v builds full rows from all maps and hides columns afterwards ([view]); the theorems of
   Proofs/C05_sel.v show that the two coincide for every part and every one of the 2^7 option sets, and where
   exactly the entry function refuses.  Definitions and boolean checkers only. *)
From PV Require Import Lib.Base Model.C05 Model.C05_Ext.
From Coq Require Import QArith.
#[local] Open Scope Z_scope.

(* a part as the entry function sees it: its notes, its own maps (they always exist on the part) and
   part._quarter_times / part._quarter_durations as a list of (time, divisions) *)
Record part_desc := mkPart {
  p_notes : list note;
  p_maps : maps;
  p_qd : list (Z * Z)
}.

(* what is handed to note_array_from_note_list: a map or None, the divisions or None *)
Record sel := mkSel {
  s_ks : option (Z -> Z * Z);
  s_ts : option (Z -> Z * Z * Z);
  s_mp : option (Z -> Z * Z);
  s_divs : option Z
}.

(* note_array_from_part, the four "if include_...:" blocks.  None = the declared exception. *)
Definition select_part (o : opts) (p : part_desc) : option sel :=
  let ts := if o_ts o then Some (m_ts (p_maps p)) else None in
  let ks := if o_ks o then Some (m_ks (p_maps p)) else None in
  let mp := if o_mp o then Some (m_mp (p_maps p)) else None in
  if o_divs o then
    match p_qd p with
    | [(_, d)] => Some (mkSel ks ts mp (Some d))     (* len(parts_quarter_durations) == 1 *)
    | _ => None                                      (* raise Exception("... multiple divisions is not supported") *)
    end
  else Some (mkSel ks ts mp None).

(* rest_array_from_part has no include_divs_per_quarter and never refuses *)
Definition select_rest (o : opts) (p : part_desc) : sel :=
  mkSel (if o_ks o then Some (m_ks (p_maps p)) else None)
        (if o_ts o then Some (m_ts (p_maps p)) else None)
        (if o_mp o then Some (m_mp (p_maps p)) else None)
        None.

(* two slips of the selection, used only to show that the statements discriminate:
   the condition of one block copied to the next one ... *)
Definition select_part_copied (o : opts) (p : part_desc) : option sel :=
  let ts := if o_ts o then Some (m_ts (p_maps p)) else None in
  let ks := if o_ts o then Some (m_ks (p_maps p)) else None in
  let mp := if o_mp o then Some (m_mp (p_maps p)) else None in
  if o_divs o then
    match p_qd p with
    | [(_, d)] => Some (mkSel ks ts mp (Some d))
    | _ => None
    end
  else Some (mkSel ks ts mp None).

(* ... and the divisions taken from the first entry without looking at the others *)
Definition select_part_first (o : opts) (p : part_desc) : option sel :=
  let ts := if o_ts o then Some (m_ts (p_maps p)) else None in
  let ks := if o_ks o then Some (m_ks (p_maps p)) else None in
  let mp := if o_mp o then Some (m_mp (p_maps p)) else None in
  if o_divs o then
    match p_qd p with
    | (_, d) :: _ => Some (mkSel ks ts mp (Some d))
    | [] => None
    end
  else Some (mkSel ks ts mp None).

(* ------------------------------------------------------------------ the loop body on tuples *)

Definition omap {A B} (f : A -> B) (x : option A) : option B :=
  match x with Some a => Some (f a) | None => None end.

(* note_info of one note, given its tied duration: the five fixed columns, then one group per
   "if ...:" of the loop, in the order of the code *)
Definition obs_row (s : sel) (spelling grace staff : bool) (n : note) (d : Z) : obs :=
  let t := n_start n in
  (t, d, midi_pitch n, oz (n_voice n) (-1), n_id n,
   (if spelling then Some (if n_rest n then "0"%string else n_step n,
                           if n_rest n then 0 else oz (n_alter n) 0,
                           if n_rest n then 0 else n_octave n) else None),
   (if grace then Some (match n_grace n with Some _ => true | None => false end,
                        match n_grace n with Some g => g | None => ""%string end) else None),
   omap (fun f => f t) (s_ks s),
   omap (fun f => f t) (s_ts s),
   omap (fun f : Z -> Z * Z => let '(rel, tot) := f t in ((if Z.eqb rel 0 then 1 else 0), rel, tot)) (s_mp s),
   (if staff then Some (match n_staff n with Some x => x | None => 0 end) else None),
   s_divs s).

Fixpoint obs_rows (s : sel) (sp gr st : bool) (ns : list note) (heads : list note) : option (list obs) :=
  match heads with
  | [] => Some []
  | h :: r =>
    match duration_tied ns (List.length ns) h, obs_rows s sp gr st ns r with
    | Some d, Some rows => Some (obs_row s sp gr st h d :: rows)
    | _, _ => None
    end
  end.

Definition obs_voice (x : obs) : Z := match x with (_, _, _, v, _, _, _, _, _, _, _, _) => v end.
Definition obs_set_voice (x : obs) (v : Z) : obs :=
  match x with (o, d, p, _, i, s, g, k, t, m, f, q) => (o, d, p, v, i, s, g, k, t, m, f, q) end.

(* "Sanitize voice information" on the table that was built *)
Definition max_voice_o (rows : list obs) : Z :=
  match rows with
  | [] => 0
  | r :: rest => fold_left (fun m x => Z.max m (obs_voice x)) rest (obs_voice r)
  end.

Definition sanitize_o (rows : list obs) : list obs :=
  let mv := max_voice_o rows in
  map (fun r => if Z.eqb (obs_voice r) (-1) then obs_set_voice r (mv + 1) else r) rows.

(* the two sorting passes on the table that was built *)
Fixpoint insert_g {A} (key : A -> Z) (x : A) (l : list A) : list A :=
  match l with
  | [] => [x]
  | y :: r => if key x <=? key y then x :: l else y :: insert_g key x r
  end.

Fixpoint isort_g {A} (key : A -> Z) (l : list A) : list A :=
  match l with
  | [] => []
  | x :: r => insert_g key x (isort_g key r)
  end.

(* note_array_from_note_list / rest_array_from_rest_list on the objects [heads] *)
Definition note_list_array (s : sel) (sp gr st : bool) (ns heads : list note) : option (list obs) :=
  match obs_rows s sp gr st ns heads with
  | Some rows => Some (isort_g obs_onset (isort_g obs_pitch (sanitize_o rows)))
  | None => None
  end.

(* ------------------------------------------------------------------ the entry functions *)

Inductive outcome : Type :=
| Refused                      (* the declared exception *)
| Broken                       (* a tie link that leaves the part / a cyclic chain: not reachable under wf_ties *)
| Table (t : list obs).

Definition entry_with (select : opts -> part_desc -> option sel) (o : opts) (p : part_desc) : outcome :=
  match select o p with
  | None => Refused
  | Some s =>
    match note_list_array s (o_spelling o) (o_grace o) (o_staff o) (p_notes p) (note_sel (p_notes p)) with
    | Some t => Table t
    | None => Broken
    end
  end.

(* Part.note_array with the options = note_array_from_part *)
Definition note_array_from_part_m : opts -> part_desc -> outcome := entry_with select_part.

(* Part.rest_array with the options *)
Definition rest_array_from_part_m (o : opts) (p : part_desc) : outcome :=
  match note_list_array (select_rest o p) (o_spelling o) (o_grace o) (o_staff o) (p_notes p) (rest_sel (p_notes p)) with
  | Some t => Table t
  | None => Broken
  end.

(* the options of Part.rest_array: there is no divisions column *)
Definition rest_opts (o : opts) : opts :=
  mkOpts (o_spelling o) (o_ks o) (o_ts o) (o_mp o) (o_grace o) (o_staff o) false.

(* the divisions a full row carries: the first entry of the part's divisions *)
Definition first_divs (p : part_desc) : Z :=
  match p_qd p with (_, d) :: _ => d | [] => 1 end.

(* hiding more columns of a table that was built: the columns two option sets have in common *)
Definition and_opts (a b : opts) : opts :=
  mkOpts (o_spelling a && o_spelling b) (o_ks a && o_ks b) (o_ts a && o_ts b) (o_mp a && o_mp b)
         (o_grace a && o_grace b) (o_staff a && o_staff b) (o_divs a && o_divs b).

Definition restrict (o : opts) (x : obs) : obs :=
  match x with
  | (on, d, p, v, i, s, g, k, t, m, f, q) =>
    (on, d, p, v, i,
     (if o_spelling o then s else None), (if o_grace o then g else None), (if o_ks o then k else None),
     (if o_ts o then t else None), (if o_mp o then m else None), (if o_staff o then f else None),
     (if o_divs o then q else None))
  end.

(* ------------------------------------------------------------------ checker (correspondence) *)

(* the harness prints -1 as the voice of a row that belongs to a note without voice (after its oracle has
   checked that the number is no stated voice): the same view on the model's table *)
Definition norm_obs (stated : list Z) (x : obs) : obs :=
  if zmem (obs_voice x) stated then x else obs_set_voice x (-1).

(* one call of Part.note_array / Part.rest_array: the part with its divisions as the part object holds
   them, the options, and what came back -- None: the declared exception was raised *)
Definition entry_case_ok (p : part_desc) (o : opts) (rests : bool) (impl : option (list obs)) : bool :=
  match (if rests then rest_array_from_part_m o p else note_array_from_part_m o p), impl with
  | Refused, None => true
  | Table t, Some i =>
    same_table (map (norm_obs (stated_voices (if rests then rest_sel (p_notes p) else note_sel (p_notes p)))) t) i
  | _, _ => false
  end.

(* examples: one part, two divisions *)
Definition sel_note (oid : Z) (id : string) (s e : Z) (step : string) (oct : Z) (v : option Z) : note :=
  mkNote oid id s e None None step None oct v (Some 1) None false.

Definition ex_sel_maps : maps :=
  maps_of [(0, (2, 1)); (4, (-3, 0))] [(0, (3, 4, 3)); (4, (3, 4, 3))] [(0, (0, 12)); (4, (4, 12))].

Definition ex_sel_part : part_desc :=
  mkPart [sel_note 1 "a" 0 4 "C" 4 (Some 1); sel_note 2 "b" 4 8 "E" 4 None] ex_sel_maps [(0, 4)].

Definition ex_sel_part2 : part_desc :=
  mkPart (p_notes ex_sel_part) ex_sel_maps [(0, 4); (8, 6)].

Definition opts_none : opts := mkOpts false false false false false false false.
Definition opts_all : opts := mkOpts true true true true true true true.
Definition opts_ks : opts := mkOpts false true false false false false false.
Definition opts_divs : opts := mkOpts false false false false false false true.
