(* C07 -- key signatures as the code reads and writes them (partitura/io/matchfile_utils.py:
   MatchKeySignature.__str__ / fifths_mode_to_key_name_v0_1_0 / _v0_3_0 / _parse_key_signature /
   from_string, interpret_as_list, format_list; partitura/utils/music.py: fifths_mode_to_key_name,
   key_name_to_fifths_mode).  Executable definitions only; proofs are in Proofs/C07_key.v.

   Model/C07.v reads and writes a key signature by looking its text up in the T2 table tabulated
   from the library.  This file models the ALGORITHM instead, branch by branch:
   * the lists MAJOR_KEYS / MINOR_KEYS and the three regular expressions (key_signature_pattern,
     pitch_class_pattern, attribute_list_pattern) are reflected on every run (Gen/C07_KeyCfg.v);
   * [kn2fm] = key_name_to_fifths_mode: arithmetic on the position of the first character in a
     rotated circle of fifths, the number of "b" / "#" in the name and "m" anywhere in the name
     (list.index raising ValueError and name[0] raising IndexError = None);
   * [parse_key_with valid]: the ORDER of the three readers of _parse_key_signature: plain 1.0.0
     names (every "/"-part, stripped, is one of [valid]) first, then the regular expression of the
     older formats SEARCHED anywhere in the text (re.search with backtracking: Model/C07_Disp.v
     [bt]), then the upper-cased fallback.  The list of valid names is a parameter so that the
     defects this mechanism can have (a name missing from the list, the list consulted too late
     or empty) are expressible;
   * [key_from_string]: interpret_as_list (brackets optional, greedy up to the LAST "]"), the
     0.1.0 form [name,mode] recognised by the second item being a mode word, other items as
     further components;
   * [key_str]: the three spellings, with the alternative key, as a list. *)
From PV Require Import Lib.Base Model.C07 Model.C07_Disp.
From Coq Require Import Ascii.
#[local] Open Scope string_scope.
#[local] Open Scope Z_scope.

Record keycfg := mk_keycfg {
  kc_major : list string;       (* MAJOR_KEYS *)
  kc_minor : list string;       (* MINOR_KEYS *)
  kc_first : string;            (* key_signature_pattern: the class of the one character of step1 *)
  kc_tail : rpat;               (* ... the items after step1, every one a greedy repetition *)
  kc_caps : list bool;          (* ... which of them are capturing groups *)
  kc_pc_first : string;         (* pitch_class_pattern: class of step *)
  kc_pc_tail : rpat;            (* ... alter *)
  kc_list : rpat                (* attribute_list_pattern (anchored at the start) *)
}.

(* ------------------------------------------------------------------ small string functions *)

(* a text given by its character codes (the reflected classes hold control characters: \s) *)
Fixpoint str_of_codes (l : list nat) : string :=
  match l with [] => EmptyString | n :: r => String (ascii_of_nat n) (str_of_codes r) end.

(* str.strip() on ASCII texts *)
Definition py_space (c : ascii) : bool :=
  let n := nat_of_ascii c in ((9 <=? n)%nat && (n <=? 13)%nat) || ((28 <=? n)%nat && (n <=? 32)%nat).
Fixpoint lstrip (s : string) : string :=
  match s with String c r => if py_space c then lstrip r else s | EmptyString => EmptyString end.
(* drop trailing spaces: the text up to the last non-space character *)
Fixpoint rstrip (s : string) : string :=
  match s with
  | EmptyString => EmptyString
  | String c r => match rstrip r with
                  | EmptyString => if py_space c then EmptyString else String c EmptyString
                  | r' => String c r'
                  end
  end.
Definition strip_ws (s : string) : string := rstrip (lstrip s).

Fixpoint index_char (c : ascii) (l : string) (i : Z) : option Z :=
  match l with
  | EmptyString => None
  | String d r => if Ascii.eqb c d then Some i else index_char c r (i + 1)
  end.
Fixpoint rev_str (s acc : string) : string :=
  match s with EmptyString => acc | String c r => rev_str r (String c acc) end.
Fixpoint remove_char (c : ascii) (s : string) : string :=
  match s with
  | EmptyString => EmptyString
  | String d r => if Ascii.eqb c d then remove_char c r else String d (remove_char c r)
  end.
Definition slen (s : string) : Z := Z.of_nat (String.length s).
Definition mem_str (x : string) (l : list string) : bool := existsb (String.eqb x) l.
Definition upper (s : string) : string := map_str upper_char s.
Definition lower (s : string) : string := map_str lower_char s.

(* l[i] of Python: negative indices count from the end *)
Definition py_nth (l : list string) (i : Z) : option string :=
  let n := Z.of_nat (List.length l) in
  let j := if i <? 0 then i + n else i in
  if (0 <=? j) && (j <? n) then nth_error l (Z.to_nat j) else None.

(* ------------------------------------------------------------------ music.py *)

Definition fifths_list : string := "FCGDAEB".
Definition rotate (k : nat) (s : string) : string := sdrop k s ++ stake k s.

(* key_name_to_fifths_mode *)
Definition kn2fm (name : string) : option key0 :=
  match name with
  | EmptyString => None                           (* key_name[0]: IndexError *)
  | String c0 _ =>
      let nb := Z.of_nat (count_char "b" name) in
      let ns := Z.of_nat (count_char "#" name) in
      let minor := mem_char "m" name in
      let sl := if minor then rotate 4 fifths_list else rotate 1 fifths_list in
      let flat : option bool :=
        if 0 <? nb then Some true
        else if minor then
               (if slen name =? 2 then
                  match index_char c0 sl 0 with Some i => Some (2 <? i) | None => None end
                else Some false)
             else Some (String.eqb name "F") in
      match flat with
      | None => None
      | Some true =>
          match index_char c0 (rev_str sl EmptyString) 0 with
          | Some i => let idx := i + 1 in
                      let corr := if (if minor then 4 else 1) <? idx then 1 else 0 in
                      Some (- idx - 7 * (nb - corr), minor)
          | None => None
          end
      | Some false =>
          match index_char c0 sl 0 with
          | Some idx => let corr := if (if minor then 2 else 5) <? idx then 1 else 0 in
                        Some (idx + 7 * (ns - corr), minor)
          | None => None
          end
      end
  end.

Section WithCfg.
Variable cfg : keycfg.

Definition keylist (minor : bool) : list string := if minor then kc_minor cfg else kc_major cfg.

(* fifths_mode_to_key_name (the 1.0.0 spelling): range checked *)
Definition fm2kn_v1 (k : key0) : option string :=
  let '(f, mi) := k in
  if (-7 <=? f) && (f <=? 7) then
    match py_nth (keylist mi) (f + 7) with
    | Some n => Some (n ++ (if mi then "m" else ""))
    | None => None
    end
  else None.
(* fifths_mode_to_key_name_v0_3_0: plain list indexing *)
Definition fm2kn_v03 (k : key0) : option string :=
  let '(f, mi) := k in
  match py_nth (keylist mi) (f + 7) with
  | Some n => Some (n ++ " " ++ (if mi then "min" else "Maj"))
  | None => None
  end.
(* fifths_mode_to_key_name_v0_1_0: the step in lower case, the accidental sign or "n" *)
Definition fm2kn_v01 (k : key0) : option string :=
  let '(f, mi) := k in
  match py_nth (keylist mi) (f + 7) with
  | Some (String c r) =>
      Some ("[" ++ String (lower_char c) (if nonempty r then r else "n") ++ ","
                ++ (if mi then "minor" else "major") ++ "]")
  | _ => None
  end.

(* MatchKeySignature.__str__ without is_list: fmt 0 = v0.1.0 (the alternative is not written),
   1 = v0.3.0, 3 = v1.0.0 *)
Definition key_str1 (fmt : Z) (k : key1) : option string :=
  let '(k0, alt) := k in
  if fmt =? 0 then fm2kn_v01 k0
  else
    let f := if fmt =? 3 then fm2kn_v1 else fm2kn_v03 in
    match f k0, alt with
    | Some a, None => Some a
    | Some a, Some k2 => match f k2 with Some b => Some (a ++ "/" ++ b) | None => None end
    | None, _ => None
    end.

(* format_key_signature_*: is_list -> format_list([ks] + other_components); a component is written
   by its own __str__ in the same spelling (the fmt setter hands the spelling down) *)
Definition key_str (fmt : Z) (is_list : bool) (k : key1) (others : list key1) : option string :=
  match key_str1 fmt k with
  | None => None
  | Some a =>
      if is_list then
        match map_opt (key_str1 fmt) others with
        | Some l => Some ("[" ++ join comma (a :: l) ++ "]")
        | None => None
        end
      else Some a
  end.

(* ------------------------------------------------------------------ reading *)

(* one character of a class, then greedy repetitions: pattern.search *)
Fixpoint search1 (first : string) (tail : rpat) (s : string) : option (list string) :=
  match s with
  | EmptyString => None
  | String c r =>
      if mem_char c first then
        match bt tail r with
        | Some (gs, _) => Some (String c EmptyString :: gs)
        | None => search1 first tail r
        end
      else search1 first tail r
  end.

Fixpoint keep_caps {A} (caps : list bool) (l : list A) : list A :=
  match caps, l with
  | b :: cr, x :: r => if b then x :: keep_caps cr r else keep_caps cr r
  | _, _ => []
  end.

Definition key_search (s : string) : option (list string) :=
  match search1 (kc_first cfg) (kc_tail cfg) s with
  | Some (st :: gs) => Some (st :: keep_caps (kc_caps cfg) gs)
  | _ => None
  end.

Definition valid_v1_names : list string :=
  (kc_major cfg ++ map (fun n => (n ++ "m")%string) (kc_minor cfg))%list.

Definition minor_word (w : string) : bool := mem_str (lower w) ["minor"; "min"].

(* _parse_key_signature; [valid] = the plain names looked for first *)
Definition parse_key_with (valid : list string) (kstr : string) : option key1 :=
  let names := map strip_ws (split_on "/" kstr) in
  let n := List.length names in
  if (Nat.eqb n 1 || Nat.eqb n 2) && forallb (fun x => mem_str x valid) names then
    match names with
    | [a] => match kn2fm a with Some k => Some (k, None) | None => None end
    | [a; b] => match kn2fm a, kn2fm b with Some k, Some k2 => Some (k, Some k2) | _, _ => None end
    | _ => None
    end
  else
    match key_search kstr with
    | None =>
        match split_on "/" kstr with
        | [a] => match kn2fm (upper a) with Some k => Some (k, None) | None => None end
        | [a; b] => match kn2fm (upper a), kn2fm (upper b) with
                    | Some k, Some k2 => Some (k, Some k2) | _, _ => None end
        | a :: _ => match kn2fm (upper a) with Some k => Some (k, None) | None => None end
        | [] => None
        end
    | Some [step1; alter1; mode1; step2; alter2; mode2] =>
        match kn2fm (upper step1 ++ alter1 ++ (if minor_word mode1 then "m" else "")) with
        | None => None
        | Some k =>
            if nonempty step2 then
              match kn2fm (upper step2 ++ alter2 ++ (if minor_word mode2 then "m" else "")) with
              | Some k2 => Some (k, Some k2)
              | None => None
              end
            else Some (k, None)
        end
    | Some _ => None
    end.
Definition parse_key (kstr : string) : option key1 := parse_key_with valid_v1_names kstr.

(* interpret_as_list *)
Definition interp_list (s : string) : list string :=
  let inner := match bt (kc_list cfg) s with Some ([g], _) => g | _ => s end in
  if nonempty (strip_ws inner) then map strip_ws (split_on comma inner) else [].

Definition mode_words : list string := ["minor"; "major"; "min"; "maj"].

(* MatchKeySignature.from_string: the key and its other components; None = raises (or returns
   None for an empty list) *)
Definition key_from_string_with (valid : list string) (s : string) : option (key1 * list key1) :=
  let content := interp_list s in
  let general :=
    match map_opt (parse_key_with valid) content with
    | Some (k :: r) => Some (k, r)
    | _ => None
    end in
  match content with
  | [a; b] =>
      if mem_str (lower b) mode_words then
        match search1 (kc_pc_first cfg) (kc_pc_tail cfg) (lower a) with
        | Some [step; alter] =>
            match kn2fm (upper step ++ remove_char "n" alter
                                     ++ (if mem_str (lower b) ["min"; "minor"] then "m" else "")) with
            | Some k => Some ((k, None), [])
            | None => None
            end
        | _ => None
        end
      else general
  | _ => general
  end.
Definition key_from_string (s : string) := key_from_string_with valid_v1_names s.

End WithCfg.

(* ------------------------------------------------------------------ checkers (correspondence) *)

Definition okey1_eqb (a b : option (key1 * list key1)) : bool :=
  match a, b with
  | Some (k, r), Some (k', r') => key1_eqb k k' && list_eqb key1_eqb r r'
  | None, None => true
  | _, _ => false
  end.

(* reading: a text, and what interpret_as_key_signature returned for it (fifths, mode,
   alternative, other components) or None when it raised / returned None *)
Definition key_read_check (cfg : keycfg) (c : string * option (key1 * list key1)) : bool :=
  okey1_eqb (key_from_string cfg (fst c)) (snd c).

(* writing: spelling, is_list, the object, the text the formatter of that spelling wrote *)
Definition key_write_check (cfg : keycfg) (c : Z * bool * key1 * list key1 * option string) : bool :=
  let '(fmt, isl, k, r, t) := c in ostring_eqb (key_str cfg fmt isl k r) t.
