(* C17 -- the two pure functions of the contig-mapping search (class VoSA) that decide which stream
   of a neighbouring contig continues which voice:
   partitura/musicanalysis/voice_separation.py: pairwise_cost (cost of connecting the last notes of
   the voices to the first notes of the next contig) and est_best_connections (global-minimum
   policy: repeatedly take the cheapest connection that is still allowed, then forbid its row and
   its column -- numpy masked arrays: min(1).argmin() = first row holding the minimum, argmin(1) =
   first column of that row holding it; a fully masked array yields index 0).
   The rest of the search (contig segmentation, voice managers, the crystallisation loop) stays the
   oracle of Model/C17_Voices.v.  Definitions only. *)
From PV Require Import Lib.Base Gen.C17_VSTab.
#[local] Open Scope Z_scope.

(* a VSNote as pairwise_cost sees it: (identity, pitch, skip_contig) *)
Definition vsn := (Z * Z * Z)%type.
Definition vsn_id (n : vsn) : Z := fst (fst n).
Definition vsn_pitch (n : vsn) : Z := snd (fst n).
Definition vsn_skip (n : vsn) : Z := snd n.

(* c_note == n_note (the same note sounding on both sides): -MAX_COST; a voice that was left
   unconnected before: MAX_COST; otherwise the pitch distance *)
Definition conn_cost (a b : vsn) : Z :=
  if vsn_id a =? vsn_id b then - vs_max_cost
  else if negb (vsn_skip a =? 0) || negb (vsn_skip b =? 0) then vs_max_cost
  else Z.abs (vsn_pitch a - vsn_pitch b).

Definition pairwise_cost (prev nxt : list vsn) : list (list Z) :=
  map (fun a => map (conn_cost a) nxt) prev.

(* first minimum of the entries of a row whose column is not masked: Some (value, column) *)
Fixpoint row_best (cm : list bool) (row : list Z) (j : nat) : option (Z * nat) :=
  match row with
  | [] => None
  | x :: r =>
      let rest := row_best cm r (S j) in
      if nth j cm false then rest
      else match rest with
           | Some (b, _) => if b <? x then rest else Some (x, j)
           | None => Some (x, j)
           end
  end.

(* first row (not masked) whose minimum over the unmasked columns is smallest: Some (value, row) *)
Fixpoint rows_best (rm cm : list bool) (rows : list (list Z)) (i : nat) : option (Z * nat) :=
  match rows with
  | [] => None
  | row :: rs =>
      let rest := rows_best rm cm rs (S i) in
      match (if nth i rm false then None else row_best cm row 0) with
      | None => rest
      | Some (x, _) => match rest with
                       | Some (b, _) => if b <? x then rest else Some (x, i)
                       | None => Some (x, i)
                       end
      end
  end.

(* next_best = mcost.min(1).argmin(); next_assig = mcost.argmin(1)[next_best] *)
Definition pick (rm cm : list bool) (rows : list (list Z)) : nat * nat :=
  match rows_best rm cm rows 0 with
  | Some (_, r) => (r, match row_best cm (nth r rows []) 0 with Some (_, c) => c | None => 0%nat end)
  | None => (0%nat, 0%nat)
  end.

Fixpoint set_true (i : nat) (l : list bool) : list bool :=
  match l with
  | [] => []
  | b :: r => match i with O => true :: r | S i' => b :: set_true i' r end
  end.

(* while len(best_assignment) < n_assignments: pick, append, mask[:, col] = 1, mask[row, :] = 1 *)
Fixpoint greedy (fuel : nat) (rm cm : list bool) (rows : list (list Z)) : list (nat * nat) :=
  match fuel with
  | O => []
  | S f => let p := pick rm cm rows in
           p :: greedy f (set_true (fst p) rm) (set_true (snd p) cm) rows
  end.

Fixpoint transpose_rows (ncols : nat) (rows : list (list Z)) : list (list Z) :=
  match ncols with
  | O => []
  | S k => map (fun r => hd 0 r) rows :: transpose_rows k (map (fun r => tl r) rows)
  end.

Definition mem_nat (i : nat) (l : list nat) : bool := existsb (Nat.eqb i) l.

(* est_best_connections(cost, mode): cost has shape (np, nn); mode "prev" works on cost (np streams,
   nn assignments), mode "next" on its transpose.  Result: the assignments in the order they were
   made and the streams (rows) left without one, ascending *)
Definition est_best_connections (prev_mode : bool) (np nn : nat) (cost : list (list Z))
  : list (nat * nat) * list nat :=
  let con := if prev_mode then cost else transpose_rows nn cost in
  let n_streams := if prev_mode then np else nn in
  let n_assign := if prev_mode then nn else np in
  let best := greedy n_assign (repeat false n_streams) (repeat false n_assign) con in
  (best, filter (fun i => negb (mem_nat i (map fst best))) (seq 0 n_streams)).

(* a rectangular cost matrix *)
Definition cost_wf (nr nc : nat) (rows : list (list Z)) : Prop :=
  List.length rows = nr /\ forall r, In r rows -> List.length r = nc.

(* ---- checkers used by the correspondence *)
Definition pair_eqb (a b : nat * nat) : bool := Nat.eqb (fst a) (fst b) && Nat.eqb (snd a) (snd b).

(* (mode is "prev", np, nn, cost rows, assignments returned, unassigned returned) *)
Definition best_check (c : bool * nat * nat * list (list Z) * list (nat * nat) * list nat) : bool :=
  let '(pm, np, nn, cost, best, un) := c in
  let r := est_best_connections pm np nn cost in
  list_eqb pair_eqb (fst r) best && list_eqb Nat.eqb (snd r) un.

(* (prev notes, next notes, matrix returned) *)
Definition cost_check (c : list vsn * list vsn * list (list Z)) : bool :=
  let '(prev, nxt, out) := c in list_eqb (list_eqb Z.eqb) (pairwise_cost prev nxt) out.
