(* C06 -- executable model of the glue around the MIDI reader / writer:
     partitura/performance.py: Performance.sanitize_track_numbers
     partitura/utils/music.py: remove_silence_from_performed_part (notes and programs)
   Definitions and boolean checkers only; proofs in Proofs/C06_perf.v. *)
From PV Require Import Lib.Base Model.C12 Model.C06.
From Coq Require Import QArith Qminmax.
#[local] Open Scope Z_scope.

(* =====================================================================================
   Performance.sanitize_track_numbers: the (part index, track number) pairs of all notes,
   controls and programs -- a missing track counts as -1 --, `sorted(set(...))`, numbered along
   that order by `dict(enumerate)`, every item renumbered through the dictionary *)
Definition tpair := (Z * Z)%type.
Definition pair_eqb (a b : tpair) : bool := (fst a =? fst b) && (snd a =? snd b).
Definition pair_ltb (a b : tpair) : bool := (fst a <? fst b) || ((fst a =? fst b) && (snd a <? snd b)).
Definition pair_leb (a b : tpair) : bool := (fst a <? fst b) || ((fst a =? fst b) && (snd a <=? snd b)).
Fixpoint pmem (x : tpair) (l : list tpair) : bool :=
  match l with [] => false | y :: r => pair_eqb x y || pmem x r end.
(* set(...): one representative of every pair *)
Fixpoint puniq (l : list tpair) : list tpair :=
  match l with [] => [] | x :: r => if pmem x r then puniq r else x :: puniq r end.
Definition sorted_pairs (l : list tpair) : list tpair := sort_le pair_leb (puniq l).
(* dict([(tid, ti) for ti, tid in enumerate(unique_track_ids)])[x] *)
Fixpoint index_from (k : Z) (x : tpair) (l : list tpair) : option Z :=
  match l with
  | [] => None
  | y :: r => if pair_eqb x y then Some k else index_from (k + 1) x r
  end.
Definition track_no (ids : list tpair) (x : tpair) : Z :=
  match index_from 0 x ids with Some k => k | None => -1 end.

(* the track numbers of a part's notes, controls, programs *)
Definition ptracks := (list Z * list Z * list Z)%type.
Definition ptracks_all (p : ptracks) : list Z := let '(n, c, g) := p in n ++ c ++ g.
Definition all_pairs (ps : list ptracks) : list tpair :=
  flat_map (fun x => map (fun t => (fst x, t)) (ptracks_all (snd x))) (number_from 0 ps).
Definition pmap (f : Z -> Z) (p : ptracks) : ptracks := let '(n, c, g) := p in (map f n, map f c, map f g).
Definition sanitize (ps : list ptracks) : list ptracks :=
  let ids := sorted_pairs (all_pairs ps) in
  map (fun x => pmap (fun t => track_no ids (fst x, t)) (snd x)) (number_from 0 ps).

(* checkers.  C06 needs of the renumbering that it keeps the notes, controls and programs of one
   (part, track) together and apart from all others (then "the same track" after save -> load is
   meaningful); the numbers themselves are compared for information only. *)
Definition ptracks_eqb (a b : ptracks) : bool :=
  let '(n, c, g) := a in let '(n', c', g') := b in
  list_eqb Z.eqb n n' && list_eqb Z.eqb c c' && list_eqb Z.eqb g g'.
Definition check_sanitize_exact (c : list ptracks * list ptracks) : bool :=
  list_eqb ptracks_eqb (sanitize (fst c)) (snd c).
(* same shape, and two items have the same observed number exactly when the model gives them the same *)
Definition same_shape (a b : list ptracks) : bool :=
  list_eqb (fun x y : ptracks => let '(n, c, g) := x in let '(n', c', g') := y in
              (List.length n =? List.length n')%nat && (List.length c =? List.length c')%nat
              && (List.length g =? List.length g')%nat) a b.
Definition same_partition (m o : list Z) : bool :=
  forallb (fun x => forallb (fun y => Bool.eqb (fst x =? fst y) (snd x =? snd y)) (combine m o)) (combine m o).
Definition check_sanitize (c : list ptracks * list ptracks) : bool :=
  let m := sanitize (fst c) in
  same_shape m (snd c) && same_partition (flat_map ptracks_all m) (flat_map ptracks_all (snd c)).

(* =====================================================================================
   remove_silence_from_performed_part (load_performance(..., first_note_at_zero=True)): the
   earliest note onset becomes time 0; notes and programs are moved by it, clipped at 0.
   (The controls are re-sampled per (track, channel, number) with scipy.interpolate: not modelled.) *)
Definition qmax0 (x : Q) : Q := if Qle_bool 0 x then x else 0.
Definition rs_start (ons : list Q) : Q :=
  match ons with [] => 0 | t :: r => fold_right Qmin t r end.
Definition rs_notes (ns : list (Q * Q)) : list (Q * Q) :=
  let s := rs_start (map fst ns) in map (fun n => (qmax0 (fst n - s), qmax0 (snd n - s))) ns.
Definition rs_times (ns : list (Q * Q)) (ts : list Q) : list Q :=
  let s := rs_start (map fst ns) in map (fun t => qmax0 (t - s)) ts.

Definition q_close12 (model impl : Q) : bool :=
  Qle_bool (Qabs.Qabs (impl - model)) (Qabs.Qabs model * (1 # 1000000000) + (1 # 1000000000000))%Q.
(* notes (on, off) and program times before; notes and program times after, in the same order *)
Definition check_silence (c : list (Q * Q) * list Q * list (Q * Q) * list Q) : bool :=
  let '(ns, ps, ons, ops) := c in
  forall2b (fun m o => q_close12 (fst m) (fst o) && q_close12 (snd m) (snd o)) (rs_notes ns) ons
  && forall2b q_close12 (rs_times ns ps) ops.

(* =====================================================================================
   partitura/utils/music.py: seconds_to_midi_ticks, midi_ticks_to_seconds;
   partitura/io/importmidi.py: adjust_time called directly on a tick-ordered tempo list *)
Definition check_conv (c : Z * Z * Q * Z * Z * Q) : bool :=
  let '(ppq, mpq, t, tick_obs, k, sec_obs) := c in
  (sec_to_tick_r 0 ppq mpq t =? tick_obs) && q_close12 (Model.C12.tick_to_sec ppq mpq k) sec_obs.
Definition check_adjust (c : Z * list (Z * Z) * list (Z * Q)) : bool :=
  let '(ppq, tc, obs) := c in forallb (fun x => q_close12 (adjust_time ppq tc (fst x)) (snd x)) obs.
