(* C14 -- state carried between calls, as state machines.
   (1) what a caller sees of a performed part after a history of operations (Model/C14.v: run_history):
       the sound_off column and the rows of note_array();
   (2) histories over a Performance: parts replaced (perf[i] = part), appended to / deleted from
       perf.performedparts, a note added to a part, the track key of one event changed in place -- and
       sanitize_track_numbers() (Model/C14_Trk.v: sanitize) applied to whatever the parts hold then.
   Definitions only; proofs are in Proofs/C14_state.v. *)
From PV Require Import Lib.Base Lib.Round Model.C12 Model.C14 Model.C14_Note Model.C14_Trk.
From Coq Require Import QArith ZArith List.
#[local] Open Scope Z_scope.

(* ---- (1) the observation of a part: sound_off of every note, rows of note_array() under ppq / mpq *)
Definition observe (ppq mpq : Z) (p : part) : list Q * list narow := (p_so p, note_array ppq mpq p).

(* ---- (2) a Performance as the track keys of its parts' events *)
Inductive evkind := KNote | KCtrl | KProg.
Inductive pstep :=
| PReplace (i : nat) (p : ptracks)                 (* perf[i] = part *)
| PAppend (p : ptracks)                            (* perf.performedparts.append(part) *)
| PDelete (i : nat)                                (* del perf.performedparts[i] *)
| PAddNote (i : nat) (t : option Z)                (* perf[i].notes.append(note on track t) *)
| PSetTrack (i : nat) (k : evkind) (j : nat) (t : Z)  (* the j-th note / control / program change of part i: event["track"] = t *)
| PSanitize.                                       (* perf.sanitize_track_numbers() *)

Fixpoint set_nth {A} (i : nat) (f : A -> A) (l : list A) : list A :=
  match l, i with
  | [], _ => []
  | x :: r, O => f x :: r
  | x :: r, S i' => x :: set_nth i' f r
  end.
Fixpoint del_nth {A} (i : nat) (l : list A) : list A :=
  match l, i with
  | [], _ => []
  | _ :: r, O => r
  | x :: r, S i' => x :: del_nth i' r
  end.
Definition set_track (k : evkind) (j : nat) (t : Z) (p : ptracks) : ptracks :=
  let '(n, c, g) := p in
  match k with
  | KNote => (set_nth j (fun _ => Some t) n, c, g)
  | KCtrl => (n, set_nth j (fun _ => Some t) c, g)
  | KProg => (n, c, set_nth j (fun _ => Some t) g)
  end.
Definition add_note (t : option Z) (p : ptracks) : ptracks :=
  let '(n, c, g) := p in (n ++ [t], c, g).

Definition papply (ps : list ptracks) (s : pstep) : list ptracks :=
  match s with
  | PReplace i p => set_nth i (fun _ => p) ps
  | PAppend p => ps ++ [p]
  | PDelete i => del_nth i ps
  | PAddNote i t => set_nth i (add_note t) ps
  | PSetTrack i k j t => set_nth i (set_track k j t) ps
  | PSanitize => sanitize ps
  end.
Definition prun (ps : list ptracks) (ss : list pstep) : list ptracks := fold_left papply ss ps.

(* checker: the parts [ps] as observed after construction, the edits [ss], sanitize_track_numbers();
   observed: the track of every event afterwards.  Required (as in check_sanitize): the same shape and
   the same partition of the events as the model's renumbering of the CURRENT parts. *)
Definition check_perf_history (c : list ptracks * list pstep * list (list Z * list Z * list Z)) : bool :=
  let '(ps, ss, obs) := c in check_sanitize (1%nat, prun ps ss, obs).
