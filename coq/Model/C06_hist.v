(* C06 -- histories: the state carried between calls of save_performance_midi.
   The world the harness drives: performed parts by identity (one object may sit in several containers),
   the caller's list of parts, the Performance made from it (Performance(...) copies the list: the two
   views are independent from then on, but share the part objects).  Steps: an object gets new content
   (a new part, or any in-place edit / renumbering of one), the caller's list changes, the Performance's
   list changes (Performance(list), perf[i] = part), a save through one of the views.
   The code keeps nothing between two saves: the machine has no slot for it.  Definitions only. *)
From PV Require Import Lib.Base Model.C06.
From Coq Require Import QArith.
#[local] Open Scope Z_scope.

Record hworld := mkHW { hw_store : list (nat * ppart); hw_list : list nat; hw_perf : list nat }.
Definition empty_part : ppart := mkPP [] [] [] [] [] [].
Fixpoint hget (s : list (nat * ppart)) (pid : nat) : ppart :=
  match s with
  | [] => empty_part
  | (k, p) :: r => if Nat.eqb k pid then p else hget r pid
  end.

Inductive hview := VList | VPerf | VPart (pid : nat).
Record hargs := mkHA { ha_view : hview; ha_ppq : Z; ha_mpq : Z; ha_merge : bool }.
Inductive hop :=
| HPut (pid : nat) (p : ppart)     (* the object pid now holds p *)
| HList (ids : list nat)           (* the caller's list now holds these objects *)
| HPerf (ids : list nat)           (* the Performance now holds these objects *)
| HSave (a : hargs).               (* save_performance_midi(view, ppq, mpq, merge_tracks_save) *)

Definition hview_parts (w : hworld) (v : hview) : list ppart :=
  match v with
  | VList => map (hget (hw_store w)) (hw_list w)
  | VPerf => map (hget (hw_store w)) (hw_perf w)
  | VPart pid => [hget (hw_store w) pid]
  end.

Definition hstep (w : hworld) (op : hop) : hworld :=
  match op with
  | HPut pid p => mkHW ((pid, p) :: hw_store w) (hw_list w) (hw_perf w)
  | HList ids => mkHW (hw_store w) ids (hw_perf w)
  | HPerf ids => mkHW (hw_store w) (hw_list w) ids
  | HSave _ => w
  end.
Definition hstate (w : hworld) (h : list hop) : hworld := fold_left hstep h w.

(* what a save returns: Model.C06.save of the parts the view holds NOW *)
Definition hobserve (rule : Z) (w : hworld) (a : hargs) : list (list (Z * msg)) :=
  save rule (ha_ppq a) (ha_mpq a) (ha_merge a) (hview_parts w (ha_view a)).

(* the run of a history: the results of its saves, in order *)
Fixpoint hrun (rule : Z) (w : hworld) (h : list hop) : list (list (list (Z * msg))) :=
  match h with
  | [] => []
  | HSave a :: r => hobserve rule w a :: hrun rule w r
  | op :: r => hrun rule (hstep w op) r
  end.
Fixpoint hsaves (h : list hop) : nat :=
  match h with [] => O | HSave _ :: r => S (hsaves r) | _ :: r => hsaves r end.

(* the (state, arguments) of every save of a history *)
Fixpoint hframes (w : hworld) (h : list hop) : list (hworld * hargs) :=
  match h with
  | [] => []
  | HSave a :: r => (w, a) :: hframes w r
  | op :: r => hframes (hstep w op) r
  end.

(* a variant that keeps the first result on the side and hands it out again (what a memo on the argument
   object without invalidation does) -- only there to show that the statement about hrun says something *)
Fixpoint hrun_memo (rule : Z) (memo : option (list (list (Z * msg)))) (w : hworld) (h : list hop) : list (list (list (Z * msg))) :=
  match h with
  | [] => []
  | HSave a :: r =>
      let o := match memo with Some o => o | None => hobserve rule w a end in
      o :: hrun_memo rule (Some o) w r
  | op :: r => hrun_memo rule memo (hstep w op) r
  end.

(* correspondence: the machine is run on the edits of a live history; at every save the messages the
   implementation wrote are compared (check_save: what C06 names) with the machine's current state *)
Definition hworld0 : hworld := mkHW [] [] [].
Definition check_hist (c : list hop * list (list (list (Z * msg)))) : bool :=
  let '(h, obs) := c in
  let frames := hframes hworld0 h in
  forall2b (fun f o => check_save (ha_ppq (snd f), ha_mpq (snd f), ha_merge (snd f), hview_parts (fst f) (ha_view (snd f)), o))
           frames obs.
