(* C14 -- executable model of partitura/performance.py: PerformedNote (the dict-like note object:
   defaults filled by __init__, per-key validators _validate_*, validated __setitem__), the way
   adjust_offsets_w_sustain writes the sounding ends back (note["sound_off"] = value, one note after
   the other, every assignment validated), PerformedPart.__init__ over note dicts, the rows of
   PerformedPart.note_array for notes that carry stored ticks (note_on_tick, as load_performance_midi
   creates them) and PerformedPart.from_note_array seen as a construction from dicts that carry a
   sound_off.  Definitions only; proofs are in Proofs/C14_note.v. *)
From PV Require Import Lib.Base Lib.Round Model.C12 Model.C14.
From Coq Require Import QArith Qminmax Qabs.
#[local] Open Scope Q_scope.

(* the dict handed to PerformedNote(...): None = key absent.  midi_pitch is required. *)
Record ndict := mkND { d_pitch : Z; d_on : option Q; d_off : option Q; d_so : option Q; d_vel : option Z;
                       d_ontick : option Z; d_offtick : option Z }.
(* the fields the object stores (ticks stay absent unless given) *)
Record pnote := mkPN { pn_pitch : Z; pn_on : Q; pn_off : Q; pn_so : Q; pn_vel : Z;
                       pn_ontick : option Z; pn_offtick : option Z }.

Definition dflt {A} (o : option A) (d : A) : A := match o with Some x => x | None => d end.

(* ---- the validators (true = accepted, false = ValueError) *)
Definition ok_pitch (v : Z) : bool := (0 <=? v)%Z && (v <=? 127)%Z.
Definition ok_vel (v : Z) : bool := (0 <=? v)%Z && (v <=? 127)%Z.
Definition ok_on (v : Q) : bool := Qle_bool 0 v.
(* _validate_note_off: skipped while note_on < 0; else rejects value < 0 or value < note_on *)
Definition ok_off (on v : Q) : bool := Qltb on 0 || (Qle_bool 0 v && Qle_bool on v).
(* _validate_sound_off: skipped while note_off < 0; else rejects value < 0 or value < note_off *)
Definition ok_so (off v : Q) : bool := Qltb off 0 || (Qle_bool 0 v && Qle_bool off v).
Definition ok_ontick (v : Z) : bool := (0 <=? v)%Z.
(* _validate_note_off_tick: skipped while note_on_tick is absent (read as -1) or negative *)
Definition ok_offtick (ontick : option Z) (v : Z) : bool :=
  (dflt ontick (-1) <? 0)%Z || ((0 <=? v)%Z && (dflt ontick (-1) <=? v)%Z).
Definition ok_opt {A} (f : A -> bool) (o : option A) : bool := match o with Some x => f x | None => true end.

(* PerformedNote(d): fill the defaults (note_on, note_off -1; sound_off = note_off; velocity 60),
   then validate every key present.  The validators read the completed dict, so the outcome does
   not depend on the order of the keys.  None = the constructor raises. *)
Definition pn_new (d : ndict) : option pnote :=
  let on := dflt (d_on d) (-1) in
  let off := dflt (d_off d) (-1) in
  let so := dflt (d_so d) off in
  let vel := dflt (d_vel d) 60%Z in
  if ok_pitch (d_pitch d) && ok_on on && ok_off on off && ok_vel vel && ok_so off so
     && ok_opt ok_ontick (d_ontick d) && ok_opt (ok_offtick (d_ontick d)) (d_offtick d)
  then Some (mkPN (d_pitch d) on off so vel (d_ontick d) (d_offtick d)) else None.

(* note[key] = value *)
Inductive edit :=
| EOn (v : Q) | EOff (v : Q) | ESo (v : Q) | EVel (v : Z)
| EPitch (v : Z)      (* key "pitch": validated; the pedal code and note_array read midi_pitch, which is unchanged *)
| EOnTick (v : Z) | EOffTick (v : Z)
| EOther              (* id / track / channel: accepted, not validated *)
| EBadKey.            (* any other key (e.g. midi_pitch): KeyError *)

Definition pn_set (n : pnote) (e : edit) : option pnote :=
  match e with
  | EOn v => if ok_on v then Some (mkPN (pn_pitch n) v (pn_off n) (pn_so n) (pn_vel n) (pn_ontick n) (pn_offtick n)) else None
  | EOff v => if ok_off (pn_on n) v then Some (mkPN (pn_pitch n) (pn_on n) v (pn_so n) (pn_vel n) (pn_ontick n) (pn_offtick n)) else None
  | ESo v => if ok_so (pn_off n) v then Some (mkPN (pn_pitch n) (pn_on n) (pn_off n) v (pn_vel n) (pn_ontick n) (pn_offtick n)) else None
  | EVel v => if ok_vel v then Some (mkPN (pn_pitch n) (pn_on n) (pn_off n) (pn_so n) v (pn_ontick n) (pn_offtick n)) else None
  | EPitch v => if ok_pitch v then Some n else None
  | EOnTick v => if ok_ontick v then Some (mkPN (pn_pitch n) (pn_on n) (pn_off n) (pn_so n) (pn_vel n) (Some v) (pn_offtick n)) else None
  | EOffTick v => if ok_offtick (pn_ontick n) v then Some (mkPN (pn_pitch n) (pn_on n) (pn_off n) (pn_so n) (pn_vel n) (pn_ontick n) (Some v)) else None
  | EOther => Some n
  | EBadKey => None
  end.

(* a sequence of assignments; a rejected one raises and leaves the note as it was *)
Fixpoint pn_edits (n : pnote) (es : list edit) : list (option pnote) :=
  match es with
  | [] => []
  | e :: r => match pn_set n e with
              | Some n' => Some n' :: pn_edits n' r
              | None => None :: pn_edits n r
              end
  end.

(* ---- what the statement presupposes of a note dict: 0 <= onset <= release, pitch and velocity
        MIDI values, a carried sounding end not before the release, stored ticks ordered *)
Definition valid_dict (d : ndict) : Prop :=
  (0 <= d_pitch d <= 127)%Z /\
  (forall v, d_vel d = Some v -> (0 <= v <= 127)%Z) /\
  (exists on off, d_on d = Some on /\ d_off d = Some off /\ 0 <= on /\ on <= off /\
                  (forall so, d_so d = Some so -> off <= so)) /\
  (forall k, d_ontick d = Some k -> (0 <= k)%Z) /\
  (forall k v, d_ontick d = Some k -> d_offtick d = Some v -> (k <= v)%Z).
(* a stored note that is ready for the pedal computation: only onset and release matter, the
   stored sounding end may be stale (below the release after the release was moved) *)
Definition timed (n : pnote) : Prop := 0 <= pn_on n /\ pn_on n <= pn_off n.
Definition wf_note (n : pnote) : Prop := 0 <= pn_on n /\ pn_on n <= pn_off n /\ pn_off n <= pn_so n.

(* ---- the part: adjust_offsets_w_sustain writes the computed column back note by note *)
Definition to_note (n : pnote) : note := mkNote (pn_pitch n) (pn_vel n) (pn_on n) (pn_off n).
Fixpoint assign_so (ns : list pnote) (col : list Q) : option (list pnote) :=
  match ns, col with
  | n :: r, v :: c =>
      match pn_set n (ESo v) with
      | Some n' => match assign_so r c with Some r' => Some (n' :: r') | None => None end
      | None => None
      end
  | _, _ => Some ns     (* zip(offs, notes) stops at the shorter list *)
  end.
(* the threshold setter on stored notes (a part without notes is left alone) *)
Definition recompute (thr : Z) (ns : list pnote) (cs : list ctrl) : option (list pnote) :=
  match ns with
  | [] => Some []
  | _ => assign_so ns (sound_offs thr (map to_note ns) cs)
  end.
Fixpoint all_some {A} (l : list (option A)) : option (list A) :=
  match l with
  | [] => Some []
  | Some x :: r => match all_some r with Some r' => Some (x :: r') | None => None end
  | None :: _ => None
  end.
(* PerformedPart(dicts, controls, threshold) *)
Definition pp_new (thr : Z) (ds : list ndict) (cs : list ctrl) : option (list pnote) :=
  match all_some (map pn_new ds) with
  | Some ns => recompute thr ns cs
  | None => None
  end.

(* ---- note_array rows of stored notes: a stored note_on_tick wins over the conversion of the
        onset; duration_tick = tick(note_off) - onset tick (the n.get(tick, tick) expression) *)
Definition na_row_n (ppq mpq : Z) (n : pnote) : narow :=
  let ot := match pn_ontick n with Some k => k | None => sec_to_tick ppq mpq (pn_on n) end in
  mkRow (pn_pitch n) (pn_vel n) (pn_on n) (pn_so n - pn_on n) ot (sec_to_tick ppq mpq (pn_off n) - ot)%Z.
Definition note_array_n (ppq mpq : Z) (ns : list pnote) : list narow := map (na_row_n ppq mpq) ns.
(* from_note_array: every row becomes a dict carrying note_off = sound_off = onset + duration *)
Definition dict_of_row (r : narow) : ndict :=
  mkND (r_pitch r) (Some (r_on r)) (Some (r_on r + r_dur r)) (Some (r_on r + r_dur r)) (Some (r_vel r)) None None.
Definition from_note_array_n (rows : list narow) : option (list pnote) := pp_new 64 (map dict_of_row rows) [].
(* stored ticks that are the conversion of the stored seconds under the part's ppq / mpq (what
   load_performance_midi leaves for a file in the part's tempo) *)
Definition ticks_consistent (ppq mpq : Z) (n : pnote) : Prop :=
  forall k, pn_ontick n = Some k -> k = sec_to_tick ppq mpq (pn_on n).

(* ---- checkers used by the correspondence *)
Definition oq_eqb (a b : option Z) : bool := zopt_eqb a b.
Definition pn_eqb (a b : pnote) : bool :=
  (pn_pitch a =? pn_pitch b)%Z && Qeq_bool (pn_on a) (pn_on b) && Qeq_bool (pn_off a) (pn_off b) &&
  Qeq_bool (pn_so a) (pn_so b) && (pn_vel a =? pn_vel b)%Z && oq_eqb (pn_ontick a) (pn_ontick b) &&
  oq_eqb (pn_offtick a) (pn_offtick b).
Definition opn_eqb (a b : option pnote) : bool :=
  match a, b with Some x, Some y => pn_eqb x y | None, None => true | _, _ => false end.
(* one note object: the dict, the assignments made afterwards; observed: the stored fields after
   construction (None = raised) and after every assignment (None = that assignment raised) *)
Definition check_pnote (c : ndict * list edit * option pnote * list (option pnote)) : bool :=
  let '(d, es, o0, os) := c in
  opn_eqb (pn_new d) o0 &&
  match pn_new d with
  | Some n => forall2b opn_eqb (pn_edits n es) os
  | None => match os with [] => true | _ => false end
  end.
(* a part built from dicts (optional keys absent, carried sounding ends, stored ticks): observed
   the sound_off column and per note_array row pitch, velocity, onset tick and -- where no pedal
   extends the note -- the tick duration.  Required is what the statement says: the column (col_ok),
   pitch, the velocity where the dict gave one, the onset tick within half a tick and the tick
   duration within one tick of the seconds (1/1000 tick allowed for the float evaluation). *)
Fixpoint rows_ok (ppq mpq : Z) (ds : list ndict) (ns : list pnote) (rows : list (Z * Z * Z * option Z)) : bool :=
  match ds, ns, rows with
  | [], [], [] => true
  | d :: ds', n :: ns', (pi, ve, ot, dt) :: rows' =>
      (pn_pitch n =? pi)%Z && match d_vel d with Some v => (v =? ve)%Z | None => true end &&
      tick_near ppq mpq (pn_on n) ot ((1 # 2) + (1 # 1000)) &&
      match dt with Some x => tick_near ppq mpq (pn_off n - pn_on n) x (1 + (1 # 1000)) | None => true end &&
      rows_ok ppq mpq ds' ns' rows'
  | _, _, _ => false
  end.
Definition check_pp_new (c : Z * Z * Z * list ndict * list ctrl * option (list Q * list (Z * Z * Z * option Z))) : bool :=
  let '(ppq, mpq, thr, ds, cs, obs) := c in
  match pp_new thr ds cs, obs with
  | Some ns, Some (so, rows) => col_ok (map to_note ns) cs (map pn_so ns) so && rows_ok ppq mpq ds ns rows
  | None, None => true
  | _, _ => false
  end.
(* the same rows against the model's own formulas (stored onset tick wins, default velocity 60,
   tick(release) - onset tick): counted in the evidence, not required *)
Definition check_pp_new_exact (c : Z * Z * Z * list ndict * list ctrl * option (list Q * list (Z * Z * Z * option Z))) : bool :=
  let '(ppq, mpq, thr, ds, cs, obs) := c in
  match pp_new thr ds cs, obs with
  | Some ns, Some (so, rows) =>
      forall2b (fun (r : narow) (o : Z * Z * Z * option Z) =>
                  let '(pi, ve, ot, dt) := o in
                  (r_pitch r =? pi)%Z && (r_vel r =? ve)%Z && (r_on_tick r =? ot)%Z &&
                  match dt with Some x => (r_dur_tick r =? x)%Z | None => true end)
               (note_array_n ppq mpq ns) rows
  | None, None => true
  | _, _ => false
  end.
