(* C10 -- the six maps AS THE CODE BUILDS THEM (glue around the lookup of Model/C10.v):
   partitura/utils/generic.py: interp1d  -- the wrapper around scipy's interp1d: `len(x) > 1` -> scipy, otherwise
       the single-sample branch (np.broadcast_to over len(np.atleast_1d(query)), `np.ndim(query) == 0` -> one value);
   partitura/score.py: the sample tables handed to it by Part.time_signature_map (no signature -> two default rows at
       the first and last point; first signature after the first point -> a row in front; exactly one -> doubled),
       key_signature_map (no signature -> two default rows, both at the first point; back-fill; a single signature
       goes through the single-sample branch), clef_map (per staff 1..number_of_staves: no clef -> two "none" rows,
       one clef -> doubled, THEN the back-fill; the collator stacks the staves), measure_map / measure_number_map
       (rows after the anacrusis correction, no back-fill, one measure -> single-sample branch),
       metrical_position_map (barlines looked up through measure_map at the written measure starts, np.diff,
       PPoly with slope 1, the dispatch on `isinstance(input, Iterable)`, the zero interpolator for < 2 measures),
       Part.compute_number_of_staves (largest staff number of notes/rests, clefs, directions, words; at least 1).
   A query is a scalar (np.ndim 0: Python int/float, numpy scalar) or a vector (list, tuple, array); a result is
   one value or one value per queried position; None = nan (scipy's "previous" extrapolates with nan below its
   first sample).  Definitions only; proofs in Proofs/C10_Impl.v. *)
From PV Require Import Lib.Base Lib.Round Model.C02 Model.C10.
From Coq Require Import QArith.
#[local] Open Scope Z_scope.

Inductive query := QScalar (t : Z) | QVec (ts : list Z).
Inductive res (A : Type) := RScalar (a : A) | RVec (l : list A).
Arguments RScalar {A} a.
Arguments RVec {A} l.

(* scipy.interpolate.interp1d(kind="previous", fill_value="extrapolate") over samples sorted by x: the y of the
   last sample with x <= t (the last of several samples at one x), nan below the first sample *)
Fixpoint sc_scan {A} (tbl : list (Z * A)) (t : Z) (acc : option A) : option A :=
  match tbl with
  | [] => acc
  | (k, v) :: r => if k <=? t then sc_scan r t (Some v) else acc
  end.

(* len(np.atleast_1d(query)) *)
Definition qlen (q : query) : nat := match q with QScalar _ => 1%nat | QVec l => List.length l end.

(* utils/generic.py: interp1d(x, y, kind="previous", fill_value="extrapolate") *)
Definition wrap_prev {A} (tbl : list (Z * A)) (q : query) : res (option A) :=
  if (1 <? List.length tbl)%nat then                     (* len(x) > 1: scipy *)
    match q with
    | QScalar t => RScalar (sc_scan tbl t None)
    | QVec l => RVec (map (fun t => sc_scan tbl t None) l)
    end
  else                                                   (* a single sample: the same value for any input *)
    let y := match tbl with (_, y) :: _ => Some y | [] => None end in
    let result := repeat y (qlen q) in                   (* np.broadcast_to(y, (len(np.atleast_1d(q)), ...)) *)
    match q with
    | QScalar _ => RScalar (hd None result)              (* np.ndim(q) == 0: result[0] *)
    | QVec _ => RVec result
    end.

(* value of a scalar call; None when the call returned one row per position instead *)
Definition scalar_of {A} (f : query -> res (option A)) (t : Z) : option A :=
  match f (QScalar t) with RScalar a => a | RVec _ => None end.

(* ---- the sample tables *)
Definition c_last (cp : cpart) : Z := p_last (c_part cp).

Definition ts_rows (cp : cpart) : list (Z * (Z * Z * Z)) :=
  match ts_tbl cp with
  | [] => [(c_first cp, (4, 4, 4)); (c_last cp, (4, 4, 4))]
  | (t0, v0) :: r =>
      if c_first cp <? t0 then (c_first cp, v0) :: ts_tbl cp
      else match r with [] => [(t0, v0); (t0, v0)] | _ :: _ => ts_tbl cp end
  end.
Definition impl_ts (cp : cpart) (q : query) : res (option (Z * Z * Z)) := wrap_prev (ts_rows cp) q.

Definition ks_rows (cp : cpart) : list (Z * (Z * Z)) :=
  match c_kss cp with
  | [] => [(c_first cp, (0, 1)); (c_first cp, (0, 1))]
  | (t0, v0) :: _ => if c_first cp <? t0 then (c_first cp, v0) :: c_kss cp else c_kss cp
  end.
Definition impl_ks (cp : cpart) (q : query) : res (option (Z * Z)) := wrap_prev (ks_rows cp) q.

Definition clef_rows (cp : cpart) (s : Z) : list (Z * (Z * Z * Z * Z)) :=
  let rows := match staff_tbl cp s with
              | [] => [(c_first cp, (s, 6, 0, 0)); (c_last cp, (s, 6, 0, 0))]
              | [row] => [row; row]
              | sc => sc
              end in
  match rows with
  | (t0, v0) :: _ => if c_first cp <? t0 then (c_first cp, v0) :: rows else rows
  | [] => []
  end.
(* the collator: np.array([interpolator(time) for interpolator in interpolators]) -- one result per staff *)
Definition impl_clef (cp : cpart) (q : query) : list (res (option (Z * Z * Z * Z))) :=
  map (fun s => wrap_prev (clef_rows cp s) q) (zrange 1 (Z.to_nat (c_nstaves cp))).

(* compute_number_of_staves: the staff numbers of the notes and rests, clefs, directions, words (None = no staff) *)
Definition max_staff (m : Z) (l : list (option Z)) : Z :=
  fold_left (fun acc s => match s with Some x => if acc <? x then x else acc | None => acc end) l m.
Definition nstaves_impl (notes clefs dirs words : list (option Z)) : Z :=
  max_staff (max_staff (max_staff (max_staff 1 notes) clefs) dirs) words.

(* measure_map / measure_number_map: x = (corrected) starts, y = (start, end) / the number *)
Definition meas_xy (mt : list (Z * (Z * Z * option Z))) : list (Z * (Z * Z)) :=
  map (fun row => let '(k, (s, e, _)) := row in (k, (s, e))) mt.
Definition num_xy (mt : list (Z * (Z * Z * option Z))) : list (Z * option Z) :=
  map (fun row => let '(k, (_, _, n)) := row in (k, n)) mt.
Definition impl_measure_of (mt : list (Z * (Z * Z * option Z))) (q : query) : res (option (Z * Z)) := wrap_prev (meas_xy mt) q.
Definition impl_number_of (mt : list (Z * (Z * Z * option Z))) (q : query) : res (option (option Z)) := wrap_prev (num_xy mt) q.
Definition impl_measure (cp : cpart) : query -> res (option (Z * Z)) := impl_measure_of (meas_tbl cp).
Definition impl_number (cp : cpart) : query -> res (option (option Z)) := impl_number_of (meas_tbl cp).

(* metrical_position_map.  ms / me: measure_map(m.start.t)[0] / [1] for every measure m as written *)
Definition mp_lookup (mt : list (Z * (Z * Z * option Z))) (k : Z) : Z * Z :=
  match scalar_of (impl_measure_of mt) k with Some se => se | None => (0, 0) end.
Definition mp_ms (mt : list (Z * (Z * Z * option Z))) (written : list Z) : list Z := map (fun k => fst (mp_lookup mt k)) written.
Definition mp_me (mt : list (Z * (Z * Z * option Z))) (written : list Z) : list Z := map (fun k => snd (mp_lookup mt k)) written.
(* me[-1:] *)
Definition last1 (l : list Z) : list Z := match l with [] => [] | x :: r => [last r x] end.
Definition mp_barlines (mt : list (Z * (Z * Z * option Z))) (written : list Z) : list Z :=
  mp_ms mt written ++ last1 (mp_me mt written).
(* np.diff *)
Fixpoint diffs (l : list Z) : list Z :=
  match l with
  | a :: r => match r with b :: _ => (b - a) :: diffs r | [] => [] end
  | [] => []
  end.
(* interp1d(barlines[:-1], bar_durations, kind="previous", fill_value="extrapolate") *)
Definition mp_dur_tbl (bl : list Z) : list (Z * Z) := combine (removelast bl) (diffs bl).
(* PPoly([[1, ..], [0, ..]], barlines)(t): t minus the left end of the interval holding t (the first / last
   interval for positions outside the barlines) *)
Definition ppoly_lin (bl : list Z) (t : Z) : Z :=
  match bl with
  | [] => 0
  | b0 :: _ => t - prev_lookup (map (fun b => (b, b)) (removelast bl)) t b0
  end.
Fixpoint map2 {A B C} (f : A -> B -> C) (la : list A) (lb : list B) : list C :=
  match la, lb with
  | a :: ra, b :: rb => f a b :: map2 f ra rb
  | _, _ => []
  end.
Definition mp_pair (bl : list Z) (t : Z) (d : option Z) : option (Z * Z) :=
  match d with Some d => Some (ppoly_lin bl t, d) | None => None end.

Definition impl_metpos_of (mt : list (Z * (Z * Z * option Z))) (written : list Z) (q : query) : res (option (Z * Z)) :=
  if (List.length written <? 2)%nat then                  (* "No or single measures found": zeros *)
    match q with QScalar _ => RScalar (Some (0, 0)) | QVec l => RVec (map (fun _ => Some (0, 0)) l) end
  else
    let bl := mp_barlines mt written in
    match q, wrap_prev (mp_dur_tbl bl) q with
    | QVec l, RVec ds => RVec (map2 (mp_pair bl) l ds)    (* isinstance(input, Iterable): np.column_stack *)
    | QScalar t, RScalar d => RScalar (mp_pair bl t d)
    | QVec _, RScalar _ => RVec []
    | QScalar _, RVec _ => RScalar None
    end.
Definition impl_metpos (cp : cpart) : query -> res (option (Z * Z)) :=
  impl_metpos_of (meas_tbl cp) (map fst (c_meas cp)).

(* all positions of a query lie at or after lo *)
Definition q_ge (lo : Z) (q : query) : Prop :=
  match q with QScalar t => lo <= t | QVec l => Forall (fun t => lo <= t) l end.
(* the result a map must give for query q when its value at position t is f t *)
Definition lift_opt {A} (f : Z -> option A) (q : query) : res (option A) :=
  match q with QScalar t => RScalar (f t) | QVec l => RVec (map f l) end.
Definition lift {A} (f : Z -> A) (q : query) : res (option A) := lift_opt (fun t => Some (f t)) q.

(* ---------------------------------------------------------------- checker *)
Definition opt_eqb {A} (eqb : A -> A -> bool) (a b : option A) : bool :=
  match a, b with Some x, Some y => eqb x y | None, None => true | _, _ => false end.
Definition res_eqb {A} (eqb : A -> A -> bool) (a b : res A) : bool :=
  match a, b with
  | RScalar x, RScalar y => eqb x y
  | RVec x, RVec y => list_eqb eqb x y
  | _, _ => false
  end.
(* observed value None = not compared (position outside every measure) *)
Definition obs_eqb {A} (eqb : A -> A -> bool) (o : option A) (m : option A) : bool :=
  match o with None => true | Some x => match m with Some y => eqb x y | None => false end end.
Definition vec_of {A} (r : res A) : option (list A) := match r with RVec l => Some l | RScalar _ => None end.

(* one vector call per map on the same positions: positions, time_signature_map rows, key_signature_map rows,
   clef_map (per staff, per position), measure_map, measure_number_map, metrical_position_map (None = position
   outside every measure, not compared) *)
Definition c10_vobs : Type :=
  (list Z * list (Z * Z * Z) * list (Z * Z) * list (list (Z * Z * Z * Z)) *
   list (option (Z * Z)) * list (option Z) * list (option (Z * Z)))%type.
(* the base case, the staff numbers of (notes and rests, clefs, directions, words), the vector calls *)
Definition c10_icase : Type :=
  (c10_case * (list (option Z) * list (option Z) * list (option Z) * list (option Z)) * list c10_vobs)%type.

Definition same_len {A B} (a : list A) (b : list B) : bool := (List.length a =? List.length b)%nat.

Definition check10i (ic : c10_icase) : bool :=
  let '(c, staffs, vobs) := ic in
  let '(sn, sc, sd, sw) := staffs in
  let cp := build10 c in
  let '(_, _, _, _, _, _, nst, _, meas, obs, _) := c in
  let mt := meas_tbl cp in
  let written := map fst (c_meas cp) in
  let tsr := ts_rows cp in
  let ksr := ks_rows cp in
  let clr := map (clef_rows cp) (zrange 1 (Z.to_nat (c_nstaves cp))) in
  check10 c &&
  (nst =? nstaves_impl sn sc sd sw) &&
  (* scalar calls through the wrapper and the tables as built *)
  forallb (fun o =>
    let '(t, ts, ks, cl, ms) := o in
    res_eqb (opt_eqb z3_eqb) (wrap_prev tsr (QScalar t)) (RScalar (Some ts)) &&
    res_eqb (opt_eqb z2_eqb) (wrap_prev ksr (QScalar t)) (RScalar (Some ks)) &&
    list_eqb (res_eqb (opt_eqb z4_eqb)) (map (fun rows => wrap_prev rows (QScalar t)) clr) (map (fun r => RScalar (Some r)) cl) &&
    match ms with
    | None => true
    | Some (s, e, n, pos, len) =>
        res_eqb (opt_eqb z2_eqb) (impl_measure_of mt (QScalar t)) (RScalar (Some (s, e))) &&
        res_eqb (opt_eqb zo_eqb) (impl_number_of mt (QScalar t)) (RScalar (Some (Some n))) &&
        res_eqb (opt_eqb z2_eqb) (impl_metpos_of mt written (QScalar t)) (RScalar (Some (pos, len)))
    end) obs &&
  (* vector calls: one row per position, in the order asked *)
  forallb (fun v =>
    let '(l, ts, ks, cl, ms, nn, mp) := v in
    let q := QVec l in
    res_eqb (opt_eqb z3_eqb) (wrap_prev tsr q) (RVec (map Some ts)) &&
    res_eqb (opt_eqb z2_eqb) (wrap_prev ksr q) (RVec (map Some ks)) &&
    list_eqb (res_eqb (opt_eqb z4_eqb)) (map (fun rows => wrap_prev rows q) clr) (map (fun rows => RVec (map Some rows)) cl) &&
    match vec_of (impl_measure_of mt q), vec_of (impl_number_of mt q), vec_of (impl_metpos_of mt written q) with
    | Some ms', Some nn', Some mp' =>
        same_len ms ms' && same_len nn nn' && same_len mp mp' &&
        forallb (fun om => obs_eqb z2_eqb (fst om) (snd om)) (combine ms ms') &&
        forallb (fun om => obs_eqb zo_eqb (option_map Some (fst om)) (snd om)) (combine nn nn') &&
        forallb (fun om => obs_eqb z2_eqb (fst om) (snd om)) (combine mp mp')
    | _, _, _ => false
    end) vobs.
