(* C09 -- the public entry points of partitura/score.py over the model of Model/C09.v
   (definitions only):
     unfold_part_maximal(part, update_ids, ignore_leaps) = new_part_from_path(get_paths(part,
         all_repeats=True, ignore_leap_info=ignore_leaps)[0], part, update_ids)
     unfold_part_minimal(part) = new_part_from_path(get_paths(part, no_repeats=True)[0], part, False)
     iter_unfolded_parts(part, update_ids) / make_score_variants(part): one part per path of
         get_paths(part) (all-variants policy, ignore_leap_info=True)
     new_part_from_path(path, part, update_ids): the variant along the path's segments
     unfold_part_alignment(part, alignment): the variant covering most of the aligned score ids,
         among those the one with the fewest notes (tied notes counted once), the first such. *)
From PV Require Import Lib.Base Model.C09.
From Coq Require Import ZArith List Bool.
Import ListNotations.
#[local] Open Scope Z_scope.

(* the unfolded part along one path *)
Definition part_along (g : list seg) (objs : list obj) (p : list Z) : option (list nobj) :=
  option_map (variant objs) (visits_of g p).

(* paths[0] of a policy *)
Definition first_path (g : list seg) (nr ar ign : bool) : option (list Z) :=
  match get_paths FUEL g nr ar ign with Some (p :: _) => Some p | _ => None end.

Definition api_maximal (g : list seg) (objs : list obj) (ign : bool) : option (list nobj) :=
  opt_bind (first_path g false true ign) (part_along g objs).
Definition api_minimal (g : list seg) (objs : list obj) : option (list nobj) :=
  opt_bind (first_path g true false true) (part_along g objs).
Definition api_iter (g : list seg) (objs : list obj) : option (list (option (list nobj))) :=
  option_map (map (part_along g objs)) (get_paths FUEL g false false true).

(* ---- unfold_part_alignment ---- *)

(* Part.notes_tied of an unfolded part after update_note_ids_after_unfolding: the pitched notes
   without tie_prev (a tie_prev whose target was not copied has become None), as (original id, suffix) *)
Definition has_tie_prev (n : nobj) : bool :=
  existsb (fun r => (fst r =? 0) && existsb is_some (snd r)) (n_refs n).
Definition tied_heads (all : list nobj) : list (Z * Z) :=
  map (fun n => (n_id n, id_suffix all n))
      (filter (fun n => is_pitched (n_cls n) && negb (has_tie_prev n)) all).

(* (number of aligned ids found in the variant, number of notes of the variant) *)
Definition align_score (want : list (Z * Z)) (all : list nobj) : Z * Z :=
  let have := tied_heads all in
  (Z.of_nat (length (filter (fun w => existsb (zz_eqb w) have) want)), Z.of_nat (length have)).

(* coverage.max(), then unfolded_part_length[best].argmin(): more coverage wins, then fewer notes *)
Definition better (a b : Z * Z) : bool :=
  (fst b <? fst a) || ((fst a =? fst b) && (snd a <? snd b)).

(* index of the first element that no other element beats *)
Fixpoint argbest (l : list (Z * Z)) (i : nat) (cur : option (nat * (Z * Z))) : option nat :=
  match l with
  | [] => option_map fst cur
  | x :: r =>
      match cur with
      | None => argbest r (S i) (Some (i, x))
      | Some (j, y) => if better x y then argbest r (S i) (Some (i, x)) else argbest r (S i) cur
      end
  end.

Definition api_alignment (g : list seg) (objs : list obj) (want : list (Z * Z)) : option (list nobj) :=
  match api_iter g objs with
  | Some parts =>
      let scores := map (fun o => match o with Some all => align_score want all | None => (-1, 0) end) parts in
      match argbest scores 0 None with
      | Some i => match nth_error parts i with Some o => o | None => None end
      | None => None
      end
  | None => None
  end.

(* ------------------------------------------------------------------ *)
(* correspondence: which entry point produced the dump of an unfolded part *)

Inductive entry :=
| EMaximal (ign : bool)               (* unfold_part_maximal(..., ignore_leaps=ign) *)
| EMinimal                            (* unfold_part_minimal *)
| EIter                               (* a part of iter_unfolded_parts / make_score_variants *)
| EFromPath (nr ar ign : bool)        (* new_part_from_path on a path of get_paths(nr, ar, ign) *)
| EAlign (want : list (Z * Z)).       (* unfold_part_alignment for these score ids *)

Definition mkW (i s : Z) : Z * Z := (i, s).

Definition in_paths (p : list Z) (ps : option (list (list Z))) : bool :=
  match ps with Some l => existsb (zlist_eqb p) l | None => false end.

(* the path the harness paired the part with is the one the entry point takes in the model *)
Definition entry_path_ok (g : list seg) (objs : list obj) (e : entry) (p : list Z) : bool :=
  match e with
  | EMaximal ign => opt_eqb zlist_eqb (first_path g false true ign) (Some p)
  | EMinimal => opt_eqb zlist_eqb (first_path g true false true) (Some p)
  | EIter => in_paths p (get_paths FUEL g false false true)
  | EFromPath nr ar ign => in_paths p (get_paths FUEL g nr ar ign)
  | EAlign want =>
      (* the order in which partitura enumerates the variants is not part of the property: the part
         returned must be a variant that no other variant beats *)
      match get_paths FUEL g false false true with
      | Some ps =>
          existsb (zlist_eqb p) ps &&
          match part_along g objs p with
          | Some mine =>
              forallb (fun q => match part_along g objs q with
                                | Some other => negb (better (align_score want other) (align_score want mine))
                                | None => true end) ps
          | None => false
          end
      | None => false
      end
  end.

(* one correspondence case: the case of Model/C09.v plus, per dumped unfolded part, the entry point
   that returned it.  0 = agree; 1 segment boundaries; 2 paths; 3 variant rows; 4 quarter durations;
   5 the entry point did not take the path the model takes for it *)
Definition check_entries (c : ccase) (es : list entry) : bool :=
  let g := make_segments (c_marks c) in
  (length es =? length (c_variants c))%nat &&
  forallb (fun ev => entry_path_ok g (c_objs c) (fst ev) (v_path (snd ev))) (combine es (c_variants c)).

Definition mkCE (c : ccase) (es : list entry) : ccase * list entry := (c, es).

Definition check_case_api (ce : ccase * list entry) : Z :=
  let r := check_case (fst ce) in
  if negb (r =? 0) then r else if check_entries (fst ce) (snd ce) then 0 else 5.
