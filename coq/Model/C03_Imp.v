(* C03 -- the IMPORTER's measure reader (partitura/io/importmusicxml.py: _handle_measure,
   _handle_note), as an executable function over the same element type as the exporter model.

   It is NOT the spec reader `interp` of Model/C03.v; it follows the code:
     * position / measure_maxtime / measure_start / prev_note are the loop variables of _handle_measure;
     * a <chord/> note does not look at the running position: it starts at prev_note.start.t and takes
       prev_note.duration (prev_note = the note element handled before it, of ANY kind: also a grace
       note or a rest, also when a <backup>/<forward> or a direction lies in between), and the position
       after it is that start + that duration; a <chord/> with no previous note in the measure is the
       `assert prev_note is not None` (the load fails: None);
     * a grace note has no <duration>: `get_value_from_tag(e, "duration", int) or 0`;
     * <backup> is clamped at the measure start and ALSO raises measure_maxtime to the position reached;
     * a <barline> puts its repeat/ending at position_barline (location="left": measure start,
       "right" or none: measure_maxtime at that moment, "middle": the position) and its fermata /
       bar-style at the position; <print> takes effect at the measure start;
     * the next measure starts at measure_maxtime; prev_note is reset per measure.

   Barline locations are carried in the tag of EOther: -3 left, -2 middle, -1 right (all sort before
   <attributes> = 1 exactly like the exporter's order 0); 3 is <print>. *)
From PV Require Import Lib.Base Model.C03.
From Coq Require Import QArith.
#[local] Open Scope Z_scope.

Record mst := mkM { mpos : Z; mprev : option (Z * Z); mmax : Z; mstart : Z }.

Definition TAG_LEFT : Z := -3.
Definition TAG_MIDDLE : Z := -2.
Definition TAG_RIGHT : Z := -1.
Definition TAG_PRINT : Z := 3.

(* the positions at which the children of a non-note element are added *)
Definition mplaces (tag : Z) (s : mst) : list Z :=
  if tag =? TAG_LEFT then (if mstart s =? mpos s then [mpos s] else [mstart s; mpos s])
  else if tag =? TAG_RIGHT then (if mmax s =? mpos s then [mpos s] else [mmax s; mpos s])
  else if tag =? TAG_PRINT then [mstart s]
  else [mpos s].

Definition mstep (e : elem) (s : mst) : option (list placed * mst) :=
  match e with
  | ENote id d ch _ _ =>
      match (if ch then mprev s else Some (mpos s, d)) with
      | None => None
      | Some (st, du) =>
          Some ([PNote id st du], mkM (st + du) (Some (st, du)) (Z.max (mmax s) (st + du)) (mstart s))
      end
  | EForward d =>
      Some ([], mkM (mpos s + d) (mprev s) (Z.max (mmax s) (mpos s + d)) (mstart s))
  | EBackup d =>
      let p := if mpos s - d <? mstart s then mstart s else mpos s - d in
      Some ([], mkM p (mprev s) (Z.max (mmax s) p) (mstart s))
  | EOther tag => Some (map (POther tag) (mplaces tag s), s)
  | EDivisions _ => Some ([POther 1 (mpos s)], s)
  | EBar => None               (* not inside a measure; imp_part opens the next measure *)
  end.

Fixpoint imp (es : list elem) (s : mst) : option (list placed * mst) :=
  match es with
  | [] => Some ([], s)
  | e :: r =>
      match mstep e s with
      | None => None
      | Some (a, s1) => match imp r s1 with
                        | None => None
                        | Some (b, s2) => Some (a ++ b, s2)
                        end
      end
  end.

(* a whole part: EBar opens a measure; returns the placed objects and the extent of every measure *)
Fixpoint imp_part (es : list elem) (s : mst) (started : bool) : option (list placed * list (Z * Z)) :=
  let cur := if started then [(mstart s, mmax s)] else [] in
  match es with
  | [] => Some ([], cur)
  | EBar :: r =>
      match imp_part r (mkM (mmax s) None (mmax s) (mmax s)) true with
      | None => None
      | Some (pl, ms) => Some (pl, cur ++ ms)
      end
  | e :: r =>
      match mstep e s with
      | None => None
      | Some (a, s1) => match imp_part r s1 started with
                        | None => None
                        | Some (pl, ms) => Some (a ++ pl, ms)
                        end
      end
  end.

(* ---------------------------------------------------------------- hypotheses of the theorems *)

(* what the exporter's do_barlines / do_prints guarantee about a non-note element of the measure
   [ms, me]: a barline is written with location="left" only at the measure start, "right" only at
   the measure end; a <print> stands at the measure start (new-page / new-system inside a measure
   is not expressible in MusicXML) *)
Definition loc_ok (ms me : Z) (o : other) : Prop :=
  o_div o = None ->
  (o_tag o = TAG_LEFT -> o_onset o = ms) /\ (o_tag o = TAG_RIGHT -> o_onset o = me) /\
  (o_tag o = TAG_PRINT -> o_onset o = ms).

Definition others_in (ms me : Z) (Os : list other) : Prop :=
  Forall (fun o => ms <= o_onset o <= me /\ loc_ok ms me o) Os.
Definition notes_in (ms me : Z) (l : list note) : Prop :=
  Forall (fun n => ms <= onset n /\ 0 <= dur n /\ onset n + ndur n <= me) l.
Definition segs_in (ms me : Z) (segs : list (list note * list other)) : Prop :=
  Forall (fun seg => notes_in ms me (fst seg) /\ others_in ms me (snd seg)) segs.

(* ---------------------------------------------------------------- boolean checkers *)

Definition loc_ok_b (ms me : Z) (o : other) : bool :=
  match o_div o with
  | Some _ => true
  | None => (if o_tag o =? TAG_LEFT then o_onset o =? ms else true) &&
            (if o_tag o =? TAG_RIGHT then o_onset o =? me else true) &&
            (if o_tag o =? TAG_PRINT then o_onset o =? ms else true)
  end.

Definition segs_in_b (ms me : Z) (segs : list (list note * list other)) : bool :=
  forallb (fun seg =>
     forallb (fun n => (ms <=? onset n) && (0 <=? dur n) && (onset n + ndur n <=? me)) (fst seg) &&
     forallb (fun o => (ms <=? o_onset o) && (o_onset o <=? me) && loc_ok_b ms me o) (snd seg)) segs.

Definition placed_list_eqb (a b : list placed) : bool := list_eqb placed_eqb a b.

(* one written measure: the importer's reader, started at the measure start, reads the stream exactly
   as the independent reader does (same objects, same order, same times) and ends the measure at me *)
Definition imp_measure_b (c : list (list note * list other) * Z * Z * list elem) : bool :=
  match c with (segs, ms, me, E) =>
    match imp E (mkM ms None ms ms) with
    | Some (pl, s') => placed_list_eqb pl (fst (interp E (mkI ms ms ms))) && (mmax s' =? me)
    | None => false
    end
  end.

(* the hypotheses of importer_reads_measure hold for the measure (evidence; not a demand on the file) *)
Definition imp_hyp_b (c : list (list note * list other) * Z * Z * list elem) : bool :=
  match c with (segs, ms, me, _) => (ms <=? me) && segs_in_b ms me segs end.

(* the measure check of Model/C03.v plus the importer's reader *)
Definition check_measure_all (c : list (list note * list other) * Z * Z * list elem) : bool :=
  check_measure_both c && imp_measure_b c && imp_hyp_b c.

(* whole part, against what load_musicxml really returned: every note element in document order with
   (id, start, duration) of the loaded note, and (start, end) of every loaded measure *)
Definition pnotes (pl : list placed) : list (Z * Z * Z) :=
  flat_map (fun p => match p with PNote i s d => [(i, s, d)] | POther _ _ => [] end) pl.

Definition z3_eqb (a b : Z * Z * Z) : bool :=
  match a, b with (x, y, z), (x', y', z') => (x =? x') && (y =? y') && (z =? z') end.
Definition z2_eqb (a b : Z * Z) : bool :=
  match a, b with (x, y), (x', y') => (x =? x') && (y =? y') end.

Definition check_import (c : list elem * list (Z * Z * Z) * list (Z * Z)) : bool :=
  match c with (E, notes, measures) =>
    match imp_part E (mkM 0 None 0 0) false with
    | Some (pl, ms) => list_eqb z3_eqb (pnotes pl) notes && list_eqb z2_eqb ms measures
    | None => false
    end
  end.

(* one Coq case per written part: the sounding-notes check (b) of Model/C03.v and the importer check *)
Definition part_case_t :=
  (list elem * list (Z * (Z * bool * bool)) * list (Z * Q * Q) * list (Z * Z * Z) * list (Z * Z))%type.
Definition check_part_sound (c : part_case_t) : bool :=
  match c with (E, tab, expected, _, _) => check_part (E, tab, expected) end.
Definition check_part_import (c : part_case_t) : bool :=
  match c with (E, _, _, inotes, imeas) => check_import (E, inotes, imeas) end.
Definition check_part_all (c : part_case_t) : bool := check_part_sound c && check_part_import c.

(* ---------------------------------------------------------------- whole parts (theorem side) *)

Definition measure_t := (list (list note * list other) * Z * Z)%type.

(* the element stream of a part: every measure opened by EBar and written by lin_measure *)
Definition part_stream (M : list measure_t) : list elem :=
  flat_map (fun m => match m with (segs, ms, me) => EBar :: lin_measure segs ms me end) M.

(* the measures follow each other without gap or overlap and hold their contents *)
Fixpoint contiguous (t : Z) (M : list measure_t) : Prop :=
  match M with
  | [] => True
  | (segs, ms, me) :: r => ms = t /\ ms <= me /\ segs_in ms me segs /\ contiguous me r
  end.

(* what the spec reader reads, measure by measure, each from its own start *)
Definition part_placed (M : list measure_t) : list placed :=
  flat_map (fun m => match m with (segs, ms, me) =>
                       fst (interp (lin_measure segs ms me) (mkI ms ms ms)) end) M.

Definition part_extents (M : list measure_t) : list (Z * Z) :=
  map (fun m => match m with (_, ms, me) => (ms, me) end) M.
