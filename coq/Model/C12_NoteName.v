(* C12 (round j) -- note_name_to_pitch_spelling / note_name_to_midi_pitch AS THE CODE READS A NAME:
   NOTE_NAME_PATT = one letter A-G, then any number of x b #, then one or more digits, applied with .search (NOT .match /
   .fullmatch): the leftmost position of the string at which an attempt of the pattern succeeds
   gives the three groups; the accidental group goes through SIGN_TO_ALTER (the empty group is looked up as
   n; a missing key is the ValueError of ensure_pitch_spelling_format), the digit group through
   int().  Model/C12.parse_name reads whole strings of the grammar only and knows no table; this
   file models the search, the groups and the table lookup, so that the slips this mechanism can
   have (anchoring, giving up after the first failed attempt, non-greedy groups, a wrong table
   entry, the empty group not mapped to n) are expressible.  Definitions only; proofs in
   Proofs/C12_notename.v.  Strings are ASCII (Python's \d also matches other Unicode decimal
   digits: not generated, not modelled). *)
From PV Require Import Lib.Base Model.C12.
From Coq Require Import Ascii NArith Decimal DecimalString.
#[local] Open Scope Z_scope.

Definition is_digit_char (c : ascii) : bool :=
  match c with
  | "0" | "1" | "2" | "3" | "4" | "5" | "6" | "7" | "8" | "9" => true
  | _ => false
  end%char.

Fixpoint all_chars (p : ascii -> bool) (s : string) : bool :=
  match s with
  | EmptyString => true
  | String c r => p c && all_chars p r
  end.

(* the next character (if any) is not of the class: where a greedy group stops *)
Definition starts_not (p : ascii -> bool) (s : string) : bool :=
  match s with
  | EmptyString => true
  | String c _ => negb (p c)
  end.

(* a greedy character-class group: the longest prefix of the class, and the rest *)
Fixpoint span (p : ascii -> bool) (s : string) : string * string :=
  match s with
  | EmptyString => (EmptyString, EmptyString)
  | String c r => if p c then let '(a, t) := span p r in (String c a, t) else (EmptyString, s)
  end.

(* one attempt of the pattern at the head of s.  [xb#]* and \d+ are greedy; the two classes are
   disjoint, so giving back signs can never make \d+ succeed: no backtracking inside an attempt *)
Definition match_here (s : string) : option (ascii * string * string) :=
  match s with
  | String c r =>
      if is_step_char c then
        let '(a, t) := span is_acc_char r in
        let '(d, _) := span is_digit_char t in
        match d with
        | EmptyString => None
        | String _ _ => Some (c, a, d)
        end
      else None
  | EmptyString => None
  end.

(* re.search: attempts at positions 0, 1, 2, ... ; the first that succeeds *)
Fixpoint re_search (s : string) : option (ascii * string * string) :=
  match match_here s with
  | Some g => Some g
  | None => match s with
            | String _ r => re_search r
            | EmptyString => None
            end
  end.

(* the empty group is looked up under the key n *)
Definition sign_key (a : string) : string :=
  match a with
  | EmptyString => "n"%string
  | String _ _ => a
  end.

(* note_name_to_pitch_spelling over the sign table it is given (the code's SIGN_TO_ALTER is
   reflected into Gen/C12_Tab.tab_sign_to_alter on every run).  None = the call raised.
   ensure_pitch_spelling_format: the step must be a known letter and is returned in upper case;
   a key that is absent is the ValueError; the entry minus-sign -> None of the table cannot be reached
   from a group over x b # (Proofs: search_groups) and is read as a rejection here. *)
Definition nn_spelling_with (tab : list (string * option Z)) (n : string) : option (string * Z * Z) :=
  match re_search n with
  | Some (c, a, d) =>
      let step := String c EmptyString in
      match base_pc step, slookup (sign_key a) tab, NilEmpty.uint_of_string d with
      | Some _, Some (Some v), Some u => Some (upper_step step, v, Z.of_N (N.of_uint u))
      | _, _, _ => None
      end
  | None => None
  end.

(* note_name_to_midi_pitch = pitch_spelling_to_midi_pitch of that spelling *)
Definition nn_midi_with (tab : list (string * option Z)) (n : string) : option Z :=
  match nn_spelling_with tab n with
  | Some (s, a, o) => ps_to_midi s a o
  | None => None
  end.

(* ---- variants that are NOT the code (used by the ..._refuted Examples) ---- *)
(* gives up after the first step letter whose attempt fails *)
Fixpoint re_search_giveup (s : string) : option (ascii * string * string) :=
  match s with
  | EmptyString => None
  | String c r => if is_step_char c then match_here s else re_search_giveup r
  end.
(* anchored at the start of the string (re.match) *)
Definition re_match (s : string) : option (ascii * string * string) := match_here s.
(* a table in which the double sharp counts one semitone *)
Definition bad_sign_table : list (string * option Z) :=
  [("n", Some 0); ("#", Some 1); ("x", Some 1); ("b", Some (-1))]%string.

(* ---- checker of the correspondence ----
   r, m : what note_name_to_pitch_spelling / note_name_to_midi_pitch returned on n (None = raised).
   A value must be the model's value exactly (leftmost occurrence, greedy groups, the table's
   entry, twelve-tone arithmetic for the MIDI pitch); no value may be invented where no attempt
   of the pattern succeeds; a rejection is a disagreement only where the property promises a
   value: the WHOLE string is of the grammar with a documented accidental string. *)
Definition whole_documented (n : string) : bool :=
  match parse_name n with
  | Some _ => name_documented n
  | None => false
  end.
Definition nn_agrees (tab : list (string * option Z)) (n : string)
           (r : option (string * Z * Z)) (m : option Z) : bool :=
  match r with
  | Some _ => psopt_eqb r (nn_spelling_with tab n) && zopt_eqb m (nn_midi_with tab n)
  | None => negb (whole_documented n) &&
            match m with None => true | Some _ => false end
  end.
