(* C18 -- executable model of partitura/musicanalysis/performance_codec.py over exact rationals.
   Definitions only (proofs are in Proofs/C18*.v).

   Python name                               model
   get_unique_onset_idxs                     groups (stable sort, split where the gap exceeds eps)
   tempo_by_average's quantised call         enc_groups      (keys int(1e4 * onset))
   decode_time's call                        dec_groups      (keys onset, eps = 1e-6)
   get_unique_seq                            u_onsets, last_time
   utils.generic.monotonize_times            monotonize
   utils.generic.interp1d (linear, extrap.)  lin_interp
   utils.generic.interp1d (kind="zero")      zoh
   tempo_by_average / tempo_by_derivative    tempo_average / tempo_derivative
   encode_tempo + encode_articulation        enc_* (per note)
   decode_time + decode_articulation         dec_* (per note)
   get_matched_notes                         matched_idx
   to_matched_score                          matched_sorted, mscore
   get_time_maps_from_alignment              tm_knots, stime_to_ptime, ptime_to_stime
   log2 / 2** and the tempo normalisations are parameters (Section variables). *)
From Coq Require Import ZArith QArith Qabs Qround List Bool.
From PV Require Import Lib.Base Lib.Round.
Import ListNotations.
#[local] Open Scope Q_scope.

(* ---------- small list helpers over Q ---------- *)
Definition nthQ (l : list Q) (i : nat) : Q := nth i l 0.
Fixpoint sumQ (l : list Q) : Q := match l with [] => 0 | x :: r => x + sumQ r end.
Definition lenQ {A} (l : list A) : Q := inject_Z (Z.of_nat (List.length l)).
(* Qred only normalises the representation (Qred q == q); it keeps the numbers small under vm_compute *)
Definition meanQ (l : list Q) : Q := Qred (sumQ l / lenQ l).
Definition Qmaxb (a b : Q) : Q := if Qle_bool a b then b else a.
Definition Qminb (a b : Q) : Q := if Qle_bool a b then a else b.
Definition maxl (l : list Q) : Q := match l with [] => 0 | x :: r => fold_left Qmaxb r x end.
Definition minl (l : list Q) : Q := match l with [] => 0 | x :: r => fold_left Qminb r x end.
Fixpoint diffs (l : list Q) : list Q :=
  match l with
  | a :: (b :: _) as r => (b - a) :: diffs r
  | _ => []
  end.
Fixpoint map2 {A B C} (f : A -> B -> C) (a : list A) (b : list B) : list C :=
  match a, b with x :: a', y :: b' => f x y :: map2 f a' b' | _, _ => [] end.
Definition varQ (l : list Q) : Q := let m := meanQ l in meanQ (map (fun x => (x - m) * (x - m)) l).

Definition onset_eps : Q := 1 # 1000000.

(* ---------- stable insertion sort ---------- *)
Section Sort.
  Context {A : Type} (leb : A -> A -> bool).
  Fixpoint insert_s (a : A) (l : list A) : list A :=
    match l with
    | [] => [a]
    | y :: r => if leb a y then a :: l else y :: insert_s a r
    end.
  Fixpoint isort (l : list A) : list A :=
    match l with [] => [] | a :: r => insert_s a (isort r) end.
End Sort.
Definition qkey_leb {A} (key : A -> Q) (a b : A) : bool := Qle_bool (key a) (key b).

(* ---------- unique onsets: get_unique_onset_idxs ---------- *)
Fixpoint split_groups (key : nat -> Q) (eps : Q) (prev : nat) (cur : list nat) (l : list nat) : list (list nat) :=
  match l with
  | [] => [rev cur]
  | j :: r => if Qle_bool (key j - key prev) eps
              then split_groups key eps j (j :: cur) r
              else rev cur :: split_groups key eps j [j] r
  end.
Definition sort_idx (keys : list Q) : list nat := isort (qkey_leb (nthQ keys)) (seq 0 (List.length keys)).
Definition groups (keys : list Q) (eps : Q) : list (list nat) :=
  match sort_idx keys with
  | [] => []
  | j :: r => split_groups (nthQ keys) eps j [j] r
  end.
Definition quantise (o : Q) : Q := inject_Z (trunc (10000 * o)).
Definition enc_groups (onsets : list Q) : list (list nat) := groups (map quantise onsets) onset_eps.
Definition dec_groups (onsets : list Q) : list (list nat) := groups onsets onset_eps.

(* index of the group a note belongs to *)
Fixpoint gidx (G : list (list nat)) (j : nat) : nat :=
  match G with
  | [] => O
  | g :: r => if existsb (Nat.eqb j) g then O else S (gidx r j)
  end.
(* G is a partition of 0..n-1 (decidable; proved for every result of [groups] in Proofs/C18.v) *)
Definition groups_ok (G : list (list nat)) (n : nat) : bool :=
  forallb (fun j => Nat.ltb (gidx G j) (List.length G)) (seq 0 n) &&
  forallb (fun i => forallb (fun m => Nat.eqb (gidx G m) i && Nat.ltb m n) (nth i G []) &&
                    negb (Nat.eqb (List.length (nth i G [])) 0)) (seq 0 (List.length G)).

(* ---------- get_unique_seq ---------- *)
Definition last_time (onsets offsets : list Q) : Q :=
  let mo := maxl onsets in let mf := maxl offsets in
  if Qle_bool (mf - mo) onset_eps then mo + 1 else mf.
Definition u_onsets (onsets offsets : list Q) (G : list (list nat)) : list Q :=
  map (fun g => meanQ (map (nthQ onsets) g)) G ++ [last_time onsets offsets].

(* ---------- interpolation ---------- *)
Definition seg (x0 y0 x1 y1 x : Q) : Q := Qred (y0 + (y1 - y0) / (x1 - x0) * (x - x0)).
(* piecewise linear through knots sorted by abscissa, extrapolating with the end segments
   (scipy interp1d kind="linear", fill_value="extrapolate"; one knot: constant, as partitura's wrapper) *)
Fixpoint interp_from (x0 y0 : Q) (rest : list (Q * Q)) (x : Q) : Q :=
  match rest with
  | [] => y0
  | (x1, y1) :: rest' =>
      match rest' with
      | [] => seg x0 y0 x1 y1 x
      | _ :: _ => if Qle_bool x x1 then seg x0 y0 x1 y1 x else interp_from x1 y1 rest' x
      end
  end.
Definition lin_interp (K : list (Q * Q)) (x : Q) : Q :=
  match K with [] => 0 | (x0, y0) :: r => interp_from x0 y0 r x end.
(* zero-order hold with the end values as fill *)
Fixpoint zoh_from (y0 : Q) (rest : list (Q * Q)) (x : Q) : Q :=
  match rest with
  | [] => y0
  | (x1, y1) :: r => if Qle_bool x1 x then zoh_from y1 r x else y0
  end.
Definition zoh (K : list (Q * Q)) (x : Q) : Q :=
  match K with [] => 0 | (_, y0) :: r => zoh_from y0 r x end.

(* ---------- monotonize_times ---------- *)
Fixpoint runmax (m : Q) (l : list Q) : list Q :=
  match l with [] => [] | a :: r => let m' := Qmaxb m a in m' :: runmax m' r end.
Fixpoint incr_mask (prev : Q) (l : list Q) : list bool :=
  match l with [] => [] | a :: r => negb (Qeq_bool a prev) :: incr_mask a r end.
Definition mono_mask (s : list Q) : list bool :=
  match s with [] => [] | a :: r => true :: incr_mask a (runmax a r) end.
Definition select {A} (m : list bool) (l : list A) : list A :=
  map snd (filter (fun p => fst p) (combine m l)).
Definition monotonize (s x : list Q) : list Q :=
  let m := mono_mask s in
  map (lin_interp (combine (select m x) (select m s))) x.

(* ---------- tempo curves (x: unique score onsets + last time, s: chord mean performed onsets + last time) ---------- *)
Definition tempo_average (x s : list Q) : list Q :=
  let smt := monotonize s x in
  let bp := map2 (fun a b => Qred (a / b)) (diffs smt) (diffs x) in
  let xs := removelast x in
  map (zoh (combine xs bp)) xs.
Definition tempo_derivative (x s : list Q) : list Q :=
  let smt := monotonize s x in
  let f := lin_interp (combine x smt) in
  map (fun u => Qred (f (u + (1 # 2)) - f (u - (1 # 2)))) (removelast x).

(* cumulative equivalent onsets *)
Fixpoint eq_on (first : Q) (bp ds : list Q) (i : nat) : Q :=
  match i with
  | O => first
  | S k => Qred (eq_on first bp ds k + nthQ bp k * nthQ ds k)
  end.

Definition floor_pdur : Q := 3 # 40.   (* to_matched_score: max(duration_sec, 60 / 200 * 0.25) *)

Section Codec.
  (* tempo normalisation: parameter type, scale, column-wise mean over a chord, rescale; log2 and 2** *)
  Variable NP : Type.
  Variable scale : Q -> NP.
  Variable pmean : list NP -> NP.
  Variable rescale : NP -> Q.
  Variable npdefault : NP.
  Variables log2 exp2 : Q -> Q.

  Record params := mkP { p_bp : Q; p_np : NP; p_timing : Q; p_art : Q; p_vel : Q }.
  Definition pdefault := mkP 0 npdefault 0 0 0.

  (* ----- encode_tempo / encode_articulation / velocity, for ANY tempo curve bp (one value per group) ----- *)
  Section Enc.
    Variables (so sd po pd : list Q) (vel : list Z) (G : list (list nat)) (bp : list Q).
    Definition enc_x : list Q := u_onsets so (map2 Qplus so sd) G.
    Definition enc_first : Q := meanQ (map (nthQ po) (nth 0 G [])).
    Definition enc_eq (i : nat) : Q := eq_on enc_first bp (diffs enc_x) i.
    Definition enc_timing (j : nat) : Q := enc_eq (gidx G j) - nthQ po j.
    Definition enc_ratio (j : nat) : Q :=
      let b := nthQ bp (gidx G j) in
      if Qle_bool (nthQ sd j) 0 then b / (b * 1) else nthQ pd j / (b * nthQ sd j).
    Definition enc_vel (v : Z) : Q := inject_Z v / 127.
    Definition enc_note (j : nat) : params :=
      let b := nthQ bp (gidx G j) in
      mkP b (scale b) (enc_timing j) (log2 (enc_ratio j)) (enc_vel (nth j vel 0%Z)).
    Definition encode : list params := map enc_note (seq 0 (List.length so)).
  End Enc.

  (* ----- decode_time / decode_articulation / velocity ----- *)
  Section Dec.
    Variables (so sd : list Q) (G : list (list nat)) (P : list params).
    Definition dec_x : list Q := u_onsets so (map2 Qplus so sd) G.
    Definition dec_bp (i : nat) : Q := rescale (pmean (map (fun m => p_np (nth m P pdefault)) (nth i G []))).
    Definition dec_bps : list Q := map dec_bp (seq 0 (List.length G)).
    Definition dec_eq (i : nat) : Q := eq_on 0 dec_bps (diffs dec_x) i.
    Definition dec_raw (j : nat) : Q := dec_eq (gidx G j) - p_timing (nth j P pdefault).
    Definition dec_raws : list Q := map dec_raw (seq 0 (List.length so)).
    Definition dec_shift : Q := minl dec_raws.     (* performance[:, 0] -= np.min(performance[:, 0]) *)
    Definition dec_dur_with (bps : list Q) (j : nat) : Q :=
      exp2 (p_art (nth j P pdefault)) * nthQ sd j * nthQ bps (gidx G j).
    Definition dec_dur (j : nat) : Q := dec_dur_with dec_bps j.
    Definition dec_vel (v : Q) : Z := Z.max 1 (Z.min 127 (round_half_even (v * 127))).
    (* one row per score note: onset, duration, velocity *)
    Definition decode : list (Q * Q * Z) :=
      let raws := dec_raws in
      let m := minl raws in
      let bps := dec_bps in
      map (fun j => (nthQ raws j - m, dec_dur_with bps j, dec_vel (p_vel (nth j P pdefault)))) (seq 0 (List.length so)).
  End Dec.

  (* ----- consistency of ANY parameter array with a performance, as seen by the decoder:
     timing_j + performed onset_j - (decoder's equivalent onset of j's score onset) -- one common
     value for all notes iff the decoded onsets are the performed ones up to one shift ----- *)
  Section Cons.
    Variables (so sd po : list Q) (G : list (list nat)) (P : list params).
    Definition cons_off (j : nat) : Q :=
      p_timing (nth j P pdefault) + nthQ po j - dec_eq so sd G P (gidx G j).
  End Cons.
End Codec.

(* instances that are rational: no normalisation, and beat_period_ratio *)
Definition id_scale (x : Q) : Q := x.
Definition ratio_scale (mu x : Q) : Q * Q := (x / mu, mu).
Definition ratio_pmean (l : list (Q * Q)) : Q * Q := (meanQ (map fst l), meanQ (map snd l)).
Definition ratio_rescale (p : Q * Q) : Q := fst p * snd p.

(* ---------- alignment processing ---------- *)
Fixpoint find_idx (id : Z) (ids : list Z) : option nat :=
  match ids with
  | [] => None
  | x :: r => if Z.eqb id x then Some O else option_map S (find_idx id r)
  end.
(* alignment entry: (label, score id, performance id); label 0 = "match" *)
Definition al_entry := (Z * Z * Z)%type.
Definition matched_idx (sids pids : list Z) (al : list al_entry) : list (nat * nat) :=
  flat_map (fun a => match a with (lab, s, p) =>
     if Z.eqb lab 0 then
       match find_idx s sids, find_idx p pids with
       | Some i, Some j => [(i, j)]
       | _, _ => []
       end
     else [] end) al.

(* score note-array row: id, onset_beat, duration_beat, onset_div, pitch; performance row: id, onset_sec, duration_sec, velocity *)
Definition srow := (Z * Q * Q * Z * Z)%type.
Definition prow := (Z * Q * Q * Z)%type.
Definition s_id (r : srow) := match r with (i, _, _, _, _) => i end.
Definition s_on (r : srow) := match r with (_, o, _, _, _) => o end.
Definition s_dur (r : srow) := match r with (_, _, d, _, _) => d end.
Definition s_div (r : srow) := match r with (_, _, _, d, _) => d end.
Definition s_pitch (r : srow) := match r with (_, _, _, _, p) => p end.
Definition p_id (r : prow) := match r with (i, _, _, _) => i end.
Definition p_on (r : prow) := match r with (_, o, _, _) => o end.
Definition p_dur (r : prow) := match r with (_, _, d, _) => d end.
Definition p_velo (r : prow) := match r with (_, _, _, v) => v end.
Definition sdefault : srow := ((-1)%Z, 0, 0, 0%Z, 0%Z).
Definition pdefault_row : prow := ((-1)%Z, 0, 0, 0%Z).

(* order of to_matched_score: score onset, then pitch, then position in the score note array *)
Definition key3 (sna : list srow) (m : nat * nat) : Z * Z * Z :=
  let r := nth (fst m) sna sdefault in (s_div r, s_pitch r, Z.of_nat (fst m)).
Definition lex3_leb (a b : Z * Z * Z) : bool :=
  match a, b with (a1, a2, a3), (b1, b2, b3) =>
    (a1 <? b1)%Z || ((a1 =? b1)%Z && ((a2 <? b2)%Z || ((a2 =? b2)%Z && (a3 <=? b3)%Z)))
  end.
Definition matched_sorted (sna : list srow) (pna : list prow) (al : list al_entry) : list (nat * nat) :=
  isort (fun a b => lex3_leb (key3 sna a) (key3 sna b)) (matched_idx (map s_id sna) (map p_id pna) al).

(* ---------- time maps ---------- *)
Fixpoint uniq_sorted (l : list Q) : list Q :=
  match l with
  | a :: (b :: _) as r => if Qeq_bool a b then uniq_sorted r else a :: uniq_sorted r
  | _ => l
  end.
Definition tm_knots (sna : list srow) (pna : list prow) (al : list al_entry) (remove_ornaments : bool) : list (Q * Q) :=
  let M := matched_idx (map s_id sna) (map p_id pna) al in
  let rows := map (fun m => (nth (fst m) sna sdefault, nth (snd m) pna pdefault_row)) M in
  let us := uniq_sorted (isort Qle_bool (map (fun r => s_on (fst r)) rows)) in
  flat_map (fun u =>
     let sel := filter (fun r => Qeq_bool (s_on (fst r)) u &&
                                  (negb remove_ornaments || negb (Qle_bool (s_dur (fst r)) 0))) rows in
     match sel with [] => [] | _ => [(u, meanQ (map (fun r => p_on (snd r)) sel))] end) us.
Definition swap (p : Q * Q) : Q * Q := (snd p, fst p).
Definition stime_to_ptime (K : list (Q * Q)) : Q -> Q := lin_interp K.
Definition ptime_to_stime (K : list (Q * Q)) : Q -> Q :=
  lin_interp (isort (qkey_leb fst) (map swap K)).

(* ---------- normalisation columns as lists of rationals (what the correspondence evaluates) ----------
   TEMPO_NORMALIZATION[...]["rescale"] on the columns of one score onset; logarithmic columns hold
   2 ** column (exponentiated outside Q), so beat_period_log rescales by the identity and
   beat_period_ratio_log like beat_period_ratio *)
Definition rescale_n (norm : Z) (c : list Q) : Q :=
  match norm, c with
  | 0%Z, [b] => b
  | 1%Z, [e] => e
  | 2%Z, [r; m] => r * m
  | 3%Z, [e; m] => e * m
  | 4%Z, [z; m; s] => z * s + m
  | _, _ => 0
  end.
(* decode_time: np.mean(structured_to_unstructured(parameters[names][uix]), axis=0) *)
Definition colmean (rows : list (list Q)) : list Q :=
  match rows with
  | [] => []
  | r :: _ => map (fun k => meanQ (map (fun row => nthQ row k) rows)) (seq 0 (List.length r))
  end.
(* TEMPO_NORMALIZATION as the model reads it: index, role of each column (0 value / ratio / standard score,
   1 mean, 2 standard deviation), first column logarithmic; reflected from the live table on every run
   (Gen/C18_norm.v, Props/C18.v normalisation_table_reflected) *)
Definition norm_table_model : list (Z * list Z * bool) :=
  [(0%Z, [0%Z], false); (1%Z, [0%Z], true); (2%Z, [0%Z; 1%Z], false); (3%Z, [0%Z; 1%Z], true); (4%Z, [0%Z; 1%Z; 2%Z], false)].
(* rescale_n read through the roles: value * (std if any, else mean if any, else 1) + (mean if a std is there) *)
Definition role_get (roles : list Z) (c : list Q) (role : Z) (d : Q) : Q :=
  match find (fun p => Z.eqb (fst p) role) (combine roles c) with Some p => snd p | None => d end.
Definition rescale_roles (roles : list Z) (c : list Q) : Q :=
  let v := role_get roles c 0 0 in
  if existsb (Z.eqb 2) roles then v * role_get roles c 2 1 + role_get roles c 1 0
  else v * role_get roles c 1 1.
(* the scale functions that are rational given their constants (mean mu, standard deviation s) *)
Definition std_z (mu s x : Q) : Q := if Qeq_bool s 0 then 0 else (x - mu) / s.
Definition scale_n (norm : Z) (mu s x : Q) : list Q :=
  match norm with
  | 0%Z => [x]
  | 2%Z => [x / mu; mu]
  | 4%Z => [std_z mu s x; mu; s]
  | _ => []
  end.

(* ---------- snote_ids of to_matched_score, as a specification rather than a function ----------
   the rows follow ANY order of the matches that is sorted by score onset, then pitch *)
Definition key2 (sna : list srow) (m : nat * nat) : Z * Z :=
  let r := nth (fst m) sna sdefault in (s_div r, s_pitch r).
Definition lex2_leb (a b : Z * Z) : bool :=
  match a, b with (a1, a2), (b1, b2) => (a1 <? b1)%Z || ((a1 =? b1)%Z && (a2 <=? b2)%Z) end.
Definition pair_of (sna : list srow) (M : list (nat * nat)) (sid : Z) : nat * nat :=
  match find (fun m => Z.eqb (s_id (nth (fst m) sna sdefault)) sid) M with
  | Some m => m
  | None => (List.length sna, O)
  end.
Definition pairs_by_ids (sna : list srow) (M : list (nat * nat)) (sids : list Z) : list (nat * nat) :=
  map (pair_of sna M) sids.
Fixpoint sorted_by {A} (leb : A -> A -> bool) (l : list A) : bool :=
  match l with
  | a :: (b :: _) as r => leb a b && sorted_by leb r
  | _ => true
  end.
Definition pair_eqb (a b : nat * nat) : bool := Nat.eqb (fst a) (fst b) && Nat.eqb (snd a) (snd b).
Definition pair_leb (a b : nat * nat) : bool :=
  lex2_leb (Z.of_nat (fst a), Z.of_nat (snd a)) (Z.of_nat (fst b), Z.of_nat (snd b)).
(* same pairs, whatever the order *)
Definition perm_pairs (a b : list (nat * nat)) : bool :=
  list_eqb pair_eqb (isort pair_leb a) (isort pair_leb b).
Definition sids_ok (sna : list srow) (pna : list prow) (al : list al_entry) (sids : list Z) : bool :=
  let M := matched_idx (map s_id sna) (map p_id pna) al in
  let M' := pairs_by_ids sna M sids in
  perm_pairs M' M && sorted_by (fun a b => lex2_leb (key2 sna a) (key2 sna b)) M'.
