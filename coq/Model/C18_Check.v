(* C18 -- boolean checkers used by the correspondence (harness/props/c18.py): the model of
   Model/C18.v is evaluated on the note arrays and alignment the implementation received and
   compared with what the implementation returned.  Definitions only.

   Two families of comparisons:
   * PROPERTY bits (c18_check): what the property text demands of the implementation's outputs,
     phrased with the model's decoder and specifications -- the matched table holds the model's
     pairs in any order, snote_ids are ANY sorted permutation of the matched score notes, the
     parameter array is CONSISTENT with the performance as the decoder reads it (whatever tempo
     curve, timing origin and normalisation constants the encoder chose), every decoded
     performance is what the model decoder makes of those parameters (onsets up to one shift), the
     time maps pass through the knots.  A failure is a violation.
   * TIE bits (c18_tie): that the implementation still computes these outputs by the very
     formulas written in Model/C18.v (alignment order, tie-break by note-array position, grouping,
     tempo_by_average / tempo_by_derivative, timing origin = mean of the first chord, v / 127,
     normalisation constants mean / population variance, decoded onsets starting at 0, linear
     interpolation and extrapolation).  The property does not prescribe them: a failure is recorded
     as model drift (failed obligation), not as a violation. *)
From Coq Require Import ZArith QArith Qabs Qround List Bool.
From PV Require Import Lib.Base Lib.Round Model.C18.
Import ListNotations.
#[local] Open Scope Q_scope.

Definition close (rel abs a b : Q) : bool :=
  Qle_bool (Qabs (a - b)) (rel * Qmaxb (Qabs a) (Qabs b) + abs).
Definition rel_f32 : Q := 5 # 10000000.     (* 4 ulp of float32 *)
Definition abs_f32 : Q := 1 # 10000000.
Definition rel_log : Q := 1 # 100000.       (* fields that went through log2 / 2** in single precision *)
Definition abs_small : Q := 1 # 1000000.

Fixpoint all2 {A B} (f : A -> B -> bool) (a : list A) (b : list B) : bool :=
  match a, b with
  | [], [] => true
  | x :: a', y :: b' => f x y && all2 f a' b'
  | _, _ => false
  end.
Definition nat_list_eqb := list_eqb Nat.eqb.
Definition groups_eqb (a b : list (list nat)) : bool := list_eqb nat_list_eqb a b.
Definition spread (l : list Q) : Q := maxl l - minl l.

(* matched score columns from the note arrays, for the matched pairs M in a given order *)
Section Rows.
  Variables (sna : list srow) (pna : list prow) (M : list (nat * nat)).
  Definition r_srow (m : nat * nat) := nth (fst m) sna sdefault.
  Definition r_prow (m : nat * nat) := nth (snd m) pna pdefault_row.
  Definition r_ids := map (fun m => s_id (r_srow m)) M.
  Definition r_so := map (fun m => s_on (r_srow m)) M.
  Definition r_sd := map (fun m => s_dur (r_srow m)) M.
  Definition r_po := map (fun m => p_on (r_prow m)) M.
  Definition r_pdraw := map (fun m => p_dur (r_prow m)) M.
  Definition r_pd := map (fun m => Qmaxb (p_dur (r_prow m)) floor_pdur) M.
  Definition r_vel := map (fun m => p_velo (r_prow m)) M.
End Rows.
(* the order of to_matched_score as modelled (tie-break: position in the score note array) *)
Definition ms_pairs (sna : list srow) (pna : list prow) (al : list al_entry) := matched_sorted sna pna al.
Definition ms_ids sna pna al := r_ids sna (ms_pairs sna pna al).

Definition tempo_curve (method : Z) (x s : list Q) : list Q :=
  if Z.eqb method 0 then tempo_average x s else tempo_derivative x s.

(* the encoder with log2 := identity: the articulation field holds the ratio 2^articulation_log *)
Definition enc_rows (so sd po pd : list Q) (vel : list Z) (G : list (list nat)) (bp : list Q) :=
  encode Q id_scale (fun x => x) so sd po pd vel G bp.

(* implementation's parameter row: beat_period, velocity, timing, 2^articulation_log *)
Definition irow := (Q * Q * Q * Q)%type.
Definition LP := params (list Q).
(* parameter rows as the decoder called with normalisation [normd] reads them *)
Definition mkparams (normd : Z) (prm : list irow) (ncols : list (list Q)) : list LP :=
  map2 (fun r c => match r with (b, v, t, a) =>
          mkP (list Q) b (if Z.eqb normd 0 then [b] else c) t a v end) prm ncols.
Definition lp_default : LP := pdefault (list Q) [].
Definition l_bps (norm : Z) (G : list (list nat)) (P : list LP) : list Q :=
  dec_bps (list Q) colmean (rescale_n norm) [] G P.
Definition l_decode (norm : Z) (so sd : list Q) (G : list (list nat)) (P : list LP) : list (Q * Q * Z) :=
  decode (list Q) colmean (rescale_n norm) [] (fun x => x) so sd G P.

(* ---------- PROPERTY: the parameter array is consistent with the performance ---------- *)
Definition enc_consistent_bits (norm : Z) (dtol bperr : Q) (so sd po pdraw : list Q) (vel : list Z)
           (prm : list irow) (ncols : list (list Q)) : list bool :=
  let n := List.length so in
  let idx := seq 0 n in
  let G := dec_groups so in
  let P := mkparams norm prm ncols in
  let bps := l_bps norm G P in
  [ (* the beat_period column is what the normalisation columns rescale to *)
    Nat.eqb (List.length prm) n && Nat.eqb (List.length ncols) n &&
    forallb (fun j => close rel_log (bperr + abs_small) (p_bp _ (nth j P lp_default)) (nthQ bps (gidx G j))) idx;
    (* timing: one common offset for all notes *)
    Qle_bool (spread (map (cons_off (list Q) colmean (rescale_n norm) [] so sd po G P) idx)) dtol;
    (* articulation of notes with a score duration: 2^art * score duration * beat period = performed
       duration (as to_matched_score holds it: floored at 0.075 s, known finding C18-K2, or unfloored) *)
    forallb (fun j =>
       if Qle_bool (nthQ sd j) 0 then true else
       let a := p_art _ (nth j P lp_default) in
       let d := a * nthQ sd j * nthQ bps (gidx G j) in
       let tol := abs_small + Qabs (a * nthQ sd j) * bperr in
       close rel_log tol d (Qmaxb (nthQ pdraw j) floor_pdur) || close rel_log tol d (nthQ pdraw j)) idx;
    (* velocity parameter decodes to the performed velocity *)
    forallb (fun j => Z.eqb (dec_vel (p_vel _ (nth j P lp_default))) (nth j vel 0%Z)) idx ].

(* ---------- PROPERTY: a decoded performance = the model decoder on the same parameters ---------- *)
Fixpoint find_dec (id : Z) (dec : list (Z * Q * Q * Z)) : option (Q * Q * Z) :=
  match dec with
  | [] => None
  | (i, o, d, v) :: r => if Z.eqb i id then Some (o, d, v) else find_dec id r
  end.
Definition decode_ok (normd : Z) (dtol bperr : Q) (so sd : list Q) (sids : list Z)
           (prm : list irow) (ncols : list (list Q)) (dec : list (Z * Q * Q * Z)) : bool :=
  let G := dec_groups so in
  let P := mkparams normd prm ncols in
  let out := l_decode normd so sd G P in
  let got := map (fun id => find_dec id dec) sids in
  Nat.eqb (List.length dec) (List.length sids) && Nat.eqb (List.length out) (List.length sids) &&
  forallb (fun g => match g with Some _ => true | None => false end) got &&
  all2 (fun g m => match g, m with
        | Some (_, gd, gv), (_, md, mv) =>
            close rel_log (abs_small + Qabs md * bperr) gd md && Z.eqb gv mv
        | None, _ => false end) got out &&
  Qle_bool (spread (map2 (fun g m => match g with Some (go, _, _) => go - fst (fst m) | None => 0 end) got out)) dtol.

(* ---------- decode_performance's glue around decode_time ----------
   snote_info = snotes[np.isin(snotes["id"], snote_ids)]; sort_idx = np.lexsort((pitch, onset_div)) (stable);
   score columns AND the parameter rows are taken through sort_idx; the k-th output row is labelled snote_ids[k] *)
Definition isin (sids : list Z) (r : srow) : bool := existsb (Z.eqb (s_id r)) sids.
Definition dp_info (sna : list srow) (sids : list Z) : list srow := filter (isin sids) sna.
Definition row_key (r : srow) : Z * Z := (s_div r, s_pitch r).
Definition row_leb (a b : srow) : bool := lex2_leb (row_key a) (row_key b).
Definition dp_sort_idx (info : list srow) : list nat :=
  isort (fun a b => row_leb (nth a info sdefault) (nth b info sdefault)) (seq 0 (List.length info)).
Definition dp_take {A} (d : A) (l : list A) (idx : list nat) : list A := map (fun i => nth i l d) idx.
Definition dp_decode (normd : Z) (sna : list srow) (sids : list Z) (prm : list irow) (ncols : list (list Q))
  : list (Z * (Q * Q * Z)) :=
  let info := dp_info sna sids in
  let idx := dp_sort_idx info in
  let rows := dp_take sdefault info idx in
  let so := map s_on rows in
  let sd := map s_dur rows in
  let P := dp_take lp_default (mkparams normd prm ncols) idx in
  combine sids (l_decode normd so sd (dec_groups so) P).
(* what the PROPERTY comparison decode_ok evaluates: the decoder on the rows in the order of the pairs M' *)
Definition direct_decode (normd : Z) (sna : list srow) (M' : list (nat * nat)) (sids : list Z)
           (prm : list irow) (ncols : list (list Q)) : list (Z * (Q * Q * Z)) :=
  let so := r_so sna M' in
  combine sids (l_decode normd so (r_sd sna M') (dec_groups so) (mkparams normd prm ncols)).
(* hypotheses of the glue theorem, decidable: the score note array is sorted by (onset_div, pitch), ids unique *)
Fixpoint nodupb (l : list Z) : bool :=
  match l with [] => true | x :: r => negb (existsb (Z.eqb x) r) && nodupb r end.
Definition sna_sorted (sna : list srow) : bool := sorted_by row_leb sna.
Definition glue_ok (normd : Z) (dtol bperr : Q) (sna : list srow) (sids : list Z)
           (prm : list irow) (ncols : list (list Q)) (dec : list (Z * Q * Q * Z)) : bool :=
  let out := dp_decode normd sna sids prm ncols in
  all2 (fun g m => match g, m with
        | (gi, _, gd, gv), (mi, (_, md, mv)) =>
            Z.eqb gi mi && close rel_log (abs_small + Qabs md * bperr) gd md && Z.eqb gv mv end) dec out &&
  Qle_bool (spread (map2 (fun g m => match g, m with (_, go, _, _), (_, (mo, _, _)) => go - mo end) dec out)) dtol.

(* ---------- matched score rows of to_matched_score: onset, duration, pitch, p_onset, p_duration, velocity ---------- *)
Definition mrow := (Q * Q * Z * Q * Q * Z)%type.
Definition mscore_row (sna : list srow) (pna : list prow) (m : nat * nat) : mrow :=
  let s := r_srow sna m in let p := r_prow pna m in
  (s_on s, s_dur s, s_pitch s, p_on p, Qmaxb (p_dur p) floor_pdur, p_velo p).
Definition mscore_rows (sna : list srow) (pna : list prow) (M : list (nat * nat)) : list mrow := map (mscore_row sna pna) M.
(* observed row against the model row; the performed duration floored (known finding C18-K2) or as performed *)
Definition mrow_ok (pna : list prow) (m : nat * nat) (g w : mrow) : bool :=
  match g, w with
  | (go, gd, gp, gpo, gpd, gv), (wo, wd, wp, wpo, wpd, wv) =>
      close rel_f32 abs_f32 go wo && close rel_f32 abs_f32 gd wd && Z.eqb gp wp && close rel_f32 abs_f32 gpo wpo &&
      (close rel_f32 abs_f32 gpd wpd || close rel_f32 abs_f32 gpd (p_dur (r_prow pna m))) && Z.eqb gv wv
  end.
Fixpoint all3 {A B C} (f : A -> B -> C -> bool) (a : list A) (b : list B) (c : list C) : bool :=
  match a, b, c with
  | [], [], [] => true
  | x :: a', y :: b', z :: c' => f x y z && all3 f a' b' c'
  | _, _, _ => false
  end.

(* ---------- distinct score onsets far enough apart for the two groupings to coincide ---------- *)
Definition sep_min : Q := 2 # 10000.
Definition sep_b (so : list Q) : bool :=
  forallb (fun a => forallb (fun b => Qeq_bool a b || Qle_bool sep_min (Qabs (a - b))) so) so.

(* ---------- time maps ---------- *)
(* test: (kind, x, observed y); kind 0: stime_to_ptime at a knot, 1: ptime_to_stime at a knot (property);
   2: stime_to_ptime elsewhere, 3: ptime_to_stime elsewhere (tie: linear interpolation / extrapolation) *)
Definition tm_test := (Z * Q * Q)%type.
Definition tm_test_ok (K : list (Q * Q)) (tol : Q) (t : tm_test) : bool :=
  match t with (kind, x, y) =>
    close 0 tol y (if Z.even kind then stime_to_ptime K x else ptime_to_stime K x) end.
Definition check_tmaps (prop : bool) (K : list (Q * Q)) (tol : Q) (tests : list tm_test) : bool :=
  forallb (fun t => match t with (kind, _, _) =>
     if Bool.eqb (Z.ltb kind 2) prop then tm_test_ok K tol t else true end) tests.

Definition c18_case :=
  ((Z * Z) * list srow * list prow * list al_entry *
   (list (Z * Z) * list Z * list (list Z) * list irow * list (list Q) * list mrow) *
   (Q * Q * list (Z * list (Z * Q * Q * Z))) *
   (bool * Q * list tm_test))%type.

(* PROPERTY bits *)
Definition c18_prop_bits (c : c18_case) : list bool :=
  match c with
  | ((method, norm), sna, pna, al, (midx, sids, uidx, prm, ncols, mrows), (dtol, bperr, decs), (rmo, ttol, tests)) =>
    let M := matched_idx (map s_id sna) (map C18.p_id pna) al in
    let M' := pairs_by_ids sna M sids in
    let so := r_so sna M' in let sd := r_sd sna M' in
    let po := r_po pna M' in let pdraw := r_pdraw pna M' in
    let vel := r_vel pna M' in
    [ perm_pairs (map (fun m => (Z.to_nat (fst m), Z.to_nat (snd m))) midx) M
        && forallb (fun m => (0 <=? fst m)%Z && (0 <=? snd m)%Z) midx;
      sids_ok sna pna al sids ]
    ++ enc_consistent_bits norm dtol bperr so sd po pdraw vel prm ncols
    ++ [ forallb (fun d => decode_ok (fst d) dtol bperr so sd sids prm ncols (snd d)) decs;
         check_tmaps true (tm_knots sna pna al rmo) ttol tests;
         (* the rows of the matched score hold the columns of the paired notes *)
         all3 (mrow_ok pna) M' mrows (mscore_rows sna pna M') ]
  end.
Definition c18_check (c : c18_case) : bool := forallb (fun b => b) (c18_prop_bits c).

(* normalisation columns by the formulas of TEMPO_NORMALIZATION.  Python applied 2** to logarithmic columns. *)
Definition norm_ok (norm : Z) (mu var : Q) (b : Q) (cols : list Q) : bool :=
  match norm, cols with
  | 0%Z, [] => true
  | 1%Z, [e] => close rel_log 0 e b
  | 2%Z, [r; m] => close rel_f32 abs_f32 r (b / mu) && close rel_f32 abs_f32 m mu
  | 3%Z, [e; m] => close rel_log 0 e (b / mu) && close rel_f32 abs_f32 m mu
  | 4%Z, [z; m; s] => close rel_f32 abs_f32 m mu
                      && close (1 # 1000000) (1 # 1000000000000) (s * s) var
                      && close (1 # 1000000) abs_f32 (z * s) (b - mu)
  | _, _ => false
  end.

(* TIE bits: the formulas of Model/C18.v, in the implementation's row order *)
Definition c18_tie_bits (c : c18_case) : list bool :=
  match c with
  | ((method, norm), sna, pna, al, (midx, sids, uidx, prm, ncols, mrows), (dtol, bperr, decs), (rmo, ttol, tests)) =>
    let M := matched_idx (map s_id sna) (map C18.p_id pna) al in
    let M' := pairs_by_ids sna M sids in
    let so := r_so sna M' in let sd := r_sd sna M' in
    let po := r_po pna M' in let pd := r_pd pna M' in
    let vel := r_vel pna M' in
    let n := List.length so in
    let G := enc_groups so in
    let x := u_onsets so (map2 Qplus so sd) G in
    let s := u_onsets po (map2 Qplus po pd) G in
    let bp := tempo_curve method x s in
    let P := enc_rows so sd po pd vel G bp in
    let mu := meanQ bp in let var := Qred (varQ bp) in
    [ (* get_matched_notes lists the pairs in alignment order *)
      list_eqb (fun a b => Z.eqb (fst a) (fst b) && Z.eqb (snd a) (snd b)) midx
        (map (fun m => (Z.of_nat (fst m), Z.of_nat (snd m))) M);
      (* snote_ids: ties of onset and pitch in note-array order *)
      list_eqb Z.eqb sids (ms_ids sna pna al);
      (* grouping: encoder (quantised keys) = decoder (eps) = what the implementation returned *)
      groups_ok G n && groups_eqb (dec_groups so) G &&
      list_eqb (list_eqb Z.eqb) uidx (map (map Z.of_nat) G);
      (* built-in tempo curve positive *)
      forallb (fun b => negb (Qle_bool b 0)) bp;
      (* beat_period = the modelled tempo curve; timing with origin mean of the first chord; v / 127;
         articulation (1 for grace notes) *)
      all2 (fun r p => match r with (b, v, t, a) =>
              close rel_f32 abs_f32 b (p_bp Q p) && close rel_f32 abs_f32 v (p_vel Q p) &&
              close rel_f32 abs_f32 t (p_timing Q p) && close rel_log 0 a (p_art Q p) end) prm P;
      all2 (fun c p => norm_ok norm mu var (p_bp Q p) c) ncols P;
      (* decoded onsets start at 0 *)
      forallb (fun d => match snd d with [] => true | _ =>
                 close 0 abs_small (minl (map (fun r => match r with (_, o, _, _) => o end) (snd d))) 0 end) decs;
      (* time maps linear between the knots, extrapolating with the end segments *)
      check_tmaps false (tm_knots sna pna al rmo) ttol tests;
      (* hypotheses of the glue theorem (Part.note_array: sorted by onset_div then pitch, unique ids, every score
         note matched at most once) and of groups_agree (distinct score onsets >= 2e-4 beat apart) *)
      sna_sorted sna && nodupb (map s_id sna) && nodupb (map (fun m => Z.of_nat (fst m)) M) && sep_b so;
      (* decode_performance's glue (isin filter, stable lexsort applied to score columns and parameters,
         positional labelling by snote_ids) = dp_decode, row by row in the order of the returned notes *)
      forallb (fun d => glue_ok (fst d) dtol bperr sna sids prm ncols (snd d)) decs ]
  end.
Definition c18_tie (c : c18_case) : bool := forallb (fun b => b) (c18_tie_bits c).
Definition c18_all (c : c18_case) : bool := c18_check c && c18_tie c.
Definition c18_check_bits (c : c18_case) : list bool * list bool := (c18_prop_bits c, c18_tie_bits c).
