(* C18 -- boolean checkers used by the correspondence (harness/props/c18.py): the model of
   Model/C18.v is evaluated on the note arrays and alignment the implementation received and
   compared with what the implementation returned.  Definitions only. *)
From Coq Require Import ZArith QArith Qabs Qround List Bool.
From PV Require Import Lib.Base Lib.Round Model.C18.
Import ListNotations.
#[local] Open Scope Q_scope.

Definition close (rel abs a b : Q) : bool :=
  Qle_bool (Qabs (a - b)) (rel * Qmaxb (Qabs a) (Qabs b) + abs).
Definition rel_f32 : Q := 5 # 10000000.     (* 4 ulp of float32 *)
Definition abs_f32 : Q := 1 # 10000000.
Definition rel_log : Q := 1 # 100000.       (* fields that went through log2 / 2** in single precision *)

Fixpoint all2 {A B} (f : A -> B -> bool) (a : list A) (b : list B) : bool :=
  match a, b with
  | [], [] => true
  | x :: a', y :: b' => f x y && all2 f a' b'
  | _, _ => false
  end.
Definition nat_list_eqb := list_eqb Nat.eqb.
Definition groups_eqb (a b : list (list nat)) : bool := list_eqb nat_list_eqb a b.

(* matched score columns from the note arrays *)
Section MScore.
  Variables (sna : list srow) (pna : list prow) (al : list al_entry).
  Definition ms_pairs := matched_sorted sna pna al.
  Definition ms_srow (m : nat * nat) := nth (fst m) sna sdefault.
  Definition ms_prow (m : nat * nat) := nth (snd m) pna pdefault_row.
  Definition ms_ids := map (fun m => s_id (ms_srow m)) ms_pairs.
  Definition ms_so := map (fun m => s_on (ms_srow m)) ms_pairs.
  Definition ms_sd := map (fun m => s_dur (ms_srow m)) ms_pairs.
  Definition ms_po := map (fun m => p_on (ms_prow m)) ms_pairs.
  Definition ms_pd := map (fun m => Qmaxb (p_dur (ms_prow m)) floor_pdur) ms_pairs.
  Definition ms_vel := map (fun m => p_velo (ms_prow m)) ms_pairs.
End MScore.

Definition tempo_curve (method : Z) (x s : list Q) : list Q :=
  if Z.eqb method 0 then tempo_average x s else tempo_derivative x s.

(* the encoder with log2 := identity: the articulation field holds the ratio 2^articulation_log *)
Definition enc_rows (so sd po pd : list Q) (vel : list Z) (G : list (list nat)) (bp : list Q) :=
  encode Q id_scale (fun x => x) so sd po pd vel G bp.

(* normalisation columns.  Python applied 2** to logarithmic columns before printing them. *)
Definition norm_ok (norm : Z) (mu var : Q) (b : Q) (cols : list Q) : bool :=
  match norm, cols with
  | 0%Z, [] => true
  | 1%Z, [e] => close rel_log 0 e b
  | 2%Z, [r; m] => close rel_f32 abs_f32 r (b / mu) && close rel_f32 abs_f32 m mu
  | 3%Z, [e; m] => close rel_log 0 e (b / mu) && close rel_f32 abs_f32 m mu
  | 4%Z, [z; m; s] => close rel_f32 abs_f32 m mu
                      && close (1 # 1000000) (1 # 1000000000000) (s * s) var
                      && close (1 # 1000000) abs_f32 (z * s) (b - mu)
  | _, _ => false
  end.

Definition sel_rows (sna : list srow) (sids : list Z) : list srow :=
  filter (fun r => existsb (Z.eqb (s_id r)) sids) sna.
Definition lex2_leb (a b : Z * Z) : bool :=
  match a, b with (a1, a2), (b1, b2) => (a1 <? b1)%Z || ((a1 =? b1)%Z && (a2 <=? b2)%Z) end.
Definition dec_sort_idx (sel : list srow) : list nat :=
  isort (fun i j => lex2_leb (s_div (nth i sel sdefault), s_pitch (nth i sel sdefault))
                             (s_div (nth j sel sdefault), s_pitch (nth j sel sdefault)))
        (seq 0 (List.length sel)).

(* implementation's parameter row: beat_period, velocity, timing, 2^articulation_log *)
Definition irow := (Q * Q * Q * Q)%type.
Definition dec_out_ok (tol : Q) (got : Z * Q * Q * Z) (id : Z) (m : Q * Q * Z) : bool :=
  match got, m with (gid, gon, gdu, gve), (mon, mdu, mve) =>
    Z.eqb gid id && close 0 tol gon mon && close rel_log (1 # 1000000) gdu mdu && Z.eqb gve mve
  end.

Definition check_decode (norm : Z) (tol : Q) (sna : list srow) (sids : list Z)
           (prm : list irow) (ncols : list (list Q)) (dec : list (Z * Q * Q * Z)) : bool :=
  let sel := sel_rows sna sids in
  let sidx := dec_sort_idx sel in
  let so := map (fun i => s_on (nth i sel sdefault)) sidx in
  let sd := map (fun i => s_dur (nth i sel sdefault)) sidx in
  let G := dec_groups so in
  match norm with
  | 0%Z =>
      let P := map (fun r => match r with (b, v, t, a) => mkP Q b b t a v end) prm in
      let P' := map (fun i => nth i P (pdefault Q 0)) sidx in
      let out := decode Q meanQ (fun x => x) 0 (fun x => x) so sd G P' in
      Nat.eqb (List.length prm) (List.length sel) &&
      all2 (fun g im => dec_out_ok tol g (fst im) (snd im)) dec (combine sids out)
  | 2%Z =>
      let P := map2 (fun r c => match r with (b, v, t, a) =>
                   mkP (Q * Q) b (nthQ c 0, nthQ c 1) t a v end) prm ncols in
      let P' := map (fun i => nth i P (pdefault (Q * Q) (0, 0))) sidx in
      let out := decode (Q * Q) ratio_pmean ratio_rescale (0, 0) (fun x => x) so sd G P' in
      Nat.eqb (List.length prm) (List.length sel) &&
      all2 (fun g im => dec_out_ok tol g (fst im) (snd im)) dec (combine sids out)
  | _ => true
  end.

(* time-map tests: (direction: true = score->performance, x, observed y) *)
Definition check_tmaps (K : list (Q * Q)) (tol : Q) (tests : list (bool * Q * Q)) : bool :=
  forallb (fun t => match t with (dir, x, y) =>
     close 0 tol y (if dir : bool then stime_to_ptime K x else ptime_to_stime K x) end) tests.

Definition c18_case :=
  ((Z * Z) * list srow * list prow * list al_entry *
   (list (Z * Z) * list Z * list irow * list (list Q) * (Z * Q * list (Z * Q * Q * Z))) *
   (bool * Q * list (bool * Q * Q)))%type.

(* bit k of the result = k-th comparison failed; 0 = all agree *)
Definition c18_check_bits (c : c18_case) : list bool :=
  match c with
  | ((method, norm), sna, pna, al, (midx, sids, prm, ncols, (decmode, dtol, dec)), (rmo, ttol, tests)) =>
    let M := ms_pairs sna pna al in
    let so := ms_so sna pna al in let sd := ms_sd sna pna al in
    let po := ms_po sna pna al in let pd := ms_pd sna pna al in
    let vel := ms_vel sna pna al in
    let n := List.length so in
    let G := enc_groups so in
    let x := u_onsets so (map2 Qplus so sd) G in
    let s := u_onsets po (map2 Qplus po pd) G in
    let bp := tempo_curve method x s in
    let P := enc_rows so sd po pd vel G bp in
    let mu := meanQ bp in let var := Qred (varQ bp) in
    [ list_eqb (fun a b => Z.eqb (fst a) (fst b) && Z.eqb (snd a) (snd b)) midx
        (map (fun m => (Z.of_nat (fst m), Z.of_nat (snd m))) (matched_idx (map s_id sna) (map C18.p_id pna) al));
      list_eqb Z.eqb sids (ms_ids sna pna al);
      groups_ok G n && groups_eqb (dec_groups so) G;
      forallb (fun b => negb (Qle_bool b 0)) bp;
      all2 (fun r p => match r with (b, v, t, a) =>
              close rel_f32 abs_f32 b (p_bp Q p) && close rel_f32 abs_f32 v (p_vel Q p) &&
              close rel_f32 abs_f32 t (p_timing Q p) && close rel_log 0 a (p_art Q p) end) prm P;
      all2 (fun c p => norm_ok norm mu var (p_bp Q p) c) ncols P;
      if Z.eqb decmode 0 then true else check_decode norm dtol sna sids prm ncols dec;
      check_tmaps (tm_knots sna pna al rmo) ttol tests ]
  end.
Definition c18_check (c : c18_case) : bool := forallb (fun b => b) (c18_check_bits c).
