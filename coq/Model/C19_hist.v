(* C19, state carried between calls: a live one-voice part that is exported by save_kern, edited, exported again.
   Definitions only.  The machine carries what the code carries: the notes of the part AND what an earlier export
   left behind in the part (save_kern used to leave the measures it added and the rests it filled in; since the
   repair it removes them again -- the model keeps the field so that both behaviours are expressible), and the
   observation of an export is the list of note tokens of the written file. *)
From Coq Require Import ZArith List String Bool.
From PV Require Import Lib.Base Model.C19 Model.C19_kern.
Import ListNotations.
Open Scope Z_scope.

(* step index, accidental, octave, note value, dots, tuplet ratio (0 0 = none) *)
Definition hnote := (Z * option Z * Z * Z * Z * Z * Z)%type.

Record hstate := HS {
  h_notes : list hnote;       (* the Note objects of the part, in time order *)
  h_left : list Z;            (* rests (written values) earlier exports left in the part *)
  h_meas : bool               (* measures were added by an earlier export *)
}.

Inductive hop :=
| HPitch (i : nat) (st : Z) (alter : option Z) (oct : Z)   (* note.step / .alter / .octave set in place *)
| HDur (i : nat) (v dots a n : Z)                          (* symbolic_duration replaced or edited in place *)
| HDrop (i : nat)                                          (* Part.remove(note) *)
| HSave (keeps : bool).                                    (* save_kern; keeps = it leaves its filled rests behind *)

Fixpoint upd_nth {A : Type} (i : nat) (f : A -> A) (l : list A) : list A :=
  match l, i with
  | [], _ => []
  | x :: r, O => f x :: r
  | x :: r, S j => x :: upd_nth j f r
  end.

Fixpoint drop_nth {A : Type} (i : nat) (l : list A) : list A :=
  match l, i with
  | [], _ => []
  | _ :: r, O => r
  | x :: r, S j => x :: drop_nth j r
  end.

Definition set_pitch (st : Z) (alter : option Z) (oct : Z) (x : hnote) : hnote :=
  let '(_, _, _, v, d, a, n) := x in (st, alter, oct, v, d, a, n).
Definition set_dur (v d a n : Z) (x : hnote) : hnote :=
  let '(st, alter, oct, _, _, _, _) := x in (st, alter, oct, v, d, a, n).

(* the value of the note that was removed is the rest fill_rests puts in its place *)
Definition note_value (x : hnote) : Z := let '(_, _, _, v, _, _, _) := x in v.

Definition h_apply (o : hop) (s : hstate) : hstate :=
  match o with
  | HPitch i st alter oct => HS (upd_nth i (set_pitch st alter oct) (h_notes s)) (h_left s) (h_meas s)
  | HDur i v d a n => HS (upd_nth i (set_dur v d a n) (h_notes s)) (h_left s) (h_meas s)
  | HDrop i => HS (drop_nth i (h_notes s)) (h_left s) (h_meas s)
  | HSave keeps => if keeps then HS (h_notes s) (app (map note_value (h_notes s)) (h_left s)) true else s
  end.

Definition h_token (x : hnote) : option string :=
  let '(st, alter, oct, v, d, a, n) := x in kern_write_token st alter oct v (Z.to_nat d) a n false false.

(* what an export writes for the notes: one token per note, from the attributes the notes have NOW *)
Definition h_view (notes : list hnote) : list (option string) := map h_token notes.

(* the observations of a history: one token list per export *)
Fixpoint h_run (s : hstate) (ops : list hop) : list (list (option string)) :=
  match ops with
  | [] => []
  | o :: r =>
      let s' := h_apply o s in
      match o with
      | HSave _ => h_view (h_notes s') :: h_run s' r
      | _ => h_run s' r
      end
  end.

(* the notes of the part after a history *)
Fixpoint h_notes_after (notes : list hnote) (ops : list hop) : list hnote :=
  match ops with
  | [] => notes
  | o :: r => h_notes_after (h_notes (h_apply o (HS notes [] false))) r
  end.

(* reference: every export is an export of a freshly built part holding the current notes *)
Fixpoint h_ref (notes : list hnote) (ops : list hop) : list (list (option string)) :=
  match ops with
  | [] => []
  | o :: r =>
      let notes' := h_notes (h_apply o (HS notes [] false)) in
      match o with
      | HSave _ => h_view notes' :: h_ref notes' r
      | _ => h_ref notes' r
      end
  end.

(* a memoising writer: the tokens of the first export are stored with the part and handed out again *)
Fixpoint m_run (memo : option (list (option string))) (s : hstate) (ops : list hop) : list (list (option string)) :=
  match ops with
  | [] => []
  | o :: r =>
      let s' := h_apply o s in
      match o with
      | HSave _ =>
          match memo with
          | Some toks => toks :: m_run memo s' r
          | None => h_view (h_notes s') :: m_run (Some (h_view (h_notes s'))) s' r
          end
      | _ => m_run memo s' r
      end
  end.

(* a writer whose token cache is keyed by the position of the note only (too little) *)
Fixpoint k_run (cache : list (option string)) (s : hstate) (ops : list hop) : list (list (option string)) :=
  match ops with
  | [] => []
  | o :: r =>
      let s' := h_apply o s in
      match o with
      | HSave _ =>
          let cur := h_view (h_notes s') in
          let out := app (firstn (List.length cur) cache) (skipn (List.length cache) cur) in
          out :: k_run (app out (skipn (List.length out) cache)) s' r
      | _ => k_run cache s' r
      end
  end.

Fixpoint eqb_otoks (a b : list (option string)) : bool :=
  match a, b with
  | [], [] => true
  | Some x :: r, Some y :: q => String.eqb x y && eqb_otoks r q
  | _, _ => false
  end.
Fixpoint eqb_obs (a : list (list (option string))) (b : list (list string)) : bool :=
  match a, b with
  | [], [] => true
  | x :: r, y :: q => eqb_otoks x (map Some y) && eqb_obs r q
  | _, _ => false
  end.

(* one history run on /repo: the notes the part was built from, the operations, the note tokens of every export *)
Definition check_hist (c : list hnote * list hop * list (list string)) : bool :=
  let '(notes, ops, obs) := c in eqb_obs (h_run (HS notes [] false) ops) obs.
