(* C12 / C16 -- the score.Interval OBJECT as a state machine (executable definitions only).

   partitura/score.py: class Interval has three public attributes (number, quality, direction),
   written by __init__, by plain assignment and -- quality only -- by change_quality(num), and
   read by the property `semitones`, by validate(), by __str__ and by the transposition functions
   of utils/music.py (transpose_note, _transpose_note_inplace under transpose()).  The object
   carries NO other state: its whole state is the record PyInterval of Lib/Py.v.

   [step_code] is the machine of the code as it is.  The reads are the definitions that
   harness/t1.py regenerates from the SOURCE TEXT on every run (Gen/T1_music.v:
   Interval_semitones, Interval_validate, transpose_note, transpose_note_inplace); change_quality
   is modelled by hand, ladder by ladder as the method is written, and tied to the code by the
   history correspondence of harness/props/c12.py (every generated history of operations on a real
   partitura.score.Interval is replayed through [hist_agrees] inside Coq).

   [step_memo] is a VARIANT that is not the code: `semitones` memoised on the object and never
   invalidated.  It exists so that the history theorem can be shown to be refutable
   (Props/C12.v interval_history_memo_refuted). *)
From Coq Require Import ZArith List String Bool.
From PV Require Import Lib.Base Lib.Py Model.T1_spec.
From PV Require Model.C12 Model.C16 Gen.T1_music.
Import ListNotations.
#[local] Open Scope Z_scope.

(* ---------- operations on one Interval object and what each returns ---------- *)
Inductive iop :=
| OpRead                               (* iv.semitones *)
| OpTn (step : string) (alter : Z)     (* transpose_note(step, alter, iv) *)
| OpTr (notes : list PyNote)           (* transpose(part, iv): _transpose_note_inplace on every note of a copy *)
| OpCq (k : Z)                         (* iv.change_quality(k) *)
| OpSetQ (q : string)                  (* iv.quality = q *)
| OpSetN (n : Z)                       (* iv.number = n *)
| OpSetD (d : string)                  (* iv.direction = d *)
| OpValidate                           (* iv.validate() *)
| OpStr.                               (* str(iv): the text between the quotes, number then quality *)

(* None = the call raised *)
Inductive iobs :=
| ObZ (v : option Z)
| ObSA (v : option (string * Z))
| ObNotes (v : option (list PyNote))
| ObU (v : option unit)
| ObS (v : string).

Fixpoint map_opt {A B} (f : A -> option B) (l : list A) : option (list B) :=
  match l with
  | [] => Some []
  | x :: r => match f x, map_opt f r with Some y, Some r' => Some (y :: r') | _, _ => None end
  end.

(* ---------- change_quality, as the method is written ---------- *)
Definition ladder_c : list string := ["dd"; "d"; "P"; "A"; "AA"]%string.        (* change_direction_c *)
Definition ladder_d : list string := ["dd"; "d"; "m"; "M"; "A"; "AA"]%string.   (* change_direction_d *)

(* list.index: None = ValueError *)
Fixpoint str_index (s : string) (l : list string) (i : Z) : option Z :=
  match l with [] => None | x :: r => if String.eqb x s then Some i else str_index s r (i + 1) end.

Definition ladder_of (n : Z) : list string :=
  if existsb (Z.eqb n) [1; 4; 5; 8] then ladder_c else ladder_d.

(* None = ValueError (quality not on the ladder, or moved beyond its ends): the object is unchanged *)
Definition change_quality (iv : PyInterval) (k : Z) : option PyInterval :=
  if k =? 0 then Some iv
  else
    let lad := ladder_of (i_number iv) in
    match str_index (i_quality iv) lad 0 with
    | None => None
    | Some i =>
        let j := i + k in
        if (j >=? Z.of_nat (List.length lad)) || (j <? 0) then None
        else match nth_error lad (Z.to_nat j) with
             | Some q => Some (mk_interval (i_number iv) q (i_direction iv))
             | None => None
             end
    end.

Definition set_i_quality (iv : PyInterval) (q : string) : PyInterval := mk_interval (i_number iv) q (i_direction iv).
Definition set_i_number (iv : PyInterval) (n : Z) : PyInterval := mk_interval n (i_quality iv) (i_direction iv).
Definition set_i_direction (iv : PyInterval) (d : string) : PyInterval := mk_interval (i_number iv) (i_quality iv) d.

Definition str_suffix (iv : PyInterval) : string := String.append (py_str_Z (i_number iv)) (i_quality iv).

(* a freshly constructed Interval(number, quality, direction) with the fields of [iv] *)
Definition fresh (iv : PyInterval) : PyInterval := mk_interval (i_number iv) (i_quality iv) (i_direction iv).

(* ---------- the machine of the code: the state is the three attributes ---------- *)
Definition read_code (s : PyInterval) : option Z := T1_music.Interval_semitones s.
Definition tn_code (s : PyInterval) (step : string) (alter : Z) : option (string * Z) := T1_music.transpose_note step alter s.
Definition tr_code (s : PyInterval) (x : PyNote) : option PyNote := T1_music.transpose_note_inplace x s.

Definition step_code (o : iop) (s : PyInterval) : PyInterval * iobs :=
  match o with
  | OpRead => (s, ObZ (read_code s))
  | OpTn st al => (s, ObSA (tn_code s st al))
  | OpTr l => (s, ObNotes (map_opt (tr_code s) l))
  | OpCq k => match change_quality s k with Some s' => (s', ObU (Some tt)) | None => (s, ObU None) end
  | OpSetQ q => (set_i_quality s q, ObU (Some tt))
  | OpSetN n => (set_i_number s n, ObU (Some tt))
  | OpSetD d => (set_i_direction s d, ObU (Some tt))
  | OpValidate => (s, ObU (T1_music.Interval_validate s))
  | OpStr => (s, ObS (str_suffix s))
  end.

(* ---------- what every operation must return, from the CURRENT FIELDS only ---------- *)
(* sizes through the arithmetic table C12.interval_semitones (major/perfect size + quality offset);
   transposition: what the same call returns for a freshly constructed interval of these fields *)
Definition fields_spec (o : iop) (f : PyInterval) : PyInterval :=
  match o with
  | OpCq k => match change_quality f k with Some f' => f' | None => f end
  | OpSetQ q => set_i_quality f q
  | OpSetN n => set_i_number f n
  | OpSetD d => set_i_direction f d
  | _ => f
  end.

Definition obs_spec (o : iop) (f : PyInterval) : iobs :=
  match o with
  | OpRead => ObZ (C12.interval_semitones (i_number f) (i_quality f))
  | OpTn st al => ObSA (T1_music.transpose_note st al (fresh f))
  | OpTr l => ObNotes (map_opt (fun x => T1_music.transpose_note_inplace x (fresh f)) l)
  | OpCq k => ObU (match change_quality f k with Some _ => Some tt | None => None end)
  | OpSetQ _ | OpSetN _ | OpSetD _ => ObU (Some tt)
  | OpValidate => ObU (spec_Interval_validate f)
  | OpStr => ObS (str_suffix f)
  end.

(* ---------- histories: generic in the machine ---------- *)
(* one step of a trace: public fields before, the operation, what it returned, public fields after *)
Definition tstep := (PyInterval * iop * iobs * PyInterval)%type.

Section Run.
  Context {S : Type} (step : iop -> S -> S * iobs) (flds : S -> PyInterval).
  Fixpoint run (ops : list iop) (s : S) : list tstep * S :=
    match ops with
    | [] => ([], s)
    | o :: r => let s' := fst (step o s) in
                let tr := run r s' in
                ((flds s, o, snd (step o s), flds s') :: fst tr, snd tr)
    end.
End Run.

Definition trace_code (ops : list iop) (f0 : PyInterval) : list tstep := fst (run step_code (fun s => s) ops f0).
Definition final_code (ops : list iop) (f0 : PyInterval) : PyInterval := snd (run step_code (fun s => s) ops f0).

(* ---------- boolean comparisons ---------- *)
Definition iv_eqb (a b : PyInterval) : bool :=
  Z.eqb (i_number a) (i_number b) && String.eqb (i_quality a) (i_quality b) && String.eqb (i_direction a) (i_direction b).

(* spellings: alter None and alter 0 denote the same spelling *)
Definition note_eqb0 (a b : PyNote) : bool :=
  String.eqb (n_step a) (n_step b) && Z.eqb (alter_or_0 (n_alter a)) (alter_or_0 (n_alter b)) && Z.eqb (n_octave a) (n_octave b).

Definition iobs_eqb (a b : iobs) : bool :=
  match a, b with
  | ObZ x, ObZ y => zopt_eqb x y
  | ObSA x, ObSA y => szopt_agree x y
  | ObNotes (Some l), ObNotes (Some l') => list_eqb note_eqb0 l l'
  | ObNotes None, ObNotes None => true
  | ObU x, ObU y => uopt_agree x y
  | ObS x, ObS y => String.eqb x y
  | _, _ => false
  end.

Definition tstep_ok (t : tstep) : bool :=
  let '(f, o, ob, f') := t in iobs_eqb ob (obs_spec o f) && iv_eqb f' (fields_spec o f).

(* every operation of the history returned what the fields at that moment define *)
Definition history_ok {S} (step : iop -> S -> S * iobs) (flds : S -> PyInterval) (ops : list iop) (s : S) : bool :=
  forallb tstep_ok (fst (run step flds ops s)).

(* ---------- correspondence: a history OBSERVED on a real partitura.score.Interval ---------- *)
(* the operation, what the real call returned, the object's public fields afterwards *)
Definition ostep := (iop * iobs * PyInterval)%type.
Fixpoint hist_agrees (s : PyInterval) (l : list ostep) : bool :=
  match l with
  | [] => true
  | (o, ob, f') :: r =>
      let s' := fst (step_code o s) in
      iobs_eqb (snd (step_code o s)) ob && iv_eqb s' f' && hist_agrees s' r
  end.
Definition hist_case := (PyInterval * list ostep)%type.
Definition hist_ok (c : hist_case) : bool := hist_agrees (fst c) (snd c).

(* ---------- NOT the code: `semitones` memoised on the object, never invalidated ---------- *)
Record mstate := mk_m { m_iv : PyInterval; m_memo : option Z }.

Definition memo_read (s : mstate) : mstate * option Z :=
  match m_memo s with
  | Some v => (s, Some v)
  | None => match C12.interval_semitones (i_number (m_iv s)) (i_quality (m_iv s)) with
            | Some v => (mk_m (m_iv s) (Some v), Some v)
            | None => (s, None)
            end
  end.

(* transpose_note / _transpose_note_inplace reading the size through the memo (hand models of
   Model/T1_spec.v with the size as a parameter) *)
Definition tn_with (sem : option Z) (step : string) (alter : Z) (iv : PyInterval) : option (string * Z) :=
  match step_index (py_capitalize step), sem with
  | Some i, Some sm =>
      match C16.tn_note (i_number iv) sm (is_up (i_direction iv)) i alter with
      | Some (i', a') => Some (step_name i', a')
      | None => None
      end
  | _, _ => None
  end.

Definition tr_with (sem : option Z) (iv : PyInterval) (x : PyNote) : option PyNote :=
  if String.eqb (String.append (i_quality iv) (py_str_Z (i_number iv))) "P1" then Some x
  else match step_index (py_capitalize (n_step x)), sem with
       | Some i, Some sm =>
           Some (note_of_pitch (C16.tr_note false (i_number iv) sm (is_up (i_direction iv)) (i, alter_or_0 (n_alter x), n_octave x)))
       | _, _ => None
       end.

Definition m_set (s : mstate) (f : PyInterval) : mstate := mk_m f (m_memo s).

Definition step_memo (o : iop) (s : mstate) : mstate * iobs :=
  match o with
  | OpRead => (fst (memo_read s), ObZ (snd (memo_read s)))
  | OpTn st al => (fst (memo_read s), ObSA (tn_with (snd (memo_read s)) st al (m_iv s)))
  | OpTr l => (fst (memo_read s), ObNotes (map_opt (tr_with (snd (memo_read s)) (m_iv s)) l))
  | OpCq k => match change_quality (m_iv s) k with Some f' => (m_set s f', ObU (Some tt)) | None => (s, ObU None) end
  | OpSetQ q => (m_set s (set_i_quality (m_iv s) q), ObU (Some tt))
  | OpSetN n => (m_set s (set_i_number (m_iv s) n), ObU (Some tt))
  | OpSetD d => (m_set s (set_i_direction (m_iv s) d), ObU (Some tt))
  | OpValidate => (s, ObU (spec_Interval_validate (m_iv s)))
  | OpStr => (s, ObS (str_suffix (m_iv s)))
  end.

Definition memo_init (f : PyInterval) : mstate := mk_m f None.
