(* C17 (3/3) -- key estimation: executable model of
   partitura/musicanalysis/key_identification.py: estimate_key / ks_kid /
   _similarity_with_pitch_profile with similarity np.corrcoef, and format_key of KEYS[argmax].
   Definitions only.

   Numbers.  All quantities are integers: a case's float durations are dyadic rationals and
   the harness multiplies them by one common power of two; the 24 x 12 profile matrices
   (float64, reflected from the imported module into Gen/C17_KeyTab.v) are multiplied by one
   common power of two per matrix.  Pearson correlation is invariant under both scalings
   (for the durations this is theorem key_scale_invariant itself), and it is compared
   WITHOUT square roots or divisions:   corr(x, y_i) = cov_i / sqrt(var_x * var_i)  with
   cov_i = 12 Sum x y_i - Sum x Sum y_i;  var_x > 0 is common to all 24 rows, so
   corr_i < corr_k  <->  cov_i / sqrt var_i < cov_k / sqrt var_k, decided by signs and
   cross-multiplied squares.  If var_x = 0 every cov_i is 0, nothing is smaller than
   anything and the first index wins -- numpy: all correlations NaN, argmax = 0. *)
From PV Require Import Lib.Base Gen.C17_KeyTab.
#[local] Open Scope Z_scope.

(* a note for key estimation: (pitch, duration) *)
Definition knote := (Z * Z)%type.

(* duration-weighted pitch-class histogram *)
Definition ky_hist (ns : list knote) (pc : Z) : Z :=
  fold_right (fun n acc => if fst n mod 12 =? pc then snd n + acc else acc) 0 ns.

Definition sum12 (f : Z -> Z) : Z :=
  f 0 + f 1 + f 2 + f 3 + f 4 + f 5 + f 6 + f 7 + f 8 + f 9 + f 10 + f 11.

Definition ky_cov (x y : Z -> Z) : Z :=
  12 * sum12 (fun i => x i * y i) - sum12 x * sum12 y.

(* entry pc of row i of a profile matrix *)
Definition row_fn (M : list (list Z)) (i pc : Z) : Z :=
  nth (Z.to_nat pc) (nth (Z.to_nat i) M []) 0.

(* a / sqrt b < c / sqrt d   for b, d > 0 *)
Definition score_lt (a b c d : Z) : bool :=
  if a <? 0 then (if c <? 0 then c * c * b <? a * a * d else true)
  else (if c <? 0 then false else a * a * d <? c * c * b).

Definition key_lt (M : list (list Z)) (x : Z -> Z) (i k : Z) : bool :=
  score_lt (ky_cov x (row_fn M i)) (ky_cov (row_fn M i) (row_fn M i))
           (ky_cov x (row_fn M k)) (ky_cov (row_fn M k) (row_fn M k)).

(* np.argmax: first maximum *)
Fixpoint argmax_by (lt : Z -> Z -> bool) (cands : list Z) (best : Z) : Z :=
  match cands with
  | [] => best
  | x :: r => argmax_by lt r (if lt best x then x else best)
  end.

Definition estimate_key_idx (M : list (list Z)) (ns : list knote) : Z :=
  argmax_by (key_lt M (ky_hist ns)) (zrange 1 23) 0.

(* format_key applied to KEYS[i] *)
Definition key_names : list string :=
  map (fun k => (fst (fst k) ++ (if String.eqb (snd (fst k)) "minor" then "m" else ""))%string) keys_table.

Definition estimate_key (M : list (list Z)) (ns : list knote) : string :=
  nth (Z.to_nat (estimate_key_idx M ns)) key_names "?"%string.

(* the three profile sets, numbered as the harness does: 0 Krumhansl-Kessler, 1 CBMS (Temperley), 2 Kostka-Payne *)
Definition profile_set (s : Z) : list (list Z) :=
  match s with 0 => key_matrix_kk | 1 => key_matrix_cbms | _ => key_matrix_kp end.

(* transposition of a key index: same mode, tonic moved by j semitones *)
Definition rot_key (j i : Z) : Z := if i <? 12 then (i + j) mod 12 else 12 + (i - 12 + j) mod 12.

(* the same function evaluated with the twelve histogram values computed once
   (Props/C17.v estimate_key_fast_eq: equal to estimate_key for all inputs) *)
Definition ky_hist_tab (ns : list knote) : Z -> Z :=
  let h := map (ky_hist ns) (zrange 0 12) in fun pc => nth (Z.to_nat pc) h 0.

Definition estimate_key_fast (M : list (list Z)) (ns : list knote) : string :=
  nth (Z.to_nat (argmax_by (key_lt M (ky_hist_tab ns)) (zrange 1 23) 0)) key_names "?"%string.

(* ---- checker used by the correspondence: (profile set, notes, name returned) *)
Definition key_check (c : Z * list knote * string) : bool :=
  let '(s, ns, name) := c in String.eqb (estimate_key_fast (profile_set s) ns) name.
