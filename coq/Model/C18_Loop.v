(* C18 -- array-level model of decode_time (partitura/musicanalysis/performance_codec.py): the code as it is
   written, NOT the per-note formulas of Model/C18.v.  Definitions only (proofs: Proofs/C18_loop.v).

     ioi_perf = diff_u_onset_score * beat_period                  dt_ioi   (element-wise product of two arrays)
     eq_onset = np.cumsum(np.r_[0, ioi_perf])                     dt_eq    (cumsum: running sum, left to right)
     performance = np.zeros((len(score_onsets), 2))               repeat (0, 0) n
     for i, jj in enumerate(unique_onset_idxs):                   loop     (i counts the groups from 0)
         performance[jj, 0] = eq_onset[i] - parameters["timing"][jj]       write_group / upd: one cell after the
         performance[jj, 1] = decode_articulation(sd[jj], art[jj], beat_period[i])   other, a later write wins
     performance[:, 0] -= np.min(performance[:, 0])               dt_shifted (ONCE, after the loop)

   An index outside the array (numpy: IndexError) and an empty score (np.min of an empty array: ValueError) are
   rejected: decode_time_loop returns None.  [loop_shift_inside] is the loop with the last line indented into it
   (the slip of seeded/C18/d_decode_time_min_shift_in_loop); [last_writer] says which group's write a cell shows
   at the end for ANY list of groups, partition or not. *)
From Coq Require Import ZArith QArith Qabs List Bool.
From PV Require Import Lib.Base Model.C18 Model.C18_Check.
Import ListNotations.
#[local] Open Scope Q_scope.

(* np.cumsum *)
Fixpoint cumsum_from (acc : Q) (l : list Q) : list Q :=
  match l with
  | [] => []
  | a :: r => let s := Qred (acc + a) in s :: cumsum_from s r
  end.
Definition cumsum (l : list Q) : list Q := cumsum_from 0 l.

(* a[j] = v on an array of fixed length (out of range: the array is returned unchanged here and the whole call is
   rejected by in_range below) *)
Fixpoint upd {A} (l : list A) (j : nat) (v : A) : list A :=
  match l, j with
  | [], _ => []
  | _ :: r, O => v :: r
  | a :: r, S k => a :: upd r k v
  end.

Definition row2 := (Q * Q)%type.
(* performance[jj] = h(jj) for an index array jj: cell by cell, a repeated index keeps the last value *)
Fixpoint write_group (h : nat -> row2) (perf : list row2) (jj : list nat) : list row2 :=
  match jj with
  | [] => perf
  | j :: r => write_group h (upd perf j (h j)) r
  end.
(* for i, jj in enumerate(G): ... *)
Fixpoint loop (f : nat -> nat -> row2) (i : nat) (G : list (list nat)) (perf : list row2) : list row2 :=
  match G with
  | [] => perf
  | jj :: r => loop f (S i) r (write_group (f i) perf jj)
  end.
Definition shift_min (perf : list row2) : list row2 :=
  let m := minl (map fst perf) in map (fun r => (fst r - m, snd r)) perf.
(* the same loop with the shift inside the body *)
Fixpoint loop_shift_inside (f : nat -> nat -> row2) (i : nat) (G : list (list nat)) (perf : list row2) : list row2 :=
  match G with
  | [] => perf
  | jj :: r => loop_shift_inside f (S i) r (shift_min (write_group (f i) perf jj))
  end.

(* the group whose write cell j shows after the loop (counting from i): the LAST group that lists j *)
Fixpoint last_writer (i : nat) (G : list (list nat)) (j : nat) : option nat :=
  match G with
  | [] => None
  | g :: r => match last_writer (S i) r j with
              | Some k => Some k
              | None => if existsb (Nat.eqb j) g then Some i else None
              end
  end.

Definition in_range (G : list (list nat)) (n : nat) : bool := forallb (forallb (fun j => Nat.ltb j n)) G.

Section DT.
  Variable exp2 : Q -> Q.
  (* score onsets / durations, unique_onset_idxs, beat period per unique onset (after rescale), the timing and
     articulation_log columns *)
  Variables (so sd : list Q) (G : list (list nat)) (bps timing art : list Q).
  Definition dt_x : list Q := u_onsets so (map2 Qplus so sd) G.
  Definition dt_ioi : list Q := map2 Qmult (diffs dt_x) bps.
  Definition dt_eq : list Q := cumsum (0 :: dt_ioi).
  Definition dt_cell (i j : nat) : row2 :=
    (nthQ dt_eq i - nthQ timing j, exp2 (nthQ art j) * nthQ sd j * nthQ bps i).
  Definition dt_zeros : list row2 := repeat (0, 0) (List.length so).
  Definition dt_filled : list row2 := loop dt_cell 0 G dt_zeros.
  Definition decode_time_loop : option (list row2) :=
    match so with
    | [] => None
    | _ :: _ => if in_range G (List.length so) then Some (shift_min dt_filled) else None
    end.
  (* the slip: shift inside the loop *)
  Definition decode_time_loop_bad : option (list row2) :=
    match so with
    | [] => None
    | _ :: _ => if in_range G (List.length so) then Some (loop_shift_inside dt_cell 0 G dt_zeros) else None
    end.
End DT.

(* ---------- correspondence: decode_time of /repo called directly ----------
   case: score onsets, score durations, beat_period column, timing column, 2 ** articulation_log column (Python
   exponentiates, as everywhere in the C18 correspondence), tolerance, what decode_time returned (None: it raised -- a failure on every input the model accepts).
   The beat period of a unique onset is the chord mean of the column (decode_time, normalization="beat_period");
   the groups are the decoder's own (get_unique_onset_idxs, eps 1e-6).  Onsets are compared up to ONE common shift
   (the property prescribes no origin), durations cell by cell. *)
Definition loop_case := (list Q * list Q * list Q * list Q * list Q * Q * option (list (Q * Q)))%type.
Definition loop_model (c : loop_case) : option (list row2) :=
  match c with (so, sd, bpcol, timing, artr, _, _) =>
    let G := dec_groups so in
    decode_time_loop (fun x => x) so sd G (map (fun g => meanQ (map (nthQ bpcol) g)) G) timing artr
  end.
Definition loop_check (c : loop_case) : bool :=
  match c with (_, _, _, _, _, tol, obs) =>
    match loop_model c, obs with
    | Some rows, Some got =>
        Nat.eqb (List.length rows) (List.length got) &&
        all2 (fun r o => close rel_log tol (snd r) (snd o)) rows got &&
        Qle_bool (spread (map2 (fun r o => fst o - fst r) rows got)) tol
    | Some _, None => false
    | None, _ => true     (* an input the model rejects: the property says nothing about it *)
    end
  end.
(* tie level: decoded onsets start at 0 (the origin the model's shift_min chooses) *)
Definition loop_origin (c : loop_case) : bool :=
  match c with (_, _, _, _, _, tol, obs) =>
    match loop_model c, obs with
    | Some rows, Some got => all2 (fun r o => close 0 tol (fst r) (fst o)) rows got
    | _, _ => true
    end
  end.
