(* C01 -- registry-level model: TimePoint.starting_objects / ending_objects as the code has them, a
   `defaultdict(_OrderedSet)` keyed by class (partitura/score.py TimePoint.__init__, add_*_object,
   iter_starting / iter_ending, Part.remove, Part._cleanup_point; utils/generic.py _OrderedSet).
   Definitions only; Proofs/C01_dict.v proves that this model simulates the flat registries of Model/C01.v
   step by step, queries included, and the correspondence evaluates it on the same histories.

   What the flat lists of Model/C01.v hide and this model has:
   * an object is filed under the key type(obj) in a bucket of its own class; buckets keep insertion order,
     the dictionary keeps the order in which the KEYS were first touched;
   * `d[c]` on a defaultdict CREATES an empty bucket for c when there is none: every read-only query
     (iter_starting / iter_ending touch the bucket of cls and of every subclass) and every removal leaves
     empty buckets behind;
   * _OrderedSet.remove is dict.pop(x, None): removing what is not there is silent, the bucket stays;
   * _cleanup_point decides by the SUM OF THE BUCKET SIZES of both dictionaries, not by the dictionaries
     being empty. *)
From PV Require Import Lib.Base Gen.C01_ClassTree Model.C01.

Definition rdict := list (Z * list obj).

Definition d_has (c : Z) (d : rdict) : bool := existsb (fun b => fst b =? c) d.
(* defaultdict.__getitem__: the bucket of c, created empty (at the end) when missing *)
Definition d_touch (c : Z) (d : rdict) : rdict := if d_has c d then d else d ++ [(c, [])].
Definition d_bucket (c : Z) (d : rdict) : list obj := match zlookup c d with Some l => l | None => [] end.
Definition d_upd (c : Z) (f : list obj -> list obj) (d : rdict) : rdict :=
  map (fun b => if fst b =? c then (fst b, f (snd b)) else b) (d_touch c d).
(* self.starting_objects[type(obj)].add(obj) *)
Definition d_add (o : obj) (d : rdict) : rdict := d_upd (ocls o) (oset_add o) d.
(* o.start.starting_objects[o.__class__].remove(o) *)
Definition d_remove (o : obj) (d : rdict) : rdict := d_upd (ocls o) (oset_remove o) d.
(* sum(len(oo) for oo in d.values()) *)
Definition d_total (d : rdict) : nat := fold_right (fun b n => (List.length (snd b) + n)%nat) O d.
Definition d_flat (d : rdict) : list obj := flat_map snd d.

(* the classes TimePoint.iter_starting(cls, include_subclasses) visits, in order; Part.iter_all turns
   cls=None into (object, True): inside the TimedObject tree that is the root and all its subclasses *)
Definition visited (c : option Z) (sub : bool) : list Z :=
  match c with
  | None => 0 :: iter_subclasses 0
  | Some c => c :: (if sub then iter_subclasses c else [])
  end.

(* iter_starting / iter_ending on one registry: the objects yielded, and the dictionary afterwards *)
Definition d_iter (c : option Z) (sub : bool) (d : rdict) : rdict * list obj :=
  (fold_left (fun d' x => d_touch x d') (visited c sub) d, flat_map (fun x => d_bucket x d) (visited c sub)).

(* ---------------------------------------------------------------- time points and the part *)
Record dpoint := mkDPoint { dpt : Z; dstart : rdict; dend : rdict }.
Definition dreg (s : side) (q : dpoint) : rdict := match s with SStart => dstart q | SEnd => dend q end.
Definition set_dreg (s : side) (d : rdict) (q : dpoint) : dpoint :=
  match s with SStart => mkDPoint (dpt q) d (dend q) | SEnd => mkDPoint (dpt q) (dstart q) d end.

Record dpart := mkDPart { dpoints : list dpoint; drs : obj -> option Z; dre : obj -> option Z }.
Definition dref (s : side) (p : dpart) : obj -> option Z := match s with SStart => drs p | SEnd => dre p end.
Definition set_dref (s : side) (f : obj -> option Z) (ps : list dpoint) (p : dpart) : dpart :=
  match s with SStart => mkDPart ps f (dre p) | SEnd => mkDPart ps (drs p) f end.

Definition dinit : dpart := mkDPart [] (fun _ => None) (fun _ => None).

Fixpoint dbefore (t : Z) (ps : list dpoint) : list dpoint :=
  match ps with [] => [] | p :: r => if dpt p <? t then p :: dbefore t r else [] end.
Fixpoint dfrom (t : Z) (ps : list dpoint) : list dpoint :=
  match ps with [] => [] | p :: r => if dpt p <? t then dfrom t r else ps end.

(* get_or_add_point: a new TimePoint has two empty dictionaries *)
Definition d_get_or_add (t : Z) (ps : list dpoint) : list dpoint :=
  let ins := dbefore t ps ++ mkDPoint t [] [] :: dfrom t ps in
  match dfrom t ps with q :: _ => if dpt q =? t then ps else ins | [] => ins end.

Definition d_upd_at (t : Z) (f : dpoint -> dpoint) (ps : list dpoint) : list dpoint :=
  map (fun q => if dpt q =? t then f q else q) ps.

Definition d_add_side (s : side) (p : dpart) (o : obj) (t : Z) : dpart :=
  set_dref s (fset (dref s p) o (Some t))
    (d_upd_at t (fun q => set_dreg s (d_add o (dreg s q)) q) (d_get_or_add t (dpoints p))) p.

Definition d_add_opt (s : side) (r : dpart * bool) (o : obj) (t : option Z) : dpart * bool :=
  match r with
  | (p, true) =>
      match t with
      | None => (p, true)
      | Some t => if t <? 0 then (p, false) else (d_add_side s p o t, true)
      end
  | _ => r
  end.

Definition d_add_op (p : dpart) (o : obj) (s e : option Z) : dpart :=
  if neg_opt s || neg_opt e then p
  else fst (d_add_opt SEnd (d_add_opt SStart (p, true) o s) o e).

(* Part._remove_point on this level: the point at t leaves the list; None = IndexError *)
Definition d_remove_point (t : Z) (ps : list dpoint) : option (list dpoint) :=
  match dfrom t ps with
  | [] => None
  | q :: r => if dpt q =? t then Some (dbefore t ps ++ r) else Some ps
  end.

(* Part._cleanup_point: the sum of the bucket sizes decides *)
Definition d_is_empty (q : dpoint) : bool := (d_total (dstart q) + d_total (dend q) =? 0)%nat.
Definition d_cleanup (t : Z) (ps : list dpoint) : option (list dpoint) :=
  match find (fun q => dpt q =? t) ps with
  | Some q => if d_is_empty q then d_remove_point t ps else Some ps
  | None => Some ps
  end.

Definition d_remove_side (s : side) (p : dpart) (o : obj) : dpart * bool :=
  match dref s p o with
  | None => (p, true)
  | Some t =>
      let ps1 := d_upd_at t (fun q => set_dreg s (d_remove o (dreg s q)) q) (dpoints p) in
      match d_cleanup t ps1 with
      | None => (set_dref s (dref s p) ps1 p, false)
      | Some ps2 => (set_dref s (fset (dref s p) o None) ps2 p, true)
      end
  end.

Definition d_remove_op (p : dpart) (o : obj) (w : which) : dpart :=
  match w with
  | WStart => fst (d_remove_side SStart p o)
  | WEnd => fst (d_remove_side SEnd p o)
  | WBoth => match d_remove_side SStart p o with
             | (p1, true) => fst (d_remove_side SEnd p1 o)
             | (p1, false) => p1
             end
  end.

(* TimePoint.remove_starting_object: `if type(obj) in self.starting_objects:` -- no bucket is created here *)
Definition d_remove_guarded (o : obj) (d : rdict) : rdict := if d_has (ocls o) d then d_remove o d else d.
Definition d_tp_remove (s : side) (p : dpart) (o : obj) : dpart :=
  match dref s p o with
  | None => p
  | Some t =>
      set_dref s (fset (dref s p) o None)
        (d_upd_at t (fun q => set_dreg s (d_remove_guarded o (dreg s q)) q) (dpoints p)) p
  end.

Definition dstep (p : dpart) (o : op) : dpart :=
  match o with
  | OAdd ob s e => d_add_op p ob s e
  | ORemove ob w => d_remove_op p ob w
  | OSetQ _ _ => p
  | OGetOrAdd t => if t <? 0 then p else mkDPart (d_get_or_add t (dpoints p)) (drs p) (dre p)
  | OTpRemove ob s => d_tp_remove s p ob
  end.

(* ---------------------------------------------------------------- queries (they touch buckets) *)
Definition dfrom_opt (a : option Z) ps := match a with Some t => dfrom t ps | None => ps end.
Definition dbefore_opt (b : option Z) ps := match b with Some t => dbefore t ps | None => ps end.
Definition dhead_opt (a : option Z) ps := match a with Some t => dbefore t ps | None => [] end.
Definition dtail_opt (b : option Z) ps := match b with Some t => dfrom t ps | None => [] end.

Definition d_visit (mode : side) (c : option Z) (sub : bool) (q : dpoint) : dpoint * list (Z * obj) :=
  let '(d', res) := d_iter c sub (dreg mode q) in (set_dreg mode d' q, map (pair (dpt q)) res).

(* Part.iter_all over the window [a, b): the part afterwards and the objects yielded *)
Definition d_iter_all (p : dpart) (c : option Z) (a b : option Z) (sub : bool) (mode : side) : dpart * list (Z * obj) :=
  let ps := dpoints p in
  let mid := dfrom_opt a ps in
  let pr := map (d_visit mode c sub) (dbefore_opt b mid) in
  (mkDPart (dhead_opt a ps ++ map fst pr ++ dtail_opt b mid) (drs p) (dre p), flat_map snd pr).

Definition dquery (p : dpart) (q : query) : dpart * option (list (Z * obj)) :=
  match q with
  | QIterAll c a b sub mode => let '(p', r) := d_iter_all p c a b sub mode in (p', Some r)
  (* iter_next / iter_prev walk iter_starting over the points from / up to t: same buckets touched *)
  | QIterNext t c eq sub => (fst (d_iter_all p c (Some (if eq then t else t + 1)) None sub SStart), None)
  | QIterPrev t c eq sub => (fst (d_iter_all p c None (Some (if eq then t + 1 else t)) sub SStart), None)
  | _ => (p, None)
  end.

(* ---------------------------------------------------------------- correspondence checker *)
Definition dpoint_eqb (q : dpoint) (d : pdump) : bool :=
  match d with
  | (t, _, _, _, st, en) =>
      (dpt q =? t) && objs_eqb (sort_objs (d_flat (dstart q))) st && objs_eqb (sort_objs (d_flat (dend q))) en
  end.
Fixpoint dpoints_eqb (ps : list dpoint) (ds : list pdump) : bool :=
  match ps, ds with
  | [], [] => true
  | q :: ps', d :: ds' => dpoint_eqb q d && dpoints_eqb ps' ds'
  | _, _ => false
  end.
Fixpoint drefs_eqb (p : dpart) (objs : list obj) (refs : list (option Z * option Z)) : bool :=
  match objs, refs with
  | [], [] => true
  | o :: objs', r :: refs' => zopt_eqb (drs p o) (fst r) && zopt_eqb (dre p o) (snd r) && drefs_eqb p objs' refs'
  | _, _ => false
  end.

(* the queries of one step, in the order they were made; each may leave empty buckets behind *)
Fixpoint dqueries_ok (p : dpart) (qs : list (query * qres)) : dpart * bool :=
  match qs with
  | [] => (p, true)
  | (q, r) :: rest =>
      let '(p', res) := dquery p q in
      let ok := match res, r with
                | Some m, RObjs l => times_eqb m l && tobjs_eqb (sort_tobjs m) l
                | Some _, _ => false
                | None, _ => true
                end in
      let '(p'', ok') := dqueries_ok p' rest in (p'', ok && ok')
  end.

Fixpoint dfirst_diff (objs : list obj) (p : dpart) (i : Z) (h : list (op * obs)) : option Z :=
  match h with
  | [] => None
  | (o, ob) :: r =>
      let p1 := dstep p o in
      if dpoints_eqb (dpoints p1) (ob_points ob) && drefs_eqb p1 objs (ob_refs ob) then
        let '(p2, ok) := dqueries_ok p1 (ob_queries ob) in
        (* a read-only query never changes what a point lists *)
        if ok && dpoints_eqb (dpoints p2) (ob_points ob) then dfirst_diff objs p2 (i + 1) r else Some i
      else Some i
  end.

Definition dhistory_ok (c : Z * list obj * list (op * obs)) : bool :=
  match c with (_, objs, h) => match dfirst_diff objs dinit 0 h with None => true | Some _ => false end end.

Fixpoint drun (p : dpart) (ops : list op) : dpart :=
  match ops with [] => p | o :: r => drun (dstep p o) r end.
Definition dfinal_ok (c : Z * list obj * list op * obs) : bool :=
  match c with (_, objs, ops, ob) =>
    let p := drun dinit ops in
    dpoints_eqb (dpoints p) (ob_points ob) && drefs_eqb p objs (ob_refs ob) && snd (dqueries_ok p (ob_queries ob))
  end.

(* ---------------------------------------------------------------- histories with the queries in them *)
(* on the flat model a query is read-only; here it may create buckets *)
Inductive event := EOp (o : op) | EQuery (q : query).
Definition dapply (p : dpart) (e : event) : dpart :=
  match e with EOp o => dstep p o | EQuery q => fst (dquery p q) end.
Definition fapply (p : part) (e : event) : part :=
  match e with EOp o => fst (step p o) | EQuery _ => p end.
Definition devents (p : dpart) (es : list event) : dpart := fold_left dapply es p.
Definition fevents (p : part) (es : list event) : part := fold_left fapply es p.

(* ---------------------------------------------------------------- "implements the flat model" *)
(* d implements the flat registry l: distinct keys, and the bucket of every class c is the class-c part of l *)
Definition bucket_rel (d : rdict) (l : list obj) : Prop :=
  NoDup (map fst d) /\ forall c, d_bucket c d = by_cls c l.
Definition point_rel (dq : dpoint) (q : point) : Prop :=
  dpt dq = pt q /\ bucket_rel (dstart dq) (pstart q) /\ bucket_rel (dend dq) (pend q).
Definition points_rel : list dpoint -> list point -> Prop := Forall2 point_rel.
(* same times in the same order, every dictionary implements the flat registry of its point, same back references *)
Definition part_rel (dp : dpart) (p : part) : Prop :=
  points_rel (dpoints dp) (points p) /\ drs dp = ostart p /\ dre dp = oend p.
