(* C05 -- extensions of the note-array model (definitions and boolean checkers only):
     * nested PartGroups: note_array_from_part_list calls itself on the children of a PartGroup and
       treats the result as the array of ONE member of the outer list ([ptree], [tree_array]);
     * comparison of voices modulo the number chosen for notes WITHOUT a voice (the property only
       says that the voice column equals what the score states; for a note without voice the score
       states nothing -- the implementation's choice must merely not be one of the stated voices);
     * create_divs_from_beats with any positive multiple of the lcm of the denominators;
     * float32 duration columns compared with a tolerance relative to the two map values they are the
       difference of.
   Model/C05.v is left untouched (Model/C15.v builds on it). *)
From PV Require Import Lib.Base Model.C05.
From Coq Require Import QArith Qabs.
#[local] Open Scope Z_scope.

(* ------------------------------------------------------------------ voices *)

(* the objects that get a row *)
Definition note_sel (ns : list note) : list note := notes_tied (filter (fun n => negb (n_rest n)) ns).
Definition rest_sel (ns : list note) : list note := filter n_rest ns.

(* the voices the score states for them *)
Definition stated_voices (sel : list note) : list Z :=
  flat_map (fun n => match n_voice n with Some v => [v] | None => [] end) sel.

Definition zmem (v : Z) (l : list Z) : bool := existsb (Z.eqb v) l.

(* a row whose voice is not one of the stated voices is a row of a note without voice: shown as -1 *)
Definition norm_voice (stated : list Z) (r : row) : row :=
  if zmem (r_voice r) stated then r else set_voice r (-1).

Definition note_array_n (ns : list note) (mp : maps) (divs : Z) : option (list row) :=
  option_map (map (norm_voice (stated_voices (note_sel ns)))) (note_array ns mp divs).

Definition rest_array_n (ns : list note) (mp : maps) (divs : Z) : option (list row) :=
  option_map (map (norm_voice (stated_voices (rest_sel ns)))) (rest_array ns mp divs).

(* part-level case; the harness prints -1 as the observed voice of a row that belongs to a note without
   voice once it has checked that the observed number is not a stated voice of the array *)
Definition part_case_ok_n (ns : list note) (mp : maps) (divs : Z) (o : opts) (rests : bool)
           (impl : list obs) : bool :=
  match (if rests then rest_array_n ns mp divs else note_array_n ns mp divs) with
  | Some rows => same_table (map (view o) rows) impl
  | None => false
  end.

(* ------------------------------------------------------------------ nested part groups *)

Inductive ptree : Type :=
| PLeaf (rows : list row)            (* the note array of a Part *)
| PGroup (children : list ptree).    (* a PartGroup / the list given to note_array_from_part_list *)

(* note_array_from_part_list: a PartGroup member contributes the array the function computes for its
   children (already rescaled to THEIR lcm, already prefixed); the outer call then prefixes and
   rescales it like the array of a part, reading the divisions from its first row *)
Fixpoint tree_array (uniq : bool) (t : ptree) : list row :=
  match t with
  | PLeaf rows => rows
  | PGroup ts => score_array uniq (map (tree_array uniq) ts)
  end.

Fixpoint leaves (t : ptree) : list (list row) :=
  match t with
  | PLeaf rows => [rows]
  | PGroup ts => flat_map leaves ts
  end.

(* input side: parts given by their notes, maps and divisions *)
Inductive itree : Type :=
| ILeaf (ns : list note) (mp : maps) (d : Z)
| IGroup (children : list itree).

Fixpoint opt_all {A} (l : list (option A)) : option (list A) :=
  match l with
  | [] => Some []
  | Some x :: r => match opt_all r with Some t => Some (x :: t) | None => None end
  | None :: _ => None
  end.

Fixpoint build_tree (t : itree) : option ptree :=
  match t with
  | ILeaf ns mp d => option_map PLeaf (note_array_n ns mp d)
  | IGroup cs => option_map PGroup (opt_all (map build_tree cs))
  end.

(* score-level case: the members of the list handed to note_array_from_part_list / Score.note_array /
   PartGroup.note_array / ensure_notearray, PartGroups as IGroup *)
Definition tree_case_ok (members : list itree) (uniq : bool) (o : opts) (impl : list obs) : bool :=
  match build_tree (IGroup members) with
  | Some t => same_table (map (view o) (tree_array uniq t)) impl
  | None => false
  end.

(* ------------------------------------------------------------------ inverse direction *)

(* the division columns for a given number of divisions per beat *)
Definition divs_columns_at (d : Z) (onsets durs : list Q) : list Z * list Z :=
  (shift_nonneg (map (to_div d) onsets), map (to_div d) durs).

(* create_divs_from_beats may return ANY positive multiple of the lcm of the denominators (the code
   returns the lcm itself): the columns must be the ones that number of divisions gives *)
Definition inverse_case_ok_m (onsets durs : list Q) (impl : Z * list Z * list Z) : bool :=
  match impl with
  | (d', o', du') =>
    (0 <? d') && Z.eqb (d' mod divs_from_beats onsets durs) 0 &&
    match divs_columns_at d' onsets durs with
    | (o, du) => list_eqb Z.eqb o o' && list_eqb Z.eqb du du'
    end
  end.

(* ------------------------------------------------------------------ float32 time columns *)

(* |observed - model| <= span * 2^-21 + 2^-40 *)
Definition q_close_span (span model observed : Q) : bool :=
  Qle_bool (Qabs (observed - model)) (span * (1 # 2097152) + (1 # 1099511627776)).

(* onsets within 2^-21 relative; a duration is the difference of two map values (at onset and at
   onset+duration): its tolerance is relative to their magnitudes, so that the difference may be taken
   in double or in single precision *)
Definition time_cols_ok_s (ns : list note) (mp : maps) (divs : Z) (rests : bool)
           (impl : list (Z * Z * (Q * Q * Q * Q))) : bool :=
  match (if rests then rest_array ns mp divs else note_array ns mp divs) with
  | Some rows =>
    forallb (fun x =>
      match x with
      | (on, du, (oq, dq, ob, db)) =>
        existsb (fun r => Z.eqb (r_onset r) on && Z.eqb (r_dur r) du &&
                          q_close (r_onq r) oq &&
                          q_close_span (Qabs (r_onq r) + Qabs (r_onq r + r_durq r)) (r_durq r) dq &&
                          q_close (r_onb r) ob &&
                          q_close_span (Qabs (r_onb r) + Qabs (r_onb r + r_durb r)) (r_durb r) db) rows
      end) impl
  | None => false
  end.

(* ------------------------------------------------------------------ predicates used in the statements *)

(* the notes of a chain follow each other without a gap *)
Fixpoint contiguous (l : list note) : Prop :=
  match l with
  | a :: ((b :: _) as r) => n_end a = n_start b /\ contiguous r
  | _ => True
  end.

(* [a] is the beginning of [b] *)
Definition is_prefix (a b : string) : Prop := exists c, b = (a ++ c)%string.

(* all rows of a part array carry the same positive number of divisions per quarter *)
Definition uniform (p : list row) : Prop := exists d, 0 < d /\ Forall (fun r => r_divs r = d) p.

(* what a row of the array of a (nested) list of parts says about the row of the part it comes from *)
Definition from_leaf_row (uniq : bool) (r r0 : row) : Prop :=
  0 < r_divs r0 /\ (r_divs r0 | r_divs r) /\
  beat_of_div (r_divs r) (r_onset r) == beat_of_div (r_divs r0) (r_onset r0) /\
  beat_of_div (r_divs r) (r_dur r) == beat_of_div (r_divs r0) (r_dur r0) /\
  r_pitch r = r_pitch r0 /\ r_voice r = r_voice r0 /\
  (exists pre, r_id r = (pre ++ r_id r0)%string /\ (uniq = false -> pre = ""%string)).

(* a small nested list: [ part d=4 ; group [ part d=6 ; part without notes ; part d=10 ] ] *)
Definition ex_row (on du pitch : Z) (id : string) (divs : Z) : row :=
  mkRow on du pitch 1 id 0 0 0 0 "C" 0 4 false "" (0, 0) (4, 4, 4) (1, 0, 4) 1 divs.

(* [ part d=4 ; group [ part d=6 ; part without notes ; part d=10 ] ] *)
Definition ex_tree : ptree :=
  PGroup [ PLeaf [ex_row 4 2 60 "n0" 4];
           PGroup [ PLeaf [ex_row 3 3 64 "n0" 6]; PLeaf []; PLeaf [ex_row 5 10 67 "n0" 10] ] ].
