(* C19 -- the kern loader and writer at the level of tokens and of the timeline.

   Executable definitions only (proofs: Proofs/C19_kern.v).  Follows
   partitura/io/importkern.py
     SplineParser.meta_note_line         the regular-expression searches: first run of [a-gA-Gr\-n#] = pitch,
                                         first run of [0-9.%] = duration (default "8"), 'q' anywhere = grace note,
                                         ']' or '_' = tied to the previous note of the spine
     SplineParser._process_kern_pitch    first run of [n#-] = accidental, removed from the pitch; the first letter gives
                                         step and register, its number of occurrences the octave (Model.C19.kern_pitch)
     SplineParser._process_kern_duration dots = number of '.', value = the digits; written value of a reciprocal value that
                                         is no power of two: largest power of two below it, ratio value : base reduced
     element_parsing                     position from the order within the spine, ceil(4 / value * divs); the table
                                         document line -> position shared by the spines of one part (line2pos); a
                                         barline of a later spine jumps to the start of the measure with its number
   partitura/io/exportkern.py
     KernExporter.pitch_to_kern, sym_dur_to_kern, duration_to_kern, markings_to_kern, _handle_note (the token) *)
From PV Require Import Lib.Base Model.C19.
From Coq Require Import QArith Qround Ascii String NArith DecimalString DecimalN.
#[local] Open Scope Z_scope.

(* ================================================================ part 1: a note token as text *)

Definition in_range (lo hi : N) (c : ascii) : bool := let n := N_of_ascii c in ((lo <=? n) && (n <=? hi))%N.
Definition is_digit (c : ascii) : bool := in_range 48 57 c.
Definition is_acc_char (c : ascii) : bool := Ascii.eqb c "n" || Ascii.eqb c "#" || Ascii.eqb c "-".
(* [a-gA-Gr\-n#] *)
Definition is_pitch_char (c : ascii) : bool := in_range 97 103 c || in_range 65 71 c || Ascii.eqb c "r" || is_acc_char c.
(* [0-9.%] *)
Definition is_dur_char (c : ascii) : bool := is_digit c || Ascii.eqb c "." || Ascii.eqb c "%".

Fixpoint take_while (p : ascii -> bool) (s : string) : string :=
  match s with
  | EmptyString => EmptyString
  | String c r => if p c then String c (take_while p r) else EmptyString
  end.

(* re.search("([class]+)", s): the first maximal run of characters of the class ("" = no match) *)
Fixpoint first_run (p : ascii -> bool) (s : string) : string :=
  match s with
  | EmptyString => EmptyString
  | String c r => if p c then String c (take_while p r) else first_run p r
  end.

Fixpoint has_char (c : ascii) (s : string) : bool :=
  match s with EmptyString => false | String c' r => Ascii.eqb c c' || has_char c r end.

Fixpoint str_filter (p : ascii -> bool) (s : string) : string :=
  match s with EmptyString => EmptyString | String c r => if p c then String c (str_filter p r) else str_filter p r end.

Fixpoint str_forall (p : ascii -> bool) (s : string) : bool :=
  match s with EmptyString => true | String c r => p c && str_forall p r end.

(* str.replace(sub, ""): occurrences from the left, not overlapping; skip = characters of a match still to drop *)
Fixpoint remove_sub_aux (sub : string) (skip : nat) (s : string) : string :=
  match s with
  | EmptyString => EmptyString
  | String c r =>
      match skip with
      | S k => remove_sub_aux sub k r
      | O => if String.prefix sub s && negb (String.eqb sub EmptyString)
             then remove_sub_aux sub (String.length sub - 1) r
             else String c (remove_sub_aux sub O r)
      end
  end.
Definition remove_sub (sub s : string) : string := remove_sub_aux sub O s.

(* the digits of a reciprocal value ("12" -> 12); None for anything else (a '%' value, no digits) *)
Definition digits_value (s : string) : option Z :=
  match s with
  | EmptyString => None
  | _ => option_map (fun u => Z.of_N (N.of_uint u)) (NilEmpty.uint_of_string s)
  end.

(* SIGN_TO_ACC on the runs of [n#-] a kern pitch can carry *)
Definition acc_value (a : string) : option Z :=
  if String.eqb a "n" then Some 0 else if String.eqb a "nn" then Some 0
  else if String.eqb a "#" then Some 1 else if String.eqb a "n#" then Some 1 else if String.eqb a "#n" then Some 1
  else if String.eqb a "##" then Some 2 else if String.eqb a "###" then Some 3
  else if String.eqb a "-" then Some (-1) else if String.eqb a "n-" then Some (-1) else if String.eqb a "-n" then Some (-1)
  else if String.eqb a "--" then Some (-2) else None.

(* _process_kern_duration, reciprocal value that is not in the table of note values: the largest power of two below
   it (the comparison `dur - x if dur > x else dur + x` never selects a larger one) and the ratio value : base *)
Fixpoint pow2_below (fuel : nat) (b r : Z) : Z :=
  match fuel with
  | O => b
  | S f => if 2 * b <? r then pow2_below f (2 * b) r else b
  end.
Definition is_pow2_value (r : Z) : bool := existsb (Z.eqb r) [1; 2; 4; 8; 16; 32; 64; 128; 256].
(* (note value, actual_notes, normal_notes); 0 : 0 = no ratio *)
Definition kern_symbolic (r : Z) : Z * Z * Z :=
  if is_pow2_value r then (r, 0, 0)
  else let b := pow2_below 8 1 r in let g := Z.gcd r b in (b, r / g, b / g).

Record ktoken := KT {
  kt_rest : bool; kt_grace : bool;
  kt_recip : option Z; kt_dots : nat;
  kt_pitch : option (Z * Z);          (* step 0..6, octave *)
  kt_alter : option (option Z);       (* None: unknown accidental run (KeyError); Some None: no accidental *)
  kt_tied : bool }.                   (* ']' or '_' : tied to the previous note token of the spine *)

Definition parse_note_token (line : string) : ktoken :=
  let pitch0 := first_run is_pitch_char line in
  let pitch := match pitch0 with EmptyString => "r"%string | _ => pitch0 end in
  let dur0 := first_run is_dur_char line in
  let dur := match dur0 with EmptyString => "8"%string | _ => dur0 end in
  let grace := has_char "q" line in
  let dots := Z.to_nat (count_char "." dur) in
  let recip := digits_value (str_filter (fun c => negb (Ascii.eqb c ".")) dur) in
  let tied := has_char "]" line || has_char "_" line in
  if String.prefix "r" pitch then KT true grace recip dots None (Some None) tied
  else
    let acc := first_run is_acc_char pitch in
    let letters := match acc with EmptyString => pitch | _ => remove_sub acc pitch end in
    KT false grace recip dots (kern_pitch letters)
       (match acc with EmptyString => Some None | _ => option_map Some (acc_value acc) end) tied.

(* duration in quarters of the token: 4 / dot_function(value, dots); a grace note (value inf) lasts nothing *)
Definition token_quarters (t : ktoken) : option Q :=
  if kt_grace t then Some 0%Q
  else match kt_recip t with
       | Some r => if 0 <? r then Some (kern_quarters (inject_Z r) (kt_dots t)) else None
       | None => None
       end.

(* one probed token: the text, and what load_kern made of it: rest?, grace?, step, alter (None = no accidental),
   octave, duration in quarters, tied to the previous note?, written value (note value, dots, actual, normal) *)
Definition zoptopt_eqb (a : option (option Z)) (b : option Z) : bool :=
  match a with Some x => zopt_eqb x b | None => false end.

Definition check_token (c : string * (bool * bool * Z * option Z * Z * Q * bool * (Z * Z * Z * Z))) : bool :=
  let '(line, (rest, grace, step, alter, oct, dur, tied, (sv, sd, sa, sn))) := c in
  let t := parse_note_token line in
  Bool.eqb (kt_rest t) rest && Bool.eqb (kt_grace t) grace
  && (if rest then true
      else match kt_pitch t with Some (st, o) => (st =? step) && (o =? oct) | None => false end
           && zoptopt_eqb (kt_alter t) alter)
  && match token_quarters t with Some q => Qeq_bool q dur | None => false end
  && (if rest then true else Bool.eqb (kt_tied t) tied)
  && match kt_recip t with
     | Some r => let '(v, a, n) := kern_symbolic r in      (* the ratio as a value: 6:4 is 3:2 *)
                 (v =? sv) && (Z.of_nat (kt_dots t) =? sd) && (a * sn =? sa * n) && Bool.eqb (a =? 0) (sa =? 0) && Bool.eqb (n =? 0) (sn =? 0)
     | None => false
     end.

(* ================================================================ part 2: the writer's token *)

Definition step_letter (st : Z) (lower : bool) : ascii :=
  match st, lower with
  | 0, true => "c" | 1, true => "d" | 2, true => "e" | 3, true => "f" | 4, true => "g" | 5, true => "a" | 6, true => "b"
  | 0, false => "C" | 1, false => "D" | 2, false => "E" | 3, false => "F" | 4, false => "G" | 5, false => "A" | _, _ => "B"
  end%char.

(* ACC_TO_SIGN *)
Definition acc_sign (alter : option Z) : string :=
  match alter with
  | None => "" | Some 0 => "n" | Some (-1) => "-" | Some 1 => "#" | Some (-2) => "--" | Some 2 => "##" | Some _ => "?"
  end%string.

(* pitch_to_kern: octave > 4: lower-case letter (octave - 3) times; octave < 3: upper-case letter (4 - octave) times *)
Definition kern_write_letters (st oct : Z) : string :=
  if 4 <=? oct then repeat_char (step_letter st true) (Z.to_nat (oct - 3))
  else repeat_char (step_letter st false) (Z.to_nat (4 - oct)).
Definition kern_write_pitch (st : Z) (alter : option Z) (oct : Z) : string :=
  String.append (kern_write_letters st oct) (acc_sign alter).

Definition print_Z (z : Z) : string := NilZero.string_of_uint (N.to_uint (Z.to_N z)).

(* sym_dur_to_kern: note value * actual / normal as an integer when it is one (a = 0: no ratio), then the dots *)
Definition kern_write_dur (v : Z) (dots : nat) (a n : Z) : option string :=
  let base := if (a =? 0) || (n =? 0) then Some v else if (v * a) mod n =? 0 then Some (v * a / n) else None in
  option_map (fun b => String.append (print_Z b) (repeat_char "." dots)) base.

(* markings_to_kern: '_' both, '[' tie to the next, ']' tie from the previous *)
Definition tie_mark (tprev tnext : bool) : string :=
  (if tprev && tnext then "_" else if tnext then "[" else if tprev then "]" else "")%string.

Definition kern_write_token (st : Z) (alter : option Z) (oct : Z) (v : Z) (dots : nat) (a n : Z) (tprev tnext : bool) : option string :=
  option_map (fun d => String.append d (String.append (kern_write_pitch st alter oct) (tie_mark tprev tnext))) (kern_write_dur v dots a n).

(* one note written by save_kern: what the note is, the token found in the exported text *)
Definition check_written (c : (Z * option Z * Z * Z * Z * Z * Z * bool * bool) * string) : bool :=
  let '((st, alter, oct, v, dots, a, n, tprev, tnext), tok) := c in
  match kern_write_token st alter oct v (Z.to_nat dots) a n tprev tnext with
  | Some s => String.eqb s tok
  | None => false
  end.

(* ================================================================ part 3: placement on the timeline *)

(* a cell of a spine (column after the split into sub-spines) that element_parsing meets: a note / rest / chord
   token with its reciprocal value and dots, a grace note, a barline, the split "*^", or another tandem interpretation *)
Inductive kcell := KNote (recip : Q) (dots : nat) | KGrace | KBar | KSplit | KTandem.

Definition table := list (Z * Z).          (* document line -> position, newest first *)
Fixpoint tbl_get (l : Z) (t : table) : option Z :=
  match t with [] => None | (k, v) :: r => if k =? l then Some v else tbl_get l r end.

Definition is_data (c : kcell) : bool := match c with KNote _ _ | KGrace => true | _ => false end.
Definition is_ksplit (c : kcell) : bool := match c with KSplit => true | _ => false end.

(* element_parsing over one spine.  same = the spine belongs to a part that already exists; sub = the spine is a
   sub-spine split off the spine parsed before; mstarts = start of the k-th measure of that part (measure_mapping,
   numbers from 1); nbar = barlines met so far in this spine.
   The position recorded for a line is looked up on a line with a note, and by a sub-spine on the split that starts it;
   every spine records its notes, and every spine that is no sub-spine its interpretation lines and barlines.
   Result: rows (document line, start, end) of the notes, the measure starts this spine adds, the table. *)
Fixpoint spine_run (divs : Z) (same sub : bool) (mstarts : list Z) (cells : list (Z * kcell))
                   (pos : Z) (nbar : nat) (tbl : table) : list (Z * Z * Z) * list Z * table :=
  match cells with
  | [] => ([], [], tbl)
  | (line, c) :: r =>
      let pos := if is_data c || (sub && is_ksplit c)
                 then match tbl_get line tbl with Some p => p | None => pos end else pos in
      let rec := if sub then tbl else (line, pos) :: tbl in
      match c with
      | KNote recip dots =>
          let e := pos + kern_ticks divs recip dots in
          let '(rows, ms, t') := spine_run divs same sub mstarts r e nbar ((line, pos) :: tbl) in
          ((line, pos, e) :: rows, ms, t')
      | KGrace =>
          let '(rows, ms, t') := spine_run divs same sub mstarts r pos nbar ((line, pos) :: tbl) in
          ((line, pos, pos) :: rows, ms, t')
      | KBar =>
          if same then spine_run divs same sub mstarts r (nth nbar mstarts pos) (S nbar) rec
          else
            let '(rows, ms, t') := spine_run divs same sub mstarts r pos (S nbar) rec in
            (rows, pos :: ms, t')
      | KSplit | KTandem => spine_run divs same sub mstarts r pos nbar rec
      end
  end.

(* the spines of one part, left to right, each with its sub-spine flag: the first creates the part (empty table), the
   others are added to it *)
Fixpoint part_run_aux (divs : Z) (mstarts : list Z) (tbl : table) (spines : list (bool * list (Z * kcell))) : list (list (Z * Z * Z)) :=
  match spines with
  | [] => []
  | (sub, sp) :: r =>
      let '(rows, _, t') := spine_run divs true sub mstarts sp 0 O tbl in
      rows :: part_run_aux divs mstarts t' r
  end.
Definition part_run (divs : Z) (spines : list (bool * list (Z * kcell))) : list (list (Z * Z * Z)) * list Z :=
  match spines with
  | [] => ([], [])
  | (_, sp) :: r =>
      let '(rows, ms, t') := spine_run divs false false [] sp 0 O [] in
      (rows :: part_run_aux divs ms t' r, ms)
  end.

(* what the notation denotes for one spine: position from the order, exact durations *)
Fixpoint spine_den (cells : list (Z * kcell)) (t : Q) : list (Z * Q * Q) :=
  match cells with
  | [] => []
  | (line, KNote recip dots) :: r => (line, t, kern_quarters recip dots) :: spine_den r (t + kern_quarters recip dots)%Q
  | (line, KGrace) :: r => (line, t, 0%Q) :: spine_den r t
  | _ :: r => spine_den r t
  end.

Definition ztriple_eqb (a b : Z * Z * Z) : bool :=
  (fst (fst a) =? fst (fst b)) && (snd (fst a) =? snd (fst b)) && (snd a =? snd b).

(* one loaded part: divisions, its spines (sub-spine?, cells with their document lines), per spine the loaded (line, start, end)
   of its notes in document order (chords once), the measure starts of the part *)
Definition check_part_run (c : Z * list (bool * list (Z * kcell)) * list (list (Z * Z * Z)) * list Z) : bool :=
  let '(divs, spines, obs, mst) := c in
  let '(rows, ms) := part_run divs spines in
  list_eqb (list_eqb ztriple_eqb) rows obs && list_eqb Z.eqb ms mst.
