(* C17 (1/3) -- pitch spelling: executable model of the integer core of ps13 stage 1
   (partitura/musicanalysis/pitch_spelling.py: ps13s1, compute_chroma_array,
   compute_chroma_vector_array, compute_morph_array, compute_morphetic_pitch, p2pn).
   Definitions only; proofs are in Proofs/C17_Spelling.v.  The constant tables
   (init_morph, morph_int, UND_CHROMA, STEPS, K_pre, K_post) are reflected from the
   working tree into Gen/C17_PS13.v on every run.

   Times are integers: the harness scales the (dyadic) float onsets/durations of a case
   by one common power of two, which preserves order and equality -- the only things
   ps13 uses of them. *)
From PV Require Import Lib.Base Gen.C17_PS13 Gen.C17_MidiTab.
#[local] Open Scope Z_scope.

(* a row of the note array: (onset, pitch, duration) *)
Definition row := (Z * Z * Z)%type.
Definition r_onset (r : row) : Z := fst (fst r).
Definition r_pitch (r : row) : Z := snd (fst r).
Definition r_dur (r : row) : Z := snd r.

(* canonical order of ps13s1: np.lexsort((duration, pitch, onset)) *)
Definition row_leb (a b : row) : bool :=
  if r_onset a <? r_onset b then true else
  if r_onset b <? r_onset a then false else
  if r_pitch a <? r_pitch b then true else
  if r_pitch b <? r_pitch a then false else
  r_dur a <=? r_dur b.

Fixpoint ps_insert (x : row) (l : list row) : list row :=
  match l with
  | [] => [x]
  | y :: r => if row_leb x y then x :: l else y :: ps_insert x r
  end.
Definition ps_sort (l : list row) : list row := fold_right ps_insert [] l.

Definition ps_tbl (t : list Z) (i : Z) : Z := nth (Z.to_nat i) t 0.

(* chromatic pitch = MIDI pitch - 21 (A0 = 0); chroma = chromatic pitch mod 12 *)
Definition chromatic_pitch (p : Z) : Z := p - 21.
Definition chroma_of_pitch (p : Z) : Z := (p - 21) mod 12.

Definition ps_count (c : Z) (l : list Z) : Z :=
  fold_right (fun x a => if x =? c then a + 1 else a) 0 l.

(* context of note j (0-based, canonical order): the notes max(0, j-K_pre) .. min(n, j+K_post)-1;
   compute_chroma_vector_array maintains the chroma counts of exactly this slice *)
Definition ps_window (kpre kpost : nat) (cs : list Z) (j : nat) : list Z :=
  firstn (Nat.min (List.length cs) (j + kpost) - (j - kpre)) (skipn (j - kpre) cs).

(* morph of a note of chroma c if the tonic had chroma ct, the first note having chroma c0 *)
Definition mftc (c0 c ct : Z) : Z :=
  (ps_tbl ps_morph_int ((c - ct) mod 12)
   + (ps_tbl ps_init_morph c0 - ps_tbl ps_morph_int ((c0 - ct) mod 12)) mod 7) mod 7.

Definition morph_strength (c0 c : Z) (w : list Z) (m : Z) : Z :=
  fold_right (fun ct a => if mftc c0 c ct =? m then ps_count ct w + a else a) 0 (zrange 0 12).

(* np.argmax: first maximum *)
Fixpoint argmax_first (f : Z -> Z) (cands : list Z) (best : Z) : Z :=
  match cands with
  | [] => best
  | x :: r => argmax_first f r (if f best <? f x then x else best)
  end.

Definition select_morph (c0 c : Z) (w : list Z) : Z :=
  argmax_first (morph_strength c0 c w) (zrange 1 6) 0.

(* compute_morphetic_pitch: of the octaves o, o+1, o-1 (in this order) the first one
   minimising | o + chroma/12 - (oct + morph/7) |, here multiplied by 84 *)
Definition oct_delta (c m : Z) : Z :=
  let t := 7 * c - 12 * m in
  let d0 := Z.abs t in
  let d1 := Z.abs (t - 84) in
  let d2 := Z.abs (t + 84) in
  if d1 <? d0 then (if d2 <? d1 then -1 else 1) else (if d2 <? d0 then -1 else 0).

Definition morphetic_pitch (cp m : Z) : Z := m + 7 * (cp / 12 + oct_delta (cp mod 12) m).

(* a spelling: (index of the step in STEPS, alter, octave) *)
Definition spelling := (Z * Z * Z)%type.
Definition sp_step (s : spelling) : Z := fst (fst s).
Definition sp_alter (s : spelling) : Z := snd (fst s).
Definition sp_octave (s : spelling) : Z := snd s.

Definition p2pn (cp mp : Z) : spelling :=
  let morph := mp mod 7 in
  (morph,
   cp - 12 * (mp / 7) - ps_tbl ps_und_chroma morph,
   mp / 7 + (if 1 <? morph then 1 else 0)).

Definition step_name (i : Z) : string := nth (Z.to_nat i) ps_steps "?"%string.

(* what a spelled pitch sounds: C4 = 60, an accidental is a semitone, an octave twelve *)
Definition step_pc (s : string) : option Z :=
  slookup s [("C", 0); ("D", 2); ("E", 4); ("F", 5); ("G", 7); ("A", 9); ("B", 11)]%string.
Definition midi_of (s : spelling) : option Z :=
  match step_pc (step_name (sp_step s)) with
  | Some b => Some (12 * (sp_octave s + 1) + b + sp_alter s)
  | None => None
  end.

(* the same on a step NAME *)
Definition midi_of_name (st : string) (al oc : Z) : option Z :=
  match step_pc st with
  | Some b => Some (12 * (oc + 1) + b + al)
  | None => None
  end.

(* what partitura itself says a spelled note sounds: score.Note(step, octave, alter).midi_pitch,
   tabulated by running it on every step of STEPS x alter -2..2 x octave 0..8 (Gen/C17_MidiTab.v);
   None outside that domain *)
Fixpoint note_midi_in (t : list (string * Z * Z * Z)) (st : string) (al oc : Z) : option Z :=
  match t with
  | [] => None
  | (st', al', oc', v) :: r =>
      if String.eqb st st' && (al =? al') && (oc =? oc') then Some v else note_midi_in r st al oc
  end.
Definition note_midi_pitch (st : string) (al oc : Z) : option Z := note_midi_in note_midi_tab st al oc.

(* spelling of chromatic pitch cp when morph m was selected *)
Definition spell_cm (cp m : Z) : spelling := p2pn cp (morphetic_pitch cp m).

Fixpoint spell_from (kpre kpost : nat) (cs : list Z) (c0 : Z) (j : nat) (rs : list row)
  : list (row * spelling) :=
  match rs with
  | [] => []
  | r :: rest =>
      let cp := chromatic_pitch (r_pitch r) in
      (r, spell_cm cp (select_morph c0 (cp mod 12) (ps_window kpre kpost cs j)))
        :: spell_from kpre kpost cs c0 (S j) rest
  end.

(* the table (row, spelling) in canonical order *)
Definition spell_tab (kpre kpost : nat) (rows : list row) : list (row * spelling) :=
  let s := ps_sort rows in
  let cs := map (fun r => chroma_of_pitch (r_pitch r)) s in
  spell_from kpre kpost cs (hd 0 cs) 0 s.

Definition spell_default (rows : list row) : list (row * spelling) :=
  spell_tab (Z.to_nat ps_k_pre) (Z.to_nat ps_k_post) rows.

(* ---- checker used by the correspondence: the implementation's output (one
   (step, alter, octave) per input row, in input order) is, as a multiset of
   (row, spelling) pairs, the model's table *)
Definition named := (row * (string * Z * Z))%type.
Definition named_of (x : row * spelling) : named :=
  (fst x, (step_name (sp_step (snd x)), sp_alter (snd x), sp_octave (snd x))).
Definition row_eqb (a b : row) : bool :=
  (r_onset a =? r_onset b) && (r_pitch a =? r_pitch b) && (r_dur a =? r_dur b).
Definition named_eqb (a b : named) : bool :=
  row_eqb (fst a) (fst b) &&
  String.eqb (fst (fst (snd a))) (fst (fst (snd b))) &&
  (snd (fst (snd a)) =? snd (fst (snd b))) && (snd (snd a) =? snd (snd b)).
Definition named_count (x : named) (l : list named) : nat := List.length (filter (named_eqb x) l).

Definition spell_check (c : nat * nat * list row * list (string * Z * Z)) : bool :=
  let '(kpre, kpost, rows, out) := c in
  let got := combine rows out in
  let want := map named_of (spell_tab kpre kpost rows) in
  Nat.eqb (List.length out) (List.length rows) && Nat.eqb (List.length want) (List.length rows) &&
  forallb (fun x => Nat.eqb (named_count x got) (named_count x want)) got.
