(* C05 -- the onset column of create_divs_from_beats (round j): names for the column the code builds
   and for the slip "always shift so that the first onset is 0".  Definitions only.
   note_array_to_score.py, create_divs_from_beats:
       onset_divs = [int(divs * r.numerator / r.denominator) for r in onset_fractions]
       min_onset_div = min(onset_divs)
       if min_onset_div < 0: onset_divs = [x - min_onset_div for x in onset_divs]
   [to_div], [shift_nonneg] and [divs_columns_at] (Model/C05.v, Model/C05_Ext.v) are that code; they are the
   definitions the inverse correspondence evaluates (inverse_case_ok_m). *)
From PV Require Import Lib.Base Model.C05 Model.C05_Ext.
From Coq Require Import QArith.
#[local] Open Scope Z_scope.

(* the onset column for a given number of divisions *)
Definition onset_column (d : Z) (onsets : list Q) : list Z := fst (divs_columns_at d onsets []).

(* the slip: the shift applied whatever the sign of the minimum ("the timeline starts with the first onset") *)
Definition shift_always (l : list Z) : list Z :=
  match l with
  | [] => []
  | x :: r => let mn := fold_left Z.min r x in map (fun v => v - mn) l
  end.

(* what the column must satisfy: it converts back to the input onsets up to ONE constant k, k is zero unless an onset
   is negative, no entry is negative, and a shifted column begins at 0 *)
Definition onset_column_ok (d : Z) (onsets : list Q) (col : list Z) : Prop :=
  exists k : Q,
    Forall2 (fun t q => beat_of_div d t == q - k)%Q col onsets /\
    (Forall (fun q => 0 <= q)%Q onsets -> k == 0)%Q /\
    Forall (fun t => 0 <= t) col /\
    ((k == 0)%Q \/ In 0 col).

(* an excerpt that begins at beat 5 (first onset strictly positive), and a pickup *)
Definition ex_shift_late : list Q := [5 # 1; 13 # 2; 8 # 1]%Q.
Definition ex_shift_pickup : list Q := [(-1) # 2; 0 # 1; 3 # 2]%Q.
