(* C09 -- state carried between calls (definitions only).

   What of a Part the repeat structure is read from, as a small state machine:
     * the marks written on the part NOW (Repeat / Ending / Coda / ... objects registered in its time
       points, the `number` of every Ending): whatever changed them -- Part.add / Part.remove, the
       TimePoint methods add_starting_object / remove_starting_object / ..., an assignment to
       Ending.number -- the next reading sees the new marks;
     * the Segment objects registered on the part by add_segments (`p_reg`, [] = none):
         get_segments(part)            = the registered ones
         _get_or_make_segments(part)   = the registered ones if there are any, else
                                         _make_segments(part) on the marks of this moment (nothing kept)
         add_segments(part, force_new) = nothing when segments are registered and not force_new,
                                         else (re)register _make_segments(part)
       partitura/score.py documents that registered segments are NOT refreshed by a change of the
       marks ("force_new: used for creating new unfoldings after segment attributes have been changed").
   Every entry point (Part.segments, get_paths, unfold_part_maximal / minimal, iter_unfolded_parts,
   make_score_variants, unfold_part_alignment, new_part_from_path) reads _get_or_make_segments(part)
   and writes nothing. *)
From PV Require Import Lib.Base Model.C09 Model.C09_api.
From Coq Require Import ZArith List Bool.
Import ListNotations.
#[local] Open Scope Z_scope.

Record pst := mkPst { p_marks : marks; p_reg : list seg }.

Inductive op :=
| OEdit (via_part : bool) (m : marks)   (* the marks are now m; via_part: through Part.add / Part.remove
                                           (false: TimePoint methods, attribute assigned in place) *)
| OAddSegments (force : bool)           (* add_segments(part, force_new=force) *)
| ODropSegments                         (* part.remove of every registered Segment *)
| OCall.                                (* any entry point *)

(* _get_or_make_segments *)
Definition cur_segments (s : pst) : list seg :=
  match p_reg s with [] => make_segments (p_marks s) | r => r end.

Definition step (s : pst) (o : op) : pst :=
  match o with
  | OEdit _ m => mkPst m (p_reg s)
  | OAddSegments force =>
      match p_reg s with
      | [] => mkPst (p_marks s) (make_segments (p_marks s))
      | _ => if force then mkPst (p_marks s) (make_segments (p_marks s)) else s
      end
  | ODropSegments => mkPst (p_marks s) []
  | OCall => s
  end.

Definition run (s : pst) (h : list op) : pst := fold_left step h s.

(* what the calls of a history see / what the marks of that moment say *)
Fixpoint observed (s : pst) (h : list op) : list (list seg) :=
  match h with
  | [] => []
  | OCall :: r => cur_segments s :: observed s r
  | o :: r => observed (step s o) r
  end.
Fixpoint current (s : pst) (h : list op) : list (list seg) :=
  match h with
  | [] => []
  | OCall :: r => make_segments (p_marks s) :: current s r
  | o :: r => current (step s o) r
  end.

(* the documented use: a part with registered segments is refreshed (add_segments force_new=True) or the
   registered segments are removed right after every change of its marks.  reg = segments are registered *)
Fixpoint disciplined (reg : bool) (h : list op) : bool :=
  match h with
  | [] => true
  | OEdit _ _ :: r =>
      if reg then
        match r with
        | OAddSegments true :: r' => disciplined true r'
        | ODropSegments :: r' => disciplined false r'
        | _ => false
        end
      else disciplined false r
  | OAddSegments _ :: r => disciplined true r
  | ODropSegments :: r => disciplined false r
  | OCall :: r => disciplined reg r
  end.

(* the observations of the entry points in a state *)
Definition obs_paths (s : pst) (nr ar ign : bool) := get_paths FUEL (cur_segments s) nr ar ign.
Definition obs_maximal (s : pst) (objs : list obj) (ign : bool) := api_maximal (cur_segments s) objs ign.
Definition obs_minimal (s : pst) (objs : list obj) := api_minimal (cur_segments s) objs.
Definition obs_iter (s : pst) (objs : list obj) := api_iter (cur_segments s) objs.
Definition obs_alignment (s : pst) (objs : list obj) (want : list (Z * Z)) := api_alignment (cur_segments s) objs want.
(* a freshly built part with the same marks *)
Definition fresh (s : pst) : pst := mkPst (p_marks s) [].

(* ---- a memoising variant (what the code must NOT do): the segments made on the fly are kept on the
   part until Part.add / Part.remove is called ---- *)
Record mst := mkMst { m_marks : marks; m_cache : option (list seg) }.
Definition memo_segments (s : mst) : list seg :=
  match m_cache s with Some c => c | None => make_segments (m_marks s) end.
Definition memo_step (s : mst) (o : op) : mst :=
  match o with
  | OEdit via_part m => mkMst m (if via_part then None else m_cache s)
  | OCall => mkMst (m_marks s) (Some (memo_segments s))
  | _ => s
  end.
Fixpoint memo_observed (s : mst) (h : list op) : list (list seg) :=
  match h with
  | [] => []
  | OCall :: r => memo_segments s :: memo_observed (memo_step s OCall) r
  | o :: r => memo_observed (memo_step s o) r
  end.

(* ------------------------------------------------------------------ *)
(* correspondence: a history run on the implementation.  HObs = a step in which every entry point was
   called (an OCall of the state machine), with the segments (ranks, boundaries) and the Path.path
   lists of the six policies partitura returned *)
Inductive hitem :=
| HOp (o : op)
| HObs (segs : list seg) (paths : list (bool * bool * bool * option (list (list Z)))).

Definition mkHist (m : marks) (l : list hitem) : marks * list hitem := (m, l).

Definition obs_ok (g : list seg) (segs : list seg) (paths : list (bool * bool * bool * option (list (list Z)))) : bool :=
  list_eqb seg_bounds_eqb g segs &&
  forallb (fun q => match q with (nr, ar, ig, ps) => paths_eqb (get_paths FUEL g nr ar ig) ps end) paths.

Definition ops_of (l : list hitem) : list op :=
  map (fun i => match i with HOp o => o | HObs _ _ => OCall end) l.

(* 0 = every step agrees; k = the k-th observation differs from the state machine's reading;
   -1 = the harness generated a history outside the documented use (disciplined) *)
Fixpoint check_items (s : pst) (k : Z) (l : list hitem) : Z :=
  match l with
  | [] => 0
  | HOp o :: r => check_items (step s o) k r
  | HObs segs paths :: r => if obs_ok (cur_segments s) segs paths then check_items s (k + 1) r else k
  end.

Definition check_history (h : marks * list hitem) : Z :=
  if negb (disciplined false (ops_of (snd h))) then -1
  else check_items (mkPst (fst h) []) 1 (snd h).
