(* C02_Req -- REQUESTS of the maps interleaved with EDITS of the part (state carried between calls).
   `part.quarter_map`, `beat_map`, `inv_quarter_map`, `inv_beat_map`, `quarter_duration_map` are properties: every
   access runs Part._time_interpolator (resp. builds the `previous` interpolation) on the part AS IT IS and returns a
   new map object, a closure over the points computed at that moment.  A caller may keep such an object, edit the
   part through the public API or in place (attributes of a TimeSignature), remove objects, request the map again, ...
   The machine below runs such a history:
     REdit e      the part is edited (public API, in-place attribute write, removal)
     RGet w       m_j = part.<map w>        (a new map object, numbered in the order requested)
     RQuery j x   m_j(x)                    (through a map object requested earlier)
     RAsk w x     part.<map w>(x)           (request and call at once)
   with one switch for the way such code goes wrong (`false` for the code as it is):
     memo   the points of map w are cached on the part at the first request and reused by every later request.
   Definitions only; proofs in Proofs/C02_req.v. *)
From PV Require Import Lib.Base Model.C02 Model.C02_Hist Model.C02_Api.
From Coq Require Import QArith Qround.
#[local] Open Scope Z_scope.

(* ---------------------------------------------------------------- edits *)
Inductive redit :=
| EApi (o : aop)               (* a call of the public API (Model/C02_Api.v) *)
| ETsAttr (t b bt : Z)         (* in place: sig.beats, sig.beat_type = b, bt on the signature at t (musical_beats stay) *)
| ETsMus (t k : Z)             (* in place: sig.musical_beats = k on the signature at t *)
| ERemNote (s e : Z)           (* part.remove(note): the first present note, in call order, with these ends *)
| ERemMeas (s e : Z).          (* part.remove(measure): likewise *)

Definition upd_ts (t : Z) (f : tsig -> tsig) (l : list tsig) : list tsig :=
  map (fun ts => if ts_t ts =? t then f ts else ts) l.

Fixpoint remove_first (s e : Z) (l : list (Z * Z)) : list (Z * Z) :=
  match l with
  | [] => []
  | x :: r => if (fst x =? s) && (snd x =? e) then r else x :: remove_first s e r
  end.

Definition with_tss (st : astate) (tss : list tsig) : astate :=
  mk_astate (mk_hstate (h_qs (a_h st)) (h_flag (a_h st)) tss) (a_notes st) (a_meas st).

Definition estep (st : astate) (e : redit) : astate :=
  match e with
  | EApi o => astep st o
  | ETsAttr t b bt => with_tss st (upd_ts t (fun ts => mk_tsig (ts_t ts) b bt (ts_mus ts)) (h_tss (a_h st)))
  | ETsMus t k => with_tss st (upd_ts t (fun ts => mk_tsig (ts_t ts) (ts_beats ts) (ts_type ts) k) (h_tss (a_h st)))
  | ERemNote s e => mk_astate (a_h st) (remove_first s e (a_notes st)) (a_meas st)
  | ERemMeas s e => mk_astate (a_h st) (a_notes st) (remove_first s e (a_meas st))
  end.

(* ---------------------------------------------------------------- map objects *)
Inductive which := WQuarter | WBeat | WInvQuarter | WInvBeat | WQd.

Definition which_eqb (a b : which) : bool :=
  match a, b with
  | WQuarter, WQuarter | WBeat, WBeat | WInvQuarter, WInvQuarter | WInvBeat, WInvBeat | WQd, WQd => true
  | _, _ => false
  end.

(* what the closure returned by the property holds: the interpolation points (time maps) / the change table *)
Record mobj := mk_mobj { m_w : which; m_pts : list (Q * Q); m_qs : list (Z * Z) }.

(* the property access on the part in state st *)
Definition make (w : which) (st : astate) : mobj :=
  let p := apart_of st in
  let bm := amode_of st in
  match w with
  | WQuarter => mk_mobj w (time_pts Quarter p) []
  | WBeat => mk_mobj w (time_pts bm p) []
  | WInvQuarter => mk_mobj w (swap_pts (time_pts Quarter p)) []
  | WInvBeat => mk_mobj w (swap_pts (time_pts bm p)) []
  | WQd => mk_mobj w [] (p_qs p)
  end.

(* the call m(x); None = nan *)
Definition meval (o : mobj) (x : Q) : option Q :=
  match m_w o with
  | WQd => Some (inject_Z (qd_map_impl (m_qs o) x))
  | _ => interp (m_pts o) x
  end.

(* f (current state): the value the property statement speaks of *)
Definition ask (w : which) (st : astate) (x : Q) : option Q := meval (make w st) x.

(* ---------------------------------------------------------------- the machine *)
Inductive rop :=
| REdit (e : redit)
| RGet (w : which)
| RQuery (j : nat) (x : Q)
| RAsk (w : which) (x : Q).

Record rstate := mk_rstate {
  r_st : astate;                       (* current state of the part *)
  r_memo : list (which * mobj);        (* memo variant only: what was computed at the first request of each map *)
  r_objs : list mobj                   (* the map objects handed out so far *)
}.

Definition rinit (q0 : Z) : rstate := mk_rstate (ainit q0) [] [].

Fixpoint memo_find (w : which) (l : list (which * mobj)) : option mobj :=
  match l with
  | [] => None
  | (w', o) :: r => if which_eqb w w' then Some o else memo_find w r
  end.

(* the property access under the switch: -> (object, memo table afterwards) *)
Definition request (memo : bool) (w : which) (s : rstate) : mobj * list (which * mobj) :=
  if memo then
    match memo_find w (r_memo s) with
    | Some o => (o, r_memo s)
    | None => let o := make w (r_st s) in (o, (w, o) :: r_memo s)
    end
  else (make w (r_st s), r_memo s).

Definition rstep (memo : bool) (s : rstate) (op : rop) : rstate * option (option Q) :=
  match op with
  | REdit e => (mk_rstate (estep (r_st s) e) (r_memo s) (r_objs s), None)
  | RGet w => let '(o, mm) := request memo w s in (mk_rstate (r_st s) mm (r_objs s ++ [o]), None)
  | RQuery j x =>
      match nth_error (r_objs s) j with
      | Some o => (s, Some (meval o x))
      | None => (s, None)
      end
  | RAsk w x => let '(o, mm) := request memo w s in (mk_rstate (r_st s) mm (r_objs s), Some (meval o x))
  end.

(* the observations of a history: what the calls returned, in order *)
Fixpoint robs (memo : bool) (s : rstate) (ops : list rop) : list (option Q) :=
  match ops with
  | [] => []
  | op :: r => let '(s', ob) := rstep memo s op in
               match ob with Some v => v :: robs memo s' r | None => robs memo s' r end
  end.

(* what a history MUST show: a call through the property = f (state of the part at that moment); a call through a
   kept map object = f (state of the part when the object was requested); nothing else of the history matters *)
Fixpoint rspec (st : astate) (gets : list (which * astate)) (ops : list rop) : list (option Q) :=
  match ops with
  | [] => []
  | REdit e :: r => rspec (estep st e) gets r
  | RGet w :: r => rspec st (gets ++ [(w, st)]) r
  | RQuery j x :: r =>
      match nth_error gets j with
      | Some (w, sj) => ask w sj x :: rspec st gets r
      | None => rspec st gets r
      end
  | RAsk w x :: r => ask w st x :: rspec st gets r
  end.

(* the state of the part after the edits of a history (requests and calls skipped) *)
Fixpoint rcur (st : astate) (ops : list rop) : astate :=
  match ops with
  | [] => st
  | REdit e :: r => rcur (estep st e) r
  | _ :: r => rcur st r
  end.

(* the number of map objects a history requests *)
Fixpoint count_gets (ops : list rop) : nat :=
  match ops with
  | [] => O
  | RGet _ :: r => S (count_gets r)
  | _ :: r => count_gets r
  end.

(* ---------------------------------------------------------------- correspondence: the history the harness ran *)
Inductive rev :=
| VEdit (e : redit)
| VGet (w : which)
| VQuery (j : nat) (x : Q) (observed : option Q)
| VAsk (w : which) (x : Q) (observed : option Q).

Definition rev_op (v : rev) : rop :=
  match v with VEdit e => REdit e | VGet w => RGet w | VQuery j x _ => RQuery j x | VAsk w x _ => RAsk w x end.
Definition rev_obs (evs : list rev) : list (option Q) :=
  flat_map (fun v => match v with VQuery _ _ o => [o] | VAsk _ _ o => [o] | _ => [] end) evs.

Definition c02_rcase : Type := (Z * list rev)%type.

Definition check_rcase (c : c02_rcase) : bool :=
  let '(q0, evs) := c in
  let model := robs false (rinit q0) (map rev_op evs) in
  let obs := rev_obs evs in
  (Nat.eqb (List.length obs) (List.length model)) &&
  forallb (fun om => oclose (fst om) (snd om)) (combine obs model).
