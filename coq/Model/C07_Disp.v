(* C07 -- line dispatch and version detection (partitura/io/importmatch.py: parse_matchline,
   get_version, load_matchfile; matchfile_base.py: Base*Line.prepare_kwargs_from_matchline;
   matchlines_v0.py / matchlines_v1.py: FROM_MATCHLINE_METHODS; matchfile_utils.py:
   interpret_version).  Executable definitions only; proofs are in Proofs/C07_disp.v.

   The schema codec of Model/C07.v reads a text with a deterministic scanner that knows the shape
   of the line.  The library does something weaker and order dependent: every parser of an ordered
   list SEARCHES its regular expressions anywhere in the line (re.search: leftmost match, greedy
   groups with backtracking), a line made of two parts (snote-note, stime-ptime, ornament-note)
   is read by independent searches over the WHOLE line, and the first parser that raises nothing
   wins.  This file models exactly that:
   * [bt]: a backtracking matcher for the sub-language the patterns are written in (literals, '.',
     capturing groups X+ / X* over a character class or '.'), [search_from]: re.search;
   * [pstep] / [lparser]: how a line class combines its patterns (hand-written per base class
     from prepare_kwargs_from_matchline; the patterns themselves, the order of the parsers and
     the decoder of every group are reflected from the live classes into Gen/C07_Parsers.v);
   * [dispatch]: importmatch.parse_matchline; [get_version], [interpret_version];
   * [load_lines]: load_matchfile (version from the first line, duplicates and empty lines
     dropped, every line dispatched). *)
From PV Require Import Lib.Base Model.C07.
From Coq Require Import Ascii.
#[local] Open Scope string_scope.
#[local] Open Scope Z_scope.

(* ------------------------------------------------------------------ regular expressions *)

Inductive rclass :=
| RNot (chars : string)     (* [^...] *)
| RIn (chars : string)      (* [...] with the ranges written out *)
| RAnyC.                    (* .  (the texts hold no line breaks) *)
Definition rc_in (cl : rclass) (c : ascii) : bool :=
  match cl with RNot l => negb (mem_char c l) | RIn l => mem_char c l | RAnyC => true end.

Inductive ritem :=
| RLit (s : string)                     (* literal characters (escapes resolved) *)
| RDot                                  (* an unescaped '.' outside a group: any one character *)
| RGrp (cl : rclass) (minlen : nat).    (* (?P<name>X+) minlen 1, (?P<name>X* ) minlen 0: greedy *)
Definition rpat := list ritem.

Fixpoint run_len (p : ascii -> bool) (s : string) : nat :=
  match s with String c r => if p c then S (run_len p r) else O | EmptyString => O end.
Fixpoint stake (k : nat) (s : string) : string :=
  match k, s with S k', String c r => String c (stake k' r) | _, _ => EmptyString end.
Fixpoint sdrop (k : nat) (s : string) : string :=
  match k, s with S k', String _ r => sdrop k' r | _, _ => s end.

(* a greedy group: try the longest run first, then give back one character at a time, never
   going below the minimum length *)
Fixpoint try_lens (cont : string -> option (list string * string)) (m : nat) (s : string) (k : nat)
  : option (list string * string) :=
  if (k <? m)%nat then None
  else match cont (sdrop k s) with
       | Some (gs, rest) => Some (stake k s :: gs, rest)
       | None => match k with O => None | S k' => try_lens cont m s k' end
       end.

(* pattern.match(s): the groups of the first successful alternative and the unread rest *)
Fixpoint bt (pat : rpat) (s : string) : option (list string * string) :=
  match pat with
  | [] => Some ([], s)
  | RLit l :: r => match strip_prefix l s with Some s' => bt r s' | None => None end
  | RDot :: r => match s with String _ s' => bt r s' | EmptyString => None end
  | RGrp cl m :: r => try_lens (bt r) m s (run_len (rc_in cl) s)
  end.

(* pattern.search(s): leftmost position at which the pattern matches; (position, groups, rest) *)
Fixpoint search_from (pat : rpat) (s : string) (i : nat) : option (nat * list string * string) :=
  match bt pat s with
  | Some (gs, rest) => Some (i, gs, rest)
  | None => match s with String _ s' => search_from pat s' (S i) | EmptyString => None end
  end.
Definition re_search (pat : rpat) (s : string) := search_from pat s O.

(* ------------------------------------------------------------------ line parsers *)

(* how a from_matchline method uses its patterns; every step sees the whole line *)
Inductive pstep :=
| PSearch (p : rpat)            (* p.search(line) *)
| PMatch (p : rpat)             (* p.match(line): anchored at the start of the line *)
| PSearchThen (p q : rpat).     (* p.search(line), then q.match(line, end of that match) *)

Definition run_step (st : pstep) (s : string) : option (list string) :=
  match st with
  | PSearch p => match re_search p s with Some (_, gs, _) => Some gs | None => None end
  | PMatch p => match bt p s with Some (gs, _) => Some gs | None => None end
  | PSearchThen p q =>
      match re_search p s with
      | Some (_, gs, rest) => match bt q rest with Some (gs', _) => Some (gs ++ gs')%list | None => None end
      | None => None
      end
  end.

Fixpoint run_steps (sts : list pstep) (s : string) : option (list string) :=
  match sts with
  | [] => Some []
  | st :: r => match run_step st s, run_steps r s with
               | Some a, Some b => Some (a ++ b)%list
               | _, _ => None
               end
  end.

(* the interpreters of the groups: fixed, or chosen by the first group (info / meta / scoreprop:
   the attribute; an attribute the version does not have raises ValueError) *)
Inductive pcodecs :=
| PFixed (cs : list codec)
| PByAttr (tab : list (string * list codec)).

Record lparser := mk_lparser { lp_name : string; lp_steps : list pstep; lp_codecs : pcodecs }.

Definition decode_groups (tab : keytab) (pc : pcodecs) (gs : list string) : option (list value) :=
  match pc with
  | PFixed cs => map2_opt (dec tab) cs gs
  | PByAttr t =>
      match gs with
      | a :: _ => match slookup a t with Some cs => map2_opt (dec tab) cs gs | None => None end
      | [] => None
      end
  end.

(* one from_matchline method: Some = it returns an object, None = it raises *)
Definition run_parser (tab : keytab) (p : lparser) (s : string) : option (list string * list value) :=
  match run_steps (lp_steps p) s with
  | Some gs => match decode_groups tab (lp_codecs p) gs with Some vs => Some (gs, vs) | None => None end
  | None => None
  end.

(* importmatch.parse_matchline: the first method of the list that raises nothing;
   (index in the list, group texts, field values) *)
Fixpoint dispatch_from (tab : keytab) (ps : list lparser) (s : string) (i : nat)
  : option (nat * list string * list value) :=
  match ps with
  | [] => None
  | p :: r => match run_parser tab p s with
              | Some (gs, vs) => Some (i, gs, vs)
              | None => dispatch_from tab r s (S i)
              end
  end.
Definition dispatch (tab : keytab) (ps : list lparser) (s : string) := dispatch_from tab ps s O.

(* ------------------------------------------------------------------ versions *)

Definition version : Type := Z * Z * Z.
Definition version_eqb (a b : version) : bool :=
  let '(x, y, z) := a in let '(x', y', z') := b in (x =? x') && (y =? y') && (z =? z').
(* tuple comparison version < (1, 0, 0) *)
Definition version_lt_1 (v : version) : bool := let '(x, _, _) := v in x <? 1.

(* interpret_version: "major.minor.patch" at the start of the text, else the pre-1.0 form
   "minor.patch" (major 0); anything after the numbers is ignored; vp / ovp are the two patterns
   (both start with '^': matched at the start) *)
Definition interpret_version (vp ovp : rpat) (s : string) : option version :=
  match bt vp s with
  | Some ([a; b; c], _) =>
      match parse_N a, parse_N b, parse_N c with
      | Some x, Some y, Some z => Some (x, y, z)
      | _, _, _ => None
      end
  | _ =>
      match bt ovp s with
      | Some ([b; c], _) =>
          match parse_N b, parse_N c with Some y, Some z => Some (0, y, z) | _, _ => None end
      | _ => None
      end
  end.

(* get_version(first line): the info parsers of 1.0.0 and of 0.5.0 are tried in this order; the
   first one that reads the line as info(<an attribute whose value is a version>, <a version>)
   decides; a line that is no info line, has another attribute or a malformed version is skipped;
   default 0.1.0.  [infos]: per parser its info pattern and its version-valued attributes *)
Definition default_version : version := (0, 1, 0).
Fixpoint get_version (vp ovp : rpat) (infos : list (rpat * list string)) (s : string) : version :=
  match infos with
  | [] => default_version
  | (pat, vattrs) :: r =>
      match re_search pat s with
      | Some (_, [a; v], _) =>
          if existsb (String.eqb a) vattrs then
            match interpret_version vp ovp v with
            | Some ver => ver
            | None => get_version vp ovp r s
            end
          else get_version vp ovp r s
      | _ => get_version vp ovp r s
      end
  end.

(* ------------------------------------------------------------------ files *)

(* np.unique(..., return_index=True) + sort of the indices: the first occurrence of every line,
   in the order of the file *)
Fixpoint dedup_first (seen : list string) (l : list string) : list string :=
  match l with
  | [] => []
  | x :: r => if existsb (String.eqb x) seen then dedup_first seen r
              else x :: dedup_first (x :: seen) r
  end.

(* the methods load_matchfile uses for a version: FROM_MATCHLINE_METHODS of matchlines_v1 from
   1.0.0 on, of matchlines_v0 below, every method called with that version (the table holds the
   format versions 0.1.0 - 0.5.0 and 1.0.0; for any other version nothing is claimed) *)
Fixpoint parsers_for (ptab : list (version * list lparser)) (v : version) : list lparser :=
  match ptab with
  | [] => []
  | (w, ps) :: r => if version_eqb v w then ps else parsers_for r v
  end.

(* load_matchfile on the lines of a file (at least one line): the version, and for every
   distinct non-empty line the parser that read it (None: the line is dropped) *)
Definition load_lines (tab : keytab) (vp ovp : rpat) (infos : list (rpat * list string))
           (ptab : list (version * list lparser)) (lines : list string)
  : version * list (option (nat * list string * list value)) :=
  let v := get_version vp ovp infos (hd EmptyString lines) in
  (v, map (dispatch tab (parsers_for ptab v)) (dedup_first [] (filter nonempty lines))).

(* ------------------------------------------------------------------ checkers (correspondence) *)

Definition olist_string_eqb (a b : list string) : bool := list_eqb String.eqb a b.

(* one line: the format version, the text, what the implementation's parse_matchline did with it (index of the method
   of the ordered list whose class the returned object has, or None), and the field values of the
   returned object.  The model must choose the same method, and decoding the groups must give the
   same field values. *)
Definition disp_check (tab : keytab) (ptab : list (version * list lparser))
           (c : version * string * option (nat * list value)) : bool :=
  let '(v, text, obs) := c in
  match dispatch tab (parsers_for ptab v) text, obs with
  | Some (i, _, vs), Some (j, ws) => Nat.eqb i j && list_eqb value_eqb vs ws
  | None, None => true
  | _, _ => false
  end.

(* a file: the lines as written, the version load_matchfile found, and the method index of every
   line object it returned (unreadable lines are dropped; the model must keep the same lines) *)
Fixpoint kept_kinds (res : list (option (nat * list string * list value))) : list nat :=
  match res with
  | [] => []
  | Some (i, _, _) :: r => i :: kept_kinds r
  | None :: r => kept_kinds r
  end.
Definition file_check (tab : keytab) (vp ovp : rpat) (infos : list (rpat * list string))
           (ptab : list (version * list lparser)) (c : list string * version * list nat) : bool :=
  let '(lines, v, kinds) := c in
  let '(mv, res) := load_lines tab vp ovp infos ptab lines in
  version_eqb mv v && list_eqb Nat.eqb (kept_kinds res) kinds.

Definition oversion_eqb (a b : option version) : bool :=
  match a, b with Some x, Some y => version_eqb x y | None, None => true | _, _ => false end.

(* get_version on one first line; interpret_version on one text *)
Definition get_version_check (vp ovp : rpat) (infos : list (rpat * list string)) (c : string * version) : bool :=
  version_eqb (get_version vp ovp infos (fst c)) (snd c).
Definition interpret_version_check (vp ovp : rpat) (c : string * option version) : bool :=
  oversion_eqb (interpret_version vp ovp (fst c)) (snd c).
