(* C03 -- MusicXML export: the timing semantics of the written element stream.

   Executable model (no proofs here) of partitura/io/exportmusicxml.py:
     linearize_measure_contents / linearize_segment_contents   -> lin_measure / lin_segment
     remove_voice_polyphony(_single), find_free_voice           -> rvp / rvp_single / find_free
     the three stable per-voice sorts                           -> sort_notes (one lexicographic stable sort)
     add_chord_tags                                             -> tag_chords
     forward_backup_if_needed                                   -> fb
     merge_with_voice                                           -> mwv
     merge_measure_contents (repaired: every voice gap-filled,
        position threaded through the divisions segments,
        measure padded to its end)                              -> lin_voices / lin_segs / lin_measure
   and the SPEC: an independent interpreter of MusicXML timing (interp on the division
   time axis, interp_q in quarters for whole files) and the tie merge (sounding).

   Times are partitura's integer division times (Z); quarters are Q. *)
From PV Require Import Lib.Base.
From Coq Require Import QArith.
#[local] Open Scope Z_scope.

(* ---------------------------------------------------------------- data *)

(* skey: sort key inside one onset, ascending.  For a grace note: its index in the grace
   run; for any other note: -(8*midi_pitch + rank of the step letter) (the code sorts by
   (midi_pitch, step) descending); 1 for rests.  *)
Record note := mkN { oid : Z; onset : Z; dur : Z; voice : Z; grace : bool; skey : Z }.

(* non-note element: onset, tag order (barline 0, attributes 1, direction 2, print 3,
   sound 4, harmony 5), and the divisions value when it is an <attributes> with <divisions> *)
Record other := mkO { o_onset : Z; o_tag : Z; o_div : option Z }.

Inductive elem :=
| ENote (id d : Z) (chord gr : bool) (v : Z)
| EForward (d : Z)
| EBackup (d : Z)
| EOther (tag : Z)
| EDivisions (q : Z)
| EBar.                      (* start of a new measure; only in whole-part streams *)

Definition ndur (n : note) : Z := if grace n then 0 else dur n.   (* do_note *)
Definition nend (n : note) : Z := onset n + dur n.

(* ---------------------------------------------------------------- voice polyphony removal *)

Fixpoint vadd (v : Z) (n : note) (m : list (Z * list note)) : list (Z * list note) :=
  match m with
  | [] => [(v, [n])]
  | (v', l) :: r => if v =? v' then (v', l ++ [n]) :: r else (v', l) :: vadd v n r
  end.

(* utils.partition keyed by (voice or 0); dict order = first occurrence *)
Definition partition_voices (ns : list note) : list (Z * list note) :=
  fold_left (fun m n => vadd (voice n) n m) ns [].

Definition span := (Z * Z * Z)%type.   (* start, end, voice *)

(* find_free_voice; the initial span (-inf, inf, vmax) of remove_voice_polyphony is
   represented by vmax: it overlaps everything and carries the smallest voice *)
Definition find_free (vmax : Z) (spans : list span) (s e : Z) : Z :=
  fold_left (fun acc sp => match sp with (vs, ve, v) =>
               if (e >? vs) && (s <? ve) then Z.max acc (v + 1) else acc end)
            spans (vmax + 1).

(* stable insertion sort by onset *)
Fixpoint ins_onset (x : note) (l : list note) : list note :=
  match l with
  | [] => [x]
  | y :: r => if onset x <=? onset y then x :: l else y :: ins_onset x r
  end.
Definition sort_onset (l : list note) : list note := fold_right ins_onset [] l.

Definition min_dur (o : Z) (l : list note) : option Z :=
  fold_left (fun acc n => if negb (grace n) && (onset n =? o)
                          then match acc with None => Some (dur n) | Some d => Some (Z.min d (dur n)) end
                          else acc) l None.

Definition next_onset (o : Z) (l : list note) : option Z :=
  fold_left (fun acc n => if onset n >? o
                          then match acc with None => Some (onset n) | Some d => Some (Z.min d (onset n)) end
                          else acc) l None.

Definition rstate := (list span * list (Z * list note))%type.   (* voice_spans, extraneous *)

Definition move_all (vmax : Z) (cands : list note) (st : rstate) : rstate :=
  fold_left (fun st n => match st with (spans, extr) =>
               let v := find_free vmax spans (onset n) (nend n) in
               (spans ++ [(onset n, nend n, v)], vadd v n extr) end) cands st.

(* pass 1: a non-grace note longer than the shortest non-grace note at its onset;
   pass 2: a note that exceeds the next onset of the voice (onsets taken before the pass) *)
Definition viol1 (notes : list note) (n : note) : bool :=
  negb (grace n) && match min_dur (onset n) notes with Some d => dur n >? d | None => false end.
Definition viol2 (notes : list note) (n : note) : bool :=
  match next_onset (onset n) notes with Some o2 => onset n + dur n >? o2 | None => false end.

(* remove_voice_polyphony_single: returns the notes kept in the voice and the new state.
   (notes.remove(n) of the code removes exactly the violating notes: notes are distinct objects) *)
Definition rvp_single (vmax : Z) (notes : list note) (st : rstate) : list note * rstate :=
  let st1 := move_all vmax (sort_onset (filter (viol1 notes) notes)) st in
  let kept1 := filter (fun n => negb (viol1 notes n)) notes in
  let st2 := move_all vmax (sort_onset (filter (viol2 kept1) kept1)) st1 in
  (filter (fun n => negb (viol2 kept1 n)) kept1, st2).

Fixpoint rvp_loop (vmax : Z) (byv : list (Z * list note)) (st : rstate)
  : list (Z * list note) * rstate :=
  match byv with
  | [] => ([], st)
  | (v, l) :: r =>
      let (kept, st1) := rvp_single vmax l st in
      let (r', st2) := rvp_loop vmax r st1 in
      ((v, kept) :: r', st2)
  end.

Definition rvp (byv : list (Z * list note)) : list (Z * list note) :=
  let vmax := fold_left (fun a p => Z.max a (fst p)) byv 0 in
  let (kept, st) := rvp_loop vmax byv ([], []) in
  kept ++ snd st.

(* sorted(notes_by_voice.keys()) *)
Fixpoint ins_voice (x : Z * list note) (l : list (Z * list note)) :=
  match l with
  | [] => [x]
  | y :: r => if fst x <=? fst y then x :: l else y :: ins_voice x r
  end.
Definition sort_voices (l : list (Z * list note)) := fold_right ins_voice [] l.

(* ---------------------------------------------------------------- per-voice order, chord tags *)

Definition nkey_le (a b : note) : bool :=
  if onset a <? onset b then true else if onset b <? onset a then false
  else match grace a, grace b with
       | true, false => true
       | false, true => false
       | _, _ => skey a <=? skey b
       end.
Fixpoint ins_note (x : note) (l : list note) : list note :=
  match l with
  | [] => [x]
  | y :: r => if nkey_le x y then x :: l else y :: ins_note x r
  end.
Definition sort_notes (l : list note) : list note := fold_right ins_note [] l.

(* add_chord_tags: prev = (onset, duration) of the preceding note unless that was a grace note *)
Fixpoint tag_chords (prev : option (Z * Z)) (l : list note) : list (note * bool) :=
  match l with
  | [] => []
  | n :: r =>
      let ch := match prev with
                | Some (po, pd) => (onset n =? po) && (ndur n =? pd)
                | None => false
                end in
      (n, ch) :: tag_chords (if grace n then None else Some (onset n, ndur n)) r
  end.

(* ---------------------------------------------------------------- merge_with_voice *)

Definition fb (t tprev : Z) : list elem :=
  if t >? tprev then [EForward (t - tprev)]
  else if t <? tprev then [EBackup (tprev - t)] else [].

Definition oelem (o : other) : elem :=
  match o_div o with Some q => EDivisions q | None => EOther (o_tag o) end.

Definition okey_le (a b : other) : bool :=
  if o_onset a <? o_onset b then true else if o_onset b <? o_onset a then false
  else o_tag a <=? o_tag b.
Fixpoint ins_other (x : other) (l : list other) : list other :=
  match l with
  | [] => [x]
  | y :: r => if okey_le x y then x :: l else y :: ins_other x r
  end.
Definition sort_others (l : list other) : list other := fold_right ins_other [] l.

(* others with onset <= t (a prefix: the list is sorted) and the rest *)
Fixpoint span_le (t : Z) (Os : list other) : list other * list other :=
  match Os with
  | [] => ([], [])
  | o :: r => if o_onset o <=? t then let (a, b) := span_le t r in (o :: a, b) else ([], Os)
  end.

(* both return the stream, the position after its last element, and the furthest
   position reached (max over the elements of onset + duration) *)
Fixpoint emit_others (Os : list other) (last_t mx : Z) : list elem * Z * Z :=
  match Os with
  | [] => ([], last_t, mx)
  | o :: r => match emit_others r (o_onset o) (Z.max mx (o_onset o)) with
              | (es, t', mx') => (fb (o_onset o) last_t ++ oelem o :: es, t', mx')
              end
  end.

Fixpoint mwv (v : Z) (N : list (note * bool)) (Os : list other) (last_t lno mx : Z)
  : list elem * Z * Z :=
  match N with
  | [] => emit_others Os last_t mx
  | (n, ch) :: r =>
      let (Os1, Os2) := span_le (onset n) Os in
      match emit_others Os1 last_t mx with
      | (es1, t1, mx1) =>
          let t1' := if ch then lno else t1 in
          match mwv v r Os2 (onset n + ndur n) (onset n) (Z.max mx1 (onset n + ndur n)) with
          | (es2, t2, mx2) =>
              (es1 ++ fb (onset n) t1' ++ ENote (oid n) (ndur n) ch (grace n) v :: es2, t2, mx2)
          end
      end
  end.

(* ---------------------------------------------------------------- measure *)

Fixpoint lin_voices (first : bool) (vs : list (Z * list note)) (Os : list other) (pos mx : Z)
  : list elem * Z * Z :=
  match vs with
  | [] => ([], pos, mx)
  | (v, l) :: r =>
      let N := tag_chords None (sort_notes l) in
      let Os' := if first then Os else [] in
      match mwv v N Os' pos pos mx with
      | (es, p, m) =>
          match lin_voices false r Os p m with
          | (es', p', m') => (es ++ es', p', m')
          end
      end
  end.

Definition voices_of (ns : list note) : list (Z * list note) :=
  match ns with
  | [] => [(0, [])]                       (* notes_by_voice[None] = [] *)
  | _ => sort_voices (rvp (partition_voices ns))
  end.

Definition lin_segment (ns : list note) (Os : list other) (pos mx : Z) : list elem * Z * Z :=
  lin_voices true (voices_of ns) (sort_others Os) pos mx.

Fixpoint lin_segs (segs : list (list note * list other)) (pos mx : Z) : list elem * Z * Z :=
  match segs with
  | [] => ([], pos, mx)
  | (ns, Os) :: r =>
      match lin_segment ns Os pos mx with
      | (es, p, m) => match lin_segs r p m with (es', p', m') => (es ++ es', p', m') end
      end
  end.

Definition lin_measure (segs : list (list note * list other)) (mstart mend : Z) : list elem :=
  match lin_segs segs mstart mstart with
  | (es, p, m) => if m <? mend then es ++ fb mend p else es
  end.

(* ---------------------------------------------------------------- SPEC: independent interpreter *)

Inductive placed := PNote (id start d : Z) | POther (tag start : Z).

Record ist := mkI { ipos : Z; ilast : Z; imax : Z }.

Definition istep (e : elem) (s : ist) : list placed * ist :=
  match e with
  | ENote id d ch g _ =>
      let st := if ch then ilast s else ipos s in
      if g then ([PNote id st 0], s)
      else let p' := if ch then ipos s else ipos s + d in
           ([PNote id st d], mkI p' st (Z.max (imax s) p'))
  | EForward d => ([], mkI (ipos s + d) (ilast s) (Z.max (imax s) (ipos s + d)))
  | EBackup d => ([], mkI (ipos s - d) (ilast s) (imax s))
  | EOther tag => ([POther tag (ipos s)], s)
  | EDivisions _ => ([POther 1 (ipos s)], s)
  | EBar => ([], mkI (imax s) (ilast s) (imax s))
  end.

Fixpoint interp (es : list elem) (s : ist) : list placed * ist :=
  match es with
  | [] => ([], s)
  | e :: r => let (a, s1) := istep e s in let (b, s2) := interp r s1 in (a ++ b, s2)
  end.

(* the same reader in quarters, for whole parts: durations are scaled by the divisions in force *)
Record qst := mkQ { qpos : Q; qlast : Q; qmax : Q; qdiv : Z }.

Definition qadv (p : Q) (d div : Z) : Q := Qred (p + (d # Z.to_pos div)).
Definition qmaxq (a b : Q) : Q := if Qle_bool a b then b else a.

Definition qstep (e : elem) (s : qst) : list (Z * Q * Q) * qst :=
  match e with
  | ENote id d ch g _ =>
      let st := if ch then qlast s else qpos s in
      if g then ([(id, st, 0%Q)], s)
      else let p' := if ch then qpos s else qadv (qpos s) d (qdiv s) in
           ([(id, st, Qred (d # Z.to_pos (qdiv s)))], mkQ p' st (qmaxq (qmax s) p') (qdiv s))
  | EForward d => let p' := qadv (qpos s) d (qdiv s) in ([], mkQ p' (qlast s) (qmaxq (qmax s) p') (qdiv s))
  | EBackup d => ([], mkQ (qadv (qpos s) (- d) (qdiv s)) (qlast s) (qmax s) (qdiv s))
  | EOther _ => ([], s)
  | EDivisions q => ([], mkQ (qpos s) (qlast s) (qmax s) q)
  | EBar => ([], mkQ (qmax s) (qlast s) (qmax s) (qdiv s))
  end.

Fixpoint interp_q (es : list elem) (s : qst) : list (Z * Q * Q) :=
  match es with
  | [] => []
  | e :: r => let (a, s1) := qstep e s in a ++ interp_q r s1
  end.

(* ---------------------------------------------------------------- ties: sounding notes *)

(* a written note for the tie merge: pitch, onset, duration, <tie stop>, <tie start> *)
Definition wnote := (Z * Q * Q * bool * bool)%type.

(* open ties keyed by pitch: pitch -> (onset, duration so far).  Notes are taken in time
   order; a stop without an open tie of that pitch starts a new sounding note. *)
Fixpoint open_take (p : Z) (op : list (Z * (Q * Q))) : option (Q * Q) * list (Z * (Q * Q)) :=
  match op with
  | [] => (None, [])
  | (p', x) :: r => if p =? p' then (Some x, r)
                    else let (f, r') := open_take p r in (f, (p', x) :: r')
  end.

Fixpoint sounding_go (ws : list wnote) (op : list (Z * (Q * Q))) : list (Z * Q * Q) :=
  match ws with
  | [] => map (fun x => (fst x, fst (snd x), snd (snd x))) op
  | (p, o, d, stop, start) :: r =>
      let (prev, op1) := if stop then open_take p op else (None, op) in
      let cur := match prev with Some (o0, d0) => (o0, Qred (d0 + d)) | None => (o, d) end in
      if start then sounding_go r (op1 ++ [(p, cur)])
      else (p, fst cur, snd cur) :: sounding_go r op1
  end.
Definition sounding (ws : list wnote) : list (Z * Q * Q) := sounding_go ws [].

(* a tie chain on the division axis, as the proofs see it: contiguous pieces (onset, dur) *)
Definition chain_sound (c : list (Z * Z)) : option (Z * Z) :=
  match c with
  | [] => None
  | (o, d) :: r => Some (o, fold_left (fun a x => a + snd x) r d)
  end.
(* split the piece that contains barline b (no change when b is not strictly inside a piece) *)
Fixpoint split_at (b : Z) (c : list (Z * Z)) : list (Z * Z) :=
  match c with
  | [] => []
  | (o, d) :: r => if (o <? b) && (b <? o + d) then (o, b - o) :: (b, o + d - b) :: r
                   else (o, d) :: split_at b r
  end.

(* ---------------------------------------------------------------- boolean checkers *)

Definition elem_eqb (a b : elem) : bool :=
  match a, b with
  | ENote i d c g v, ENote i' d' c' g' v' =>
      (i =? i') && (d =? d') && Bool.eqb c c' && Bool.eqb g g' && (v =? v')
  | EForward d, EForward d' => d =? d'
  | EBackup d, EBackup d' => d =? d'
  | EOther t, EOther t' => t =? t'
  | EDivisions q, EDivisions q' => q =? q'
  | EBar, EBar => true
  | _, _ => false
  end.

(* a voice needs no <backup> and no chord of unequal durations: simultaneous non-grace notes have
   equal duration, and a note does not exceed a later onset of the voice *)
Definition sequential_b (l : list note) : bool :=
  forallb (fun a => forallb (fun b =>
     (if negb (grace a) && negb (grace b) && (onset a =? onset b) then dur a =? dur b else true) &&
     (if onset a <? onset b then onset a + dur a <=? onset b else true)) l) l.

(* (a): the model's linearisation of a measure equals the written element stream, and every
   voice of every segment is sequential after the re-assignment *)
Definition check_measure (c : list (list note * list other) * Z * Z * list elem) : bool :=
  match c with (segs, ms, me, E) =>
    list_eqb elem_eqb (lin_measure segs ms me) E &&
    forallb (fun seg => forallb (fun vl => sequential_b (snd vl)) (voices_of (fst seg))) segs
  end.

(* (b): interp_q over the whole written part + tie merge = the score's sounding notes.
   tab: oid -> (midi pitch, tie stop, tie start); expected: (pitch, onset_q, dur_q). *)
Definition q3_eqb (a b : Z * Q * Q) : bool :=
  match a, b with (p, o, d), (p', o', d') => (p =? p') && Qeq_bool o o' && Qeq_bool d d' end.

Definition q3_le (a b : Z * Q * Q) : bool :=
  match a, b with (p, o, d), (p', o', d') =>
    if Qeq_bool o o' then (if p =? p' then Qle_bool d d' else p <? p') else Qle_bool o o' end.
Fixpoint ins_q3 (x : Z * Q * Q) (l : list (Z * Q * Q)) :=
  match l with [] => [x] | y :: r => if q3_le x y then x :: l else y :: ins_q3 x r end.
Definition sort_q3 l := fold_right ins_q3 [] l.

Definition wn_le (a b : wnote) : bool :=
  match a, b with (_, o, _, _, _), (_, o', _, _, _) => Qle_bool o o' end.
Fixpoint ins_wn (x : wnote) (l : list wnote) :=
  match l with [] => [x] | y :: r => if wn_le x y then x :: l else y :: ins_wn x r end.
Definition sort_wn l := fold_right ins_wn [] l.

Fixpoint join_tab (pl : list (Z * Q * Q)) (tab : list (Z * (Z * bool * bool))) : option (list wnote) :=
  match pl with
  | [] => Some []
  | (id, o, d) :: r =>
      match zlookup id tab, join_tab r tab with
      | Some (p, stop, start), Some w =>
          Some (if p <? 0 then w else (p, o, d, stop, start) :: w)   (* rests carry pitch -1 *)
      | _, _ => None
      end
  end.

Definition check_part (c : list elem * list (Z * (Z * bool * bool)) * list (Z * Q * Q)) : bool :=
  match c with (E, tab, expected) =>
    match join_tab (interp_q E (mkQ 0 0 0 1)) tab with
    | Some ws => list_eqb q3_eqb (sort_q3 (sounding (sort_wn ws))) (sort_q3 expected)
    | None => false
    end
  end.

(* ---------------------------------------------------------------- SPEC side of the theorems *)

(* where the score says each object is: a note at its onset with its written duration *)
Definition place_note (n : note) : placed := PNote (oid n) (onset n) (ndur n).
Definition place_other (o : other) : placed :=
  POther (match o_div o with Some _ => 1 | None => o_tag o end) (o_onset o).

(* well-formed input: no negative durations *)
Definition durs_ok (l : list note) : Prop := Forall (fun n => 0 <= dur n) l.
Definition seg_placed (seg : list note * list other) : list placed :=
  map place_note (fst seg) ++ map place_other (snd seg).

Definition segs_ok (segs : list (list note * list other)) : Prop :=
  Forall (fun seg => durs_ok (fst seg)) segs.

(* everything lies inside [.., B] *)
Definition others_le (B : Z) (Os : list other) : Prop := Forall (fun o => o_onset o <= B) Os.
Definition notes_le (B : Z) (l : list note) : Prop := Forall (fun n => onset n + ndur n <= B) l.

(* what the reader must output for one voice: the others up to each note, then the note *)
Fixpoint mwv_placed (N : list (note * bool)) (Os : list other) : list placed :=
  match N with
  | [] => map place_other Os
  | (n, _) :: r =>
      map place_other (fst (span_le (onset n) Os)) ++
      place_note n :: mwv_placed r (snd (span_le (onset n) Os))
  end.

(* ---------------------------------------------------------------- the DECIDING measure check *)

(* What the property says about one written measure, evaluated on the written stream itself (no
   reference to the exporter's algorithm): read by the independent interpreter from the measure
   start, the stream places every note of the score's measure at its onset with its duration (as
   a multiset; the non-note elements are given with the positions read back from the stream) and
   the reader's measure ends exactly at the measure's end.  Any exporter that writes a correct
   file passes, whatever its document order, voice numbering or use of backup/forward. *)
Definition placed_eqb (a b : placed) : bool :=
  match a, b with
  | PNote i s d, PNote i' s' d' => (i =? i') && (s =? s') && (d =? d')
  | POther t s, POther t' s' => (t =? t') && (s =? s')
  | _, _ => false
  end.

Definition count_p (x : placed) (l : list placed) : nat :=
  List.length (filter (placed_eqb x) l).

Definition mset_eqb (l l' : list placed) : bool :=
  forallb (fun x => Nat.eqb (count_p x l) (count_p x l')) (l ++ l').

Definition spec_measure_b (c : list (list note * list other) * Z * Z * list elem) : bool :=
  match c with (segs, ms, me, E) =>
    let (pl, s') := interp E (mkI ms ms ms) in
    mset_eqb pl (flat_map seg_placed segs) && (imax s' =? me)
  end.

(* spec and model tie in one pass (the harness separates them when this is false) *)
Definition check_measure_both (c : list (list note * list other) * Z * Z * list elem) : bool :=
  spec_measure_b c && check_measure c.
