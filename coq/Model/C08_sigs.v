(* C08 -- time / key signatures and measures: where the exporter says they are and where the
   importer puts them.  Executable definitions only; proofs are in Proofs/C08_sigs.v.

   exporter  partitura/io/exportmatch.py : matchfile_from_alignment -- a signature found in
             [m.start, m.end) is written with the number of measure m (beat and offset inside the
             measure are written too but not read back)
   importer  partitura/io/matchfile_base.py : MatchFile.time_signatures / key_signatures (stable
             sort by TimeInBeats, first row of every run of equal values),
             partitura/io/importmatch.py : part_from_matchfile (signatures and measures at
             int(round(divs * (bar_times[bar] - offset))), not below 0; 0 for an unknown bar;
             closing barline of the last measure from the signature in force there). *)
From PV Require Import Lib.Base Lib.Round Model.C08.
From Coq Require Import QArith Qround.
#[local] Open Scope Z_scope.

(* ------------------------------------------------------------------ *)
(* exporter                                                             *)

(* the measure number written for a signature at [t] (divisions) *)
Definition sig_meas (ms : list meas) (t : Z) : option Z :=
  match find_meas ms t None with Some m => Some (m_num m) | None => None end.

(* ------------------------------------------------------------------ *)
(* importer: rows of the file -> list of signatures                     *)

Section Rows.
  Context {V : Type} (veqb : V -> V -> bool).

  (* a row: TimeInBeats, Measure, Value *)
  Definition row := (Q * Z * V)%type.
  Definition r_time (r : row) : Q := fst (fst r).
  Definition r_bar (r : row) : Z := snd (fst r).
  Definition r_val (r : row) : V := snd r.

  (* _tsigs.sort(key=lambda x: x[0]) : stable *)
  Fixpoint ins_time (e : row) (l : list row) : list row :=
    match l with
    | [] => [e]
    | x :: r => if Qle_bool (r_time e) (r_time x) then e :: l else x :: ins_time e r
    end.
  Fixpoint sort_time (l : list row) : list row :=
    match l with [] => [] | x :: r => ins_time x (sort_time r) end.

  (* keep a row when its value differs from the value of the row kept last *)
  Fixpoint dedup_runs (prev : option V) (l : list row) : list row :=
    match l with
    | [] => []
    | x :: r =>
        match prev with
        | Some v => if veqb (r_val x) v then dedup_runs prev r else x :: dedup_runs (Some (r_val x)) r
        | None => x :: dedup_runs (Some (r_val x)) r
        end
    end.

  Definition sig_rows (l : list row) : list row := dedup_runs None (sort_time l).

  (* the value in force after a list of rows *)
  Fixpoint last_val (prev : option V) (l : list row) : option V :=
    match l with [] => prev | x :: r => last_val (Some (r_val x)) r end.
End Rows.

(* ------------------------------------------------------------------ *)
(* importer: position in divisions of bar [bar]                         *)

Definition place (divs : Z) (offset : Q) (l : list sn) (bar : Z) : Z :=
  match bar_time_snapped divs l bar with
  | Some b => Z.max 0 (round_half_even (inject_Z divs * (b - offset)))
  | None => 0
  end.

(* measures: one per bar number occurring on a note line, in ascending order (np.unique) *)
Fixpoint ins_z (e : Z) (l : list Z) : list Z :=
  match l with
  | [] => [e]
  | x :: r => if e <? x then e :: l else if e =? x then l else x :: ins_z e r
  end.
Fixpoint uniq_sorted (l : list Z) : list Z :=
  match l with [] => [] | x :: r => ins_z x (uniq_sorted r) end.

Definition bars_of (l : list sn) : list Z := uniq_sorted (map s_meas l).

(* first listed note of a bar *)
Fixpoint first_in_bar (l : list sn) (bar : Z) : option sn :=
  match l with
  | [] => None
  | s :: r => if s_meas s =? bar then Some s else first_in_bar r bar
  end.

(* length of the last measure: beats * 4 / beat_type of the signature in force at the first listed
   note of the last bar, in divisions *)
Definition closing_len (divs num den : Z) : Z :=
  round_half_even (inject_Z divs * inject_Z num * 4 / inject_Z den).

(* (start, end) of the measures given the barlines and the closing barline *)
Fixpoint spans (bl : list Z) (closing : Z) : list (Z * Z) :=
  match bl with
  | [] => []
  | [b] => [(b, closing)]
  | b :: ((b' :: _) as r) => (b, b') :: spans r closing
  end.

(* ------------------------------------------------------------------ *)
(* importer: sort_snotes -- np.lexsort over (Offset, Beat, Measure): by measure, then beat, then
   offset, stable                                                       *)

Definition note7 := (Z * Z * Q * Z * Q * Z * Q)%type.
Definition n_key (n : note7) : Z * Z * Q := let '(m, b, off, _, _, _, _) := n in (m, b, off).
Definition key_le (a b : Z * Z * Q) : bool :=
  let '(m1, b1, o1) := a in let '(m2, b2, o2) := b in
  (m1 <? m2) || ((m1 =? m2) && ((b1 <? b2) || ((b1 =? b2) && Qle_bool o1 o2))).
Fixpoint ins_note (e : note7) (l : list note7) : list note7 :=
  match l with
  | [] => [e]
  | x :: r => if key_le (n_key e) (n_key x) then e :: l else x :: ins_note e r
  end.
Fixpoint sort_notes (l : list note7) : list note7 :=
  match l with [] => [] | x :: r => ins_note x (sort_notes r) end.

(* min_time = snotes[0].OnsetInBeats *)
Definition first_onset (l : list note7) : Q :=
  match sort_notes l with (_, _, _, _, _, _, oib) :: _ => oib | [] => 0%Q end.

(* ------------------------------------------------------------------ *)
(* checker for the correspondence: one term per file                    *)

Definition zz_eqb (a b : Z * Z) : bool := (fst a =? fst b) && (snd a =? snd b).

Definition placed_eqb (a b : Z * (Z * Z)) : bool := (fst a =? fst b) && zz_eqb (snd a) (snd b).

(* time signature rows and key signature rows of the file (time in beats, measure, value), the note
   lines in the order of the FILE (as for chk_import, with the beat time of each), and what was loaded: divisions, time signatures, key signatures (position in divisions,
   value) in ascending position, measures (start, end) *)
Definition chk_layout
  (c : list (Q * Z * (Z * Z)) * list (Q * Z * (Z * Z)) * list note7 *
       Z * list (Z * (Z * Z)) * list (Z * (Z * Z)) * list (Z * Z)) : bool :=
  let '(tsr, ksr, filenotes, ldivs, lts, lks, lmeas) := c in
  let notes := sort_notes filenotes in
  let first := first_onset filenotes in
  let ts := sig_rows zz_eqb tsr in
  let ks := sig_rows zz_eqb ksr in
  let tsl := map (fun r => (r_time r, snd (r_val r))) ts in
  let tnum := map (fun r => (r_time r, fst (r_val r))) ts in
  let d0 := first_den tsl in
  let l := map (mk_sn tsl first) notes in
  let firstq := (first * (4 / inject_Z (den_at d0 tsl first)))%Q in
  let offset := if Qle_bool firstq 0 then firstq else 0%Q in
  let put := fun r : row => (place ldivs offset l (r_bar r), r_val r) in
  let bars := bars_of l in
  let bl := map (place ldivs offset l) bars in
  let closing :=
    match rev bars, rev notes with
    | lastbar :: _, _ =>
        (* beat time of the first listed note of the last bar *)
        match find (fun n => let '(m, _, _, _, _, _, _) := n in m =? lastbar) notes with
        | Some (_, _, _, _, _, _, oib) =>
            last bl 0 + closing_len ldivs (den_at (first_den tnum) tnum oib) (den_at d0 tsl oib)
        | None => 0
        end
    | [], _ => 0
    end in
  list_eqb placed_eqb (map put ts) lts &&
  list_eqb placed_eqb (map put ks) lks &&
  list_eqb zz_eqb (spans bl closing) lmeas.

(* exporter: measure table (number, start, denominator) and, for every signature of the part given to
   save_match, its time in divisions and the measure number written on its line *)
Definition chk_sig_export (c : list (Z * Z * Z) * list (Z * Z)) : bool :=
  let '(tab, sigs) := c in
  let ms := map (fun t => let '(n, s, dn) := t in mkM n s dn) tab in
  forallb (fun x : Z * Z => match sig_meas ms (fst x) with Some n => n =? snd x | None => false end) sigs.
