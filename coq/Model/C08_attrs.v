(* C08 -- the attribute list of a score note line ([v1,staff2,staccato,...]).
   Executable definitions only; proofs are in Proofs/C08_attrs.v.

   exporter  partitura/io/exportmatch.py : matchfile_from_alignment (score_attributes_list: voice,
             staff, articulations, ornaments, fermata, fingering, grace, diff_score_version; the
             voice_overlap mark added to the deletion line of a note sharing onset and pitch)
   importer  partitura/io/importmatch.py : part_from_matchfile (articulations, tie mark, staff,
             voice, grace), add_staffs (staff guessed from the pitch where none was read), the
             voice given to notes without one at the end of part_from_matchfile.
   Tokens are Coq strings: the tests of the importer (membership, prefix, regular expression
   v\d+ / \d+, int(...)) are modelled on the text, so that a prefix test where the code has a
   membership test (or the converse) is a different function. *)
From PV Require Import Lib.Base.
From Coq Require Import Ascii String DecimalString.
#[local] Open Scope string_scope.
#[local] Open Scope Z_scope.

(* ------------------------------------------------------------------ *)
(* text helpers                                                         *)

(* str(n) of a Python int *)
Definition dec (z : Z) : string := NilZero.string_of_int (Z.to_int z).
(* int(s): None = ValueError *)
Definition py_int (s : string) : option Z := option_map Z.of_int (NilZero.int_of_string s).

Definition has (x : string) (l : list string) : bool := existsb (String.eqb x) l.
(* s.startswith(p) *)
Fixpoint starts (p s : string) : bool :=
  match p with
  | EmptyString => true
  | String a p' => match s with
                   | String b s' => Ascii.eqb a b && starts p' s'
                   | EmptyString => false
                   end
  end.
(* s[n:] *)
Fixpoint drop (n : nat) (s : string) : string :=
  match n, s with
  | O, _ => s
  | S n', String _ r => drop n' r
  | S _, EmptyString => EmptyString
  end.

Definition is_digit (c : ascii) : bool :=
  let n := nat_of_ascii c in (Nat.leb 48 n) && (Nat.leb n 57).
(* re.compile(r"\d+").match(a) : a begins with a digit *)
Definition re_num (a : string) : bool :=
  match a with String c _ => is_digit c | EmptyString => false end.
(* re.compile(r"v\d+").match(a) *)
Definition re_vnum (a : string) : bool :=
  match a with String c r => Ascii.eqb c "v" && re_num r | EmptyString => false end.

(* ------------------------------------------------------------------ *)
(* exporter                                                             *)

Record sattr := mkA {
  a_voice : option Z;       (* snote.voice *)
  a_staff : option Z;       (* snote.staff *)
  a_arts : list string;     (* snote.articulations *)
  a_orns : list string;     (* snote.ornaments *)
  a_ferm : bool;            (* snote.fermata is not None *)
  a_fing : list Z;          (* fingerings in snote.technical *)
  a_grace : bool;           (* isinstance(snote, GraceNote) *)
  a_diff : bool;            (* id in diff_score_version_notes *)
  a_overlap : bool          (* deletion of a note sharing onset and pitch with another *)
}.

Definition optl {A} (f : A -> string) (o : option A) : list string :=
  match o with Some x => [f x] | None => [] end.
Definition flag (b : bool) (s : string) : list string := if b then [s] else [].

Definition vtok (v : Z) : string := "v" ++ dec v.            (* f"v{voice}" *)
Definition stok (s : Z) : string := "staff" ++ dec s.        (* f"staff{staff}" *)
Definition ftok (k : Z) : string := "fingering" ++ dec k.    (* f"fingering{tech_el.fingering}" *)

Definition exp_attrs (a : sattr) : list string :=
  optl vtok (a_voice a) ++ optl stok (a_staff a) ++
  a_arts a ++ a_orns a ++ flag (a_ferm a) "fermata" ++ map ftok (a_fing a) ++
  flag (a_grace a) "grace" ++ flag (a_diff a) "diff_score_version" ++
  flag (a_overlap a) "voice_overlap".

(* ------------------------------------------------------------------ *)
(* importer                                                             *)

Definition imp_stac (l : list string) : bool := has "staccato" l || has "stac" l.
Definition imp_acc (l : list string) : bool := has "accent" l.
Definition imp_tied (l : list string) : bool := has "leftOutTied" l.

(* staff_nr = next((a[5:] for a in l if a.startswith("staff")), None); int(staff_nr) or None *)
Definition imp_staff (l : list string) : option Z :=
  match find (starts "staff") l with
  | Some a => py_int (drop 5 a)
  | None => None
  end.

(* the voice: None = the loader raises (int() of something that is not a number) *)
Definition imp_voice (l : list string) : option (option Z) :=
  if has "s" l then Some (Some 1)
  else if existsb (starts "v") l then
    match find re_vnum l with
    | Some a => match py_int (drop 1 a) with Some z => Some (Some z) | None => None end
    | None => Some None
    end
  else
    match find re_num l with
    | Some a => match py_int a with Some z => Some (Some z) | None => None end
    | None => Some None
    end.

(* a grace note: the mark, or a duration with numerator 0 *)
Definition imp_grace (l : list string) (dur_num : Z) : bool := has "grace" l || (dur_num =? 0).

(* add_staffs(only_missing=True): [if only_missing and n.staff: continue] -- no staff read (or
   staff 0) -> 1 above the split pitch 55, else 2 *)
Definition fill_staff (pitch : Z) (s : option Z) : Z :=
  match s with
  | Some k => if k =? 0 then (if 55 <? pitch then 1 else 2) else k
  | None => if 55 <? pitch then 1 else 2
  end.

(* end of part_from_matchfile: notes without a voice get 1 when no note has one, else the
   largest voice + 1 *)
Fixpoint zmax_list (l : list Z) (acc : Z) : Z :=
  match l with [] => acc | x :: r => zmax_list r (Z.max x acc) end.
Definition somes (l : list (option Z)) : list Z :=
  flat_map (fun o => match o with Some x => [x] | None => [] end) l.
Definition fill_voice (all : list (option Z)) (v : option Z) : Z :=
  match v with
  | Some k => k
  | None => match somes all with
            | [] => 1
            | x :: r => zmax_list r x + 1
            end
  end.

(* one leg of the attributes of a note: what is loaded for what was written *)
Record lattr := mkLA { la_voice : option (option Z); la_staff : option Z; la_stac : bool;
                       la_acc : bool; la_grace : bool; la_tied : bool }.
Definition imp_attrs (l : list string) (dur_num : Z) : lattr :=
  mkLA (imp_voice l) (imp_staff l) (imp_stac l) (imp_acc l) (imp_grace l dur_num) (imp_tied l).

(* ------------------------------------------------------------------ *)
(* vocabulary                                                           *)

(* a token that is none of the marks the importer looks for: not the old-style voice mark "s",
   no staff*, no v<digits>, no leading digit, not grace / leftOutTied, not the abbreviation stac *)
Definition neutral (t : string) : bool :=
  negb (String.eqb "s" t) && negb (starts "staff" t) && negb (re_vnum t) && negb (re_num t) &&
  negb (String.eqb "grace" t) && negb (String.eqb "leftOutTied" t) && negb (String.eqb "stac" t).
(* ... and that is not read as a supported articulation either (ornaments, other marks) *)
Definition inert (t : string) : bool :=
  neutral t && negb (String.eqb "staccato" t) && negb (String.eqb "accent" t).

(* ------------------------------------------------------------------ *)
(* checkers for the correspondence                                      *)

Definition mk_sattr (c : option Z * option Z * list string * list string * bool * list Z * bool * bool) : sattr :=
  let '(v, s, arts, orns, ferm, fing, gr, ov) := c in mkA v s arts orns ferm fing gr false ov.

(* same tokens, whatever the order inside the block of articulations (a Python set / list) *)
Fixpoint remove1 (x : string) (l : list string) : option (list string) :=
  match l with
  | [] => None
  | y :: r => if String.eqb x y then Some r
              else match remove1 x r with Some r' => Some (y :: r') | None => None end
  end.
Fixpoint perm_eqb (a b : list string) : bool :=
  match a with
  | [] => match b with [] => true | _ => false end
  | x :: r => match remove1 x b with Some b' => perm_eqb r b' | None => false end
  end.

(* exporter: the attributes given to save_match and the attribute list read from the file (the order
   of the tokens is not an observable of the property) *)
Definition chk_attrs_export
  (c : (option Z * option Z * list string * list string * bool * list Z * bool * bool) * list string) : bool :=
  let '(a, file) := c in perm_eqb (exp_attrs (mk_sattr a)) file.

Definition bool_eqb (a b : bool) : bool := if a then b else negb b.

(* importer, one term per file: for every score note line the attribute list of the file, the
   numerator of the duration, the MIDI pitch, and what was loaded: voice, staff, staccato, accent,
   grace.  The voice / staff the importer chooses for a note written WITHOUT one is not named by
   the property: chk_attrs_import compares voice and staff where one was read; chk_attrs_fill
   (informational) compares the choice with fill_voice / fill_staff. *)
Definition note_row := (list string * Z * Z * (Z * Z * bool * bool * bool))%type.

Definition chk_attrs_import (c : list note_row) : bool :=
  forallb (fun n : note_row =>
    let '(file, dnum, pitch, (lv, ls, lstac, lacc, lgrace)) := n in
    let r := imp_attrs file dnum in
    match la_voice r with
    | Some (Some v) => v =? lv
    | Some None => true
    | None => false
    end &&
    match la_staff r with
    | Some k => if k =? 0 then true else k =? ls
    | None => true
    end &&
    bool_eqb (la_stac r) lstac && bool_eqb (la_acc r) lacc && bool_eqb (la_grace r) lgrace) c.

Definition chk_attrs_fill (c : list note_row) : bool :=
  let rd := map (fun n : note_row => let '(file, dnum, _, _) := n in imp_attrs file dnum) c in
  let allv := flat_map (fun r => match la_voice r with Some v => [v] | None => [] end) rd in
  forallb (fun n : note_row =>
    let '(file, dnum, pitch, (lv, ls, _, _, _)) := n in
    let r := imp_attrs file dnum in
    match la_voice r with
    | Some v => (fill_voice allv v =? lv)
    | None => false
    end &&
    (fill_staff pitch (la_staff r) =? ls)) c.
